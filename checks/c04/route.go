package main

// cmp: a ROUTE dimension — the way a template source reaches the engine that renders it.
//
// Every family in main.go hands the source to the rendering engine itself (RegisterString). A template
// can also be COMPILED on one engine and LOADED into a second one (Engine.CompileTemplate /
// Template.Compile / Template.SaveCompiled / CompiledLoader.SaveCompiled, then LoadFromCompiledData /
// RegisterCompiledTemplate / a CompiledLoader registered as loader): the documented way of shipping
// precompiled templates. A compiled template is the same template; the property speaks of "template
// source" and "the output" and knows no route, so whatever the families demand of the direct render they
// demand of the render on the second engine too — and the two renders must be byte-identical (the
// compiled-vs-source twin), which also covers the bytes the verbatim oracle leaves open.
//
// (Added after the seeded change C04-J was missed: CompileTemplate stored the source with everything from
// `{#` to the next `#}` removed textually — comment look-alikes inside a verbatim body vanished, a comment
// standing between a dash and whitespace no longer shielded that whitespace, and the text between a quoted
// '{#' and a quoted '#}' was lost. The direct render is untouched by it.)
//
// The families taken through the routes are the comment, verbatim and dash-adjacent ones (com, verb, their
// placements, seq, and lit — which holds the dashed tag kinds) with smaller bounds, and the new family
// str (delimiter look-alikes inside string literals of tags), which is also rendered directly.

import (
	"fmt"
	"os"
	"strings"

	"github.com/semihalev/twig"

	"verif/lib/vlib"
)

// cmpRoute.load compiles the templates `names` of the authoring engine and makes them available to the
// consuming engine; cleanup is called after the render.
type cmpRoute struct {
	id, name string
	load     func(author *twig.Engine, names []string, consumer *twig.Engine) (cleanup func(), err error)
}

var cmpRoutesAll = []cmpRoute{
	{"data", "Engine.CompileTemplate, SerializeCompiledTemplate, Engine.LoadFromCompiledData",
		func(author *twig.Engine, names []string, consumer *twig.Engine) (func(), error) {
			for _, n := range names {
				c, err := author.CompileTemplate(n)
				if err != nil {
					return nil, fmt.Errorf("CompileTemplate(%s): %v", n, err)
				}
				data, err := twig.SerializeCompiledTemplate(c)
				if err != nil {
					return nil, fmt.Errorf("SerializeCompiledTemplate(%s): %v", n, err)
				}
				if err := consumer.LoadFromCompiledData(data); err != nil {
					return nil, fmt.Errorf("LoadFromCompiledData(%s): %v", n, err)
				}
			}
			return nil, nil
		}},
	{"reg", "Engine.Load, Template.Compile, Engine.RegisterCompiledTemplate (nothing serialised)",
		func(author *twig.Engine, names []string, consumer *twig.Engine) (func(), error) {
			for _, n := range names {
				tp, err := author.Load(n)
				if err != nil {
					return nil, fmt.Errorf("Load(%s): %v", n, err)
				}
				c, err := tp.Compile()
				if err != nil {
					return nil, fmt.Errorf("Template.Compile(%s): %v", n, err)
				}
				if err := consumer.RegisterCompiledTemplate(c); err != nil {
					return nil, fmt.Errorf("RegisterCompiledTemplate(%s): %v", n, err)
				}
			}
			return nil, nil
		}},
	{"ldr", "CompiledLoader.SaveCompiled into a directory, a second CompiledLoader on that directory registered as the consuming engine's loader",
		func(author *twig.Engine, names []string, consumer *twig.Engine) (func(), error) {
			dir, err := ldrDir()
			if err != nil {
				return nil, err
			}
			// the files of this render are removed after it; the directory is this worker's and is reused
			cleanup := func() {
				for _, n := range names {
					os.Remove(dir + "/" + n + ".twig.compiled")
				}
			}
			w := twig.NewCompiledLoader(dir)
			for _, n := range names {
				if err := w.SaveCompiled(author, n); err != nil {
					return cleanup, fmt.Errorf("SaveCompiled(%s): %v", n, err)
				}
			}
			consumer.RegisterLoader(twig.NewCompiledLoader(dir))
			return cleanup, nil
		}},
	// thorough only
	{"tsave", "Engine.Load, Template.SaveCompiled, DeserializeCompiledTemplate, Engine.RegisterCompiledTemplate",
		func(author *twig.Engine, names []string, consumer *twig.Engine) (func(), error) {
			for _, n := range names {
				tp, err := author.Load(n)
				if err != nil {
					return nil, fmt.Errorf("Load(%s): %v", n, err)
				}
				data, err := tp.SaveCompiled()
				if err != nil {
					return nil, fmt.Errorf("Template.SaveCompiled(%s): %v", n, err)
				}
				c, err := twig.DeserializeCompiledTemplate(data)
				if err != nil {
					return nil, fmt.Errorf("DeserializeCompiledTemplate(%s): %v", n, err)
				}
				if err := consumer.RegisterCompiledTemplate(c); err != nil {
					return nil, fmt.Errorf("RegisterCompiledTemplate(%s): %v", n, err)
				}
			}
			return nil, nil
		}},
}

// ldrDir: one directory per worker process, under the run's scratch directory (removed by the parent even when
// the worker is killed); without one (replay mode) under the system's temporary directory, removed by
// ldrDirDone at the end of the case.
var ldrDirPath string

func ldrDir() (string, error) {
	if ldrDirPath == "" {
		d, err := os.MkdirTemp(vlib.Scratch(), "c04-cmp-")
		if err != nil {
			return "", fmt.Errorf("MkdirTemp: %v", err)
		}
		ldrDirPath = d
	}
	return ldrDirPath, nil
}

func ldrDirDone() {
	if ldrDirPath != "" && vlib.Scratch() == "" {
		os.RemoveAll(ldrDirPath)
		ldrDirPath = ""
	}
}

func cmpRoutes(thorough bool) []cmpRoute {
	if thorough {
		return cmpRoutesAll
	}
	return cmpRoutesAll[:3]
}

// state of the route dimension: when curRoute is set, renderWith renders through it (and directly, for the twin)
var (
	curRoute     *cmpRoute
	routeDiff    string // first difference between a routed render and the direct render of the same source
	routeRenders int64
)

// renderRoute: extras and src (as "t") are registered on an authoring engine exactly as renderDirect does;
// then all of them are compiled and loaded into a second engine, and "t" is rendered there. (The two fixed
// one-word templates of newEngine, "inc" and "i", are registered on the second engine from source: every
// compilation costs as much as a render.)
func renderRoute(rt *cmpRoute, extras [][2]string, src string, ctx map[string]interface{}) (res string) {
	var cleanup func()
	defer func() {
		if cleanup != nil {
			cleanup()
		}
		if r := recover(); r != nil {
			res = fmt.Sprintf("PANIC %v", r)
		}
	}()
	author := newEngine()
	var names []string
	for _, x := range extras {
		if err := author.RegisterString(x[0], x[1]); err != nil {
			return "PARSEERR(" + x[0] + ") " + err.Error()
		}
		names = append(names, x[0])
	}
	if err := author.RegisterString("t", src); err != nil {
		return "PARSEERR " + err.Error()
	}
	names = append(names, "t")
	consumer := newEngine()
	var err error
	if cleanup, err = rt.load(author, names, consumer); err != nil {
		return "LOADERR " + err.Error()
	}
	out, err := consumer.Render("t", ctx)
	if err != nil {
		return "ERR " + err.Error()
	}
	return "OK:" + out
}

func shortCtx(ctx map[string]interface{}) string {
	s := fmt.Sprintf("%v", ctx) // fmt prints maps in key order
	if len(s) > 160 {
		s = s[:160] + "…"
	}
	return s
}

// renderRouted: the routed render; the direct render of the same source is made next to it and the first
// difference is remembered (only a direct render that succeeds is a reference: error texts are nobody's
// business, and what must happen with a source that does not render directly is left open).
func renderRouted(extras [][2]string, src string, ctx map[string]interface{}) string {
	rt := curRoute
	res := renderRoute(rt, extras, src, ctx)
	direct := renderDirect(extras, src, ctx)
	routeRenders++
	if res != direct && strings.HasPrefix(direct, "OK:") && routeDiff == "" {
		var sb strings.Builder
		for _, x := range extras {
			fmt.Fprintf(&sb, "template %q = %.200q; ", x[0], x[1])
		}
		shown := src
		if strings.HasPrefix(shown, bigComment) {
			shown = "‹the 4104-byte comment›" + shown[len(bigComment):]
		}
		routeDiff = fmt.Sprintf("a template compiled on one engine and loaded into a second one (%s) renders differently from the same source rendered directly\n %srendered template %.300q, context %s\n compiled and loaded: %.300q\n direct:              %.300q",
			rt.name, sb.String(), shown, shortCtx(ctx), res, direct)
	}
	return res
}

// cmpCase runs a case of another family once per route: the family's own oracle judges the routed renders,
// and every routed render must equal the direct render of the same source.
func cmpCase(t *vlib.T, inner func() *vlib.Outcome) *vlib.Outcome {
	total := &vlib.Outcome{Counters: map[string]int64{}}
	defer func() { curRoute = nil; ldrDirDone() }()
	for _, rt := range cmpRoutes(t.Thorough()) {
		rt := rt
		curRoute, routeDiff, routeRenders = &rt, "", 0
		o := inner()
		curRoute = nil
		for k, v := range o.Counters {
			total.Counters[k] += v
		}
		total.Counters["route_renders"] += routeRenders
		total.Nontrivial = o.Nontrivial
		total.Class = "cmp/" + o.Class
		if o.Violation != "" {
			total.Violation = "compiled on one engine and loaded into a second one (" + rt.name + "): " + o.Violation
			if routeDiff != "" {
				total.Violation += "\n " + routeDiff
			}
			total.Detail = map[string]interface{}{"route": rt.name, "case": o.Detail}
			return total
		}
		if routeDiff != "" {
			total.Violation = routeDiff
			total.Detail = map[string]interface{}{"route": rt.name}
			return total
		}
		t.Progress()
	}
	return total
}

// ---- str: delimiter look-alikes inside string literals of tags ------------------------------------------
//
// A string literal inside a tag may hold `{#`, `#}`, `{{`, `}}`, `{%`, `%}`. Whether the engine accepts such
// a tag at all is left open (twig rejects a print tag whose string holds `}}` and a block tag whose string
// holds `%}`: its tokenizer ends the tag at the first closer of its own kind) — but a render that SUCCEEDS
// has taken the literal for a string, so the text around the tags lies outside every delimiter and must come
// out exactly, and the value of the tag is the string itself.

var strFrags = []string{"{#", "#}", "{{", "}}", "{%", "%}", "a", " ", "-"}

type strForm struct {
	name string
	tag  func(lit string) string // lit = the quoted literal
	out  func(s string) string
}

var strForms = []strForm{
	{"print", func(l string) string { return "{{ " + l + " }}" }, func(s string) string { return s }},
	{"set", func(l string) string { return "{% set q = " + l + " %}{{ q }}" }, func(s string) string { return s }},
	{"if", func(l string) string { return "{% if " + l + " %}y{% endif %}" }, func(s string) string { return "y" }},
	{"concat", func(l string) string { return "{{ v ~ " + l + " }}" }, func(s string) string { return "V" + s }},
}

// strTemplates: one tag holding the whole string; with two or more fragments also one tag per fragment,
// with numbered text between them (`1 {{ '{#' }} 2 {{ '#}' }} 3`).
func strTemplates(q string, f *strForm, frs []string) []tmpl {
	s := strings.Join(frs, "")
	r := []tmpl{{"one-tag", "1 " + f.tag(q+s+q) + " 2", "1 " + f.out(s) + " 2"}}
	if len(frs) >= 2 {
		src, want := "1 ", "1 "
		for i, fr := range frs {
			src += f.tag(q+fr+q) + fmt.Sprintf(" %d ", i+2)
			want += f.out(fr) + fmt.Sprintf(" %d ", i+2)
		}
		r = append(r, tmpl{"tag-per-fragment", src, want})
	}
	return r
}

func strInner(q string, f *strForm, frs []string) *vlib.Outcome {
	o := &vlib.Outcome{Counters: map[string]int64{}}
	s := strings.Join(frs, "")
	accepted := 0
	for _, tm := range strTemplates(q, f, frs) {
		probeCalls = 0
		got := render(tm.src, ctx0)
		big := render(bigComment+tm.src, ctx0)
		o.Counters["renders"] += 2
		for k, g := range []string{got, big} {
			if strings.HasPrefix(g, "PANIC") {
				o.Violation = fmt.Sprintf("string literal %s%s%s in a tag: template %q panics (behind the 4100-byte comment: %v): %.300s", q, s, q, tm.src, k == 1, g)
				return o
			}
			if !strings.HasPrefix(g, "OK:") {
				continue // rejected: left open
			}
			accepted++
			if g != "OK:"+tm.want {
				o.Violation = fmt.Sprintf("string literal(s) %s%s%s inside tag(s) (%s): template %q renders without error (behind the 4100-byte comment: %v) but the text around the tags / the value of the string is not emitted exactly\n got  %.300q\n want %.300q (or an error)", q, s, q, tm.slot, tm.src, k == 1, g, "OK:"+tm.want)
				o.Detail = map[string]string{"template": tm.src, "want": "OK:" + tm.want, "got": got, "got_behind_comment": big}
				return o
			}
		}
	}
	o.Nontrivial = accepted > 0 && strings.ContainsAny(s, "{}")
	o.Class = "str/" + f.name + "/accepted"
	if accepted == 0 {
		o.Class = "str/" + f.name + "/rejected"
	}
	return o
}

func strFamily(t *vlib.T) {
	max := 2
	if t.Thorough() {
		max = 3
	}
	for l := 1; l <= max; l++ {
		for _, q := range []string{"'", "\""} {
			qn := "sq"
			if q == "\"" {
				qn = "dq"
			}
			for fi := range strForms {
				f := &strForms[fi]
				q := q
				words(len(strFrags), l, func(idx []int) bool {
					frs := make([]string, len(idx))
					for i, x := range idx {
						frs[i] = strFrags[x]
					}
					t.Case("str/"+qn+"/"+f.name+"/"+keyOf(idx), func() *vlib.Outcome {
						o := strInner(q, f, frs)
						if o.Violation != "" {
							return o
						}
						// the same templates through every compile-and-load route
						c := cmpCase(t, func() *vlib.Outcome { return strInner(q, f, frs) })
						for k, v := range c.Counters {
							o.Counters[k] += v
						}
						if c.Violation != "" {
							o.Violation, o.Detail = c.Violation, c.Detail
						}
						return o
					})
					return !t.Stopped()
				})
			}
		}
	}
}

// ---- the route dimension over the other families -----------------------------------------------------------

type cmpBounds struct{ lit, com, comPlace, verb, verbPlace, seq int }

func cmpBoundsFor(thorough bool) cmpBounds {
	if thorough {
		return cmpBounds{lit: 3, com: 3, comPlace: 2, verb: 4, verbPlace: 3, seq: 2}
	}
	return cmpBounds{lit: 2, com: 2, comPlace: 1, verb: 3, verbPlace: 2, seq: 1}
}

// cmpLevel: the cases of length l (strings of l symbols / bodies of l items) through the routes. Keys are the
// keys of the direct cases with "cmp/" in front.
func cmpLevel(t *vlib.T, l int, comAlpha []string) {
	b := cmpBoundsFor(t.Thorough())
	if l <= b.lit {
		for ti := range tags {
			tg := &tags[ti]
			words(len(sigma), l, func(idx []int) bool {
				tx := cat(sigma, idx)
				t.Case("cmp/lit/"+tg.name+"/"+keyOf(idx), func() *vlib.Outcome {
					return cmpCase(t, func() *vlib.Outcome { return litCase(tg, tx) })
				})
				return !t.Stopped()
			})
		}
	}
	if l <= b.com {
		words(len(comAlpha), l, func(idx []int) bool {
			body := cat(comAlpha, idx)
			if strings.Contains(body, "#}") {
				return true
			}
			t.Case("cmp/com/"+keyOf(idx), func() *vlib.Outcome {
				return cmpCase(t, func() *vlib.Outcome { return comCase(body) })
			})
			return !t.Stopped()
		})
	}
	if l <= b.verb {
		words(len(verbItems), l, func(idx []int) bool {
			items := append([]int{}, idx...)
			t.Case("cmp/verb/"+keyOf(idx), func() *vlib.Outcome {
				return cmpCase(t, func() *vlib.Outcome { return verbCase(nil, items) })
			})
			return !t.Stopped()
		})
	}
	for pi := range places {
		p := &places[pi]
		if l <= b.verbPlace {
			words(len(verbItems), l, func(idx []int) bool {
				items := append([]int{}, idx...)
				t.Case("cmp/verbp/"+p.name+"/"+keyOf(idx), func() *vlib.Outcome {
					return cmpCase(t, func() *vlib.Outcome { return verbCase(p, items) })
				})
				return !t.Stopped()
			})
		}
		if l <= b.comPlace {
			words(len(comAlpha), l, func(idx []int) bool {
				body := cat(comAlpha, idx)
				if strings.Contains(body, "#}") {
					return true
				}
				t.Case("cmp/comp/"+p.name+"/"+keyOf(idx), func() *vlib.Outcome {
					return cmpCase(t, func() *vlib.Outcome { return comPlaceCase(p, body) })
				})
				return !t.Stopped()
			})
		}
	}
	if l <= b.seq {
		for _, dir := range []string{"R", "L"} {
			ds := seqDashR
			if dir == "L" {
				ds = seqDashL
			}
			dir := dir
			for di := range ds {
				d := &ds[di]
				for xi := range seqXs {
					x1 := &seqXs[xi]
					words(len(sigma), l, func(idx []int) bool {
						tx := cat(sigma, idx)
						t.Case("cmp/seq/"+dir+"/"+d.name+"/"+x1.name+"/"+keyOf(idx), func() *vlib.Outcome {
							return cmpCase(t, func() *vlib.Outcome { return seqCase(dir, d, x1, tx) })
						})
						return !t.Stopped()
					})
				}
			}
		}
	}
}
