// C04 — literal text is emitted exactly; comments and verbatim bodies are inert.
//
// Bounded-exhaustive enumeration over byte strings:
//
//	lit:  every string of at most 3 (thorough: 4; 5 around two tag kinds) symbols of a 17-symbol
//	      alphabet (ASCII, whitespace, lone braces, % # - \ quotes, a 2-byte rune, the invalid bytes
//	      0xFF 0x80, NUL) as literal text before / between / after / inside every tag kind;
//	      oracle: output == concatenation of the texts and the tag values, byte for byte
//	      (only the whitespace a dash asks to remove is removed);
//	com:  every comment body of at most 3 (thorough: 4) symbols of that alphabet plus tag fragments:
//	      contributes nothing, evaluates nothing (a registered probe() is never called);
//	verb: every verbatim body of at most 3 (thorough: 4) items (text, print tags, block tags, comments,
//	      set, include, probe call): same output under 4 contexts, no context data, nothing evaluated.
//
//	esc:  every literal text T of at most 3 (thorough: 4) symbols that does not end in a backslash, followed
//	      by a backslash-escaped opener (\{{ x }}, \{% if %}, \{# c #}) and a text U: what the escaped
//	      opener renders to is left open, but the output must start with exactly T and end with exactly U
//	      (T and U lie outside every delimiter under either reading of the backslash).
//
// Every source is rendered a second time behind a 4100-byte comment (second tokenizer).
package main

import (
	"fmt"
	"strings"

	"github.com/semihalev/twig"

	"verif/lib/vlib"
)

var sigma = []string{"a", " ", "\n", "\r", "\t", "{", "}", "%", "#", "-", "\\", "\"", "'", "é", "\xff", "\x00", "\x80"}

var bigComment = "{#" + strings.Repeat("c", 4100) + "#}"

const wsChars = " \t\r\n"

// ---- running twig ---------------------------------------------------------------------------

var probeCalls int

func newEngine() *twig.Engine {
	e := twig.New()
	e.RegisterString("inc", "I")
	e.RegisterString("i", "1NCLUD3D")
	e.AddFunction("probe", func(args ...interface{}) (interface{}, error) {
		probeCalls++
		return "PR0BED", nil
	})
	return e
}

func render(src string, ctx map[string]interface{}) (res string) {
	defer func() {
		if r := recover(); r != nil {
			res = fmt.Sprintf("PANIC %v", r)
		}
	}()
	e := newEngine()
	if err := e.RegisterString("t", src); err != nil {
		return "PARSEERR " + err.Error()
	}
	out, err := e.Render("t", ctx)
	if err != nil {
		return "ERR " + err.Error()
	}
	return "OK:" + out
}

var ctx0 = map[string]interface{}{"v": "V", "t": true, "xs": []interface{}{1}}

// ---- lit: literal text around tags --------------------------------------------------------------

type tagc struct {
	name        string
	src, out    string
	open, close string // container form: text between open and close is rendered exactly once
	dash        bool   // every delimiter of the tag carries a dash: adjacent whitespace is removed
}

var tags = []tagc{
	{name: "none"},
	{name: "print", src: "{{ v }}", out: "V"},
	{name: "printdash", src: "{{- v -}}", out: "V", dash: true},
	{name: "if", src: "{% if t %}y{% endif %}", out: "y", open: "{% if t %}", close: "{% endif %}"},
	{name: "for", src: "{% for i in xs %}{{ i }}{% endfor %}", out: "1", open: "{% for i in xs %}", close: "{% endfor %}"},
	{name: "set", src: "{% set q = 1 %}", out: ""},
	{name: "comment", src: "{# c #}", out: ""},
	{name: "block", src: "{% block b %}B{% endblock %}", out: "B", open: "{% block b %}", close: "{% endblock %}"},
	{name: "include", src: "{% include 'inc' %}", out: "I"},
	{name: "concat", src: "{{ 'l' ~ v }}", out: "lV"},
	// (the closing tag keeps a plain opener: {%- endif is C13's subject; the text inside is trimmed on its left only)
	{name: "ifdash", src: "{%- if t -%}y{% endif -%}", out: "y", open: "{%- if t -%}", close: "{% endif -%}", dash: true},
}

// literal: is s literal text for the property (contains no tag opener, and does not combine with a
// following opener into a different lexeme)?
func literal(s string, tagFollows bool) bool {
	if strings.Contains(s, "{{") || strings.Contains(s, "{%") || strings.Contains(s, "{#") {
		return false
	}
	if tagFollows && (strings.HasSuffix(s, "{") || strings.HasSuffix(s, "\\")) {
		return false
	}
	return true
}

type tmpl struct{ slot, src, want string }

func litTemplates(tg *tagc, tx string) []tmpl {
	var r []tmpl
	l, m, rr := tx, tx, tx // text left of a tag, between two tags, right of a tag
	if tg.dash {
		l = strings.TrimRight(tx, wsChars)
		m = strings.Trim(tx, wsChars)
		rr = strings.TrimLeft(tx, wsChars)
	}
	if tg.src == "" {
		if literal(tx, false) {
			r = append(r, tmpl{"alone", tx, tx})
		}
		return r
	}
	if literal(tx, true) {
		r = append(r, tmpl{"before", tx + tg.src, l + tg.out})
		r = append(r, tmpl{"between", tg.src + tx + tg.src, tg.out + m + tg.out})
		r = append(r, tmpl{"xbetweenx", "x" + tg.src + tx + tg.src + "x", "x" + tg.out + m + tg.out + "x"})
		if tg.open != "" {
			in := tx
			if tg.dash {
				in = rr
			}
			r = append(r, tmpl{"inside", tg.open + tx + tg.close, in})
		}
	}
	if literal(tx, false) {
		r = append(r, tmpl{"after", tg.src + tx, tg.out + rr})
	}
	return r
}

func textClass(tx string) string {
	f := ""
	if strings.ContainsAny(tx, "{}%#-") {
		f += "b"
	}
	if strings.ContainsAny(tx, "\\\"'") {
		f += "q"
	}
	if strings.ContainsAny(tx, wsChars) {
		f += "w"
	}
	if strings.Contains(tx, "\x00") {
		f += "z"
	}
	for i := 0; i < len(tx); i++ {
		if tx[i] >= 0x80 {
			f += "h"
			break
		}
	}
	if f == "" {
		f = "plain"
	}
	return f
}

func litCase(tg *tagc, tx string) *vlib.Outcome {
	o := &vlib.Outcome{Counters: map[string]int64{}}
	ts := litTemplates(tg, tx)
	o.Nontrivial = tx != "" && len(ts) > 0
	o.Class = "lit/" + tg.name + "/" + textClass(tx)
	if len(ts) == 0 {
		o.Class = "lit/not-literal-text"
	}
	for _, t := range ts {
		got := render(t.src, ctx0)
		big := render(bigComment+t.src, ctx0)
		o.Counters["renders"] += 2
		if want := "OK:" + t.want; got != want || big != want {
			o.Violation = fmt.Sprintf("literal text %q %s tag %s: template %q\n got  %.300q\n want %.300q\n behind a 4100-byte comment: %.300q", tx, t.slot, tg.name, t.src, got, want, big)
			o.Detail = map[string]string{"template": t.src, "want": want, "got": got, "got_behind_comment": big}
			return o
		}
	}
	return o
}

// ---- esc: literal text around a backslash-escaped opener --------------------------------------------
//
// The statement does not say what a backslash immediately before an opener means (twig: the opener is
// emitted as text, the backslash is dropped), so the bytes from the backslash to the closer are
// don't-care. The text T before the backslash and the text U after the closer are literal text under
// either reading (escape honoured: everything is text; not honoured: the backslash is text and a tag follows),
// so the output must begin with T and end with U.

type escForm struct {
	name, src string
	// mayFail: if the backslash were not an escape the tag would not parse; an error is then don't-care
	mayFail bool
}

var escForms = []escForm{
	{name: "var", src: "\\{{ x }}"},
	{name: "block", src: "\\{% if %}", mayFail: true},
	{name: "comment", src: "\\{# c #}"},
}

// fixed companions: the texts after the closer when T is enumerated, the texts before the backslash when U is
var escUs = []string{"", "z", " \n", "}\xff\\"}
var escTs = []string{"", "a", "\n ", "é{"}

// lead: a tag in front, so that the text before the escaped opener does not start at offset 0
var escLeads = []struct{ src, out string }{{"", ""}, {"{{ v }}", "V"}}

func escAdmissibleT(tx string) bool { return literal(tx, false) && !strings.HasSuffix(tx, "\\") }
func escAdmissibleU(tx string) bool { return literal(tx, false) }

func escCase(f *escForm, side string, tx string) *vlib.Outcome {
	o := &vlib.Outcome{Counters: map[string]int64{}}
	var ts, us []string
	if side == "T" {
		if escAdmissibleT(tx) {
			ts, us = []string{tx}, escUs
		}
	} else if escAdmissibleU(tx) {
		ts, us = escTs, []string{tx}
	}
	o.Nontrivial = tx != "" && len(ts) > 0
	o.Class = "esc/" + f.name + "/" + side + "/" + textClass(tx)
	if len(ts) == 0 {
		o.Class = "esc/not-admissible"
		return o
	}
	for _, T := range ts {
		for _, U := range us {
			for _, ld := range escLeads {
				src := ld.src + T + f.src + U
				pre, post := ld.out+T, U
				got := render(src, ctx0)
				big := render(bigComment+src, ctx0)
				o.Counters["renders"] += 2
				for k, g := range []string{got, big} {
					if !strings.HasPrefix(g, "OK:") {
						if f.mayFail {
							o.Class = "esc/" + f.name + "/does-not-render"
							continue
						}
						o.Violation = fmt.Sprintf("text %q, escaped opener %q, text %q: template %q does not render (behind the 4100-byte comment: %v): %.300q", T, f.src, U, src, k == 1, g)
						o.Detail = map[string]string{"template": src, "got": got, "got_behind_comment": big}
						return o
					}
					out := g[3:]
					if len(out) < len(pre)+len(post) || !strings.HasPrefix(out, pre) || !strings.HasSuffix(out, post) {
						o.Violation = fmt.Sprintf("text %q before / %q after the escaped opener %q: template %q (behind the 4100-byte comment: %v)\n got %.300q\n want %q … %q", T, U, f.src, src, k == 1, out, pre, post)
						o.Detail = map[string]string{"template": src, "want_prefix": pre, "want_suffix": post, "got": got, "got_behind_comment": big}
						return o
					}
				}
			}
		}
	}
	return o
}

// ---- com: comment bodies ------------------------------------------------------------------------

var comExtra = []string{"{{ probe() }}", "{% if %}", "{{", "%}"}

func comCase(body string) *vlib.Outcome {
	o := &vlib.Outcome{Counters: map[string]int64{}, Nontrivial: body != ""}
	cl := textClass(body)
	if strings.Contains(body, "{{") || strings.Contains(body, "{%") {
		cl += "+tag"
	}
	o.Class = "com/" + cl
	c := "{#" + body + "#}"
	for _, t := range []tmpl{
		{"alone", c, ""},
		{"text", "x" + c + "y", "xy"},
		{"tags", "{{ v }}" + c + "{{ v }}", "VV"},
		{"twice", c + "m" + c, "m"},
	} {
		probeCalls = 0
		got := render(t.src, ctx0)
		big := render(bigComment+t.src, ctx0)
		o.Counters["renders"] += 2
		if want := "OK:" + t.want; got != want || big != want || probeCalls != 0 {
			o.Violation = fmt.Sprintf("comment body %q (%s): template %q\n got  %.300q\n want %.300q\n behind a 4100-byte comment: %.300q\n probe() calls: %d", body, t.slot, t.src, got, want, big, probeCalls)
			o.Detail = map[string]string{"template": t.src, "want": want, "got": got, "got_behind_comment": big}
			return o
		}
	}
	return o
}

// ---- verb: verbatim bodies ------------------------------------------------------------------------

type vitem struct {
	src  string
	text bool // literal text item: must appear in the output, once, in order
	dash bool // carries a dash: the neighbouring text may lose whitespace, byte-exactness not demanded
}

var verbItems = []vitem{
	{src: "T<", text: true},
	{src: " u\n", text: true},
	{src: "{{ secret }}"},
	{src: "{{ probe() }}"},
	{src: "{% if t %}"},
	{src: "{% endif %}"},
	{src: "{# c #}"},
	{src: "{{ 'x' ~ secret }}"},
	{src: "{% set q = 'Q1' %}"},
	{src: "{% include 'i' %}"},
	{src: "{{- secret -}}", dash: true},
	{src: "{%- for z in secret -%}", dash: true},
}

var verbCtxs = []map[string]interface{}{
	{"t": true},
	{"t": true, "secret": "S3CR3T", "q": nil},
	{"t": false, "secret": "<zz&>"},
	{"t": true, "secret": []interface{}{"L1ST"}},
}

var leaks = []string{"S3CR3T", "<zz&>", "zz&", "L1ST", "PR0BED", "1NCLUD3D"}

func verbCase(items []int) *vlib.Outcome {
	o := &vlib.Outcome{Counters: map[string]int64{}, Nontrivial: len(items) > 0}
	var body strings.Builder
	hasDash, hasTag := false, false
	for _, i := range items {
		body.WriteString(verbItems[i].src)
		hasDash = hasDash || verbItems[i].dash
		hasTag = hasTag || !verbItems[i].text
	}
	o.Class = fmt.Sprintf("verb/tags=%v/dash=%v", hasTag, hasDash)
	for _, sh := range []struct{ pre, post, wpre, wpost string }{
		{"<", ">[{{ q }}]", "<", ">[]"},
		{"", "", "", ""},
	} {
		src := sh.pre + "{% verbatim %}" + body.String() + "{% endverbatim %}" + sh.post
		var first, firstBig string
		for ci, c := range verbCtxs {
			probeCalls = 0
			got := render(src, c)
			big := render(bigComment+src, c)
			o.Counters["renders"] += 2
			fail := func(msg string) *vlib.Outcome {
				o.Violation = fmt.Sprintf("verbatim body %q, context #%d: %s\n template %q\n got %.300q\n behind a 4100-byte comment: %.300q", body.String(), ci, msg, src, got, big)
				o.Detail = map[string]interface{}{"template": src, "context": ci, "got": got}
				return o
			}
			if !strings.HasPrefix(got, "OK:") {
				return fail("does not render")
			}
			if probeCalls != 0 {
				return fail("probe() was called")
			}
			if ci == 0 {
				first, firstBig = got, big
			} else if got != first {
				return fail(fmt.Sprintf("output depends on the context (context #0 gave %.200q)", first))
			}
			if big != firstBig || big != got {
				return fail("renders differently behind a 4100-byte comment")
			}
			for _, l := range leaks {
				if strings.Contains(got, l) {
					return fail("output contains context data / evaluated content " + l)
				}
			}
			out := got[3:]
			if !strings.HasPrefix(out, sh.wpre) || !strings.HasSuffix(out, sh.wpost) || len(out) < len(sh.wpre)+len(sh.wpost) {
				return fail(fmt.Sprintf("text around the verbatim block is not %q … %q (a set inside the body must not take effect)", sh.wpre, sh.wpost))
			}
			if !hasDash {
				// literal text items of the body: each exactly as often as written, in order
				rest := out[len(sh.wpre) : len(out)-len(sh.wpost)]
				for _, i := range items {
					if !verbItems[i].text {
						continue
					}
					k := strings.Index(rest, verbItems[i].src)
					if k < 0 {
						return fail(fmt.Sprintf("literal text %q of the body is missing or out of order", verbItems[i].src))
					}
					rest = rest[k+len(verbItems[i].src):]
				}
				region := out[len(sh.wpre) : len(out)-len(sh.wpost)]
				for vi, it := range verbItems {
					if !it.text {
						continue
					}
					n := 0
					for _, i := range items {
						if i == vi {
							n++
						}
					}
					if c := strings.Count(region, it.src); c != n {
						return fail(fmt.Sprintf("literal text %q stands %d times in the body but %d times in the output", it.src, n, c))
					}
				}
			}
		}
	}
	return o
}

// ---- enumeration ----------------------------------------------------------------------------

// words enumerates all sequences over n symbols of length exactly l, in lexicographic order.
func words(n, l int, f func(idx []int) bool) {
	idx := make([]int, l)
	for {
		if !f(idx) {
			return
		}
		k := l - 1
		for k >= 0 {
			idx[k]++
			if idx[k] < n {
				break
			}
			idx[k] = 0
			k--
		}
		if k < 0 {
			return
		}
	}
}

func keyOf(idx []int) string {
	b := make([]byte, len(idx))
	for i, x := range idx {
		b[i] = byte('a' + x)
	}
	return string(b)
}

func cat(alpha []string, idx []int) string {
	var sb strings.Builder
	for _, i := range idx {
		sb.WriteString(alpha[i])
	}
	return sb.String()
}

func run(t *vlib.T) {
	litMax, litMaxDeep, comMax, verbMax, escMax := 3, 4, 3, 3, 3
	if t.Thorough() {
		litMax, litMaxDeep, comMax, verbMax, escMax = 4, 5, 4, 4, 4
	}
	comAlpha := append(append([]string{}, sigma...), comExtra...)
	deep := map[string]bool{"print": true, "ifdash": true}
	// breadth first over the length, so that a deadline cuts the longest strings only
	for l := 0; l <= litMaxDeep; l++ {
		for ti := range tags {
			tg := &tags[ti]
			if l > litMax && !deep[tg.name] {
				continue
			}
			words(len(sigma), l, func(idx []int) bool {
				tx := cat(sigma, idx)
				t.Case("lit/"+tg.name+"/"+keyOf(idx), func() *vlib.Outcome { return litCase(tg, tx) })
				return !t.Stopped()
			})
		}
		if l <= escMax {
			for fi := range escForms {
				f := &escForms[fi]
				for _, side := range []string{"T", "U"} {
					side := side
					words(len(sigma), l, func(idx []int) bool {
						tx := cat(sigma, idx)
						t.Case("esc/"+f.name+"/"+side+"/"+keyOf(idx), func() *vlib.Outcome { return escCase(f, side, tx) })
						return !t.Stopped()
					})
				}
			}
		}
		if l <= comMax {
			words(len(comAlpha), l, func(idx []int) bool {
				body := cat(comAlpha, idx)
				if strings.Contains(body, "#}") {
					return true
				}
				t.Case("com/"+keyOf(idx), func() *vlib.Outcome { return comCase(body) })
				return !t.Stopped()
			})
		}
		if l <= verbMax {
			words(len(verbItems), l, func(idx []int) bool {
				items := append([]int{}, idx...)
				t.Case("verb/"+keyOf(idx), func() *vlib.Outcome { return verbCase(items) })
				return !t.Stopped()
			})
		}
		if t.Stopped() {
			return
		}
	}
}

func main() {
	vlib.Main(vlib.Spec{
		ID:    "C04",
		Level: "exploration",
		Rule: "lit: every string of <= 3 (thorough 4; 5 around {{ v }} and {%- if -%}) symbols of a 17-symbol byte alphabet as literal text alone, before, between, after and inside each of 10 tag kinds, byte-exact against the concatenation model, bare and behind a 4100-byte comment; " +
			"esc: every such text of <= 3 (thorough 4) symbols not ending in a backslash before, and every such text after, a backslash-escaped opener (\\{{ x }}, \\{% if %}, \\{# c #}): the output must start with the text before and end with the text after, what lies between is not checked; " +
			"com: every comment body of <= 3 (thorough 4) symbols of that alphabet plus {{ probe() }}, {% if %}, {{, %}; verb: every verbatim body of <= 3 (thorough 4) items under 4 contexts. " +
			"non-trivial = the text / body is non-empty and admissible as literal text in at least one slot",
		Assumptions: []string{
			"a lone { immediately before a tag opener is excluded (maximal munch), as is text that itself contains an opener; what a backslash immediately before an opener and the tag after it render to is left open (undocumented escape) — only the text before the backslash and after the closer is checked (prefix / suffix); a text ending in a backslash before the escaping backslash is excluded",
			"verbatim content is checked for context independence, absence of context data and evaluated content, and in-order presence of its literal text items; its tag-like parts need not be byte-exact",
			"bytes outside the 17-symbol alphabet and texts longer than the bound are not explored",
		},
		QuickDeadline:    120,
		ThoroughDeadline: 840,
		Run:              run,
		Extra: func(tier string, cov map[string]interface{}) {
			cov["alphabet"] = fmt.Sprintf("%q", sigma)
			cov["tag_kinds"] = len(tags)
		},
	})
}
