// C04 — literal text is emitted exactly; comments and verbatim bodies are inert.
//
// Bounded-exhaustive enumeration over byte strings:
//
//	lit:  every string of at most 3 (thorough: 4; 5 around two tag kinds) symbols of a 17-symbol
//	      alphabet (ASCII, whitespace, lone braces, % # - \ quotes, a 2-byte rune, the invalid bytes
//	      0xFF 0x80, NUL) as literal text before / between / after / inside every tag kind;
//	      oracle: output == concatenation of the texts and the tag values, byte for byte
//	      (only the whitespace a dash asks to remove is removed);
//	com:  every comment body of at most 3 (thorough: 4) symbols of that alphabet plus tag fragments:
//	      contributes nothing, evaluates nothing (a registered probe() is never called);
//	verb: every verbatim body of at most 3 (thorough: 4) items (text, print tags, block tags, comments,
//	      set, include, probe call): same output under 4 contexts, no context data, nothing evaluated.
//
//	esc:  every literal text T of at most 3 (thorough: 4) symbols that does not end in a backslash, followed
//	      by a backslash-escaped opener (\{{ x }}, \{% if %}, \{# c #}) and a text U: what the escaped
//	      opener renders to is left open, but the output must start with exactly T and end with exactly U
//	      (T and U lie outside every delimiter under either reading of the backslash).
//
//	place: every comment body and every verbatim body of those bounds again in each of 13 PLACEMENTS other
//	      than the top level: inside a macro body that is then called (directly, through _self, through
//	      import-as from another template, through from-import), inside a block (plain, overriding a
//	      parent's block, reached through parent(), inherited), inside an included template, inside a for
//	      body (two iterations), inside an if branch and an else branch, inside an apply block. Same oracle.
//
//	long: ONE run of 4096 / 32767 / 32768 / 32769 / 65535 / 65536 / 65537 / 100000 / 300000 bytes (thorough: 25
//	      lengths up to 1 MiB + 1) of a non-periodic record stream as literal text (all slots, all tag kinds),
//	      as a verbatim body, as a comment body and as a printed context value (alone / next to text / before /
//	      between / after / inside each undashed tag kind), rendered through Engine.Render, Template.Render,
//	      and Engine.RenderTo / Template.RenderTo into a bytes.Buffer, a strings.Builder and a plain io.Writer
//	      that has no WriteString method; every route must give the model's bytes exactly.
//
//	seq:  every string of at most 2 (thorough: 3) symbols as literal text AFTER a chain of one or two undashed tags /
//	      comments that directly follow a dash-closed tag ({{ v -}}{{ v }} text), and BEFORE such a chain that
//	      directly precedes a dash-opened tag (text{##}{{- v }}): no dash is adjacent to the text, so it must
//	      be emitted exactly.
//
//	hist: HISTORIES on one engine: a render that fails at render time after having written literal text (9 ways
//	      of failing, 4 sizes of text, string- and writer-returning entry points), then one or two successful
//	      renders (the same template under a good context, other templates of 2 – 70 000 bytes; again every
//	      entry point): each successful render must give exactly its model, with nothing left of the failed one.
//
//	str:  (route.go) every sequence of at most 2 (thorough: 3) fragments of {# #} {{ }} {% %} a space - as a quoted
//	      string inside four tag forms, in one tag and one tag per fragment with text between: a render that
//	      succeeds must emit the text and the strings exactly (an error is accepted).
//
//	cmp:  (route.go) a ROUTE dimension: the templates of com, verb, their placements, seq, lit (smaller bounds) and
//	      str are compiled on one engine and loaded into a second one (CompileTemplate + Serialize +
//	      LoadFromCompiledData; Template.Compile + RegisterCompiledTemplate; CompiledLoader.SaveCompiled + a
//	      CompiledLoader as loader); the render there must satisfy the same oracle AND equal the direct render.
//
// Every source of the other families (not hist) is rendered a second time behind a 4100-byte comment (second tokenizer).
package main

import (
	"bytes"
	"fmt"
	"strings"

	"github.com/semihalev/twig"

	"verif/lib/vlib"
)

var sigma = []string{"a", " ", "\n", "\r", "\t", "{", "}", "%", "#", "-", "\\", "\"", "'", "é", "\xff", "\x00", "\x80"}

var bigComment = "{#" + strings.Repeat("c", 4100) + "#}"

const wsChars = " \t\r\n"

// ---- running twig ---------------------------------------------------------------------------

var probeCalls int

func newEngine() *twig.Engine {
	e := twig.New()
	e.RegisterString("inc", "I")
	e.RegisterString("i", "1NCLUD3D")
	e.AddFunction("probe", func(args ...interface{}) (interface{}, error) {
		probeCalls++
		return "PR0BED", nil
	})
	return e
}

func render(src string, ctx map[string]interface{}) string { return renderWith(nil, src, ctx) }

// renderWith registers the extra templates (name, source) in order, then src as "t", and renders "t" —
// directly, or (inside a cmp case, see route.go) on a second engine that got all of them in compiled form.
func renderWith(extras [][2]string, src string, ctx map[string]interface{}) string {
	if curRoute != nil {
		return renderRouted(extras, src, ctx)
	}
	return renderDirect(extras, src, ctx)
}

func renderDirect(extras [][2]string, src string, ctx map[string]interface{}) (res string) {
	defer func() {
		if r := recover(); r != nil {
			res = fmt.Sprintf("PANIC %v", r)
		}
	}()
	e := newEngine()
	for _, x := range extras {
		if err := e.RegisterString(x[0], x[1]); err != nil {
			return "PARSEERR(" + x[0] + ") " + err.Error()
		}
	}
	if err := e.RegisterString("t", src); err != nil {
		return "PARSEERR " + err.Error()
	}
	out, err := e.Render("t", ctx)
	if err != nil {
		return "ERR " + err.Error()
	}
	return "OK:" + out
}

var ctx0 = map[string]interface{}{"v": "V", "t": true, "xs": []interface{}{1}}

// ---- lit: literal text around tags --------------------------------------------------------------

type tagc struct {
	name        string
	src, out    string
	open, close string // container form: text between open and close is rendered exactly once
	dash        bool   // every delimiter of the tag carries a dash: adjacent whitespace is removed
}

var tags = []tagc{
	{name: "none"},
	{name: "print", src: "{{ v }}", out: "V"},
	{name: "printdash", src: "{{- v -}}", out: "V", dash: true},
	{name: "if", src: "{% if t %}y{% endif %}", out: "y", open: "{% if t %}", close: "{% endif %}"},
	{name: "for", src: "{% for i in xs %}{{ i }}{% endfor %}", out: "1", open: "{% for i in xs %}", close: "{% endfor %}"},
	{name: "set", src: "{% set q = 1 %}", out: ""},
	{name: "comment", src: "{# c #}", out: ""},
	{name: "block", src: "{% block b %}B{% endblock %}", out: "B", open: "{% block b %}", close: "{% endblock %}"},
	{name: "include", src: "{% include 'inc' %}", out: "I"},
	{name: "concat", src: "{{ 'l' ~ v }}", out: "lV"},
	// (the closing tag keeps a plain opener: {%- endif is C13's subject; the text inside is trimmed on its left only)
	{name: "ifdash", src: "{%- if t -%}y{% endif -%}", out: "y", open: "{%- if t -%}", close: "{% endif -%}", dash: true},
}

// literal: is s literal text for the property (contains no tag opener, and does not combine with a
// following opener into a different lexeme)?
func literal(s string, tagFollows bool) bool {
	if strings.Contains(s, "{{") || strings.Contains(s, "{%") || strings.Contains(s, "{#") {
		return false
	}
	if tagFollows && (strings.HasSuffix(s, "{") || strings.HasSuffix(s, "\\")) {
		return false
	}
	return true
}

type tmpl struct{ slot, src, want string }

func litTemplates(tg *tagc, tx string) []tmpl {
	var r []tmpl
	l, m, rr := tx, tx, tx // text left of a tag, between two tags, right of a tag
	if tg.dash {
		l = strings.TrimRight(tx, wsChars)
		m = strings.Trim(tx, wsChars)
		rr = strings.TrimLeft(tx, wsChars)
	}
	if tg.src == "" {
		if literal(tx, false) {
			r = append(r, tmpl{"alone", tx, tx})
		}
		return r
	}
	if literal(tx, true) {
		r = append(r, tmpl{"before", tx + tg.src, l + tg.out})
		r = append(r, tmpl{"between", tg.src + tx + tg.src, tg.out + m + tg.out})
		r = append(r, tmpl{"xbetweenx", "x" + tg.src + tx + tg.src + "x", "x" + tg.out + m + tg.out + "x"})
		if tg.open != "" {
			in := tx
			if tg.dash {
				in = rr
			}
			r = append(r, tmpl{"inside", tg.open + tx + tg.close, in})
		}
	}
	if literal(tx, false) {
		r = append(r, tmpl{"after", tg.src + tx, tg.out + rr})
	}
	return r
}

func textClass(tx string) string {
	f := ""
	if strings.ContainsAny(tx, "{}%#-") {
		f += "b"
	}
	if strings.ContainsAny(tx, "\\\"'") {
		f += "q"
	}
	if strings.ContainsAny(tx, wsChars) {
		f += "w"
	}
	if strings.Contains(tx, "\x00") {
		f += "z"
	}
	for i := 0; i < len(tx); i++ {
		if tx[i] >= 0x80 {
			f += "h"
			break
		}
	}
	if f == "" {
		f = "plain"
	}
	return f
}

func litCase(tg *tagc, tx string) *vlib.Outcome {
	o := &vlib.Outcome{Counters: map[string]int64{}}
	ts := litTemplates(tg, tx)
	o.Nontrivial = tx != "" && len(ts) > 0
	o.Class = "lit/" + tg.name + "/" + textClass(tx)
	if len(ts) == 0 {
		o.Class = "lit/not-literal-text"
	}
	for _, t := range ts {
		got := render(t.src, ctx0)
		big := render(bigComment+t.src, ctx0)
		o.Counters["renders"] += 2
		if want := "OK:" + t.want; got != want || big != want {
			o.Violation = fmt.Sprintf("literal text %q %s tag %s: template %q\n got  %.300q\n want %.300q\n behind a 4100-byte comment: %.300q", tx, t.slot, tg.name, t.src, got, want, big)
			o.Detail = map[string]string{"template": t.src, "want": want, "got": got, "got_behind_comment": big}
			return o
		}
	}
	return o
}

// ---- esc: literal text around a backslash-escaped opener --------------------------------------------
//
// The statement does not say what a backslash immediately before an opener means (twig: the opener is
// emitted as text, the backslash is dropped), so the bytes from the backslash to the closer are
// don't-care. The text T before the backslash and the text U after the closer are literal text under
// either reading (escape honoured: everything is text; not honoured: the backslash is text and a tag follows),
// so the output must begin with T and end with U.

type escForm struct {
	name, src string
	// mayFail: if the backslash were not an escape the tag would not parse; an error is then don't-care
	mayFail bool
}

var escForms = []escForm{
	{name: "var", src: "\\{{ x }}"},
	{name: "block", src: "\\{% if %}", mayFail: true},
	{name: "comment", src: "\\{# c #}"},
}

// fixed companions: the texts after the closer when T is enumerated, the texts before the backslash when U is
var escUs = []string{"", "z", " \n", "}\xff\\"}
var escTs = []string{"", "a", "\n ", "é{"}

// lead: a tag in front, so that the text before the escaped opener does not start at offset 0
var escLeads = []struct{ src, out string }{{"", ""}, {"{{ v }}", "V"}}

func escAdmissibleT(tx string) bool { return literal(tx, false) && !strings.HasSuffix(tx, "\\") }
func escAdmissibleU(tx string) bool { return literal(tx, false) }

func escCase(f *escForm, side string, tx string) *vlib.Outcome {
	o := &vlib.Outcome{Counters: map[string]int64{}}
	var ts, us []string
	if side == "T" {
		if escAdmissibleT(tx) {
			ts, us = []string{tx}, escUs
		}
	} else if escAdmissibleU(tx) {
		ts, us = escTs, []string{tx}
	}
	o.Nontrivial = tx != "" && len(ts) > 0
	o.Class = "esc/" + f.name + "/" + side + "/" + textClass(tx)
	if len(ts) == 0 {
		o.Class = "esc/not-admissible"
		return o
	}
	for _, T := range ts {
		for _, U := range us {
			for _, ld := range escLeads {
				src := ld.src + T + f.src + U
				pre, post := ld.out+T, U
				got := render(src, ctx0)
				big := render(bigComment+src, ctx0)
				o.Counters["renders"] += 2
				for k, g := range []string{got, big} {
					if !strings.HasPrefix(g, "OK:") {
						if f.mayFail {
							o.Class = "esc/" + f.name + "/does-not-render"
							continue
						}
						o.Violation = fmt.Sprintf("text %q, escaped opener %q, text %q: template %q does not render (behind the 4100-byte comment: %v): %.300q", T, f.src, U, src, k == 1, g)
						o.Detail = map[string]string{"template": src, "got": got, "got_behind_comment": big}
						return o
					}
					out := g[3:]
					if len(out) < len(pre)+len(post) || !strings.HasPrefix(out, pre) || !strings.HasSuffix(out, post) {
						o.Violation = fmt.Sprintf("text %q before / %q after the escaped opener %q: template %q (behind the 4100-byte comment: %v)\n got %.300q\n want %q … %q", T, U, f.src, src, k == 1, out, pre, post)
						o.Detail = map[string]string{"template": src, "want_prefix": pre, "want_suffix": post, "got": got, "got_behind_comment": big}
						return o
					}
				}
			}
		}
	}
	return o
}

// ---- placements of a comment / verbatim block ---------------------------------------------------------
//
// A placement puts a piece of template source (INNER: a comment or a verbatim block with a little text
// around it) somewhere other than the top level of the rendered template. The "host" is the template
// whose source holds INNER: either the rendered template "t" itself, or another registered template that
// "t" imports / extends / includes. The expected output is opre + reps × (what INNER yields) + opost;
// under `apply upper` everything INNER yields is upper-cased.

type place struct {
	name        string
	hpre, hpost string      // host source = hpre + INNER + hpost
	hostName    string      // "" = the host is the rendered template; else it is registered under this name
	main        string      // source of the rendered template when the host is another template
	fixed       [][2]string // further templates the placement needs
	opre, opost string      // output expected before / after the repetitions of INNER
	reps        int         // how many times INNER is rendered (for body: 2)
	upper       bool
}

const macSig, macEnd, macArgs = "{% macro m(secret, t, v) %}", "{% endmacro %}", "(secret, t, v)"

var places = []place{
	{name: "macro", hpre: macSig, hpost: macEnd + "({{ m" + macArgs + " }})", opre: "(", opost: ")"},
	{name: "macro-self", hpre: macSig, hpost: macEnd + "({{ _self.m" + macArgs + " }})", opre: "(", opost: ")"},
	{name: "macro-import", hostName: "mac", hpre: macSig, hpost: macEnd,
		main: "{% import 'mac' as s %}({{ s.m" + macArgs + " }})", opre: "(", opost: ")"},
	{name: "macro-from", hostName: "mac", hpre: macSig, hpost: macEnd,
		main: "{% from 'mac' import m %}({{ m" + macArgs + " }})", opre: "(", opost: ")"},
	{name: "block", hpre: "({% block b %}", hpost: "{% endblock %})", opre: "(", opost: ")"},
	{name: "block-override", hpre: "{% extends 'par' %}{% block b %}", hpost: "{% endblock %}",
		fixed: [][2]string{{"par", "({% block b %}P{% endblock %})"}}, opre: "(", opost: ")"},
	{name: "block-parent", hostName: "par", hpre: "({% block b %}", hpost: "{% endblock %})",
		main: "{% extends 'par' %}{% block b %}[{{ parent() }}]{% endblock %}", opre: "([", opost: "])"},
	{name: "block-inherited", hostName: "par", hpre: "({% block b %}", hpost: "{% endblock %})",
		main: "{% extends 'par' %}", opre: "(", opost: ")"},
	{name: "include", hostName: "vi", main: "({% include 'vi' %})", opre: "(", opost: ")"},
	{name: "for", hpre: "({% for k in [1, 2] %}", hpost: "{% endfor %})", opre: "(", opost: ")", reps: 2},
	{name: "if", hpre: "({% if true %}", hpost: "{% endif %})", opre: "(", opost: ")"},
	{name: "else", hpre: "({% if false %}n{% else %}", hpost: "{% endif %})", opre: "(", opost: ")"},
	{name: "apply", hpre: "({% apply upper %}", hpost: "{% endapply %})", opre: "(", opost: ")", upper: true},
}

// shape: one way of rendering INNER, bare and with the 4100-byte comment in front of the host source.
type shape struct {
	label             string
	extras, extrasBig [][2]string
	src, srcBig       string
	opre, opost       string
	reps              int
	upper             bool
}

func topShape(inner string) shape {
	return shape{label: "top", src: inner, srcBig: bigComment + inner, reps: 1}
}

func (p *place) shape(inner string) shape {
	host := p.hpre + inner + p.hpost
	sh := shape{label: p.name, opre: p.opre, opost: p.opost, reps: p.reps, upper: p.upper}
	if sh.reps == 0 {
		sh.reps = 1
	}
	if p.hostName == "" {
		sh.extras, sh.extrasBig = p.fixed, p.fixed
		sh.src, sh.srcBig = host, bigComment+host
		return sh
	}
	sh.extras = append(append([][2]string{}, p.fixed...), [2]string{p.hostName, host})
	sh.extrasBig = append(append([][2]string{}, p.fixed...), [2]string{p.hostName, bigComment + host})
	sh.src, sh.srcBig = p.main, p.main
	return sh
}

func (sh *shape) tr(s string) string {
	if sh.upper {
		return strings.ToUpper(s)
	}
	return s
}

// want: the whole output when INNER yields exactly `inner` each time.
func (sh *shape) want(inner string) string {
	return sh.opre + strings.Repeat(sh.tr(inner), sh.reps) + sh.opost
}

// split: what INNER yielded, given the whole output (all repetitions must have yielded the same).
func (sh *shape) split(out string) (string, string) {
	if len(out) < len(sh.opre)+len(sh.opost) || !strings.HasPrefix(out, sh.opre) || !strings.HasSuffix(out, sh.opost) {
		return "", fmt.Sprintf("the output around the placed block is not %q … %q", sh.opre, sh.opost)
	}
	mid := out[len(sh.opre) : len(out)-len(sh.opost)]
	if len(mid)%sh.reps != 0 {
		return "", fmt.Sprintf("the %d repetitions of the block did not render alike", sh.reps)
	}
	n := len(mid) / sh.reps
	for k := 1; k < sh.reps; k++ {
		if mid[k*n:(k+1)*n] != mid[:n] {
			return "", fmt.Sprintf("the %d repetitions of the block did not render alike", sh.reps)
		}
	}
	return mid[:n], ""
}

func (sh *shape) describe() string {
	var sb strings.Builder
	for _, x := range sh.extras {
		fmt.Fprintf(&sb, "template %q = %q; ", x[0], x[1])
	}
	fmt.Fprintf(&sb, "rendered template %q", sh.src)
	return sb.String()
}

// ---- com: comment bodies ------------------------------------------------------------------------

var comExtra = []string{"{{ probe() }}", "{% if %}", "{{", "%}"}

func comClass(body string) string {
	cl := textClass(body)
	if strings.Contains(body, "{{") || strings.Contains(body, "{%") {
		cl += "+tag"
	}
	return cl
}

func comCase(body string) *vlib.Outcome {
	o := &vlib.Outcome{Counters: map[string]int64{}, Nontrivial: body != ""}
	o.Class = "com/" + comClass(body)
	c := "{#" + body + "#}"
	for _, t := range []tmpl{
		{"alone", c, ""},
		{"text", "x" + c + "y", "xy"},
		{"tags", "{{ v }}" + c + "{{ v }}", "VV"},
		{"twice", c + "m" + c, "m"},
	} {
		probeCalls = 0
		got := render(t.src, ctx0)
		big := render(bigComment+t.src, ctx0)
		o.Counters["renders"] += 2
		if want := "OK:" + t.want; got != want || big != want || probeCalls != 0 {
			o.Violation = fmt.Sprintf("comment body %q (%s): template %q\n got  %.300q\n want %.300q\n behind a 4100-byte comment: %.300q\n probe() calls: %d", body, t.slot, t.src, got, want, big, probeCalls)
			o.Detail = map[string]string{"template": t.src, "want": want, "got": got, "got_behind_comment": big}
			return o
		}
	}
	return o
}

// comPlaceCase: the comment inside a macro body / block / included template / for / if / apply.
func comPlaceCase(p *place, body string) *vlib.Outcome {
	o := &vlib.Outcome{Counters: map[string]int64{}, Nontrivial: body != ""}
	o.Class = "comp/" + p.name + "/" + comClass(body)
	c := "{#" + body + "#}"
	for _, t := range []tmpl{
		{"alone", c, ""},
		{"text", "x" + c + "y", "xy"},
		{"tags", "{{ v }}" + c + "{{ v }}", "VV"},
	} {
		sh := p.shape(t.src)
		probeCalls = 0
		got := renderWith(sh.extras, sh.src, ctx0)
		big := renderWith(sh.extrasBig, sh.srcBig, ctx0)
		o.Counters["renders"] += 2
		if want := "OK:" + sh.want(t.want); got != want || big != want || probeCalls != 0 {
			o.Violation = fmt.Sprintf("comment body %q (%s) placed in %s: %s\n got  %.300q\n want %.300q\n with a 4100-byte comment in front of the source that holds it: %.300q\n probe() calls: %d", body, t.slot, p.name, sh.describe(), got, want, big, probeCalls)
			o.Detail = map[string]interface{}{"placement": p.name, "templates": sh.extras, "template": sh.src, "want": want, "got": got, "got_behind_comment": big}
			return o
		}
	}
	return o
}

// ---- verb: verbatim bodies ------------------------------------------------------------------------

type vitem struct {
	src  string
	text bool // literal text item: must appear in the output, once, in order
	dash bool // carries a dash: the neighbouring text may lose whitespace, byte-exactness not demanded
}

var verbItems = []vitem{
	{src: "T<", text: true},
	{src: " u\n", text: true},
	{src: "{{ secret }}"},
	{src: "{{ probe() }}"},
	{src: "{% if t %}"},
	{src: "{% endif %}"},
	{src: "{# c #}"},
	{src: "{{ 'x' ~ secret }}"},
	{src: "{% set q = 'Q1' %}"},
	{src: "{% include 'i' %}"},
	{src: "{{- secret -}}", dash: true},
	{src: "{%- for z in secret -%}", dash: true},
}

var verbCtxs = []map[string]interface{}{
	{"t": true},
	{"t": true, "secret": "S3CR3T", "q": nil},
	{"t": false, "secret": "<zz&>"},
	{"t": true, "secret": []interface{}{"L1ST"}},
}

var leaks = []string{"S3CR3T", "<zz&>", "zz&", "L1ST", "PR0BED", "1NCLUD3D"}

var leaksUpper = []string{"<ZZ&>", "ZZ&"} // the others have no lower-case letters

// verbCase: the verbatim block at the top level of the rendered template (p == nil) or placed by p.
func verbCase(p *place, items []int) *vlib.Outcome {
	o := &vlib.Outcome{Counters: map[string]int64{}, Nontrivial: len(items) > 0}
	var body strings.Builder
	hasDash, hasTag := false, false
	for _, i := range items {
		body.WriteString(verbItems[i].src)
		hasDash = hasDash || verbItems[i].dash
		hasTag = hasTag || !verbItems[i].text
	}
	o.Class = fmt.Sprintf("verb/tags=%v/dash=%v", hasTag, hasDash)
	if p != nil {
		o.Class = fmt.Sprintf("verbp/%s/tags=%v/dash=%v", p.name, hasTag, hasDash)
	}
	vb := "{% verbatim %}" + body.String() + "{% endverbatim %}"
	type wrapped struct {
		sh          shape
		wpre, wpost string // what the text around the block must render to, each time
	}
	var shapes []wrapped
	if p == nil {
		shapes = []wrapped{
			{topShape("<" + vb + ">[{{ q }}]"), "<", ">[]"},
			{topShape(vb), "", ""},
		}
	} else {
		shapes = []wrapped{{p.shape("<" + vb + ">[{{ q }}]"), "<", ">[]"}}
	}
	for _, w := range shapes {
		sh := w.sh
		var first, firstBig string
		for ci, c := range verbCtxs {
			probeCalls = 0
			got := renderWith(sh.extras, sh.src, c)
			big := renderWith(sh.extrasBig, sh.srcBig, c)
			o.Counters["renders"] += 2
			fail := func(msg string) *vlib.Outcome {
				if p == nil {
					o.Violation = fmt.Sprintf("verbatim body %q, context #%d: %s\n template %q\n got %.300q\n behind a 4100-byte comment: %.300q", body.String(), ci, msg, sh.src, got, big)
					o.Detail = map[string]interface{}{"template": sh.src, "context": ci, "got": got}
				} else {
					o.Violation = fmt.Sprintf("verbatim body %q placed in %s, context #%d: %s\n %s\n got %.300q\n with a 4100-byte comment in front of the source that holds it: %.300q", body.String(), p.name, ci, msg, sh.describe(), got, big)
					o.Detail = map[string]interface{}{"placement": p.name, "templates": sh.extras, "template": sh.src, "context": ci, "got": got}
				}
				return o
			}
			if !strings.HasPrefix(got, "OK:") {
				return fail("does not render")
			}
			if probeCalls != 0 {
				return fail("probe() was called")
			}
			if ci == 0 {
				first, firstBig = got, big
			} else if got != first {
				return fail(fmt.Sprintf("output depends on the context (context #0 gave %.200q)", first))
			}
			if big != firstBig || big != got {
				return fail("renders differently behind a 4100-byte comment")
			}
			for _, l := range leaks {
				if strings.Contains(got, l) {
					return fail("output contains context data / evaluated content " + l)
				}
			}
			if sh.upper {
				for _, l := range leaksUpper {
					if strings.Contains(got, l) {
						return fail("output contains context data / evaluated content " + l)
					}
				}
			}
			out, msg := sh.split(got[3:])
			if msg != "" {
				return fail(msg)
			}
			if !strings.HasPrefix(out, w.wpre) || !strings.HasSuffix(out, w.wpost) || len(out) < len(w.wpre)+len(w.wpost) {
				return fail(fmt.Sprintf("text around the verbatim block is not %q … %q (a set inside the body must not take effect)", w.wpre, w.wpost))
			}
			if !hasDash {
				// literal text items of the body: each exactly as often as written, in order
				region := out[len(w.wpre) : len(out)-len(w.wpost)]
				rest := region
				for _, i := range items {
					if !verbItems[i].text {
						continue
					}
					k := strings.Index(rest, sh.tr(verbItems[i].src))
					if k < 0 {
						return fail(fmt.Sprintf("literal text %q of the body is missing or out of order", verbItems[i].src))
					}
					rest = rest[k+len(sh.tr(verbItems[i].src)):]
				}
				for vi, it := range verbItems {
					if !it.text {
						continue
					}
					n := 0
					for _, i := range items {
						if i == vi {
							n++
						}
					}
					if c := strings.Count(region, sh.tr(it.src)); c != n {
						return fail(fmt.Sprintf("literal text %q stands %d times in the body but %d times in the output", it.src, n, c))
					}
				}
			}
		}
	}
	return o
}

// ---- long: long runs through every output route -------------------------------------------------------
//
// One literal text run / verbatim body / comment body / printed context value of a length around the
// sizes at which an implementation may switch strategy (tokenizer threshold 4096, buffer and chunk sizes
// 32 KiB, 64 KiB, beyond). The run is a prefix of a NON-PERIODIC record stream (every record carries its
// number), so a dropped, duplicated or re-ordered stretch of any size changes the output. Each template
// is rendered through every string- and writer-returning entry point; all must give the model's bytes.

var longLensQuick = []int{4096, 32767, 32768, 32769, 65535, 65536, 65537, 100000, 300000}

// thorough adds the neighbours of 4096 / 8192 / 16384, of three and four 32 KiB chunks, and 1 MiB
var longLensThorough = []int{4095, 4096, 4097, 8191, 8192, 8193, 16383, 16384, 16385, 32767, 32768, 32769,
	65535, 65536, 65537, 98303, 98304, 98305, 100000, 131071, 131072, 131073, 300000, 1048576, 1048577}

type longPat struct {
	name string
	rec  func(i int) string
	memo string
}

// ascii: what a page looks like. bytes: every symbol of sigma — whitespace at both ends of a record, lone
// braces, }} and %} outside any tag, % # - \ quotes, é, 0xFF, NUL, 0x80 — never {{ {% {# nor #}.
// safe: nothing an output escaper could touch (for printed values: the engine auto-escapes HTML).
var longPats = []*longPat{
	{name: "ascii", rec: func(i int) string { return fmt.Sprintf("<p class=\"row\">literal text, row %07d of the run.</p>\n", i) }},
	{name: "bytes", rec: func(i int) string {
		return fmt.Sprintf(" \n\t{ %07d } %% # - \\ \" ' \xc3\xa9\xff\x00\x80 }} %%} a{\r", i)
	}},
	{name: "safe", rec: func(i int) string { return fmt.Sprintf("row %07d of a printed value (\xc3\xa9) [x=1; y=2]. ", i) }},
}

func longPatByName(name string) *longPat {
	for _, p := range longPats {
		if p.name == name {
			return p
		}
	}
	panic("no such pattern " + name)
}

const longMax = 1048577

// text: the first n bytes of the record stream; a final { or \ (which would combine with a following
// opener) is replaced by a dot.
func (p *longPat) text(n int) string {
	if p.memo == "" {
		var sb strings.Builder
		for i := 0; sb.Len() < longMax; i++ {
			sb.WriteString(p.rec(i))
		}
		p.memo = sb.String()
	}
	tx := p.memo[:n]
	if last := tx[n-1]; last == '{' || last == '\\' {
		tx = tx[:n-1] + "."
	}
	return tx
}

// plainWriter is an io.Writer and nothing else (no WriteString, no ReadFrom, no WriteByte).
type plainWriter struct{ b []byte }

func (p *plainWriter) Write(q []byte) (int, error) { p.b = append(p.b, q...); return len(q), nil }

// run renders the template registered under `name` (Engine routes) or the parsed template tp (Template routes).
type longRoute struct {
	id, name string
	run      func(e *twig.Engine, name string, tp *twig.Template, ctx map[string]interface{}) (string, error)
}

var longRoutes = []longRoute{
	{"ER", "Engine.Render", func(e *twig.Engine, name string, tp *twig.Template, ctx map[string]interface{}) (string, error) {
		return e.Render(name, ctx)
	}},
	{"TR", "Template.Render", func(e *twig.Engine, name string, tp *twig.Template, ctx map[string]interface{}) (string, error) {
		return tp.Render(ctx)
	}},
	{"ERTb", "Engine.RenderTo(bytes.Buffer)", func(e *twig.Engine, name string, tp *twig.Template, ctx map[string]interface{}) (string, error) {
		var w bytes.Buffer
		err := e.RenderTo(&w, name, ctx)
		return w.String(), err
	}},
	{"ERTs", "Engine.RenderTo(strings.Builder)", func(e *twig.Engine, name string, tp *twig.Template, ctx map[string]interface{}) (string, error) {
		var w strings.Builder
		err := e.RenderTo(&w, name, ctx)
		return w.String(), err
	}},
	{"ERTp", "Engine.RenderTo(plain io.Writer)", func(e *twig.Engine, name string, tp *twig.Template, ctx map[string]interface{}) (string, error) {
		var w plainWriter
		err := e.RenderTo(&w, name, ctx)
		return string(w.b), err
	}},
	{"TRTb", "Template.RenderTo(bytes.Buffer)", func(e *twig.Engine, name string, tp *twig.Template, ctx map[string]interface{}) (string, error) {
		var w bytes.Buffer
		err := tp.RenderTo(&w, ctx)
		return w.String(), err
	}},
	{"TRTs", "Template.RenderTo(strings.Builder)", func(e *twig.Engine, name string, tp *twig.Template, ctx map[string]interface{}) (string, error) {
		var w strings.Builder
		err := tp.RenderTo(&w, ctx)
		return w.String(), err
	}},
	{"TRTp", "Template.RenderTo(plain io.Writer)", func(e *twig.Engine, name string, tp *twig.Template, ctx map[string]interface{}) (string, error) {
		var w plainWriter
		err := tp.RenderTo(&w, ctx)
		return string(w.b), err
	}},
}

// longKind: what the long run is. piece(tx) = the source that carries it and what that source renders to.
type longKind struct {
	name  string
	pats  []string
	piece func(tx string) (src, out string) // nil: the run is literal text, placed by litTemplates
}

var longKinds = []longKind{
	{name: "lit", pats: []string{"ascii", "bytes"}},
	{name: "verb", pats: []string{"ascii", "bytes"}, piece: func(tx string) (string, string) {
		return "{% verbatim %}" + tx + "{% endverbatim %}", tx
	}},
	{name: "com", pats: []string{"ascii", "bytes"}, piece: func(tx string) (string, string) { return "{#" + tx + "#}", "" }},
	{name: "val", pats: []string{"safe"}, piece: func(tx string) (string, string) { return "{{ big }}", tx }},
	{name: "valcat", pats: []string{"safe"}, piece: func(tx string) (string, string) { return "{{ 'l' ~ big }}", "l" + tx }},
}

// pieceTemplates: a piece of source with a known output alone / next to text / before / between / after /
// inside a tag. Dashed tag kinds are not used here (whether a dash reaches into the output of a
// neighbouring TAG is not this property's subject).
func pieceTemplates(tg *tagc, src, out string) []tmpl {
	if tg.dash {
		return nil
	}
	if tg.src == "" {
		return []tmpl{{"alone", src, out}, {"text", "x" + src + "y", "x" + out + "y"}}
	}
	r := []tmpl{
		{"before", src + tg.src, out + tg.out},
		{"between", tg.src + src + tg.src, tg.out + out + tg.out},
		{"xbetweenx", "x" + tg.src + src + tg.src + "x", "x" + tg.out + out + tg.out + "x"},
		{"after", tg.src + src, tg.out + out},
	}
	if tg.open != "" {
		r = append(r, tmpl{"inside", tg.open + src + tg.close, out})
	}
	return r
}

func longBucket(n int) string {
	switch {
	case n <= 4096:
		return "<=4096"
	case n <= 32768:
		return "<=32768"
	case n <= 65536:
		return "<=65536"
	}
	return ">65536"
}

// firstDiff describes where two long strings part, without printing them.
func firstDiff(got, want string) string {
	i := 0
	for i < len(got) && i < len(want) && got[i] == want[i] {
		i++
	}
	from := i - 24
	if from < 0 {
		from = 0
	}
	cut := func(s string) string {
		if from >= len(s) {
			return ""
		}
		s = s[from:]
		if len(s) > 72 {
			s = s[:72]
		}
		return s
	}
	return fmt.Sprintf("output has %d bytes, want %d; they part at offset %d; from offset %d: got %q want %q", len(got), len(want), i, from, cut(got), cut(want))
}

func longCase(t *vlib.T, k *longKind, pat *longPat, n int, tg *tagc) *vlib.Outcome {
	o := &vlib.Outcome{Counters: map[string]int64{}}
	tx := pat.text(n)
	var ts []tmpl
	if k.piece == nil {
		ts = litTemplates(tg, tx)
	} else {
		src, out := k.piece(tx)
		ts = pieceTemplates(tg, src, out)
	}
	o.Nontrivial = len(ts) > 0
	o.Class = "long/" + k.name + "/" + pat.name + "/" + longBucket(n)
	if len(ts) == 0 {
		o.Class = "long/no-template"
		return o
	}
	ctx := map[string]interface{}{"v": "V", "t": true, "xs": []interface{}{1}, "big": tx}
	mark := fmt.Sprintf("‹%d bytes of pattern %s›", n, pat.name)
	for _, tm := range ts {
		t.Progress()
		fail := func(route, msg string) *vlib.Outcome {
			shown := strings.Replace(tm.src, tx, mark, -1)
			o.Violation = fmt.Sprintf("long run (%s, %d bytes of pattern %q) %s tag %s, through %s: template %q (context value big = the same run)\n %s",
				k.name, n, pat.name, tm.slot, tg.name, route, shown, msg)
			o.Detail = map[string]interface{}{"kind": k.name, "pattern": pat.name, "first_records": pat.rec(0) + pat.rec(1), "length": n,
				"slot": tm.slot, "tag": tg.name, "route": route, "template": shown, "what": msg}
			return o
		}
		var e *twig.Engine
		var tp *twig.Template
		if msg := func() (msg string) {
			defer func() {
				if r := recover(); r != nil {
					msg = fmt.Sprintf("PANIC %v", r)
				}
			}()
			e = newEngine()
			if err := e.RegisterString("t", tm.src); err != nil {
				return "RegisterString: " + err.Error()
			}
			var err error
			if tp, err = e.ParseTemplate(tm.src); err != nil {
				return "ParseTemplate: " + err.Error()
			}
			return ""
		}(); msg != "" {
			return fail("parsing", msg)
		}
		for ri := range longRoutes {
			rt := &longRoutes[ri]
			probeCalls = 0
			got, msg := func() (got, msg string) {
				defer func() {
					if r := recover(); r != nil {
						msg = fmt.Sprintf("PANIC %v", r)
					}
				}()
				g, err := rt.run(e, "t", tp, ctx)
				if err != nil {
					return "", "ERR " + err.Error()
				}
				return g, ""
			}()
			o.Counters["renders"]++
			o.Counters["long_renders"]++
			if msg != "" {
				return fail(rt.name, msg)
			}
			if got != tm.want {
				return fail(rt.name, firstDiff(got, tm.want))
			}
			if probeCalls != 0 {
				return fail(rt.name, "probe() was called")
			}
		}
	}
	return o
}

func longFamily(t *vlib.T) {
	lens := longLensQuick
	if t.Thorough() {
		lens = longLensThorough
	}
	for _, n := range lens {
		for ki := range longKinds {
			k := &longKinds[ki]
			for _, pn := range k.pats {
				pat := longPatByName(pn)
				for ti := range tags {
					tg := &tags[ti]
					if k.piece != nil && tg.dash {
						continue
					}
					n := n
					t.Case(fmt.Sprintf("long/%s/%s/%d/%s", k.name, pat.name, n, tg.name), func() *vlib.Outcome {
						return longCase(t, k, pat, n, tg)
					})
					if t.Stopped() {
						return
					}
				}
			}
		}
	}
}

// ---- seq: literal text that follows (precedes) a LATER (earlier) undashed tag next to a dashed tag ------
//
// A dash asks for the removal of the whitespace ADJACENT to its own delimiter. In
//
//	D X1 [X2] text        D  = a tag whose closing delimiter carries a dash,
//	text X1 [X2] D'       D' = a tag whose opening delimiter carries a dash,
//
// with one or two undashed tags / comments X between the dashed delimiter and the text and NO text between
// the tags, the text is adjacent to an undashed delimiter only: no dash asks for anything to be removed
// from it, so it must come out byte for byte (added after the seeded change C04-G was missed: the lit
// family only ever put text directly next to the dashed delimiter, or next to an undashed tag with no
// dashed tag in front of it).

type seqPart struct {
	name           string
	pre, src, post string // pre goes to the very front of the template, post to its very end
	out            string
}

// undashed things that stand between the dashed delimiter and the text (all block constructs are `if t`
// with t true, so that any combination of pre / src / post nests properly)
var seqXs = []seqPart{
	{name: "print", src: "{{ v }}", out: "V"},
	{name: "ecomment", src: "{##}"},
	{name: "comment", src: "{# c #}"},
	{name: "set", src: "{% set q = 1 %}"},
	{name: "ifopen", src: "{% if t %}", post: "{% endif %}"},
	{name: "ifclose", pre: "{% if t %}", src: "{% endif %}"},
	{name: "ifwhole", src: "{% if t %}y{% endif %}", out: "y"},
}

// R: tags closed with a dash; they stand in front of the chain, the text follows the chain
var seqDashR = []seqPart{
	{name: "print", src: "{{ v -}}", out: "V"},
	{name: "printboth", src: "{{- v -}}", out: "V"},
	{name: "set", src: "{% set q = 1 -%}"},
	{name: "ifopen", src: "{% if t -%}", post: "{% endif %}"},
	{name: "ifwhole", src: "{% if t %}y{% endif -%}", out: "y"},
}

// L: tags opened with a dash; the text stands in front of the chain, they follow it
var seqDashL = []seqPart{
	{name: "print", src: "{{- v }}", out: "V"},
	{name: "printboth", src: "{{- v -}}", out: "V"},
	{name: "set", src: "{%- set q = 1 %}"},
	{name: "ifwhole", src: "{%- if t %}y{% endif %}", out: "y"},
	{name: "endif", pre: "{% if t %}", src: "{%- endif %}"},
}

// seqTemplates: the templates of one (direction, dashed tag, chain, text).
func seqTemplates(dir string, d *seqPart, chain []*seqPart, tx string) []tmpl {
	var pres, mid, midOut, posts string
	for _, x := range chain {
		pres += x.pre
		mid += x.src
		midOut += x.out
		posts += x.post
	}
	var r []tmpl
	if dir == "R" {
		// pres D chain text posts — the text is followed by a tag iff something is appended
		posts = d.post + posts
		if literal(tx, posts != "") {
			r = append(r, tmpl{"after-chain", pres + d.pre + d.src + mid + tx + posts, d.out + midOut + tx})
		}
		if literal(tx, true) {
			r = append(r, tmpl{"x-after-chain-tag", pres + d.pre + "x" + d.src + mid + tx + "{{ v }}" + posts, "x" + d.out + midOut + tx + "V"})
		}
		return r
	}
	// pres text chain D posts — the text is always followed by a tag
	posts = d.post + posts
	if literal(tx, true) {
		r = append(r, tmpl{"before-chain", pres + d.pre + tx + mid + d.src + posts, tx + midOut + d.out})
		r = append(r, tmpl{"tag-before-chain-x", pres + d.pre + "{{ v }}" + tx + mid + d.src + "x" + posts, "V" + tx + midOut + d.out + "x"})
	}
	return r
}

func seqCase(dir string, d *seqPart, x1 *seqPart, tx string) *vlib.Outcome {
	o := &vlib.Outcome{Counters: map[string]int64{}}
	o.Class = "seq/" + dir + "/" + d.name + "/" + textClass(tx)
	chains := [][]*seqPart{{x1}}
	for i := range seqXs {
		chains = append(chains, []*seqPart{x1, &seqXs[i]})
	}
	n := 0
	for _, ch := range chains {
		for _, t := range seqTemplates(dir, d, ch, tx) {
			n++
			got := render(t.src, ctx0)
			big := render(bigComment+t.src, ctx0)
			o.Counters["renders"] += 2
			o.Counters["seq_renders"] += 2
			if want := "OK:" + t.want; got != want || big != want {
				names := ch[0].name
				if len(ch) > 1 {
					names += ", " + ch[1].name
				}
				side := "after the undashed tag(s) [" + names + "] that follow the dash-closed tag"
				if dir == "L" {
					side = "before the undashed tag(s) [" + names + "] that precede the dash-opened tag"
				}
				o.Violation = fmt.Sprintf("literal text %q %s %q (%s): no dash is adjacent to the text, it must be emitted exactly\n template %q\n got  %.300q\n want %.300q\n behind a 4100-byte comment: %.300q", tx, side, d.src, t.slot, t.src, got, want, big)
				o.Detail = map[string]string{"template": t.src, "want": want, "got": got, "got_behind_comment": big}
				return o
			}
		}
	}
	o.Nontrivial = tx != "" && n > 0
	if n == 0 {
		o.Class = "seq/not-literal-text"
	}
	edge := tx != "" && strings.ContainsRune(wsChars, rune(tx[0]))
	if dir == "L" {
		edge = tx != "" && strings.ContainsRune(wsChars, rune(tx[len(tx)-1]))
	}
	if edge && n > 0 {
		o.Counters["seq_cases_with_whitespace_facing_the_chain"]++
	}
	return o
}

// ---- hist: histories on one process — a render that FAILS after writing text, then successful renders ----
//
// Added after the seeded change C04-H was missed: every family above renders each template on a fresh
// engine and never renders anything after a render that failed. Whatever an implementation keeps between
// renders (pooled output buffers, …) is process-wide, so a history is: one render that writes literal
// text and then fails at render time, followed by one or two successful renders — of the same template
// with a context under which it succeeds, or of other templates of various sizes — through string- and
// writer-returning entry points. Every successful render must emit its literal text exactly once, with
// nothing of the failed render in it: output == model, byte for byte. What the failed render itself
// returns / has written to its writer is not checked (the statement leaves it open).

type histFail struct {
	name      string
	src       func(pre, post string) string
	okValue   string                 // what the failing tag yields under the good context
	bad, good map[string]interface{} // context entries that make it fail / succeed
}

var histFails = []histFail{
	{name: "inc", src: func(a, b string) string { return a + "{% include part %}" + b }, okValue: "I",
		bad: map[string]interface{}{"part": "no-such-template"}, good: map[string]interface{}{"part": "inc"}},
	{name: "func", src: func(a, b string) string { return a + "{{ boom(f) }}" + b }, okValue: "B"},
	{name: "filter", src: func(a, b string) string { return a + "{{ f|bad }}" + b }, okValue: "F"},
	{name: "macro", src: func(a, b string) string {
		return "{% macro m(x) %}M{{ boom(x) }}N{% endmacro %}" + a + "{{ m(f) }}" + b
	}, okValue: "MBN"},
	{name: "inner", src: func(a, b string) string { return a + "{% include 'hinner' %}" + b }, okValue: "INBOUT"},
	{name: "apply", src: func(a, b string) string { return a + "{% apply upper %}c{{ boom(f) }}d{% endapply %}" + b }, okValue: "CBD"},
	{name: "block", src: func(a, b string) string { return a + "{% block b %}c{{ boom(f) }}{% endblock %}" + b }, okValue: "cB"},
	{name: "for", src: func(a, b string) string { return a + "{% for i in xs %}i{{ boom(f) }}{% endfor %}" + b }, okValue: "iB"},
	{name: "div", src: func(a, b string) string { return a + "{{ 6 / d }}" + b }, okValue: "3"},
}

const histPost = "\n<post \xff\x00 }} %}>"

// the literal text the failing template writes before it fails
var histPres = []struct {
	name string
	text func() string
}{
	{"1", func() string { return "a" }},
	{"sigma", func() string { return " \n\t{ } % # - \\ \" ' \xc3\xa9\xff\x00\x80 }} %} <h1>R3S1DU3</h1>\r" }},
	{"5000", func() string { return longPatByName("bytes").text(5000) }},
	{"70000", func() string { return longPatByName("ascii").text(70000) }},
}

// the templates rendered successfully after the failure ("same" = the failing template, good context)
var histGoods = []struct {
	name     string
	src, out func() string
}{
	{name: "same"},
	{"text", func() string { return "T\n" }, func() string { return "T\n" }},
	{"short", func() string { return "[\xff{{ v }}\x00]{# c #} \n" }, func() string { return "[\xffV\x00] \n" }},
	{"mid", func() string { return longPatByName("bytes").text(5001) + "{{ v }}" }, func() string { return longPatByName("bytes").text(5001) + "V" }},
	{"big", func() string { return longPatByName("ascii").text(70001) + "{{ v }}e" }, func() string { return longPatByName("ascii").text(70001) + "Ve" }},
}

const histReps = 3

func histRouteIdx(thorough bool) []int {
	if thorough {
		return []int{0, 1, 2, 3, 4, 5, 6, 7}
	}
	return []int{0, 1, 2, 7} // Engine.Render, Template.Render, Engine.RenderTo(bytes.Buffer), Template.RenderTo(plain io.Writer)
}

type histStep struct{ route, good int }

func histCase(t *vlib.T, hf *histFail, pi int, rf int, s1 histStep) *vlib.Outcome {
	o := &vlib.Outcome{Counters: map[string]int64{}}
	o.Class = "hist/" + hf.name + "/" + histPres[pi].name + "/did-not-fail"
	pre := histPres[pi].text()
	failSrc := hf.src(pre, histPost)
	type reg struct {
		name, src, want string
		tp              *twig.Template
	}
	regs := make([]reg, len(histGoods))
	for i, g := range histGoods {
		if g.src == nil {
			regs[i] = reg{name: "hfail", src: failSrc, want: pre + hf.okValue + histPost}
		} else {
			regs[i] = reg{name: "hgood-" + g.name, src: g.src(), want: g.out()}
		}
	}
	badCtx := map[string]interface{}{"v": "V", "t": true, "xs": []interface{}{1}, "f": true, "d": 0, "part": "inc"}
	goodCtx := map[string]interface{}{"v": "V", "t": true, "xs": []interface{}{1}, "f": false, "d": 2, "part": "inc"}
	for k, v := range hf.bad {
		badCtx[k] = v
	}
	for k, v := range hf.good {
		goodCtx[k] = v
	}
	var e *twig.Engine
	if msg := func() (msg string) {
		defer func() {
			if r := recover(); r != nil {
				msg = fmt.Sprintf("PANIC %v", r)
			}
		}()
		e = newEngine()
		e.AddFunction("boom", func(args ...interface{}) (interface{}, error) {
			if len(args) > 0 && args[0] == true {
				return nil, fmt.Errorf("boom: asked to fail")
			}
			return "B", nil
		})
		e.AddFilter("bad", func(v interface{}, args ...interface{}) (interface{}, error) {
			if v == true {
				return nil, fmt.Errorf("bad: asked to fail")
			}
			return "F", nil
		})
		if err := e.RegisterString("hinner", "IN{{ boom(f) }}OUT"); err != nil {
			return "RegisterString(hinner): " + err.Error()
		}
		for i := range regs {
			if err := e.RegisterString(regs[i].name, regs[i].src); err != nil {
				return "RegisterString(" + regs[i].name + "): " + err.Error()
			}
			var err error
			if regs[i].tp, err = e.ParseTemplate(regs[i].src); err != nil {
				return "ParseTemplate(" + regs[i].name + "): " + err.Error()
			}
		}
		return ""
	}(); msg != "" {
		o.Violation = fmt.Sprintf("history after a failed render (%s, text of %d bytes before the failing tag): a template does not parse: %s", hf.name, len(pre), msg)
		return o
	}
	call := func(route int, r *reg, ctx map[string]interface{}) (got string, err error) {
		defer func() {
			if p := recover(); p != nil {
				err = fmt.Errorf("PANIC %v", p)
			}
		}()
		o.Counters["renders"]++
		o.Counters["hist_renders"]++
		return longRoutes[route].run(e, r.name, r.tp, ctx)
	}
	shown := func(s string) string {
		if len(pre) > 200 {
			s = strings.Replace(s, pre, fmt.Sprintf("‹%d bytes›", len(pre)), -1)
		}
		if len(s) > 400 {
			return fmt.Sprintf("%q… (%d bytes in all) …%q", s[:80], len(s), s[len(s)-40:])
		}
		return fmt.Sprintf("%q", s)
	}
	routes := histRouteIdx(t.Thorough())
	seqs := [][]histStep{{s1}}
	for _, r2 := range routes {
		for g2 := range histGoods {
			seqs = append(seqs, []histStep{s1, {r2, g2}})
		}
	}
	failed := 0
	for _, sq := range seqs {
		t.Progress()
		for rep := 0; rep < histReps; rep++ {
			if _, err := call(rf, &regs[0], badCtx); err == nil {
				// the render did not fail: not a history of the wanted shape (nothing is demanded)
				continue
			}
			failed++
			for si, st := range sq {
				r := &regs[st.good]
				got, err := call(st.route, r, goodCtx)
				if err == nil && got == r.want {
					continue
				}
				what := ""
				if err != nil {
					what = "ERR " + err.Error()
				} else {
					what = firstDiff(got, r.want)
					if strings.Contains(got, pre) && !strings.Contains(r.want, pre) || strings.Count(got, pre) > strings.Count(r.want, pre) {
						what += "\n the output contains the literal text of the FAILED render"
					}
				}
				var hs []string
				for _, x := range sq {
					hs = append(hs, fmt.Sprintf("%s of %q", longRoutes[x.route].name, histGoods[x.good].name))
				}
				o.Violation = fmt.Sprintf("history on one engine (repetition %d): %s of template %s fails at render time after writing %d bytes of literal text; then successful renders [%s]: step %d (%s of template %s) does not emit its literal text exactly once\n %s",
					rep+1, longRoutes[rf].name, shown(failSrc), len(pre), strings.Join(hs, "; "), si+1, longRoutes[st.route].name, shown(r.src), what)
				o.Detail = map[string]interface{}{"failing_kind": hf.name, "failing_template": shown(failSrc), "failing_route": longRoutes[rf].name,
					"bytes_before_failure": len(pre), "history": hs, "step": si + 1, "repetition": rep + 1, "what": what}
				return o
			}
		}
	}
	if failed > 0 {
		o.Nontrivial = true
		o.Class = "hist/" + hf.name + "/" + histPres[pi].name + "/" + longRoutes[rf].id + "/failed-then-ok"
		o.Counters["hist_failed_renders"] += int64(failed)
	}
	return o
}

func histFamily(t *vlib.T) {
	routes := histRouteIdx(t.Thorough())
	for pi := range histPres {
		for fi := range histFails {
			hf := &histFails[fi]
			for _, rf := range routes {
				for _, r1 := range routes {
					for g1 := range histGoods {
						pi, rf, s1 := pi, rf, histStep{r1, g1}
						t.Case(fmt.Sprintf("hist/%s/%s/%s/%s-%s", hf.name, histPres[pi].name, longRoutes[rf].id, longRoutes[r1].id, histGoods[g1].name), func() *vlib.Outcome {
							return histCase(t, hf, pi, rf, s1)
						})
						if t.Stopped() {
							return
						}
					}
				}
			}
		}
	}
}

// ---- enumeration ----------------------------------------------------------------------------

// words enumerates all sequences over n symbols of length exactly l, in lexicographic order.
func words(n, l int, f func(idx []int) bool) {
	idx := make([]int, l)
	for {
		if !f(idx) {
			return
		}
		k := l - 1
		for k >= 0 {
			idx[k]++
			if idx[k] < n {
				break
			}
			idx[k] = 0
			k--
		}
		if k < 0 {
			return
		}
	}
}

func keyOf(idx []int) string {
	b := make([]byte, len(idx))
	for i, x := range idx {
		b[i] = byte('a' + x)
	}
	return string(b)
}

func cat(alpha []string, idx []int) string {
	var sb strings.Builder
	for _, i := range idx {
		sb.WriteString(alpha[i])
	}
	return sb.String()
}

func run(t *vlib.T) {
	strayFamily(t)
	strFamily(t)
	litMax, litMaxDeep, comMax, verbMax, escMax, seqMax := 3, 4, 3, 3, 3, 2
	if t.Thorough() {
		litMax, litMaxDeep, comMax, verbMax, escMax, seqMax = 4, 5, 4, 4, 4, 3
	}
	comAlpha := append(append([]string{}, sigma...), comExtra...)
	deep := map[string]bool{"print": true, "ifdash": true}
	// breadth first over the length, so that a deadline cuts the longest strings only
	for l := 0; l <= litMaxDeep; l++ {
		for ti := range tags {
			tg := &tags[ti]
			if l > litMax && !deep[tg.name] {
				continue
			}
			words(len(sigma), l, func(idx []int) bool {
				tx := cat(sigma, idx)
				t.Case("lit/"+tg.name+"/"+keyOf(idx), func() *vlib.Outcome { return litCase(tg, tx) })
				return !t.Stopped()
			})
		}
		if l <= escMax {
			for fi := range escForms {
				f := &escForms[fi]
				for _, side := range []string{"T", "U"} {
					side := side
					words(len(sigma), l, func(idx []int) bool {
						tx := cat(sigma, idx)
						t.Case("esc/"+f.name+"/"+side+"/"+keyOf(idx), func() *vlib.Outcome { return escCase(f, side, tx) })
						return !t.Stopped()
					})
				}
			}
		}
		if l <= comMax {
			words(len(comAlpha), l, func(idx []int) bool {
				body := cat(comAlpha, idx)
				if strings.Contains(body, "#}") {
					return true
				}
				t.Case("com/"+keyOf(idx), func() *vlib.Outcome { return comCase(body) })
				return !t.Stopped()
			})
		}
		if l <= verbMax {
			words(len(verbItems), l, func(idx []int) bool {
				items := append([]int{}, idx...)
				t.Case("verb/"+keyOf(idx), func() *vlib.Outcome { return verbCase(nil, items) })
				return !t.Stopped()
			})
		}
		// the same bodies in every placement other than the top level
		for pi := range places {
			p := &places[pi]
			if l <= verbMax {
				words(len(verbItems), l, func(idx []int) bool {
					items := append([]int{}, idx...)
					t.Case("verbp/"+p.name+"/"+keyOf(idx), func() *vlib.Outcome { return verbCase(p, items) })
					return !t.Stopped()
				})
			}
			if l <= comMax {
				words(len(comAlpha), l, func(idx []int) bool {
					body := cat(comAlpha, idx)
					if strings.Contains(body, "#}") {
						return true
					}
					t.Case("comp/"+p.name+"/"+keyOf(idx), func() *vlib.Outcome { return comPlaceCase(p, body) })
					return !t.Stopped()
				})
			}
		}
		// text next to an undashed tag that is itself next to a dashed tag (chains of one or two undashed tags)
		if l <= seqMax {
			for _, dir := range []string{"R", "L"} {
				ds := seqDashR
				if dir == "L" {
					ds = seqDashL
				}
				dir := dir
				for di := range ds {
					d := &ds[di]
					for xi := range seqXs {
						x1 := &seqXs[xi]
						words(len(sigma), l, func(idx []int) bool {
							tx := cat(sigma, idx)
							t.Case("seq/"+dir+"/"+d.name+"/"+x1.name+"/"+keyOf(idx), func() *vlib.Outcome { return seqCase(dir, d, x1, tx) })
							return !t.Stopped()
						})
					}
				}
			}
		}
		if t.Stopped() {
			return
		}
		// the same level again with every template compiled on one engine and loaded into a second one
		cmpLevel(t, l, comAlpha)
		if t.Stopped() {
			return
		}
		// the histories (a failed render, then successful ones) come once, after the shortest strings
		if l == 1 {
			histFamily(t)
			if t.Stopped() {
				return
			}
		}
		// the long runs come before the levels that only deepen two tag kinds, so that a deadline cuts those first
		if l == litMax {
			longFamily(t)
			if t.Stopped() {
				return
			}
		}
	}
}

func main() {
	vlib.Main(vlib.Spec{
		ID:    "C04",
		Level: "exploration",
		Rule: "stray: 16 closing / branching tag names with no open block x 4 delimiter spellings x 6 placements x text pairs, bare and behind a 4100-byte comment: a render that succeeds must emit all literal text; lit: every string of <= 3 (thorough 4; 5 around {{ v }} and {%- if -%}) symbols of a 17-symbol byte alphabet as literal text alone, before, between, after and inside each of 10 tag kinds, byte-exact against the concatenation model, bare and behind a 4100-byte comment; " +
			"esc: every such text of <= 3 (thorough 4) symbols not ending in a backslash before, and every such text after, a backslash-escaped opener (\\{{ x }}, \\{% if %}, \\{# c #}): the output must start with the text before and end with the text after, what lies between is not checked; " +
			"com: every comment body of <= 3 (thorough 4) symbols of that alphabet plus {{ probe() }}, {% if %}, {{, %}; verb: every verbatim body of <= 3 (thorough 4) items under 4 contexts; " +
			"place: each of those comment and verbatim bodies again in 13 placements (macro body called directly / via _self / via import-as / via from-import, block plain / overriding / through parent() / inherited, included template, for body, if branch, else branch, apply upper), same oracle. " +
			"long: one run of 4096 / 32767 / 32768 / 32769 / 65535 / 65536 / 65537 / 100000 / 300000 bytes (thorough: 25 lengths, the neighbours of 4096, 8192, 16384, 1..4 x 32768, 1 MiB) of a non-periodic record stream (ascii page text; every symbol of the alphabet) as literal text in every slot of every tag kind, as a verbatim body, as a comment body and (an escape-proof stream) as a printed context value alone / next to text / before / between / after / inside the 8 undashed tag kinds, each through 8 output routes (Engine.Render, Template.Render, Engine.RenderTo and Template.RenderTo into bytes.Buffer, strings.Builder, a plain io.Writer without WriteString), byte-exact on every route. " +
			"seq: every string of <= 2 (thorough 3) symbols as literal text after D X1 [X2] and before X1 [X2] D', D a dash-closed tag ({{ v -}}, {{- v -}}, {% set q = 1 -%}, {% if t -%}, {% if t %}y{% endif -%}), D' a dash-opened tag ({{- v }}, {{- v -}}, {%- set q = 1 %}, {%- if t %}y{% endif %}, {%- endif %}), X1 X2 any of 7 undashed tags ({{ v }}, {##}, {# c #}, {% set q = 1 %}, {% if t %} with the text inside, {% endif %}, {% if t %}y{% endif %}) with no text between the tags, at the end of the template and followed / preceded by {{ v }}, bare and behind the 4100-byte comment: the text is adjacent to no dash and must be emitted exactly. " +
			"hist: every history <F, S1[, S2]> on one engine, run 3 times in a row: F = a render that fails after writing literal text (1 byte / 48 bytes holding every symbol of the alphabet / 5000 / 70000 bytes before the failing tag: include of a missing template named by the context, failing user function, failing user filter, failing function inside a called macro, inside an included template, inside apply, inside a block, inside a for body, division by zero) through Engine.Render, Template.Render, Engine.RenderTo(bytes.Buffer), Template.RenderTo(plain io.Writer) (thorough: all 8 routes); S = a successful render, through each of those routes, of the same template under a good context / a 2-byte text / a short template / a 5 001-byte / a 70 001-byte run followed by a print tag: every S must equal its model byte for byte; a history is non-trivial when F did fail. " +
			"str: every sequence of <= 2 (thorough 3) fragments of {# #} {{ }} {% %} a space - as a single- and a double-quoted string literal in {{ S }}, {% set q = S %}{{ q }}, {% if S %}y{% endif %}, {{ v ~ S }}, as one tag holding the whole string (1 TAG 2) and as one tag per fragment with numbered text between them, bare and behind the 4100-byte comment: a render that succeeds must equal the concatenation model, an error is accepted; " +
			"cmp (route dimension): the cases of lit with <= 2 symbols (thorough 3), com <= 2 (3), com in the 13 placements <= 1 (2), verb <= 3 (4), verb in the 13 placements <= 2 (3), seq <= 1 (2) and every str case again with every template the case registers compiled on one engine and loaded into a second one through 3 routes (Engine.CompileTemplate + SerializeCompiledTemplate + LoadFromCompiledData; Engine.Load + Template.Compile + RegisterCompiledTemplate; CompiledLoader.SaveCompiled + a CompiledLoader registered as loader; thorough adds Template.SaveCompiled + DeserializeCompiledTemplate + RegisterCompiledTemplate): the render on the second engine is judged by the family's oracle and must equal the direct render of the same source byte for byte whenever that one succeeds; " +
			"non-trivial = the text / body is non-empty and admissible as literal text in at least one slot (str: the string holds a brace and at least one rendering was accepted)",
		Assumptions: []string{
			"a lone { immediately before a tag opener is excluded (maximal munch), as is text that itself contains an opener; what a backslash immediately before an opener and the tag after it render to is left open (undocumented escape) — only the text before the backslash and after the closer is checked (prefix / suffix); a text ending in a backslash before the escaping backslash is excluded",
			"verbatim content is checked for context independence, absence of context data and evaluated content, and in-order presence of its literal text items; its tag-like parts need not be byte-exact",
			"bytes outside the 17-symbol alphabet and texts longer than the bound are not explored, except the long runs: those have two fixed contents per length, not every content",
			"seq: the block constructs in a chain are `if` with a true condition only; a dash is taken to ask for the removal of the whitespace adjacent to its own delimiter and of nothing beyond the next tag",
			"hist: what a failing render returns or has already written to its writer is not checked; a history whose first render does not fail is not judged; each history is repeated 3 times because which pooled object a render draws is not under the caller's control",
			"cmp: a compiled template is taken to be the same template as its source (the statement knows no route), so the direct render is the reference for the routed one, also for the tag-like bytes of a verbatim body; when the direct render fails nothing is demanded of the routed one; the fixed one-word templates inc / i reach the second engine as source; compiled data is not tampered with (C05 / C16 look at the format)",
			"str: whether a tag whose string literal holds a closer of the tag's own kind is accepted is left open (twig rejects it); only successful renders are judged",
			"long runs: a writer is assumed to accept every Write in full; writers that fail or write short are not explored; printed long values avoid the characters an HTML escaper rewrites",
		},
		QuickDeadline:    120,
		ThoroughDeadline: 840,
		Run:              run,
		Extra: func(tier string, cov map[string]interface{}) {
			cov["alphabet"] = fmt.Sprintf("%q", sigma)
			cov["tag_kinds"] = len(tags)
			var pn []string
			for _, p := range places {
				pn = append(pn, p.name)
			}
			cov["placements"] = strings.Join(pn, ",")
			lens := longLensQuick
			if tier == "thorough" {
				lens = longLensThorough
			}
			cov["long_run_lengths"] = fmt.Sprint(lens)
			var rn []string
			for _, r := range longRoutes {
				rn = append(rn, r.name)
			}
			cov["long_run_routes"] = strings.Join(rn, ", ")
			var fk []string
			for _, f := range histFails {
				fk = append(fk, f.name)
			}
			cov["history_failure_kinds"] = strings.Join(fk, ",")
			cov["seq_chain_tags"] = len(seqXs)
			var cr []string
			for _, r := range cmpRoutes(tier == "thorough") {
				cr = append(cr, r.id+" = "+r.name)
			}
			cov["compile_and_load_routes"] = strings.Join(cr, "; ")
			cov["compile_and_load_bounds"] = fmt.Sprintf("%+v", cmpBoundsFor(tier == "thorough"))
		},
	})
}
