package main

// stray: a closing or branching tag with no open block (`a{% endif %}b`). Whatever the engine makes of
// it — a parse error, or ignoring the tag — a render that SUCCEEDS must still emit every byte of
// literal text exactly once and in order. (Found on the tree this check was strengthened on: the
// parser stopped at the stray tag and silently dropped the rest of the template; repaired by 26ebe68.)

import (
	"fmt"
	"strings"

	"verif/lib/vlib"
)

var strayNames = []string{"endif", "endfor", "endblock", "endmacro", "else", "elseif t", "endspaceless", "endapply", "endverbatim",
	"endset", "endautoescape", "endwith", "endembed", "endsandbox", "endfilter", "endfrom"}

type strayPlace struct {
	name string
	// build returns the extra templates and the main source; want is what a successful render must print
	build func(tag, t1, t2 string) (extras [][2]string, src, want string)
}

var strayPlaces = []strayPlace{
	{"top", func(tag, t1, t2 string) ([][2]string, string, string) { return nil, t1 + tag + t2, t1 + t2 }},
	{"afterif", func(tag, t1, t2 string) ([][2]string, string, string) {
		return nil, t1 + "{% if t %}y{% endif %}" + tag + t2, t1 + "y" + t2
	}},
	{"beforeprint", func(tag, t1, t2 string) ([][2]string, string, string) {
		return nil, t1 + tag + t2 + "{{ v }}" + t1, t1 + t2 + "V" + t1
	}},
	{"afterfor", func(tag, t1, t2 string) ([][2]string, string, string) {
		return nil, "{% for i in xs %}" + t1 + "{% endfor %}" + tag + t2, t1 + t2
	}},
	{"included", func(tag, t1, t2 string) ([][2]string, string, string) {
		return [][2]string{{"strayinc", t1 + tag + t2}}, "A{% include 'strayinc' %}B", "A" + t1 + t2 + "B"
	}},
	{"twice", func(tag, t1, t2 string) ([][2]string, string, string) {
		return nil, t1 + tag + t2 + tag + t1, t1 + t2 + t1
	}},
}

func strayFamily(t *vlib.T) {
	texts := []string{"a", "b c", "", "x\ny", "}}", "%"}
	if t.Thorough() {
		texts = append(texts, " a ", "\n", "é", "{", "#}")
	}
	dashes := [][2]string{{"{% ", " %}"}, {"{%- ", " %}"}, {"{% ", " -%}"}, {"{%", "%}"}}
	for _, nm := range strayNames {
		for di, d := range dashes {
			for pi := range strayPlaces {
				nm, d, di, p := nm, d, di, &strayPlaces[pi]
				t.Case(fmt.Sprintf("stray/%s/d%d/%s", strings.ReplaceAll(nm, " ", "_"), di, p.name), func() *vlib.Outcome {
					o := &vlib.Outcome{Nontrivial: true, Class: "stray/" + p.name, Counters: map[string]int64{}}
					tag := d[0] + nm + d[1]
					for _, t1 := range texts {
						for _, t2 := range texts {
							if di == 1 || di == 2 {
								// a dash trims adjacent whitespace (C13's subject): keep whitespace away from it
								if strings.TrimSpace(t1) != t1 || strings.TrimSpace(t2) != t2 {
									continue
								}
							}
							if !literal(t1, true) || !literal(t2, true) {
								continue
							}
							extras, src, want := p.build(tag, t1, t2)
							for k, pre := range []string{"", bigComment} {
								got := renderWith(extras, pre+src, ctx0)
								o.Counters["renders"]++
								if strings.HasPrefix(got, "OK:") {
									o.Class = "stray/" + p.name + "/accepted"
									if got != "OK:"+want {
										o.Violation = fmt.Sprintf("stray tag %q: template %q (behind the 4100-byte comment: %v) renders without error but loses or alters literal text\n got  %.300q\n want %.300q (or an error)", tag, src, k == 1, got, "OK:"+want)
										o.Detail = map[string]interface{}{"template": src, "big": k == 1}
										return o
									}
								} else if strings.HasPrefix(got, "PANIC") {
									o.Violation = fmt.Sprintf("stray tag %q: template %q panics: %.300s", tag, src, got)
									return o
								}
							}
						}
					}
					return o
				})
			}
		}
	}
}
