package main

// The same map object, changed in place between renders on one engine (a key replaced so that the
// size stays equal, then an entry added, then one removed): every render must produce the bytes a
// fresh engine produces for a freshly allocated equal map — the output is determined by the
// template and the CURRENT context value alone, not by what this map held (or where it lives) at an
// earlier render.

import (
	"fmt"

	"github.com/semihalev/twig"

	"verif/lib/vlib"
)

type mutKind struct {
	name  string
	build func(keys []string) interface{}
	apply func(m interface{}, del, add string, val int)
}

var mutKinds = []mutKind{
	{"any", func(keys []string) interface{} {
		m := map[string]interface{}{}
		for i, k := range keys {
			m[k] = i + 1
		}
		return m
	}, func(m interface{}, del, add string, val int) {
		mm := m.(map[string]interface{})
		if del != "" {
			delete(mm, del)
		}
		if add != "" {
			mm[add] = val
		}
	}},
	{"int", func(keys []string) interface{} {
		m := map[string]int{}
		for i, k := range keys {
			m[k] = i + 1
		}
		return m
	}, func(m interface{}, del, add string, val int) {
		mm := m.(map[string]int)
		if del != "" {
			delete(mm, del)
		}
		if add != "" {
			mm[add] = val
		}
	}},
	{"str", func(keys []string) interface{} {
		m := map[string]string{}
		for i, k := range keys {
			m[k] = fmt.Sprint("v", i+1)
		}
		return m
	}, func(m interface{}, del, add string, val int) {
		mm := m.(map[string]string)
		if del != "" {
			delete(mm, del)
		}
		if add != "" {
			mm[add] = fmt.Sprint("v", val)
		}
	}},
}

// steps: (delete, add) applied in place one after the other; the key set after each step
var mutSteps = []struct {
	del, add string
	val      int
	keys     []string // model of the key set afterwards, in insertion order of a fresh build
}{
	{"b", "z", 26, nil},
	{"", "d", 4, nil},
	{"a", "", 0, nil},
	{"z", "b", 2, nil},
}

func mutateCases(t *vlib.T) {
	for _, kd := range mutKinds {
		for ti, tp := range mapTemplates() {
			kd, ti, tp := kd, ti, tp
			t.Case(fmt.Sprintf("mutate/%s/t%d", kd.name, ti), func() *vlib.Outcome {
				o := &vlib.Outcome{Nontrivial: true, Class: "mutate/" + kd.name, Counters: map[string]int64{}}
				extra := map[string]string{"part": "a={{ a }};b={{ b }};c={{ c }};k1={{ k1 }};p={{ p }}"}
				mk := func() *twig.Engine {
					e := twig.New()
					for n, s := range extra {
						e.RegisterString(n, s)
					}
					e.RegisterString("main", tp)
					return e
				}
				kept := mk()
				m := kd.build([]string{"a", "b", "c"})
				ctx := map[string]interface{}{"m": m, "a": "A", "b": "B", "c": "C"}
				// the model: a second map of the same kind that goes through the same steps, from
				// which a FRESH equal map is rebuilt (by copying) for the reference render
				cur := map[string]int{"a": 1, "b": 2, "c": 3}
				order := []string{"a", "b", "c"}
				freshOf := func() interface{} {
					fm := kd.build(nil)
					for _, k := range order {
						if v, ok := cur[k]; ok {
							kd.apply(fm, "", k, v)
						}
					}
					return fm
				}
				check := func(step int) bool {
					got := renderPlain(kept, "main", ctx)
					want := renderPlain(mk(), "main", map[string]interface{}{"m": freshOf(), "a": "A", "b": "B", "c": "C"})
					o.Counters["executions"] += 2
					if got != want {
						o.Violation = fmt.Sprintf("template %q, %s map changed in place (step %d, keys now %v): the engine that rendered the earlier states prints %q, a fresh engine with a fresh equal map prints %q", tp, kd.name, step, order, got, want)
						return false
					}
					return true
				}
				if !check(0) {
					return o
				}
				for si, st := range mutSteps {
					kd.apply(m, st.del, st.add, st.val)
					if st.del != "" {
						delete(cur, st.del)
						for i, k := range order {
							if k == st.del {
								order = append(order[:i:i], order[i+1:]...)
								break
							}
						}
					}
					if st.add != "" {
						cur[st.add] = st.val
						order = append(order, st.add)
					}
					if !check(si+1) || !check(si+1) {
						return o
					}
				}
				return o
			})
		}
	}
}
