// C03 — output is a deterministic function of templates and context.
//
// Built through the overlay with the "map" and "time" rewrites: every observable map iteration in
// package twig (range over a map, reflect MapKeys) asks the vmap oracle for the key order, so the
// order Go's runtime picks at random is an explorer-owned choice. For every case (template x
// context) every assignment of key permutations to the iteration points reached is executed within
// the deviation bound; all executions must produce byte-identical output (or all fail). Two
// separately allocated deeply-equal contexts must render the same bytes (address independence).
package main

import (
	"encoding/json"
	"fmt"
	"os"
	"regexp"
	"sort"
	"strings"
	"time"

	"github.com/semihalev/twig"
	"github.com/semihalev/twig/vmap"

	"verif/lib/vlib"
)

type tcase struct {
	Group string                        `json:"group"`
	Tpl   string                        `json:"template"`
	Extra map[string]string             `json:"extra_templates,omitempty"`
	Ctx   string                        `json:"context"`
	mk    func() map[string]interface{} `json:"-"`
	// ptr: the context holds a struct with a pointer field that is printed by value (KF-C03-1)
	ptr bool
}

type S struct {
	A int
	P *int
}
type KS struct {
	N int
	S string
}
type NS string
type Inner struct{ N int }
type Outer struct {
	In *Inner
	L  []int
}

func ctxMakers() map[string]func() map[string]interface{} {
	return map[string]func() map[string]interface{}{
		"untyped3": func() map[string]interface{} {
			return map[string]interface{}{"m": map[string]interface{}{"b": 2, "a": 1, "c": 3}, "m2": map[string]interface{}{"d": 4, "a": 9}}
		},
		"untyped4": func() map[string]interface{} {
			return map[string]interface{}{"m": map[string]interface{}{"k4": "w", "k1": "z", "k3": "x", "k2": "y"}, "m2": map[string]interface{}{"k0": "v", "k3": "u"}}
		},
		"untyped2": func() map[string]interface{} {
			return map[string]interface{}{"m": map[string]interface{}{"y": "q", "x": "p"}, "m2": map[string]interface{}{}}
		},
		"typedStrInt": func() map[string]interface{} {
			return map[string]interface{}{"m": map[string]int{"b": 2, "a": 1, "c": 3}, "m2": map[string]int{"z": 26, "a": 0}}
		},
		"typedIntStr": func() map[string]interface{} {
			return map[string]interface{}{"m": map[int]string{10: "ten", 2: "two", 33: "tt"}, "m2": map[int]string{1: "one"}}
		},
		"typedStrSlice": func() map[string]interface{} {
			return map[string]interface{}{"m": map[string][]int{"q": {1, 2}, "p": {3}, "r": nil}, "m2": map[string][]int{"s": {4}}}
		},
		"nested": func() map[string]interface{} {
			return map[string]interface{}{"m": map[string]interface{}{
				"u": map[string]interface{}{"b": 1, "a": 2},
				"t": map[string]interface{}{"d": 3, "c": 4, "e": 5},
			}, "m2": map[string]interface{}{"v": map[string]interface{}{"z": 0}}}
		},
		"boolKeys": func() map[string]interface{} {
			return map[string]interface{}{"m": map[bool]string{true: "yes", false: "no"}, "m2": map[bool]string{false: "non"}}
		},
		"structKeys": func() map[string]interface{} {
			return map[string]interface{}{"m": map[KS]string{{1, "b"}: "x", {1, "a"}: "y", {0, "z"}: "z"}, "m2": map[KS]string{{2, "c"}: "w"}}
		},
		"arrayKeys": func() map[string]interface{} {
			return map[string]interface{}{"m": map[[2]int]string{{2, 1}: "p", {1, 2}: "q", {1, 1}: "r"}, "m2": map[[2]int]string{{0, 0}: "s"}}
		},
		"bigIntKeys": func() map[string]interface{} {
			return map[string]interface{}{"m": map[int64]string{1<<53 + 2: "c", 1<<53 + 1: "b", 1 << 53: "a", -1<<53 - 1: "n"}, "m2": map[int64]string{1<<62 + 1: "z"}}
		},
		"bigUintKeys": func() map[string]interface{} {
			return map[string]interface{}{"m": map[uint64]string{1<<63 + 2: "c", 1<<63 + 1: "b", 1 << 63: "a"}, "m2": map[uint64]string{7: "z"}}
		},
		"floatKeys": func() map[string]interface{} {
			return map[string]interface{}{"m": map[float64]string{1.5: "a", -0.5: "b", 1e300: "c"}, "m2": map[float64]string{2.25: "d"}}
		},
		"ifaceMixed": func() map[string]interface{} {
			return map[string]interface{}{"m": map[interface{}]interface{}{true: 1, false: 2, KS{1, "a"}: 3, KS{1, "b"}: 4}, "m2": map[interface{}]interface{}{1.5: "x", "1.5": "y"}}
		},
		"namedStrKeys": func() map[string]interface{} {
			return map[string]interface{}{"m": map[NS]int{"b": 2, "a": 1, "c": 3}, "m2": map[NS]int{"d": 4}}
		},
		"ifaceKeys": func() map[string]interface{} {
			return map[string]interface{}{"m": map[interface{}]interface{}{"s": 1, 2: "two", true: 3}, "m2": map[interface{}]interface{}{2: "deux"}}
		},
	}
}

func mapTemplates() []string {
	return []string{
		"{% for k, v in m %}{{ k }}={{ v }};{% endfor %}",
		"{% for v in m %}[{{ v }}]{% endfor %}",
		"{% for k, v in m %}{{ loop.index }}{{ k }}{% if loop.first %}F{% endif %}{% if loop.last %}L{% endif %} {% endfor %}",
		"{{ m|first }}",
		"{{ m|last }}",
		"{{ m|keys|join(',') }}",
		"{{ m|keys|first }}|{{ m|keys|last }}",
		"{{ m|length }}",
		"{{ m|join(',') }}",
		"{{ m|sort|join(',') }}",
		"{{ m|json_encode }}",
		"{{ m|json_encode|raw }}",
		"{{ m }}",
		"{{ m|merge(m2)|keys|join(',') }}",
		"{% for k, v in m|merge(m2) %}{{ k }}:{{ v }},{% endfor %}",
		"{{ m|merge(m2)|json_encode|raw }}",
		"{{ m|reverse|join(',') }}",
		"{{ m|slice(0, 2)|join(',') }}",
		"{{ m|first }}{{ m|keys|first }}",
		"{% for k in m|keys %}{{ k }}={{ m[k] }};{% endfor %}",
		"{% set x = m %}{% for k, v in x %}{{ k }}{% endfor %}|{% for k, v in x %}{{ v }}{% endfor %}",
		"{% for k, v in m %}{% for k2, v2 in m2 %}{{ k }}{{ k2 }} {% endfor %}{% endfor %}",
		"{% include 'part' with {'a': b, 'b': a} %}",
		"{% include 'part' with {'a': b, 'b': c, 'c': a} %}",
		"{% include 'part' with {'a': b ~ '!', 'b': a ~ '?', 'k1': a} only %}",
		"{% for a in [1, 2] %}{% include 'part' with {'b': a, 'a': b} %}{% endfor %}",
		"{% include 'part' with m %}",
		"{% include 'part' with m only %}",
		"{{ dump(m) }}",
		"{{ max(m) }}|{{ min(m) }}",
		"{{ m|default('d')|join('+') }}",
		"{% for k, v in m %}{{ k }}{% else %}empty{% endfor %}{% for k, v in m2 %}{{ k }}{% else %}empty{% endfor %}",
		"{{ 'a' in m ? 'Y' : 'N' }}{{ 2 in m ? 'Y' : 'N' }}",
		"{% apply upper %}{% for k, v in m %}{{ k }}{{ v }}{% endfor %}{% endapply %}",
	}
}

// every built-in filter and function handed a hash (literal and from the context) as argument, on a
// string, a list and a map: whatever the filter does with it — including failing — must not depend
// on the order in which the hash is iterated
func hashArgTemplates() []string {
	filters := []string{"replace", "merge", "default", "join", "split", "format", "slice", "number_format", "round", "trim", "batch", "map", "filter", "column", "first", "last", "keys", "sort", "reverse", "length", "json_encode", "url_encode", "escape", "striptags", "nl2br", "title", "capitalize", "upper", "lower", "abs", "raw", "spaceless"}
	var out []string
	for _, f := range filters {
		out = append(out,
			"{{ 'ab'|"+f+"({'a': 'b', 'b': 'a'}) }}",
			"{{ 'red teal blue'|"+f+"({'red': 'blu', 'blu': 'RED', 'tea': 'red'}) }}",
			"{{ 'ab'|"+f+"(m) }}",
			"{{ ['a', 'b']|"+f+"({'a': 'b', 'b': 'a'})|json_encode|raw }}",
			"{{ m|"+f+"(m2)|json_encode|raw }}",
			"{{ m|"+f+"({'x': 'y', 'y': 'x'}, m2)|json_encode|raw }}",
		)
	}
	for _, fn := range []string{"max", "min", "merge", "cycle", "range", "dump", "length", "json_encode", "random", "date", "attribute", "include"} {
		if fn == "random" || fn == "date" {
			continue
		}
		out = append(out, "{{ "+fn+"(m)|json_encode|raw }}", "{{ "+fn+"({'b': 2, 'a': 1, 'c': 3})|json_encode|raw }}", "{{ "+fn+"(m, m2)|json_encode|raw }}")
	}
	return out
}

func nestedTemplates() []string {
	return []string{
		"{% for k, v in m %}{{ k }}:{% for k2, v2 in v %}{{ k2 }}{{ v2 }}{% endfor %};{% endfor %}",
		"{{ m|json_encode|raw }}",
		"{{ m }}",
		"{% for k, v in m %}{{ v|keys|join('') }}{{ v|first }}{% endfor %}",
		"{{ (m|first)|keys|join(',') }}",
	}
}

func literalTemplates() []string {
	return []string{
		"{% for k, v in {'x': 1, 'y': 2, 'z': 3} %}{{ k }}{{ v }}{% endfor %}",
		"{% for k, v in {'z': 1, 'y': 2, 'x': 3, 'w': 4} %}{{ k }}{{ v }}{% endfor %}",
		"{{ {'k': 1, 'k': 2}['k'] }}",
		"{{ {'k': 1, 'j': 5, 'k': 2}|json_encode|raw }}",
		"{{ {'k': 1, 'k': 2, 'k': 3}|length }}",
		"{{ {'b': 1, 'a': 2}|keys|join(',') }}",
		"{{ {'b': 1, 'a': 2}|first }}",
		"{{ {'b': 1, 'a': 2}|join(',') }}",
		"{% set h = {'p': [1, 2], 'q': {'i': 1, 'h': 2}} %}{% for k, v in h %}{{ k }}{{ v|json_encode|raw }}{% endfor %}",
		"{% include 'part' with {'b': 1, 'a': 2, 'c': 3} only %}",
		"{{ {'a': 1}|merge({'c': 3, 'b': 2})|keys|join(',') }}",
		"{% for k, v in {'one': 1}|merge({'two': 2})|merge({'three': 3}) %}{{ k }}{% endfor %}",
	}
}

var dateLetters = []string{"d", "D", "j", "l", "N", "S", "w", "z", "W", "F", "m", "M", "n", "t", "L", "o", "Y", "y", "a", "A", "g", "G", "h", "H", "i", "s", "e", "T", "P", "O", "c", "r", "U", "-", ":", ",", " ", "\\\\"}

var instants = []time.Time{
	time.Date(2024, 1, 2, 3, 4, 5, 0, time.UTC),
	time.Date(1999, 12, 31, 23, 59, 58, 0, time.UTC),
	time.Date(2021, 7, 15, 12, 0, 0, 0, time.UTC),
}

func allCases(thorough bool) []tcase {
	var cs []tcase
	mk := ctxMakers()
	var names []string
	for n := range mk {
		names = append(names, n)
	}
	sort.Strings(names)
	extra := map[string]string{"part": "a={{ a }};b={{ b }};c={{ c }};k1={{ k1 }};p={{ p }}"}
	for _, n := range names {
		tpls := mapTemplates()
		if n == "nested" {
			tpls = append(nestedTemplates(), tpls[:3]...)
		}
		for _, tp := range tpls {
			if strings.Contains(tp, "include") && (n != "untyped3" && n != "untyped4" && n != "untyped2") {
				continue
			}
			mkn := mk[n]
			cs = append(cs, tcase{Group: "map/" + n, Tpl: tp, Extra: extra, Ctx: n, mk: func() map[string]interface{} {
				c := mkn()
				for k, v := range map[string]interface{}{"a": "A", "b": "B", "c": "C"} {
					if _, ok := c[k]; !ok {
						c[k] = v
					}
				}
				return c
			}})
		}
	}
	for _, n := range []string{"untyped3", "untyped4", "typedStrInt"} {
		for _, tp := range hashArgTemplates() {
			cs = append(cs, tcase{Group: "hasharg/" + n, Tpl: tp, Extra: extra, Ctx: n, mk: mk[n]})
		}
	}
	for _, tp := range literalTemplates() {
		cs = append(cs, tcase{Group: "literal", Tpl: tp, Extra: extra, Ctx: "empty", mk: func() map[string]interface{} { return map[string]interface{}{} }})
	}
	// pointers printed by value
	ptrCtx := func() map[string]interface{} {
		n, s, f := 7, "str", 2.5
		l := []interface{}{1, 2}
		m := map[string]interface{}{"a": 1}
		pn := &n
		var ip interface{} = &n
		var is interface{} = &s
		return map[string]interface{}{"pi": &n, "ps": &s, "pf": &f, "pl": &l, "pm": &m, "lst": []interface{}{&n, &s}, "mp": map[string]interface{}{"k": &n},
			"ppi": &pn, "pip": &ip, "pis": &is, "lpp": []interface{}{&pn, &ip}}
	}
	for _, tp := range []string{"{{ pi }}", "{{ ps }}", "{{ pf }}", "{{ pl|join(',') }}", "{{ pm|keys|join(',') }}", "{{ lst|join(',') }}", "{% for x in lst %}{{ x }}{% endfor %}", "{{ mp.k }}", "{{ pi ~ ps }}", "{{ pi + 1 }}", "{{ lst|json_encode|raw }}", "{{ lst|first }}",
		"{{ ppi }}", "{{ pip }}", "{{ pis }}", "{{ ppi ~ '|' ~ pip }}", "{{ lpp|join(',') }}", "{% for x in lpp %}{{ x }}{% endfor %}", "{{ ppi + 1 }}"} {
		cs = append(cs, tcase{Group: "pointer", Tpl: tp, Ctx: "pointers", mk: ptrCtx})
	}
	structCtx := func() map[string]interface{} {
		n := 5
		return map[string]interface{}{"s": S{1, &n}, "ps": &S{2, &n}, "o": Outer{&Inner{3}, []int{1}}, "po": &Outer{&Inner{4}, nil}}
	}
	for _, tp := range []string{"{{ s.A }}{{ ps.A }}", "{{ s.P }}", "{{ o.In.N }}{{ po.In.N }}", "{{ o.L|join(',') }}"} {
		cs = append(cs, tcase{Group: "pointer", Tpl: tp, Ctx: "structs", mk: structCtx})
	}
	for _, tp := range []string{"{{ s }}", "{{ o }}", "{{ [s]|join(',') }}"} {
		cs = append(cs, tcase{Group: "pointer-field", Tpl: tp, Ctx: "structs", mk: structCtx, ptr: true})
	}
	// a map printed as a whole (join on a map prints it through fmt): pointer values nested in it
	cs = append(cs, tcase{Group: "pointer-field", Tpl: "{{ mp|join(',') }}", Ctx: "pointers", mk: ptrCtx, ptr: true})
	// date format strings: every string of length <= 2 (quick) / <= 3 over letters (thorough)
	maxLen := 2
	letters := dateLetters
	if thorough {
		maxLen = 3
	}
	var fmts []string
	var rec func(cur string, n int)
	rec = func(cur string, n int) {
		if n > 0 {
			fmts = append(fmts, cur)
		}
		if n == maxLen {
			return
		}
		ls := letters
		if n >= 2 {
			ls = letters[:26] // third position: letters only
		}
		for _, l := range ls {
			rec(cur+l, n+1)
		}
	}
	rec("", 0)
	fmts = append(fmts, "D, d M Y", "Y-m-d H:i:s", "l jS \\\\o\\\\f F Y h:i:s A", "D, d M Y H:i:s O")
	for _, f := range fmts {
		for i := range instants {
			i := i
			cs = append(cs, tcase{Group: "date", Tpl: "{{ t|date('" + f + "') }}", Ctx: fmt.Sprintf("instant%d", i),
				mk: func() map[string]interface{} { return map[string]interface{}{"t": instants[i]} }})
		}
	}
	return cs
}

// ---- one execution

func renderOnce(c tcase, prefix []int, native bool) (string, []vmap.Choice) {
	e := twig.New()
	for n, s := range c.Extra {
		e.RegisterString(n, s)
	}
	e.RegisterString("main", c.Tpl)
	ctx := c.mk()
	vmap.X = &vmap.Explorer{Prefix: prefix, Active: true}
	vmap.Native = native
	var out string
	func() {
		defer func() {
			if r := recover(); r != nil {
				out = fmt.Sprintf("PANIC %v", r)
			}
		}()
		o, err := e.Render("main", ctx)
		if err != nil {
			out = "ERR"
		} else {
			out = o
		}
	}()
	ch := vmap.X.Choices
	vmap.X = &vmap.Explorer{}
	vmap.Native = false
	return out, ch
}

var addrRE = regexp.MustCompile(`0x[0-9a-f]{6,}`)

var progressFn = func() {}

func checkCase(c tcase, dev int, nativeRuns int) *vlib.Outcome {
	o := &vlib.Outcome{Counters: map[string]int64{}}
	base, choices0 := renderOnce(c, nil, false)
	o.Counters["executions"]++
	o.Nontrivial = len(choices0) > 0 || c.Group == "pointer" || c.Group == "pointer-field" || c.Group == "date"
	o.Class = fmt.Sprintf("%s/%d-points", c.Group, len(choices0))
	fail := func(how, other string, prefix []int) {
		o.Violation = fmt.Sprintf("template %q context %s: %s: %q vs %q (order choices %v)", c.Tpl, c.Ctx, how, base, other, prefix)
		d, _ := json.Marshal(map[string]interface{}{"case": c, "choices": prefix})
		o.Detail = json.RawMessage(d)
		if c.ptr && addrRE.ReplaceAllString(base, "ADDR") == addrRE.ReplaceAllString(other, "ADDR") && addrRE.MatchString(base) {
			o.Known = "KF-C03-1"
		}
	}
	// address independence: a second, separately allocated but deeply equal context
	again, _ := renderOnce(c, nil, false)
	o.Counters["executions"]++
	if again != base {
		fail("a second render with a separately allocated equal context differs", again, nil)
		return o
	}
	var dfs func(prefix []int, ch []vmap.Choice, used int)
	dfs = func(prefix []int, ch []vmap.Choice, used int) {
		if used >= dev || o.Violation != "" {
			return
		}
		for i := len(prefix); i < len(ch); i++ {
			for alt := 1; alt < ch[i].N; alt++ {
				np := make([]int, i+1)
				for j := 0; j < i; j++ {
					np[j] = ch[j].C
				}
				np[i] = alt
				out, ch2 := renderOnce(c, np, false)
				o.Counters["executions"]++
				progressFn()
				o.Counters["order_alternatives"]++
				if out != base {
					fail("output depends on map iteration order", out, np)
					return
				}
				dfs(np, ch2, used+1)
				if o.Violation != "" {
					return
				}
			}
		}
	}
	dfs(nil, choices0, 0)
	o.Counters["iteration_points"] += int64(len(choices0))
	// supplementary (sampling, reported separately): Go's own random order
	for i := 0; i < nativeRuns && o.Violation == ""; i++ {
		out, _ := renderOnce(c, nil, true)
		o.Counters["native_order_runs"]++
		if out != base {
			fail("output differs under Go's native map order", out, nil)
		}
	}
	return o
}

func main() {
	os.Setenv("TZ", "UTC")
	time.Local = time.UTC
	if spec := os.Getenv("C03_AGAIN"); spec != "" {
		againChild(spec)
		return
	}
	vlib.Main(vlib.Spec{
		ID:    "C03",
		Level: "model_checking",
		Rule: "every (template, context) case x every assignment of key permutations to the map-iteration points the render reaches, within the order-deviation bound " +
			"(n! permutations for n<=4 keys; rotations+reversal+transpositions above); plus the whole non-date corpus rendered in fresh child processes in forward, reverse and rotated orders (fresh engine per case and one shared engine, every template twice): each template's bytes must not depend on the order or the process; plus every map template over three map types with the map changed in place between renders on one engine (key replaced at equal size, entry added, removed), against a fresh engine with a freshly allocated equal map; non-trivial = at least one iteration point with >=2 keys is reached, or the case prints pointers / date formats",
		Assumptions: []string{
			"map iteration inside package twig is routed through the order oracle by a build-time rewrite of range-over-map and MapKeys(); clear/copy loops whose order cannot be observed are left alone",
			"for maps with more than 4 keys the alternatives are rotations, reversal and transpositions (not all n! orders)",
			"address independence is checked with two separately allocated equal contexts in one process",
			"Go's native random order is additionally sampled (native_order_runs) — supplementary, not part of the coverage claim",
		},
		QuickDeadline:    150,
		ThoroughDeadline: 1500,
		Run: func(t *vlib.T) {
			progressFn = t.Progress
			dev, native := 1, 3
			if t.Thorough() {
				dev, native = 2, 10
			}
			for _, c := range allCases(t.Thorough()) {
				c := c
				t.Case(c.Group+"|"+c.Ctx+"|"+c.Tpl, func() *vlib.Outcome { return checkCase(c, dev, native) })
			}
			againCases(t)
			mutateCases(t)
		},
		Extra: func(tier string, cov map[string]interface{}) {
			cov["states"] = cov["iteration_points"]
			cov["transitions"] = cov["order_alternatives"]
			cov["traces_validated_against_impl"] = cov["executions"]
			if tier == "thorough" {
				cov["order_deviation_bound"] = 2
			} else {
				cov["order_deviation_bound"] = 1
			}
		},
	})
}
