package main

// "Rendering again, in the same or another process, gives identical output": the whole corpus
// (every non-date case plus history-sensitive extras) is rendered in a fresh child process in a
// given ORDER — forward, reverse, rotations — once on a fresh engine per case and once on one shared
// engine, every template twice. Whatever the order and the process, each (template, context) must
// produce the same bytes as in the forward order. Nothing is assumed about what the bytes are, so
// the oracle has no opinion on behaviour the statement leaves open — only on its dependence on what
// else was rendered before.

import (
	"bytes"
	"crypto/sha1"
	"fmt"
	"os"
	"os/exec"
	"path/filepath"
	"strconv"
	"strings"
	"time"
	_ "time/tzdata" // zone names resolve whatever the host has installed

	"github.com/semihalev/twig"

	"verif/lib/vlib"
)

// Acct: a pointer-receiver method and a value-receiver method, reached through T and through *T
type Acct struct{ ID string }

func (a *Acct) Label() string { return "acct:" + a.ID }
func (a Acct) Plain() string  { return "plain:" + a.ID }

func againCorpus(thorough bool) []tcase {
	var cs []tcase
	for _, c := range allCases(thorough) {
		if strings.HasPrefix(c.Group, "date") || c.ptr {
			continue
		}
		cs = append(cs, c)
	}
	// history-sensitive extras
	extra := map[string]string{
		"layout":  "L[{% block b %}-{% endblock %}|{{ user }}]",
		"partx":   "{% extends 'layout' %}{% block b %}{{ a }}{{ user }}{% endblock %}",
		"leafsb":  "S({{ user }}{{ a }})",
		"midsb":   "M<{% include 'leafsb' sandboxed %}>",
		"macros":  "{% macro f(p) %}f({{ p }}{{ user }}){% endmacro %}",
		"partmac": "{% import 'macros' as mm %}{{ mm.f(a) }}",
	}
	acct := func() map[string]interface{} {
		return map[string]interface{}{"v": Acct{"v"}, "p": &Acct{"p"}, "user": "alice", "a": "A"}
	}
	empty := func() map[string]interface{} { return map[string]interface{}{} }
	// first in forward order: the value; first in reverse order: the pointer
	for _, tp := range []string{"[{{ v.Label }}]", "[{{ v.Plain }}][{{ p.Plain }}]", "[{{ v.Label }}][{{ p.Label }}]", "[{{ p.ID }}{{ v.ID }}]", "[{{ p.Label }}][{{ v.Label }}]", "[{{ p.Label }}]"} {
		cs = append(cs, tcase{Group: "again-extra", Tpl: tp, Ctx: "acct", mk: acct})
	}
	for _, tp := range []string{"{% include 'partx' %}", "{% for i in [1, 2] %}{% include 'partx' %}{% endfor %}", "{% include 'midsb' %}", "{% include 'partmac' %}", "{% include 'partx' with {'user': 'bob'} %}", "{% include 'midsb' with {'a': 'Z'} only %}"} {
		cs = append(cs, tcase{Group: "again-extra", Tpl: tp, Extra: extra, Ctx: "acct", mk: acct})
		cs = append(cs, tcase{Group: "again-extra", Tpl: tp, Extra: extra, Ctx: "empty", mk: empty})
	}
	// fully specified instants: the process's time zone must not matter
	dates := func() map[string]interface{} {
		return map[string]interface{}{
			"u":  time.Date(2024, 3, 5, 22, 30, 15, 0, time.UTC),
			"z":  time.Date(2024, 3, 5, 22, 30, 15, 0, time.FixedZone("X", 5*3600+1800)),
			"s":  "2024-03-05 22:30:15",
			"sz": "2024-03-05T22:30:15+02:00",
			"n":  1709677815,
		}
	}
	for _, v := range []string{"u", "z", "s", "sz", "n"} {
		for _, f := range []string{"Y-m-d H:i", "c", "U", "D, d M Y H:i:s O", "e T P", "jS F y g:i a"} {
			cs = append(cs, tcase{Group: "again-date", Tpl: "{{ " + v + "|date('" + f + "') }}", Ctx: "dates", mk: dates})
		}
	}
	// pointers to scalars printed where the engine writes into a buffer of its own
	ptrs := func() map[string]interface{} {
		n, st, f, b := 7, "str", 2.5, true
		return map[string]interface{}{"pi": &n, "ps": &st, "pf": &f, "pb": &b}
	}
	extra["playout"] = "L[{% block b %}{{ pi }}{{ ps }}{% endblock %}]"
	for _, tp := range []string{"{{ pi }}{{ ps }}{{ pf }}{{ pb }}", "{% apply upper %}{{ pi }}|{{ ps }}|{{ pf }}{% endapply %}", "{% extends 'playout' %}{% block b %}<{{ parent() }}>{{ pf }}{% endblock %}",
		"{% for i in [1, 2] %}{{ pi }}{% endfor %}", "{% set q %}{{ ps }}{{ pi }}{% endset %}{{ q }}", "{% macro m(p) %}({{ p }}){% endmacro %}{{ m(pi) }}{{ _self.m(ps) }}", "{% include 'leafp' %}"} {
		cs = append(cs, tcase{Group: "again-extra", Tpl: tp, Extra: extra, Ctx: "ptrs", mk: ptrs})
	}
	extra["leafp"] = "P({{ pi }}{{ ps }})"
	for _, tp := range []string{"[{{ user }}][{{ a }}][{{ v }}]", "{% include 'leafsb' %}", "{% if user is defined %}D{% else %}U{% endif %}"} {
		cs = append(cs, tcase{Group: "again-extra", Tpl: tp, Extra: extra, Ctx: "empty", mk: empty})
	}
	return cs
}

func againOrder(n, k, orders int) []int {
	idx := make([]int, n)
	switch {
	case k == 1: // reverse
		for i := range idx {
			idx[i] = n - 1 - i
		}
	default: // k == 0 forward; k >= 2: rotation
		shift := 0
		if k >= 2 {
			shift = n * (k - 1) / (orders - 1)
		}
		for i := range idx {
			idx[i] = (i + shift) % n
		}
	}
	return idx
}

func renderPlain(e *twig.Engine, name string, ctx map[string]interface{}) (out string) {
	defer func() {
		if r := recover(); r != nil {
			out = fmt.Sprintf("PANIC %v", r)
		}
	}()
	o, err := e.Render(name, ctx)
	if err != nil {
		return "ERR"
	}
	return o
}

func renderToBuf(e *twig.Engine, name string, ctx map[string]interface{}) (out string) {
	defer func() {
		if r := recover(); r != nil {
			out = fmt.Sprintf("PANIC %v", r)
		}
	}()
	var b bytes.Buffer
	if err := e.RenderTo(&b, name, ctx); err != nil {
		return "ERR"
	}
	return b.String()
}

// againChild: C03_AGAIN="<tier>:<k>:<orders>[:<zone>]" — prints "<flavour> <idx> <rep> <sha1>" lines
func againChild(spec string) {
	parts := strings.Split(spec, ":")
	if len(parts) > 3 && parts[3] != "" {
		if loc, err := time.LoadLocation(parts[3]); err == nil {
			time.Local = loc
		} else {
			fmt.Println("ZONE-UNAVAILABLE", parts[3])
			return
		}
	}
	k, _ := strconv.Atoi(parts[1])
	orders, _ := strconv.Atoi(parts[2])
	cs := againCorpus(parts[0] == "thorough")
	ord := againOrder(len(cs), k, orders)
	for _, i := range ord {
		c := cs[i]
		e := twig.New()
		for n, s := range c.Extra {
			e.RegisterString(n, s)
		}
		e.RegisterString("main", c.Tpl)
		for rep := 0; rep < 2; rep++ {
			fmt.Printf("fresh %d %d %x\n", i, rep, sha1.Sum([]byte(renderPlain(e, "main", c.mk()))))
		}
		// the same through RenderTo into a caller's buffer: must be the same bytes as Render
		fmt.Printf("to %d 0 %x\n", i, sha1.Sum([]byte(renderToBuf(e, "main", c.mk()))))
	}
	shared := twig.New()
	for _, c := range cs {
		for n, s := range c.Extra {
			shared.RegisterString(n, s)
		}
	}
	for i, c := range cs {
		shared.RegisterString(fmt.Sprintf("t%d", i), c.Tpl)
	}
	for _, i := range ord {
		for rep := 0; rep < 2; rep++ {
			fmt.Printf("shared %d %d %x\n", i, rep, sha1.Sum([]byte(renderPlain(shared, fmt.Sprintf("t%d", i), cs[i].mk()))))
		}
	}
}

func againRun(tier string, k, orders int, zone string) (map[string]string, error) {
	var file string
	if dir := vlib.Scratch(); dir != "" {
		file = filepath.Join(dir, fmt.Sprintf("c03-again-%s-%d-%s", tier, k, strings.ReplaceAll(zone, "/", "_")))
	}
	var out []byte
	if file != "" {
		if b, err := os.ReadFile(file); err == nil && strings.HasSuffix(string(b), "END\n") {
			out = b
		}
	}
	if out == nil {
		cmd := exec.Command(os.Args[0])
		cmd.Env = append(os.Environ(), fmt.Sprintf("C03_AGAIN=%s:%d:%d:%s", tier, k, orders, zone))
		b, err := cmd.Output()
		if err != nil {
			return nil, fmt.Errorf("child process for order %d failed: %v", k, err)
		}
		out = append(b, []byte("END\n")...)
		if file != "" {
			tmp := fmt.Sprintf("%s.%d", file, os.Getpid())
			if os.WriteFile(tmp, out, 0o644) == nil {
				os.Rename(tmp, file)
			}
		}
	}
	res := map[string]string{}
	for _, ln := range strings.Split(string(out), "\n") {
		f := strings.Fields(ln)
		if len(f) == 4 {
			res[f[0]+" "+f[1]+" "+f[2]] = f[3]
		}
	}
	return res, nil
}

func againCases(t *vlib.T) {
	orders := 6
	if t.Thorough() {
		orders = 12
	}
	cs := againCorpus(t.Thorough())
	type variant struct {
		name string
		k    int
		zone string
	}
	var vs []variant
	for k := 1; k < orders; k++ {
		vs = append(vs, variant{fmt.Sprintf("order%d-of-%d", k, orders), k, ""})
	}
	// the forward order in processes whose local time zone is not UTC
	for _, z := range []string{"Asia/Tokyo", "America/Los_Angeles", "Asia/Kolkata", "Pacific/Chatham"} {
		vs = append(vs, variant{"zone-" + strings.ReplaceAll(z, "/", "_"), 0, z})
	}
	for _, v := range vs {
		v := v
		t.Case("again/"+v.name, func() *vlib.Outcome {
			o := &vlib.Outcome{Nontrivial: true, Class: "again", Counters: map[string]int64{}}
			base, err := againRun(t.Tier(), 0, orders, "")
			if err != nil {
				o.Violation = err.Error()
				return o
			}
			got, err := againRun(t.Tier(), v.k, orders, v.zone)
			if err != nil {
				o.Violation = err.Error()
				return o
			}
			o.Counters["executions"] += int64(len(got))
			o.Counters["again_renders_compared"] += int64(len(got))
			if len(got) != len(base) || len(got) != 5*len(cs) {
				o.Violation = fmt.Sprintf("variant %s produced %d results, the forward order %d, expected %d", v.name, len(got), len(base), 5*len(cs))
				return o
			}
			how := fmt.Sprintf("a process that renders the corpus in order %d produces other bytes than one that renders it in forward order — the output depends on what was rendered before", v.k)
			if v.zone != "" {
				how = fmt.Sprintf("a process whose local time zone is %s produces other bytes than one whose local time zone is UTC", v.zone)
			}
			for i, c := range cs {
				first := base[fmt.Sprintf("fresh %d 0", i)]
				for _, key := range []string{fmt.Sprintf("fresh %d 0", i), fmt.Sprintf("fresh %d 1", i), fmt.Sprintf("shared %d 0", i), fmt.Sprintf("shared %d 1", i)} {
					if got[key] != base[key] || got[key] != base[key[:len(key)-1]+"0"] {
						o.Violation = fmt.Sprintf("template %q context %s (%s): %s", c.Tpl, c.Ctx, key, how)
						o.Detail = map[string]interface{}{"template": c.Tpl, "context": c.Ctx, "variant": v.name}
						return o
					}
				}
				// RenderTo into a caller's buffer must write the bytes Render returns
				if to := got[fmt.Sprintf("to %d 0", i)]; to != first {
					o.Violation = fmt.Sprintf("template %q context %s: RenderTo into a bytes.Buffer writes other bytes than Render returns (variant %s)", c.Tpl, c.Ctx, v.name)
					o.Detail = map[string]interface{}{"template": c.Tpl, "context": c.Ctx, "variant": v.name}
					return o
				}
			}
			return o
		})
	}
}
