// C08 — expressions follow the operator table and mean the same in every position.
//
// Bounded-exhaustive enumeration of well-typed expression trees (binary operators of all six
// levels, the conditional, unary minus / not, filter applications, attribute and index leaves;
// numeric strings — literals, variables and the result of `~` on integers — as operands of the
// relational operators and of == / != against integers; leaves that contain commas inside brackets:
// calls max(a, b), min(a, b, c), pick(i, a, b), indexed list and hash literals with two entries, a
// call as filter argument, one level of nesting; large integers 10^14 .. 2^53-1 — literals, variables,
// attribute / item access, results of max / min / pick and of list / hash literals, and intermediate
// results of + - * / ^ on them and on medium factors such as 2^26+1 — with every way of turning them into
// text other than the print tag: `~`, |trim, |join, |length of the spelling, directly and after set,
// array / hash element, for, include variable, function / filter / macro argument),
// each printed with several choices of parentheses (minimal per the stated table, full, maximal,
// whole-expression, and in the thorough tier every subset of the optional pairs) and of spacing,
// and placed in every syntactic position an expression can stand in. The real engine renders every
// such template; the output must equal the value a 150-line exact evaluator assigns to the tree
// (so minimal form = full form = model, in every position). Short circuit is observed through a
// harness function that logs which leaves were evaluated.
//
// Every tree is evaluated more than once with other values of its variables (worlds.go): its registered
// template is rendered again on the same engine with the contexts of up to two other "worlds", and the tree
// stands inside `{% for w in ws %}` with its variables spelled w.a, w.o.n, w.xs[1]; each evaluation must
// print the reference value for its own world. A family of one-operator trees puts a signed operand
// (unary - / + / not on a variable, attribute read, item access, parenthesised sum) on the left, on the
// right and on both sides of every binary typing next to literals and constant sub-expressions.
//
// A second family (longin.go) asks `in` / `not in` of lists with 50, 51, 60 and 100 elements (literal, range(),
// []interface{} / []int / []float64 / []string from the context) with plain and computed needles; the
// include-variables position also stands with `only` (hash form, second entry, `with k = e only`).
package main

import (
	"encoding/json"
	"fmt"
	"hash/fnv"
	"os"
	"sort"
	"strings"
	"unicode/utf8"

	"github.com/semihalev/twig"

	"verif/lib/vlib"
)

// ---- positions

// In the wrappers: \x00 = the expression, \x01 = the expression used as a condition (a conditional
// is parenthesised), \x02 = the boolean observer suffix (" ? 'T' : 'F'", empty for values),
// \x03 = optional space, \x04 = mandatory space, \x05 = padding inside parentheses (wide spacing only),
// \x06 = the expected value (routes only).
type position struct {
	name  string
	tmpl  string
	sub   string // name of an auxiliary template the wrapper includes
	types string // expression types the position applies to: i s b l (a large integer g counts as i)
	// route: the position turns the value into text by something other than the print tag (`~`, a
	// filter, join) after it has passed through the syntactic position; integers and strings only
	route bool
	body  string // body of the auxiliary template when it is not the plain `{{ k }}`
	// small: the position runs in the classes up to two operators and in the families only
	small bool
}

const (
	macroV = "{% macro m(p) %}{{ p }}{% endmacro %}"
	macroB = "{% macro m(p) %}{{ p ? 'T' : 'F' }}{% endmacro %}"
	macroC = "{% macro m(p) %}{{ p ~ '' }}{% endmacro %}"
)

var positions = []position{
	{name: "print", tmpl: "{{\x03\x01\x02\x03}}", types: "isb"},
	{name: "if", tmpl: "{%\x04if\x04\x00\x04%}T{%\x04else\x04%}F{%\x04endif\x04%}", types: "b"},
	{name: "elseif", tmpl: "{%\x04if\x04f\x04%}x{%\x04elseif\x04\x00\x04%}T{%\x04else\x04%}F{%\x04endif\x04%}", types: "b"},
	{name: "set", tmpl: "{%\x04set\x04q\x03=\x03\x00\x04%}{{ q\x02 }}", types: "isb"},
	{name: "for", tmpl: "{%\x04for\x04q\x04in\x04[\x03\x00\x03]\x04%}{{ q\x02 }}{%\x04endfor\x04%}", types: "isb"},
	{name: "include", tmpl: "{%\x04include\x04'p'\x04with\x04{\x03'k'\x03:\x03\x00\x03}\x04%}", sub: "p", types: "isb"},
	{name: "include-1st-key", tmpl: "{%\x04include\x04'p'\x04with\x04{\x03'k'\x03:\x03\x00\x03,\x03'j'\x03:\x030\x03}\x04%}", sub: "p", types: "isb"},
	{name: "include-2nd-key", tmpl: "{%\x04include\x04'p'\x04with\x04{\x03'j'\x03:\x030\x03,\x03'k'\x03:\x03\x00\x03}\x04%}", sub: "p", types: "isb"},
	{name: "filter-arg", tmpl: "{{\x03null|default(\x03\x00\x03)\x02\x03}}", types: "isb"},
	{name: "function-arg", tmpl: "{{\x03id(\x03\x00\x03)\x02\x03}}", types: "isb"},
	{name: "macro-arg-self", tmpl: "M{{\x03_self.m(\x03\x00\x03)\x03}}", types: "isb"},
	{name: "macro-arg", tmpl: "M{{\x03m(\x03\x00\x03)\x03}}", types: "isb"},
	{name: "array", tmpl: "{{\x03[\x030\x03,\x03\x00\x03][\x031\x03]\x02\x03}}", types: "isb"},
	{name: "hash", tmpl: "{{ {\x03'k'\x03:\x03\x00\x03}[\x03'k'\x03]\x02\x03}}", types: "isb"},
	{name: "index", tmpl: "{{\x03seq[\x03\x00\x03]\x03}}", types: "i"},
	// the same three behind a 4100-byte comment: templates above 4096 bytes are lexed by another routine
	{name: "print-long", tmpl: "L{{\x03\x01\x02\x03}}", types: "isb"},
	{name: "if-long", tmpl: "L{%\x04if\x04\x00\x04%}T{%\x04else\x04%}F{%\x04endif\x04%}", types: "b"},
	{name: "set-long", tmpl: "L{%\x04set\x04q\x03=\x03\x00\x04%}{{ q\x02 }}", types: "isb"},
	{name: "for-seq", tmpl: "{%\x04for\x04q\x04in\x04\x00\x04%}{{ q }},{%\x04endfor\x04%}", types: "l"},
	{name: "set-list", tmpl: "{%\x04set\x04q\x03=\x03\x00\x04%}{% for r in q %}{{ r }},{% endfor %}", types: "l"},
	{name: "include-list", tmpl: "{%\x04include\x04'p'\x04with\x04{\x03'k'\x03:\x03\x00\x03}\x04%}", sub: "p", types: "l"},
	// stringification routes: the value is spelled by `~`, |trim, |join or |length of its spelling instead
	// of the print tag, directly and after each way of handing it on (set, array / hash element, for,
	// include variable, function / filter / macro argument)
	{name: "concat-right", tmpl: "{{\x03(\x05\x00\x05)\x03~\x03''\x03}}", types: "is", route: true},
	{name: "concat-left", tmpl: "{{\x03''\x03~\x03(\x05\x00\x05)\x03}}", types: "is", route: true},
	{name: "trim", tmpl: "{{\x03(\x05\x00\x05)|trim\x03}}", types: "is", route: true},
	{name: "spelling-length", tmpl: "{{\x03((\x05\x00\x05)\x03~\x03'')|length\x03}}", types: "is", route: true},
	{name: "set-concat", tmpl: "{%\x04set\x04q\x03=\x03\x00\x04%}{{ q ~ '' }}", types: "is", route: true},
	{name: "array-join", tmpl: "{{\x03[\x030\x03,\x03\x00\x03]|join(',')\x03}}", types: "is", route: true},
	{name: "hash-concat", tmpl: "{{ {\x03'k'\x03:\x03\x00\x03}[\x03'k'\x03]\x03~\x03''\x03}}", types: "is", route: true},
	{name: "for-concat", tmpl: "{%\x04for\x04q\x04in\x04[\x03\x00\x03]\x04%}{{ q ~ '' }}{%\x04endfor\x04%}", types: "is", route: true},
	{name: "include-concat", tmpl: "{%\x04include\x04'p'\x04with\x04{\x03'k'\x03:\x03\x00\x03}\x04%}", sub: "p", body: "{{ k ~ '' }}", types: "is", route: true},
	{name: "function-concat", tmpl: "{{\x03id(\x05\x00\x05)\x03~\x03''\x03}}", types: "is", route: true},
	{name: "default-concat", tmpl: "{{\x03null|default(\x05\x00\x05)\x03~\x03''\x03}}", types: "is", route: true},
	{name: "macro-concat", tmpl: "C{{\x03m(\x05\x00\x05)\x03}}", types: "is", route: true},
	{name: "if-spelling", tmpl: "{%\x04if\x04(\x05\x00\x05)\x03~\x03''\x03==\x03'\x06'\x04%}T{%\x04else\x04%}F{%\x04endif\x04%}", types: "is", route: true},
	// the include-variables position crossed with `only` (added after seeded change C08-J): the included
	// template sees nothing but k, yet the expression is the caller's — it reads the caller's variables (and,
	// in the loop form, the loop variable w) and must have the value it has in a print tag. Hash form as sole
	// and as second entry, the name = value form of this grammar, list values, and the `~` route behind it.
	{name: "include-only", tmpl: "{%\x04include\x04'p'\x04with\x04{\x03'k'\x03:\x03\x00\x03}\x04only\x04%}", sub: "p", types: "isb"},
	{name: "include-only-2nd-key", tmpl: "{%\x04include\x04'p'\x04with\x04{\x03'j'\x03:\x030\x03,\x03'k'\x03:\x03\x00\x03}\x04only\x04%}", sub: "p", types: "isb", small: true},
	{name: "include-assign-only", tmpl: "{%\x04include\x04'p'\x04with\x04k\x03=\x03\x00\x04only\x04%}", sub: "p", types: "isb", small: true},
	{name: "include-list-only", tmpl: "{%\x04include\x04'p'\x04with\x04{\x03'k'\x03:\x03\x00\x03}\x04only\x04%}", sub: "p", types: "l"},
	{name: "include-only-concat", tmpl: "{%\x04include\x04'p'\x04with\x04{\x03'k'\x03:\x03\x00\x03}\x04only\x04%}", sub: "p", body: "{{ k ~ '' }}", types: "is", route: true},
}

var forSeq = func() *position {
	for i := range positions {
		if positions[i].name == "for-seq" {
			return &positions[i]
		}
	}
	panic("for-seq")
}()

// few = the positions used for the largest trees
var fewPositions = map[string]bool{"print": true, "if": true, "set": true, "for-seq": true, "print-long": true}

var longComment = "{#" + strings.Repeat("x", 4100) + "#}"

type rendering struct {
	src string
	sub map[string]string
}

func build(pos *position, in *inst, st style, want string) rendering {
	e, _ := in.print(st)
	typ := in.root.typ
	cond := e
	if in.root.kind == 'c' && st.par != parMax && st.par != parRoot {
		cond = "(" + e + ")"
	}
	q := ""
	if typ == 'b' {
		q = [3]string{" ? 'T' : 'F'", "?'T':'F'", "  ?  'T'  :  'F'"}[st.sp]
	} else {
		cond = e
	}
	opt := [3]string{" ", "", "  "}[st.sp]
	man := [3]string{" ", " ", "  "}[st.sp]
	s, pre := pos.tmpl, ""
	switch s[0] {
	case 'M':
		pre, s = macroV, s[1:]
		if typ == 'b' {
			pre = macroB
		}
	case 'L':
		pre, s = longComment, s[1:]
	case 'C':
		pre, s = macroC, s[1:]
	}
	if st.loop {
		// the whole position once per world: `in` is spelled with the variables as attributes of w
		s = "{% for w in ws %}" + s + ";{% endfor %}"
	}
	s = pre + s
	s = strings.NewReplacer("\x00", e, "\x01", cond, "\x02", q, "\x03", opt, "\x04", man, "\x05", [3]string{"", "", "  "}[st.sp], "\x06", want).Replace(s)
	if st.sp == spTight {
		// a delimiter must not fuse with the expression into another lexeme
		s = strings.ReplaceAll(s, "{{-", "{{ -")
		s = strings.ReplaceAll(s, "{{{", "{{ {")
		s = strings.ReplaceAll(s, "}}}", "} }}")
	}
	r := rendering{src: s}
	if pos.sub != "" {
		body := "{{ k }}"
		if typ == 'b' {
			body = "{{ k ? 'T' : 'F' }}"
		} else if typ == 'l' {
			body = "{% for r in k %}{{ r }},{% endfor %}"
		}
		if pos.body != "" {
			body = pos.body
		}
		r.sub = map[string]string{pos.sub: body}
	}
	return r
}

// expectedIn: what the position prints for the value v of one evaluation. first = the value of the first
// evaluation (the if-spelling route has its spelling in the template); w = the world of the evaluation;
// loop = the evaluation is one pass of `{% for w in ws %}` (the wrapper's own variables are then world 0's).
func expectedIn(pos *position, v, first val, w world, loop bool) (string, bool) {
	switch pos.name {
	case "if-spelling":
		// `(e) ~ '' == '<spelling of the first evaluation>'`: T when the spellings are the same. When they
		// differ it is F if both are integers in canonical spelling within +-2^53 (numeric comparison) or
		// one of them cannot be read as a number at all (it has a letter); two different digit strings
		// beyond 2^53, or '2-4' against '23', are not determined by the statement: no value, not rendered
		x, y := v.String(), first.String()
		if x == y {
			return "T", true
		}
		_, xn := numeric(sv(x))
		_, yn := numeric(sv(y))
		if (xn && yn) || hasLetter(x) || hasLetter(y) {
			return "F", true
		}
		return "", false
	case "elseif":
		if w.f && !loop {
			return "x", true // `{% if f %}x{% elseif … %}`: the wrapper's first condition holds in this world
		}
	}
	return expected(pos, v)
}

// hasLetter: the text contains a letter that no spelling of a number contains
func hasLetter(s string) bool {
	for i := 0; i < len(s); i++ {
		c := s[i] | 0x20
		if c >= 'a' && c <= 'z' && c != 'e' && c != 'x' {
			return true
		}
	}
	return false
}

func expected(pos *position, v val) (string, bool) {
	if pos.name == "index" {
		if v.i < 0 || v.i > 9 {
			return "", false
		}
		return fmt.Sprint(100 + v.i), true
	}
	switch pos.name {
	case "spelling-length":
		return fmt.Sprint(utf8.RuneCountInString(v.String())), true
	case "array-join":
		return "0," + v.String(), true
	case "if-spelling":
		return "T", true
	}
	return v.String(), true
}

// posType: the position type of an expression type (a large integer is an integer)
func posType(t byte) rune {
	if t == 'g' || t == 'm' {
		return 'i'
	}
	return rune(t)
}

// ---- running twig

func goValue(v val) interface{} {
	switch v.t {
	case 'i':
		return int(v.i)
	case 'b':
		return v.b
	case 's':
		return v.s
	case 'L':
		out := make([]interface{}, len(v.ls))
		for i, x := range v.ls {
			out[i] = x
		}
		return out
	}
	out := make([]interface{}, len(v.l))
	for i, x := range v.l {
		out[i] = int(x)
	}
	return out
}

// render registers the templates on a fresh engine and renders "main" once per context, in order, on that
// one engine (the second and later renders evaluate the cached nodes again). leaves[i] are the values the
// logging function k(j) hands out during render i.
func render(r rendering, leaves [][]leaf, ctxs []map[string]interface{}) (res []string, traces [][]int) {
	res = make([]string, len(ctxs))
	traces = make([][]int, len(ctxs))
	all := func(s string) {
		for i := range res {
			res[i] = s
		}
	}
	defer func() {
		if p := recover(); p != nil {
			all(fmt.Sprintf("PANIC: %v", p))
		}
	}()
	e := twig.New()
	e.AddFunction("id", func(args ...interface{}) (interface{}, error) {
		if len(args) != 1 {
			return nil, fmt.Errorf("id: %d arguments", len(args))
		}
		return args[0], nil
	})
	// pick(i, x0, x1, ...) = x_i: the harness function of the comma-containing leaves
	e.AddFunction("pick", func(args ...interface{}) (interface{}, error) {
		if len(args) < 3 {
			return nil, fmt.Errorf("pick: %d arguments", len(args))
		}
		i := -1
		switch x := args[0].(type) {
		case int:
			i = x
		case int64:
			i = int(x)
		case float64:
			if x == float64(int(x)) {
				i = int(x)
			}
		}
		if i < 0 || i+1 >= len(args) {
			return nil, fmt.Errorf("pick: bad index %v with %d arguments", args[0], len(args))
		}
		return args[i+1], nil
	})
	seen := map[int]bool{}
	var cur []leaf
	e.AddFunction("k", func(args ...interface{}) (interface{}, error) {
		if len(args) != 1 {
			return nil, fmt.Errorf("k: %d arguments", len(args))
		}
		o := -1
		switch x := args[0].(type) {
		case int:
			o = x
		case float64:
			o = int(x)
		}
		if o < 0 || o >= len(cur) {
			return nil, fmt.Errorf("k: bad ordinal %v", args[0])
		}
		seen[o] = true
		return goValue(cur[o].v), nil
	})
	for n, s := range r.sub {
		if err := e.RegisterString(n, s); err != nil {
			all("ERR(aux): " + err.Error())
			return
		}
	}
	if err := e.RegisterString("main", r.src); err != nil {
		all("ERR(parse): " + err.Error())
		return
	}
	for i, ctx := range ctxs {
		cur = nil
		if i < len(leaves) {
			cur = leaves[i]
		}
		for o := range seen {
			delete(seen, o)
		}
		func() {
			defer func() {
				if p := recover(); p != nil {
					res[i] = fmt.Sprintf("PANIC: %v", p)
				}
			}()
			out, err := e.Render("main", ctx)
			if err != nil {
				res[i] = "ERR(render): " + err.Error()
				return
			}
			res[i] = out
			for o := range seen {
				traces[i] = append(traces[i], o)
			}
			sort.Ints(traces[i])
		}()
	}
	return
}

// renderEvals: the template of the tree in (position, style), registered once and rendered once per
// evaluation; oks[i] is false (and nothing is rendered) where the position has no value for evaluation i
// (`seq[e]` with e outside 0..9).
func renderEvals(pos *position, st style, evs []evaluation) (r rendering, outs, wants []string, oks []bool) {
	r = build(pos, evs[0].in, st, evs[0].v.String())
	outs, wants, oks = make([]string, len(evs)), make([]string, len(evs)), make([]bool, len(evs))
	var leaves [][]leaf
	var ctxs []map[string]interface{}
	var idx []int
	for i, ev := range evs {
		wants[i], oks[i] = expectedIn(pos, ev.v, evs[0].v, worlds[ev.w], false)
		if oks[i] {
			leaves = append(leaves, ev.in.leaves)
			ctxs = append(ctxs, contextOf(worlds[ev.w]))
			idx = append(idx, i)
		}
	}
	res, _ := render(r, leaves, ctxs)
	for j, i := range idx {
		outs[i] = res[j]
	}
	return
}

// renderLoop: the position inside `{% for w in ws %}`, ws = the contexts of the evaluations the position
// has a value for (n of them; nothing is rendered when n < 2); want = the values, each followed by `;`.
func renderLoop(pos *position, st style, evs []evaluation) (r rendering, out, want string, n int) {
	st.loop = true
	var ws []interface{}
	for _, ev := range evs {
		x, ok := expectedIn(pos, ev.v, evs[0].v, worlds[ev.w], true)
		if ok {
			ws = append(ws, contextOf(worlds[ev.w]))
			want += x + ";"
			n++
		}
	}
	if n < 2 {
		return
	}
	r = build(pos, evs[0].in.inWorld(evs[0].w, true), st, evs[0].v.String())
	ctx := contextOf(worlds[0])
	ctx["ws"] = ws
	res, _ := render(r, nil, []map[string]interface{}{ctx})
	return r, res[0], want, n
}

// ---- the enumeration

type class struct {
	k, u  int
	core  bool // only the core operators
	nsRep bool // of the numeric-string typings only the representatives (see genMode)
	few   bool // only print / if / set
	mid   bool // five parenthesis/spacing combinations instead of eight
	rots  int  // how many leaf rotations to run (best first)
	twin  bool // with rots = 1: also the best rotation of the other half (plain <-> comma leaves) in one style
	cross bool // every parenthesis style x every spacing, plus all optional-parenthesis subsets
	big   byte // large-integer typings: 0 all, 1 the representatives, 2 none (see genMode)
	// routes: the stringification routes for every integer- or string-valued tree of the class; without
	// it only for the trees in which a large integer occurs (leaf or intermediate result)
	routes bool
}

func classes(thorough bool) []class {
	if thorough {
		return []class{
			{k: 0, u: 0, rots: 12, cross: true, routes: true},
			{k: 0, u: 1, rots: 12, cross: true, routes: true}, {k: 1, u: 0, rots: 12, cross: true, routes: true},
			{k: 0, u: 2, rots: 12, cross: true, routes: true}, {k: 1, u: 1, rots: 12, cross: true, routes: true}, {k: 2, u: 0, rots: 12, cross: true, routes: true},
			{k: 1, u: 2, rots: 2, cross: true, big: 1}, {k: 2, u: 1, rots: 2, cross: true, big: 1},
			{k: 3, u: 0, rots: 2, cross: true, big: 1},
			{k: 2, u: 2, rots: 1, few: true, nsRep: true, big: 2}, {k: 3, u: 1, rots: 1, few: true, nsRep: true, big: 2},
			{k: 4, u: 0, rots: 1, few: true, nsRep: true, big: 2},
		}
	}
	return []class{
		{k: 0, u: 0, rots: 12, routes: true},
		{k: 0, u: 1, rots: 12, routes: true}, {k: 1, u: 0, rots: 12, routes: true},
		{k: 0, u: 2, rots: 3, routes: true}, {k: 1, u: 1, rots: 3, routes: true}, {k: 2, u: 0, rots: 3, routes: true},
		{k: 2, u: 1, rots: 1, mid: true, twin: true, big: 2},
		{k: 3, u: 0, rots: 1, mid: true, twin: true, big: 2},
	}
}

func (c class) mode() genMode { return genMode{core: c.core, nsRep: c.nsRep, big: c.big} }

func (c class) String() string {
	s := fmt.Sprintf("k%du%d", c.k, c.u)
	if c.core {
		s += "core"
	}
	return s
}

var rootTypes = []byte{'i', 'b', 's', 'l', 'g'}

func styles(c class, nopt uint, reduced, tight bool) []style {
	var out []style
	if reduced {
		if tight {
			return []style{{par: parMin, sp: spTight}}
		}
		return []style{{par: parMin, sp: spNormal}}
	}
	if c.cross {
		for _, par := range []int{parMin, parFull, parMax, parRoot} {
			for _, sp := range []int{spNormal, spTight, spWide} {
				out = append(out, style{par: par, sp: sp})
			}
		}
		// every proper, non-empty subset of the optional pairs (empty = min, all = full)
		if nopt >= 2 && nopt <= 4 {
			for m := uint(1); m < (1<<nopt)-1; m++ {
				out = append(out, style{par: parMask, mask: m, sp: spNormal})
			}
		}
		return out
	}
	if c.few {
		return []style{{par: parMin, sp: spNormal}, {par: parMin, sp: spTight}, {par: parFull, sp: spNormal}, {par: parRoot, sp: spWide}}
	}
	if c.mid {
		return []style{{par: parMin, sp: spNormal}, {par: parMin, sp: spTight}, {par: parMin, sp: spWide}, {par: parFull, sp: spNormal}, {par: parRoot, sp: spNormal}}
	}
	return []style{
		{par: parMin, sp: spNormal}, {par: parMin, sp: spTight}, {par: parMin, sp: spWide},
		{par: parFull, sp: spNormal}, {par: parFull, sp: spTight},
		{par: parMax, sp: spNormal}, {par: parMax, sp: spWide},
		{par: parRoot, sp: spNormal},
	}
}

var tables = perturbedTables()
var stated = trueTable()

// analyse: how many perturbed readings of the minimal form are structurally different from the
// tree, and how many of those also have a different value (or none).
func analyse(in *inst, want val) (structural, distinguished int, names []string) {
	src, _ := in.print(style{par: parMin, sp: spNormal})
	own := in.canon()
	for _, tb := range tables {
		n, err := parseWith(src, tb, in.leaves)
		if err == nil && parsedCanon(n) == own {
			continue
		}
		structural++
		if err == nil {
			if v, e2 := evalParsed(n); e2 == nil && v.eq(want) {
				continue
			}
		}
		distinguished++
		names = append(names, tb.name)
	}
	return
}

type candidate struct {
	rot        int
	in         *inst
	v          val
	trace      []int
	structural int
	dist       int
	commas     int  // leaves whose spelling contains a comma inside brackets
	large      bool // an integer leaf or intermediate result of magnitude >= 10^14 occurs
	reduced    bool // the twin of a single-rotation class: one style only, min/normal or min/tight
	tight      bool // with reduced: min/tight instead of min/normal (alternates with the skeleton)
}

// allCandidates: the well-defined, distinct leaf assignments of the skeleton in rotation order.
func allCandidates(sk *node) []candidate {
	var cs []candidate
	seen := map[string]bool{}
	for r := 0; r < nRot; r++ {
		in := instantiate(sk, r)
		if !in.wellDefined() {
			continue
		}
		c := in.canon()
		if seen[c] {
			continue
		}
		seen[c] = true
		v, tr, err := in.value()
		if err != nil {
			continue
		}
		st, d, _ := analyse(in, v)
		cd := candidate{rot: r, in: in, v: v, trace: tr, structural: st, dist: d, large: in.maxMagnitude() >= large}
		for _, l := range in.leaves {
			if l.comma {
				cd.commas++
			}
		}
		cs = append(cs, cd)
	}
	return cs
}

// ranked: the most discriminating first; among equals rotations 6-11 (the int / bool / string leaves
// are the comma-containing ones) before 0-5 when commaFirst, else in rotation order.
func ranked(all []candidate, commaFirst bool) []candidate {
	cs := make([]candidate, 0, len(all))
	if commaFirst {
		for _, c := range all {
			if c.rot >= nRot/2 {
				cs = append(cs, c)
			}
		}
		for _, c := range all {
			if c.rot < nRot/2 {
				cs = append(cs, c)
			}
		}
	} else {
		cs = append(cs, all...)
	}
	sort.SliceStable(cs, func(i, j int) bool { return cs[i].dist > cs[j].dist })
	return cs
}

// chooseRotations: the `want` best leaf assignments. Which half of the rotations wins the ties
// alternates with the skeleton (a hash of its key), so that plain and comma-containing leaves both
// occur throughout a class that runs a single rotation; with two or more rotations at least one has a
// comma-containing leaf and at least one has none (when such assignments exist); with twin, the best
// assignment of the other half is added in one style (min/normal or min/tight, by another bit of the
// hash; both styles until the large-integer dimension was added — the thorough tier runs both kinds of
// leaves in every style).
func chooseRotations(sk *node, key string, want int, twin bool) []candidate {
	all := allCandidates(sk)
	h := fnv.New32a()
	h.Write([]byte(key))
	hs := h.Sum32()
	commaFirst := hs&1 == 1
	cs := ranked(all, commaFirst)
	if len(cs) <= want {
		return cs
	}
	rest := cs[want:]
	cs = cs[:want:want]
	if want >= 2 {
		has := func(comma bool) bool {
			for _, c := range cs {
				if (c.commas > 0) == comma {
					return true
				}
			}
			return false
		}
		for _, comma := range []bool{true, false} {
			if has(comma) {
				continue
			}
			for _, c := range rest {
				if (c.commas > 0) == comma {
					cs[want-1] = c
					break
				}
			}
		}
	}
	if twin {
		other := ranked(all, !commaFirst)
		for _, c := range other {
			dup := false
			for _, x := range cs {
				if x.rot == c.rot {
					dup = true
				}
			}
			if !dup && (c.commas > 0) != (cs[0].commas > 0) {
				c.reduced = true
				c.tight = hs&2 == 2
				cs = append(cs, c)
				break
			}
		}
	}
	return cs
}

func valueClass(v val) string {
	switch v.t {
	case 'i':
		if v.i >= -20 && v.i <= 20 {
			return fmt.Sprintf("i:%d", v.i)
		}
		sign := "+"
		if v.i < 0 {
			sign = "-"
		}
		return fmt.Sprintf("i:%s%ddigits", sign, len(fmt.Sprint(v.i))-len(sign)+1)
	case 's':
		if len(v.s) <= 4 {
			return "s:" + v.s
		}
		return fmt.Sprintf("s:len%d", len(v.s))
	}
	return string(v.t) + ":" + v.String()
}

type mismatch struct {
	Expr     string            `json:"expression"`
	Value    string            `json:"model_value"`
	Style    string            `json:"style"`
	Position string            `json:"position"`
	Template string            `json:"template"`
	Aux      map[string]string `json:"aux_templates,omitempty"`
	Got      string            `json:"got"`
	Want     string            `json:"want"`
	// Evaluation: which evaluation of the expression differs, when it is not the first render in world W0
	Evaluation string `json:"evaluation,omitempty"`
}

// again: how many further worlds every tree is evaluated in after its first (worlds.go)
const again = 2

// loopWide: the class runs the loop form in every non-route position and three (thorough: twelve) styles;
// the other classes in print / print-long / if / set / for-seq and the minimal form only
func (c class) loopWide() bool { return c.k+c.u <= 2 || c.cross }

func loopStyles(c class, cd candidate) []style {
	switch {
	case cd.reduced:
		return styles(c, 0, true, cd.tight)
	case c.cross && c.k+c.u <= 2:
		var out []style
		for _, par := range []int{parMin, parFull, parMax, parRoot} {
			for _, sp := range []int{spNormal, spTight, spWide} {
				out = append(out, style{par: par, sp: sp})
			}
		}
		return out
	case c.loopWide():
		return []style{{par: parMin, sp: spNormal}, {par: parMin, sp: spTight}, {par: parFull, sp: spWide}}
	}
	return []style{{par: parMin, sp: spNormal}}
}

func againNote(i, n int, ev evaluation) string {
	return fmt.Sprintf("render %d of %d of the same registered template on one engine, with %s", i+1, n, worlds[ev.w].describe())
}

func loopNote(evs []evaluation) string {
	var d []string
	for _, ev := range evs {
		d = append(d, worlds[ev.w].describe())
	}
	return "one render; ws = the contexts of " + strings.Join(d, "; ") + " (passes for which the position has no value are left out)"
}

func runCase(sk *node, key string, c class) *vlib.Outcome {
	o := &vlib.Outcome{Counters: map[string]int64{}}
	cands := chooseRotations(sk, key, c.rots, c.twin)
	if len(cands) == 0 {
		o.Class = "no-well-defined-leaf-assignment"
		o.Counters["skeletons_without_well_defined_leaves"] = 1
		return o
	}
	var bad []mismatch
	unexplained, kf1, kf2 := 0, 0, 0
	var classes []string
	for _, cd := range cands {
		in := cd.in
		o.Counters["trees"]++
		if cd.commas > 0 {
			o.Counters["trees_with_comma_leaves"]++
		}
		if cd.large {
			o.Counters["trees_with_large_integers"]++
		}
		if in.root.nops >= 2 && cd.dist > 0 {
			o.Nontrivial = true
			o.Counters["trees_telling_the_table_from_a_wrong_one"]++
			if cd.dist == cd.structural {
				o.Counters["trees_telling_it_from_every_applicable_wrong_table"]++
			}
		}
		classes = append(classes, in.root.op+"→"+valueClass(cd.v))
		// the further evaluations of the same nodes: world 0 first, then up to `again` other worlds
		evs := chooseWorlds(in, []int{0}, corpusOrder, 1+again)
		if len(evs) >= 2 {
			o.Counters["trees_evaluated_again_with_other_values"]++
			if valueChanges(evs) {
				o.Counters["trees_whose_value_changes_between_evaluations"]++
			}
		}
		// renders on one engine: all of them in the classes up to two operators, the first two beyond
		// (the loop form and the traced renders take all three)
		revs := evs
		if c.k+c.u > 2 && len(revs) > 2 {
			revs = revs[:2]
		}
		_, nopt := in.print(style{par: parMin})
		kfApplies := in.hasUnaryOnIndex()
		negZeroOut, negZeroApplies := in.negativeZeroQuirk()
		for _, st := range styles(c, nopt, cd.reduced, cd.tight) {
			// printer self-test: the printed form read with the stated table is the tree itself
			src, _ := in.print(st)
			pn, err := parseWith(src, stated, in.leaves)
			o.Counters["printer_roundtrips"]++
			if err != nil || parsedCanon(pn) != in.canon() {
				o.Violation = fmt.Sprintf("HARNESS SELF-TEST (not a twig defect): %q printed as %q [%v] does not read back as itself (%v)", in.canon(), src, st, err)
				return o
			}
			for pi := range positions {
				pos := &positions[pi]
				if !strings.ContainsRune(pos.types, posType(in.root.typ)) || (c.few && !fewPositions[pos.name]) || (pos.small && c.k+c.u > 2) {
					continue
				}
				if pos.route && !c.routes && !cd.large {
					continue
				}
				want, ok := expected(pos, cd.v)
				if !ok {
					continue
				}
				revs := revs
				if c.k+c.u > 2 && (st.sp != spNormal || st.par == parRoot || st.par == parMask) {
					// beyond two operators the tight, wide, whole-expression and subset forms are rendered once
					// (the tight form until the `only` positions and the long-haystack family were added:
					// re-evaluation is about values, min/normal and full/normal carry it)
					revs = revs[:1]
				}
				r, outs, wants, oks := renderEvals(pos, st, revs)
				got := outs[0]
				o.Counters["renders"]++
				for i := 1; i < len(revs); i++ {
					if !oks[i] {
						continue
					}
					o.Counters["renders_again_on_the_same_engine"]++
					if outs[i] != wants[i] {
						unexplained++
						if len(bad) < 40 {
							bad = append(bad, mismatch{in.canon(), evs[i].v.String(), st.String(), pos.name, show(r.src), r.sub, outs[i], wants[i], againNote(i, len(revs), revs[i])})
						}
					}
				}
				if cd.commas > 0 {
					o.Counters["renders_with_comma_leaves"]++
				}
				if cd.large {
					o.Counters["renders_with_large_integers"]++
				}
				if pos.route {
					o.Counters["renders_through_stringification_routes"]++
					if cd.large {
						o.Counters["renders_of_large_integers_through_stringification_routes"]++
					}
				}
				if got == want {
					continue
				}
				explained := false
				if kfApplies && st.par != parMax {
					qs := st
					qs.quirk = true
					qres, _ := render(build(pos, in, qs, cd.v.String()), [][]leaf{in.leaves}, []map[string]interface{}{context()})
					explained = qres[0] == got
					if explained {
						kf1++
					}
				}
				if !explained && negZeroApplies && pos.name != "index" && got == negZeroOut {
					explained = true
					kf2++
				}
				if !explained {
					unexplained++
				}
				if len(bad) < 40 && (!explained || unexplained == 0) {
					bad = append(bad, mismatch{in.canon(), cd.v.String(), st.String(), pos.name, show(r.src), r.sub, got, want, ""})
				}
			}
		}
		// the same tree inside a loop over the worlds
		if len(evs) >= 2 {
			for _, st := range loopStyles(c, cd) {
				for pi := range positions {
					pos := &positions[pi]
					if pos.route || !strings.ContainsRune(pos.types, posType(in.root.typ)) || (!c.loopWide() && !fewPositions[pos.name]) || (pos.small && c.k+c.u > 2) {
						continue
					}
					r, out, want, n := renderLoop(pos, st, evs)
					if n < 2 {
						continue
					}
					o.Counters["loop_renders"]++
					o.Counters["evaluations_inside_loops"] += int64(n)
					if out != want {
						unexplained++
						if len(bad) < 40 {
							st.loop = true
							bad = append(bad, mismatch{in.canon(), want, st.String(), pos.name, show(r.src), r.sub, out, want, loopNote(evs)})
						}
					}
				}
			}
		}
		// short circuit / one branch: which leaves were evaluated
		if in.hasShortCircuit() {
			for _, par := range []int{parMin, parFull} {
				st := style{par: par, sp: spNormal, traced: true}
				tp := &positions[0]
				if in.root.typ == 'l' {
					tp = forSeq
				}
				r := build(tp, in, st, "")
				var tl [][]leaf
				var tc []map[string]interface{}
				for _, ev := range evs {
					tl, tc = append(tl, ev.in.leaves), append(tc, contextOf(worlds[ev.w]))
				}
				res, trs := render(r, tl, tc)
				got, tr := res[0], trs[0]
				o.Counters["traced_renders"]++
				o.Counters["renders"]++
				for i := 1; i < len(evs); i++ {
					o.Counters["traced_renders_again_on_the_same_engine"]++
					if res[i] != evs[i].v.String() || fmt.Sprint(trs[i]) != fmt.Sprint(evs[i].trace) {
						unexplained++
						bad = append(bad, mismatch{in.canon(), evs[i].v.String(), st.String(), "print (leaves are calls k(i) that log i)", show(r.src), nil,
							fmt.Sprintf("%s, evaluated leaves %v", res[i], trs[i]), fmt.Sprintf("%s, evaluated leaves %v", evs[i].v.String(), evs[i].trace), againNote(i, len(evs), evs[i])})
					}
				}
				if got != cd.v.String() || fmt.Sprint(tr) != fmt.Sprint(cd.trace) {
					if negZeroApplies && got == negZeroOut && fmt.Sprint(tr) == fmt.Sprint(cd.trace) {
						kf2++ // KF-C08-2 also shows when the leaves are function calls
					} else {
						unexplained++
					}
					bad = append(bad, mismatch{in.canon(), cd.v.String(), st.String(), "print (leaves are calls k(i) that log i)", show(r.src), nil,
						fmt.Sprintf("%s, evaluated leaves %v", got, tr), fmt.Sprintf("%s, evaluated leaves %v", cd.v.String(), cd.trace), ""})
				}
			}
		}
	}
	sort.Strings(classes)
	o.Class = classes[0]
	if len(bad) == 0 {
		return o
	}
	report(o, bad)
	if unexplained == 0 {
		// vlib accepts one id per case; name the finding that explains most of the differing renders
		o.Known = "KF-C08-1"
		if kf2 > kf1 {
			o.Known = "KF-C08-2"
		}
	}
	return o
}

// report: the violation message and the replay detail for the differing renders of a case
func report(o *vlib.Outcome, bad []mismatch) {
	b := bad[0]
	perPos := map[string]int{}
	for _, m := range bad {
		perPos[m.Position+" "+m.Style]++
	}
	var pp []string
	for k := range perPos {
		pp = append(pp, k)
	}
	sort.Strings(pp)
	if len(pp) > 12 {
		pp = append(pp[:12], "…")
	}
	ev := ""
	if b.Evaluation != "" {
		ev = " (" + b.Evaluation + ")"
	}
	// the message abbreviates the list literals of 50 .. 100 elements; the replay detail has the exact templates
	o.Violation = fmt.Sprintf("expression %s has value %q, template %q%s must render %q but renders %q [%s, %s]%s; %d differing renders of this tree: %s",
		hayAbbrev.Replace(b.Expr), b.Value, hayAbbrev.Replace(b.Template), auxString(b.Aux), b.Want, b.Got, b.Position, b.Style, ev, len(bad), strings.Join(pp, ", "))
	d, _ := json.Marshal(bad)
	o.Detail = json.RawMessage(d)
}

// ---- the signed-operand family: one case = one (binary typing, side, signed form); see worlds.go

func signedStyles(thorough bool) []style {
	if thorough {
		var out []style
		for _, par := range []int{parMin, parFull, parMax, parRoot} {
			for _, sp := range []int{spNormal, spTight, spWide} {
				out = append(out, style{par: par, sp: sp})
			}
		}
		return out
	}
	return []style{{par: parMin, sp: spNormal}, {par: parMin, sp: spTight}, {par: parFull, sp: spWide}}
}

// runFamily: a case of the signed-operand family (fam = "signed") or of the long-haystack family ("longin"):
// every tree of the case in every position and route, re-rendered on one engine and inside the loop.
func runFamily(fam string, sc signedCase, thorough bool) *vlib.Outcome {
	o := &vlib.Outcome{Counters: map[string]int64{}}
	defer func() {
		if fam != "signed" {
			o.Nontrivial = sc.always
		}
	}()
	var bad []mismatch
	add := func(m mismatch) {
		if len(bad) < 40 {
			bad = append(bad, m)
		}
	}
	o.Class = fam + ": no tree with two defined evaluations"
	for _, x := range sc.trees {
		in := x.inst()
		o.Counters[fam+"_trees"]++
		evs := chooseWorlds(in, nil, signedOrder, 1+again)
		if len(evs) < 2 {
			o.Counters[fam+"_trees_with_fewer_than_two_defined_evaluations"]++
			continue
		}
		o.Counters["trees"]++
		o.Counters["trees_evaluated_again_with_other_values"]++
		if valueChanges(evs) {
			o.Nontrivial = true
			o.Counters["trees_whose_value_changes_between_evaluations"]++
			o.Counters[fam+"_trees_whose_value_changes_between_evaluations"]++
			o.Class = fam + " " + in.root.op + ": the value changes between evaluations"
		} else if !o.Nontrivial {
			o.Class = fam + " " + in.root.op + ": the same value in every defined world"
		}
		base := evs[0].in
		for _, st := range signedStyles(thorough) {
			src, _ := base.print(st)
			pn, err := parseWith(src, stated, base.leaves)
			o.Counters["printer_roundtrips"]++
			if err != nil || parsedCanon(pn) != base.canon() {
				o.Violation = fmt.Sprintf("HARNESS SELF-TEST (not a twig defect): %q printed as %q [%v] does not read back as itself (%v)", base.canon(), src, st, err)
				return o
			}
			for pi := range positions {
				pos := &positions[pi]
				if !strings.ContainsRune(pos.types, posType(in.root.typ)) {
					continue
				}
				r, outs, wants, oks := renderEvals(pos, st, evs)
				first := true
				for i := range evs {
					if !oks[i] {
						continue
					}
					if first {
						o.Counters["renders"]++
						o.Counters[fam+"_renders"]++
						first = false
					} else {
						o.Counters["renders_again_on_the_same_engine"]++
					}
					if outs[i] != wants[i] {
						add(mismatch{base.canon(), evs[i].v.String(), st.String(), pos.name, show(r.src), r.sub, outs[i], wants[i], againNote(i, len(evs), evs[i])})
					}
				}
				if pos.route {
					continue
				}
				lr, out, want, n := renderLoop(pos, st, evs)
				if n < 2 {
					continue
				}
				o.Counters["loop_renders"]++
				o.Counters["evaluations_inside_loops"] += int64(n)
				if out != want {
					ls := st
					ls.loop = true
					add(mismatch{base.canon(), want, ls.String(), pos.name, show(lr.src), lr.sub, out, want, loopNote(evs)})
				}
			}
		}
		if in.hasShortCircuit() {
			for _, par := range []int{parMin, parFull} {
				st := style{par: par, sp: spNormal, traced: true}
				r := build(&positions[0], base, st, "")
				var tl [][]leaf
				var tc []map[string]interface{}
				for _, ev := range evs {
					tl, tc = append(tl, ev.in.leaves), append(tc, contextOf(worlds[ev.w]))
				}
				res, trs := render(r, tl, tc)
				o.Counters["traced_renders"]++
				o.Counters["renders"]++
				o.Counters["traced_renders_again_on_the_same_engine"] += int64(len(evs) - 1)
				for i := range evs {
					if res[i] != evs[i].v.String() || fmt.Sprint(trs[i]) != fmt.Sprint(evs[i].trace) {
						add(mismatch{base.canon(), evs[i].v.String(), st.String(), "print (leaves are calls k(i) that log i)", show(r.src), nil,
							fmt.Sprintf("%s, evaluated leaves %v", res[i], trs[i]), fmt.Sprintf("%s, evaluated leaves %v", evs[i].v.String(), evs[i].trace), againNote(i, len(evs), evs[i])})
					}
				}
			}
		}
	}
	if len(bad) > 0 {
		report(o, bad)
	}
	return o
}

// show abbreviates the 4100-byte comment of the -long positions
func show(src string) string {
	return strings.Replace(src, longComment, "{#"+"<4100 times x>"+"#}", 1)
}

func auxString(a map[string]string) string {
	if len(a) == 0 {
		return ""
	}
	var s []string
	for k, v := range a {
		s = append(s, fmt.Sprintf(" (+ template %q = %q)", k, v))
	}
	sort.Strings(s)
	return strings.Join(s, "")
}

func run(t *vlib.T) {
	only := os.Getenv("C08_CLASSES") // development aid: run only the named classes / families (k2u2,k4u0,signed,longin,…); never set by run.sh
	wanted := func(name string) bool { return only == "" || strings.Contains(","+only+",", ","+name+",") }
	for _, c := range classes(t.Thorough()) {
		c := c
		for _, typ := range rootTypes {
			if !wanted(c.String()) {
				break
			}
			genInto(c.k, c.u, typ, c.mode(), func(sk *node) {
				if t.Stopped() {
					return
				}
				key := c.String() + ":" + skelKey(sk)
				if !t.Owns(key) {
					return
				}
				t.Case(key, func() *vlib.Outcome { return runCase(sk, key, c) })
			})
		}
		if c.k == 1 && c.u == 1 {
			// the signed-operand family: trees of one binary operator with one or two signed operands,
			// after the classes up to two operators
			for _, sc := range signedCases() {
				sc := sc
				if t.Stopped() || !wanted("signed") {
					break
				}
				if !t.Owns(sc.key) {
					continue
				}
				t.Case(sc.key, func() *vlib.Outcome { return runFamily("signed", sc, t.Thorough()) })
			}
			// the long-haystack family: in / not in over lists of 50 .. 100 elements with plain and computed needles
			for _, sc := range longInCases() {
				sc := sc
				if t.Stopped() || !wanted("longin") {
					break
				}
				if !t.Owns(sc.key) {
					continue
				}
				t.Case(sc.key, func() *vlib.Outcome { return runFamily("longin", sc, t.Thorough()) })
			}
		}
	}
}

func stats() {
	for _, th := range []bool{false, true} {
		fmt.Println("thorough:", th)
		for _, c := range classes(th) {
			n := 0
			for _, typ := range rootTypes {
				genInto(c.k, c.u, typ, c.mode(), func(sk *node) { n++ })
			}
			fmt.Printf("  %-10s skeletons=%d rots=%d few=%v\n", c, n, c.rots, c.few)
		}
		sc := signedCases()
		trees, two, chg, vacuous := 0, 0, 0, 0
		for _, c := range sc {
			any := false
			for _, x := range c.trees {
				trees++
				evs := chooseWorlds(x.inst(), nil, signedOrder, 1+again)
				if len(evs) >= 2 {
					two++
					if valueChanges(evs) {
						chg++
						any = true
					}
				}
			}
			if !any {
				vacuous++
				fmt.Println("    no tree with a changing value:", c.key)
			}
		}
		typings, sides := map[string]bool{}, map[string]int{}
		for _, c := range sc {
			f := strings.SplitN(c.key, ":", 4)
			typings[f[1]] = true
			sides[f[2]]++
		}
		fmt.Printf("  signed family: typings=%d cases per side=%v\n", len(typings), sides)
		fmt.Printf("  signed family: cases=%d trees=%d with>=2 evaluations=%d changing=%d cases without a changing tree=%d\n", len(sc), trees, two, chg, vacuous)
	}
}

func main() {
	if os.Getenv("C08_STATS") != "" {
		stats()
		return
	}
	vlib.Main(vlib.Spec{
		ID:    "C08",
		Level: "exploration",
		Rule: "every well-typed expression tree within the operator bounds of the tier (binary operators of all six levels, ?:, unary -/not, filters, " +
			"numeric strings ('10', \"30\", '-2', variables holding \"9\" \"-1\" \"5\", i ~ i) under < > <= >= and against integers under == != < >=, " +
			"large integers (999999999999999, 1000000000000000, 4503599627370497, big = 2^53-1, o.g = 10^14, gs[1] = -(2^53-1), the same out of max / min / pick / [..][1] / {..}['k'], " +
			"and as results of g + i, g - i, i + g, i * g, g / i, m * m and m ^ 2 over the medium factors 2^26+1, 94906265, 31622777, 31622776, 10^7, 2^25) under ~ with strings and each other, " +
			"== != < >=, g - g, g % i, unary minus, |abs, |trim, " +
			"in / not in also over haystacks of 50, 51, 60 and 100 elements (list literal, range(1, n), []interface{} / []int / []float64 / []string from the context) with plain and computed needles (a + b, b - a, a * 1, -a, 12 / a, b % a, a ^ 2, a|abs, s|length, xs[1] + a * b, a ~ '', s|upper, s ~ a, ...; the long-haystack family), " +
			"attribute/index/literal/variable leaves and comma-containing leaves of the same values (max(2, a), min(b, a, 2), pick(1, a, xs[1]), [a, 12][1], {'k': b, 'j': 2}['k'], " +
			"max(a, min(b, o.n)), null|default(pick(1, a, s)), pick(0, \"ab\", ','), [max(2, a), b], ...) assigned from fixed pools by rotation, the most discriminating well-defined rotations first, " +
			"every skeleton both with and without comma-containing leaves wherever two or more rotations are run (single-rotation classes: quick runs the other kind in two styles, thorough alternates by skeleton)), printed with " +
			"minimal / full / maximal / whole-expression parentheses (thorough: also every subset of the optional pairs) x normal / tight / wide spacing, in every " +
			"syntactic position (print, if, elseif, set, for, include-with sole / first / second entry, include-with ... only (hash as sole entry; up to two operators also as second entry and as `with k = e only`), filter / function / macro argument, array element, hash value, index) " +
			"and, for integer and string values, through every stringification route (e ~ '', '' ~ e, e|trim, (e ~ '')|length, [0, e]|join, (e) ~ '' == 'value', and q ~ '' after set / hash element / for / include variable / id(e) / default(e) / macro parameter: " +
			"all trees up to two operators, beyond that the trees in which an integer of magnitude >= 10^14 occurs); " +
			"every tree is evaluated again with other values of its variables — the registered template rendered a second and third time (beyond two operators: a second time, and only the normally spaced minimal and full forms) on the same engine with the contexts of other worlds " +
			"(W1..W7: other signs, zero, other truth values, strings, list lengths and large integers; only worlds in which every subexpression is defined, those that change the value first), and the tree inside " +
			"{% for w in ws %} over the same worlds with its variables spelled w.a, w.o.n, w.xs[1] (up to two operators: every non-route position, three styles; beyond: print / print-long / if / set / for-seq, minimal form) — each evaluation must print the value for its own world; " +
			"plus the signed-operand family: for every binary typing with an operand a unary operator applies to, unary - / + on a, o.n, xs[1], (a + b), (o.n + 2) (not on t, o.f, bs[0], (t and f); - / + on big, o.g, gs[1], c, o.c, ms[1] and sums) as left operand, as right operand " +
			"and on both sides, the other operand running over literals and constant sub-expressions (2, 12, 7, (1 + 2), 2 * 3, -5, true, (2 < 12), 'n=', ('a' ~ 'b'), '10', [4, 2, 1], ...), in three worlds chosen from W0..W7, every position and route, three styles (thorough: twelve), re-rendered and in the loop; " +
			"one case = one tree skeleton; non-trivial = at least two operators and at least one wrong operator table (levels swapped or merged, right grouping, " +
			"conditional / unary / filter attaching to the wrong operand) gives the minimal form a different value",
		Assumptions: []string{
			"the reference evaluator (exact integers, strings, booleans, lists of integers) is transcribed from the statement; the printer is checked against its own table-driven parser on every printed form",
			"forms the statement leaves open are not generated: not a == b, -a ^ b, -a|abs, string + number, inexact or zero division, % on negatives, exponents outside 0..3, values beyond 2^53, bare printing of booleans, whitespace other than spaces, {..}.k on a literal, ordering of strings that are not canonical decimal integers ('ab', '07', '1.0', ' 9', '1e1'), == between a non-numeric string and a number, substring `in`",
			"matches is used with /…/-delimited patterns whose meaning is the same in every regular-expression dialect (^a, b$)",
			"the comma-containing leaves have the obvious values: max / min of integers, pick(i, x0, x1, ...) = x_i (registered by the harness), [x0, x1][i] = x_i, {'k': x, 'j': y}['k'] = x, null|default(x) = x; their value is computed from their structure and asserted equal to the plain leaf they stand in for",
			"x|trim and x ~ '' of an integer are its canonical decimal spelling, [0, x]|join(',') is '0,' followed by it, |length of a string counts its characters (the obvious meanings; the statement's exact integers within +-2^53 have one decimal spelling)",
			"trees larger than the tier's bound, and leaf assignments other than the rotations of the fixed pools in the eight worlds, are not explored",
			"unary plus on an integer is the integer itself; a variable spelled w.a inside {% for w in ws %} has the value of key a of the current element of ws",
			"an integer is in a list of integers (a string in a list of strings) exactly when it equals one of the elements, whatever the length of the list and whatever Go type holds the integers ([]interface{}, []int, []float64 with whole values; range(1, n) is 1 .. n); `include ... with {...} only` hides the caller's variables from the INCLUDED template, the with-expressions are the caller's",
		},
		QuickDeadline:    150,
		ThoroughDeadline: 840,
		Run:              run,
		Extra: func(tier string, cov map[string]interface{}) {
			var b []string
			for _, c := range classes(tier == "thorough") {
				s := fmt.Sprintf("%d binary/conditional + %d unary/filter operators: %d leaf rotations", c.k, c.u, c.rots)
				if c.few {
					s += ", positions print/print-long/if/set/for-seq only"
				} else {
					s += ", all positions"
				}
				if c.core {
					s += ", core operators only"
				}
				if c.twin {
					s += ", plus the best rotation of the other leaf kind (plain <-> comma-containing) in min/normal or min/tight (alternating by skeleton)"
				}
				if c.nsRep {
					s += ", numeric strings only under < >= (n,n), == (n,i), != (i,n) and as i ~ i"
				}
				switch c.big {
				case 0:
					s += ", every large-integer typing"
				case 1:
					s += ", large integers only under ~ (g,s) (s,g), g + i, g - g, m * m, == < (g,g), unary minus and |trim"
				case 2:
					s += ", no large integers"
				}
				if c.routes {
					s += ", stringification routes for every integer / string tree"
				} else if c.big < 2 {
					s += ", stringification routes for the trees with a large integer"
				}
				if c.cross {
					s += ", every parenthesis style x spacing + all optional-pair subsets"
				}
				b = append(b, s)
			}
			b = append(b, fmt.Sprintf("signed-operand family: %d cases (binary typing x left / right / both x signed form), all positions and routes, %d styles, up to %d evaluations per engine and per loop", len(signedCases()), len(signedStyles(tier == "thorough")), 1+again))
			b = append(b, longInSummary()+fmt.Sprintf(", all boolean positions, %d styles, up to %d evaluations per engine and per loop", len(signedStyles(tier == "thorough")), 1+again))
		b = append(b, fmt.Sprintf("re-evaluation: %d worlds; every tree rendered again on the same engine (up to %d further worlds up to two operators, one beyond) and inside a for loop over up to %d worlds", len(worlds), again, 1+again))
			cov["bounds"] = b
			cov["perturbed_tables"] = len(tables)
		},
	})
}
