package main

// The long-haystack family (added after seeded change C08-I): `in` / `not in` whose right operand is a list
// of 50, 51, 60 or 100 elements — a list literal, range(1, n), a []interface{} from the context, and the
// typed Go slices []int, []float64 and []string — and whose left operand is plain (literal, variable,
// attribute, item access, a value handed back by max / pick / a hash literal) or COMPUTED (a + b, b - a,
// a * 1, -a, 12 / a, b % a, a ^ 2, a|abs, s|length, xs[1] + a * b, a ~ '', s|upper, s ~ a, …). The
// reference is the one of the short lists: an integer is in a list of integers when it equals one of them,
// a string is in a list of strings when it equals one of them. An implementation may answer the question
// for long lists by another route than for short ones (twig builds a map above 50 elements) and a computed
// needle may have another Go type than the equal element (float64 10 against int 10): neither may show.
//
// The haystacks are the same in every world; the needles read the variables of the worlds (worlds.go), so a
// tree is evaluated with needles that are found, that are absent, that are the first, the last and the one
// past the last element. Integer haystacks hold 1 .. n; string haystacks hold the decimal spellings of
// 1 .. n with "ab", "AB", "b", "abab", "ab3" in places 10, 20, 30, 40, 50.

import (
	"fmt"
	"strings"
)

type haystack struct {
	name string // the part of the case key
	n    int
	strs bool
	leaf leaf
}

func hayInts(n int) []int64 {
	out := make([]int64, n)
	for i := range out {
		out[i] = int64(i + 1)
	}
	return out
}

func hayStrings(n int) []string {
	out := make([]string, n)
	for i := range out {
		out[i] = fmt.Sprint(i + 1)
	}
	for i, s := range []string{"ab", "AB", "b", "abab", "ab3"} {
		if 10*(i+1) <= n {
			out[10*(i+1)-1] = s
		}
	}
	return out
}

var (
	hayCtxSizes   = []int{50, 51, 60, 100}
	hayTypedSizes = []int{50, 51, 60}
	hayStrSizes   = []int{50, 51, 60}
)

// hayContext: the context variables the haystack leaves read (shared by all renders; nothing writes to them).
// hN: []interface{} of int; tiN: []int; tfN: []float64 (whole values); hsN: []interface{} of string; tsN: []string
var hayContext = func() map[string]interface{} {
	m := map[string]interface{}{}
	for _, n := range hayCtxSizes {
		m[fmt.Sprintf("h%d", n)] = ints(hayInts(n))
	}
	for _, n := range hayTypedSizes {
		ti, tf := make([]int, n), make([]float64, n)
		for i, x := range hayInts(n) {
			ti[i], tf[i] = int(x), float64(x)
		}
		m[fmt.Sprintf("ti%d", n)] = ti
		m[fmt.Sprintf("tf%d", n)] = tf
	}
	for _, n := range hayStrSizes {
		ts := hayStrings(n)
		hs := make([]interface{}, n)
		for i, x := range ts {
			hs[i] = x
		}
		m[fmt.Sprintf("hs%d", n)] = hs
		m[fmt.Sprintf("ts%d", n)] = ts
	}
	return m
}()

func plain3(s string) [3]string { return [3]string{s, s, s} }

// haystacks: every haystack of the family; pre = "w." spells the context variables as attributes of the loop
// variable of `{% for w in ws %}`. The literals and range() calls count as comma-containing leaves (the mini
// parser takes each as one token).
func haystacks(pre string) []haystack {
	var out []haystack
	il := func(n int) val { return val{t: 'l', l: hayInts(n)} }
	sl := func(n int) val { return val{t: 'L', ls: hayStrings(n)} }
	for _, n := range hayCtxSizes {
		var parts [][3]string
		for _, x := range hayInts(n) {
			parts = append(parts, plain3(fmt.Sprint(x)))
		}
		out = append(out, haystack{name: fmt.Sprintf("[1..%d]", n), n: n,
			leaf: leaf{kind: "list", comma: true, v: il(n), src: seq3("[", "]", parts)}})
	}
	for _, n := range hayTypedSizes {
		out = append(out, haystack{name: fmt.Sprintf("range(1, %d)", n), n: n,
			leaf: leaf{kind: "call", comma: true, v: il(n), src: cat3(plain3("range"), seq3("(", ")", [][3]string{plain3("1"), plain3(fmt.Sprint(n))}))}})
	}
	for _, n := range hayCtxSizes {
		name := fmt.Sprintf("h%d", n)
		out = append(out, haystack{name: name, n: n, leaf: lf("var", il(n), pre+name)})
	}
	for _, n := range hayTypedSizes {
		for _, k := range []string{"ti", "tf"} {
			name := fmt.Sprintf("%s%d", k, n)
			out = append(out, haystack{name: name, n: n, leaf: lf("var", il(n), pre+name)})
		}
	}
	for _, n := range []int{51, 60} {
		var parts [][3]string
		for _, x := range hayStrings(n) {
			parts = append(parts, plain3("'"+x+"'"))
		}
		out = append(out, haystack{name: fmt.Sprintf("['1'..'%d']", n), n: n, strs: true,
			leaf: leaf{kind: "list", comma: true, v: sl(n), src: seq3("[", "]", parts)}})
	}
	for _, n := range hayStrSizes {
		for _, k := range []string{"hs", "ts"} {
			name := fmt.Sprintf("%s%d", k, n)
			out = append(out, haystack{name: name, n: n, strs: true, leaf: lf("var", sl(n), pre+name)})
		}
	}
	return out
}

// hayLeaves: the haystack leaves in the order of haystacks(), the tail of the 'x' pool
func hayLeaves(pre string) []leaf {
	var out []leaf
	for _, h := range haystacks(pre) {
		out = append(out, h.leaf)
	}
	return out
}

func fi(op string, typ byte, c sx) sx { return sx{mk('f', op, typ, c.n), c.refs} }

func cn(c, x, y sx) sx {
	return sx{mk('c', "?", x.n.typ, c.n, x.n, y.n), append(append(append([]leafRef{}, c.refs...), x.refs...), y.refs...)}
}

// intNeedles: plain and computed integer-valued left operands
func intNeedles() []sx {
	two, a, twelve, b, on, xs1 := at('i', 0), at('i', 1), at('i', 2), at('i', 3), at('i', 4), at('i', 5)
	s, xs := at('s', 1), at('l', 0)
	return []sx{
		// plain: literal, variable, attribute, item access, values handed back by max (a float64 in twig), pick, a hash literal
		two, a, on, xs1, at('i', 7), at('i', 11), at('i', 9),
		// computed
		bi("+", 'i', a, b), bi("-", 'i', b, a), bi("*", 'i', a, ex("1")), un("-", a), un("-", bi("-", 'i', a, b)),
		bi("*", 'i', xs1, two), // 60 in world 0: the last element of the 60-lists, absent from the shorter ones
		bi("/", 'i', twelve, a), bi("%", 'i', b, a), bi("^", 'i', a, two),
		fi("abs", 'i', a), fi("length", 'i', s), fi("length", 'i', xs),
		bi("+", 'i', xs1, bi("*", 'i', a, b)),         // 51 in world 0
		bi("+", 'i', bi("*", 'i', xs1, two), ex("1")), // 61
		bi("^", 'i', bi("+", 'i', a, b), two),         // 100
		bi("-", 'i', a, ex("3")),                      // 0 in world 0: just below the first element
	}
}

// strNeedles: plain and computed string-valued left operands
func strNeedles() []sx {
	a, b := at('i', 1), at('i', 3)
	qa, s, qb, os, ab, ss1 := at('s', 0), at('s', 1), at('s', 2), at('s', 3), at('s', 4), at('s', 5)
	empty := ex("''")
	return []sx{
		qa, s, os, ab, ss1, at('s', 7), at('s', 9),
		bi("~", 's', a, empty), bi("~", 's', empty, b), fi("upper", 's', s), bi("~", 's', s, a), bi("~", 's', qa, qb),
		bi("~", 's', bi("+", 'i', a, b), empty), bi("~", 's', a, b),
		bi("~", 's', bi("*", 'i', at('i', 5), at('i', 0)), empty),         // "60" in world 0: the last element of the 60-lists
		bi("~", 's', bi("+", 'i', at('i', 5), bi("*", 'i', a, b)), empty), // "51"
	}
}

// longInCases: one case per (operator, haystack); its trees run over the needles, plus — for the integer
// haystacks — the membership test as operand of and / or / not and as condition of ?:
func longInCases() []signedCase {
	var out []signedCase
	hs := haystacks("")
	base := len(poolsW[0][0]['x']) - len(hs)
	for _, op := range []string{"in", "not in"} {
		for hi, h := range hs {
			hay := at('x', base+hi)
			c := signedCase{key: "longin:" + op + ":" + h.name, always: h.n > 50}
			if h.strs {
				for _, n := range strNeedles() {
					c.trees = append(c.trees, bi(op, 'b', n, hay))
				}
			} else {
				for _, n := range intNeedles() {
					c.trees = append(c.trees, bi(op, 'b', n, hay))
				}
				a, b, t, f := at('i', 1), at('i', 3), at('b', 0), at('b', 1)
				c.trees = append(c.trees,
					bi("and", 'b', t, bi(op, 'b', bi("+", 'i', a, b), hay)),
					bi("or", 'b', bi(op, 'b', bi("*", 'i', a, ex("1")), hay), f),
					un("not", bi(op, 'b', a, hay)),
					cn(bi(op, 'b', bi("-", 'i', b, a), hay), b, a))
			}
			out = append(out, c)
		}
	}
	return out
}

func longInSummary() string {
	var names []string
	for _, h := range haystacks("") {
		names = append(names, h.name)
	}
	return fmt.Sprintf("long-haystack family: %d cases (in / not in x %d haystacks: %s), %d integer and %d string needles", len(longInCases()), len(names), strings.Join(names, " "), len(intNeedles()), len(strNeedles()))
}

// hayAbbrev shortens the literal haystacks in violation messages: [1, 2, … (60 elements) …, 60]
var hayAbbrev = func() *strings.Replacer {
	var pairs []string
	for _, h := range haystacks("") {
		if h.leaf.kind != "list" {
			continue
		}
		for _, sp := range h.leaf.src {
			first := strings.SplitN(strings.Trim(sp, "[ ]"), ",", 2)[0]
			pairs = append(pairs, sp, fmt.Sprintf("[%s, … (%d elements) …, %s]", strings.TrimSpace(first), h.n, lastElem(sp)))
		}
	}
	return strings.NewReplacer(pairs...)
}()

func lastElem(sp string) string {
	parts := strings.Split(strings.Trim(sp, "[ ]"), ",")
	return strings.TrimSpace(parts[len(parts)-1])
}
