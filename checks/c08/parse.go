package main

// A tiny parser for the expression sub-language the printer emits, driven by an operator table.
//
// With the table of the statement it is the printer's round-trip self-test: every printed form
// must parse back to exactly the tree it was printed from (so a forgotten pair of required
// parentheses is a harness error that is caught here and never reaches twig), and none of the
// forms the statement leaves open (-a|abs, not a == b, -a ^ b) may be produced.
//
// With perturbed tables (levels swapped or merged, right grouping, a conditional or a filter that
// attaches to the wrong operand, ...) it measures whether a case can tell the stated table from a
// wrong one: a case is non-trivial when at least one perturbed reading of its minimal form has a
// different value.

import (
	"fmt"
	"sort"
	"strings"
)

type tok struct {
	k byte // 'n' number, 's' string, 'w' word, 'p' punctuation, 'L' a whole comma-containing leaf
	s string
}

// The comma-containing leaves (calls, indexed literals, null|default(...)) are fixed spellings that
// contain no operator of the table; the lexer takes each of them as one token, whatever the spacing.
type opaqueLeaf struct{ spelling, key string }

var opaqueByFirst = func() map[byte][]opaqueLeaf {
	m := map[byte][]opaqueLeaf{}
	seen := map[string]bool{}
	for _, ps := range pools {
		for _, l := range ps {
			if !l.comma {
				continue
			}
			for _, sp := range l.src {
				if !seen[sp] {
					seen[sp] = true
					m[sp[0]] = append(m[sp[0]], opaqueLeaf{sp, l.src[0]})
				}
			}
		}
	}
	for _, v := range m { // longest first, ties by text: independent of map order
		sort.Slice(v, func(i, j int) bool {
			if len(v[i].spelling) != len(v[j].spelling) {
				return len(v[i].spelling) > len(v[j].spelling)
			}
			return v[i].spelling < v[j].spelling
		})
	}
	return m
}()

func lex(src string) ([]tok, error) {
	var out []tok
	for i := 0; i < len(src); {
		c := src[i]
		if cands := opaqueByFirst[c]; cands != nil && (i == 0 || !isWordByte(src[i-1])) {
			matched := false
			for _, o := range cands {
				if strings.HasPrefix(src[i:], o.spelling) {
					out = append(out, tok{'L', o.key})
					i += len(o.spelling)
					matched = true
					break
				}
			}
			if matched {
				continue
			}
		}
		switch {
		case c == ' ':
			i++
		case c >= '0' && c <= '9':
			j := i
			for j < len(src) && src[j] >= '0' && src[j] <= '9' {
				j++
			}
			out = append(out, tok{'n', src[i:j]})
			i = j
		case c == '\'' || c == '"':
			j := strings.IndexByte(src[i+1:], c)
			if j < 0 {
				return nil, fmt.Errorf("unterminated string")
			}
			out = append(out, tok{'s', src[i : i+j+2]})
			i += j + 2
		case (c >= 'a' && c <= 'z') || (c >= 'A' && c <= 'Z') || c == '_':
			j := i
			for j < len(src) && ((src[j] >= 'a' && src[j] <= 'z') || (src[j] >= 'A' && src[j] <= 'Z') || src[j] == '_' || (src[j] >= '0' && src[j] <= '9')) {
				j++
			}
			out = append(out, tok{'w', src[i:j]})
			i = j
		default:
			if i+1 < len(src) {
				two := src[i : i+2]
				if two == "==" || two == "!=" || two == "<=" || two == ">=" {
					out = append(out, tok{'p', two})
					i += 2
					continue
				}
			}
			if strings.IndexByte("+-*/%^~<>?:()[],|.", c) < 0 {
				return nil, fmt.Errorf("unexpected character %q", c)
			}
			out = append(out, tok{'p', string(c)})
			i++
		}
	}
	return out, nil
}

func isWordByte(c byte) bool {
	return (c >= 'a' && c <= 'z') || (c >= 'A' && c <= 'Z') || c == '_' || (c >= '0' && c <= '9')
}

// table: precedence level per operator plus the ways a reading can deviate from the statement
type table struct {
	name        string
	level       map[string]int
	right       bool // equal precedence groups from the right
	condTight   bool // a conditional attaches to the operand just before '?'
	unaryLoose  bool // a unary operator takes the following + - ~ * / % ^ chain as its operand
	filterLoose bool // a filter applies to the whole binary expression on its left
	once        bool // the right operand absorbs at most one higher-precedence operator
	strict      bool // reject the forms the statement leaves open
}

func trueTable() *table { return &table{name: "stated", level: trueLevel, strict: true} }

func relevel(f func(l int) int) map[string]int {
	m := map[string]int{}
	for op, l := range trueLevel {
		m[op] = f(l)
	}
	return m
}

var levelNames = []string{"", "or", "and", "comparison", "additive", "multiplicative", "power"}

func perturbedTables() []*table {
	ts := []*table{
		{name: "all-equal-left", level: relevel(func(int) int { return 1 })},
		{name: "all-equal-right", level: relevel(func(int) int { return 1 }), right: true},
		{name: "right-grouping", level: trueLevel, right: true},
		{name: "conditional-binds-to-last-operand", level: trueLevel, condTight: true},
		{name: "unary-takes-the-chain", level: trueLevel, unaryLoose: true},
		{name: "filter-takes-the-binary", level: trueLevel, filterLoose: true},
		{name: "right-operand-absorbs-one-operator", level: trueLevel, once: true},
	}
	for a := 1; a < 6; a++ {
		a := a
		ts = append(ts, &table{name: "swap-" + levelNames[a] + "-" + levelNames[a+1], level: relevel(func(l int) int {
			if l == a {
				return a + 1
			}
			if l == a+1 {
				return a
			}
			return l
		})})
		ts = append(ts, &table{name: "merge-" + levelNames[a] + "-" + levelNames[a+1], level: relevel(func(l int) int {
			if l == a+1 {
				return a
			}
			return l
		})})
	}
	return ts
}

type parser struct {
	toks   []tok
	i      int
	tb     *table
	leaves []leaf // for k(i) atoms
}

type parseErr string

func (e parseErr) Error() string { return string(e) }

func (p *parser) peek() tok {
	if p.i < len(p.toks) {
		return p.toks[p.i]
	}
	return tok{}
}
func (p *parser) isP(s string) bool { t := p.peek(); return t.k == 'p' && t.s == s }
func (p *parser) isW(s string) bool { t := p.peek(); return t.k == 'w' && t.s == s }
func (p *parser) expectP(s string) {
	if !p.isP(s) {
		panic(parseErr(fmt.Sprintf("expected %q at token %d", s, p.i)))
	}
	p.i++
}

// peekBinOp returns the binary operator at the cursor and the number of tokens it spans.
func (p *parser) peekBinOp() (string, int) {
	t := p.peek()
	if t.k == 'p' {
		if _, ok := trueLevel[t.s]; ok {
			return t.s, 1
		}
		return "", 0
	}
	if t.k != 'w' {
		return "", 0
	}
	next := tok{}
	if p.i+1 < len(p.toks) {
		next = p.toks[p.i+1]
	}
	switch t.s {
	case "and", "or", "in", "matches":
		return t.s, 1
	case "not":
		if next.k == 'w' && next.s == "in" {
			return "not in", 2
		}
	case "starts", "ends":
		if next.k == 'w' && next.s == "with" {
			return t.s + " with", 2
		}
	}
	return "", 0
}

func parseWith(src string, tb *table, leaves []leaf) (n *node, err error) {
	toks, err := lex(src)
	if err != nil {
		return nil, err
	}
	p := &parser{toks: toks, tb: tb, leaves: leaves}
	defer func() {
		if r := recover(); r != nil {
			if pe, ok := r.(parseErr); ok {
				n, err = nil, pe
				return
			}
			panic(r)
		}
	}()
	n = p.expr()
	if p.i != len(p.toks) {
		return nil, parseErr(fmt.Sprintf("trailing tokens at %d", p.i))
	}
	return n, nil
}

func (p *parser) expr() *node {
	c := p.bin(0)
	if p.isP("?") {
		return p.cond(c)
	}
	return c
}

func (p *parser) cond(c *node) *node {
	p.expectP("?")
	x := p.expr()
	p.expectP(":")
	y := p.expr()
	return mk('c', "?", 0, c, x, y)
}

func (p *parser) operand() *node {
	n := p.unary()
	if p.tb.condTight && p.isP("?") {
		n = p.cond(n)
	}
	return n
}

func (p *parser) bin(min int) *node {
	left := p.operand()
	for {
		op, w := p.peekBinOp()
		if op == "" {
			break
		}
		lv := p.tb.level[op]
		if lv < min {
			break
		}
		if p.tb.strict && left.bare {
			if left.op == "not" && lv == 3 {
				panic(parseErr("open form: not a == b"))
			}
			if (left.op == "-" || left.op == "+") && op == "^" {
				panic(parseErr("open form: -a ^ b"))
			}
		}
		p.i += w
		var right *node
		switch {
		case p.tb.once:
			// the right operand is one operand plus at most one operator of higher precedence
			right = p.operand()
			if op2, w2 := p.peekBinOp(); op2 != "" && p.tb.level[op2] > lv {
				p.i += w2
				right = mk('b', op2, 0, right, p.operand())
			}
		case p.tb.right:
			right = p.bin(lv)
		default:
			right = p.bin(lv + 1)
		}
		if p.tb.strict && right.bare && right.op == "not" && lv == 3 {
			panic(parseErr("open form: a == not b"))
		}
		left = mk('b', op, 0, left, right)
	}
	if p.tb.filterLoose {
		for p.isP("|") {
			p.i++
			left = mk('f', p.name(), 0, left)
		}
	}
	return left
}

func (p *parser) name() string {
	t := p.peek()
	if t.k != 'w' {
		panic(parseErr("expected a name"))
	}
	p.i++
	return t.s
}

func (p *parser) unary() *node {
	isMinus, isNot := p.isP("-") || p.isP("+"), p.isW("not")
	if isMinus || isNot {
		op := p.peek().s // - or + (the latter only in the signed-operand family) or not
		p.i++
		var c *node
		if p.tb.unaryLoose && isMinus {
			c = p.bin(4)
		} else {
			c = p.atom()
			if p.tb.strict && c.lf != nil && c.lf.kind == "filtered" {
				panic(parseErr("open form: -null|default(x)"))
			}
			if p.isP("|") && !p.tb.filterLoose {
				if p.tb.strict {
					panic(parseErr("open form: -a|abs"))
				}
				c = p.filters(c)
			}
		}
		if p.tb.strict && c.bare {
			panic(parseErr("double unary"))
		}
		n := mk('u', op, 0, c)
		n.bare = true
		return n
	}
	n := p.atom()
	if !p.tb.filterLoose {
		n = p.filters(n)
	}
	return n
}

func (p *parser) filters(n *node) *node {
	for p.isP("|") {
		p.i++
		n = mk('f', p.name(), 0, n)
	}
	return n
}

// atom: number | string | list literal | name{.name}[ '[' number ']' ] | k(number) | ( expr )
// Names with their attribute/index suffix and list literals are leaves, identified by their
// normalised spelling.
func (p *parser) atom() *node {
	t := p.peek()
	switch {
	case t.k == 'p' && t.s == "(":
		p.i++
		n := p.expr()
		p.expectP(")")
		if n.bare { // parenthesised: no longer a bare unary
			c := *n
			c.bare = false
			n = &c
		}
		return n
	case t.k == 'n' || t.k == 's' || t.k == 'L':
		p.i++
		return p.leafNode(t.s)
	case t.k == 'p' && t.s == "[":
		p.i++
		var parts []string
		for !p.isP("]") {
			e := p.peek()
			if e.k != 'n' && e.k != 'w' {
				panic(parseErr("list element"))
			}
			p.i++
			parts = append(parts, e.s)
			if p.isP(",") {
				p.i++
			}
		}
		p.i++
		return p.leafNode("[" + strings.Join(parts, ", ") + "]")
	case t.k == 'w':
		p.i++
		s := t.s
		if p.isP("(") && s == "k" {
			p.i++
			num := p.peek()
			p.i++
			p.expectP(")")
			var o int
			fmt.Sscan(num.s, &o)
			if o < 0 || o >= len(p.leaves) {
				panic(parseErr("k(ordinal) out of range"))
			}
			l := p.leaves[o]
			n := mk('a', "", l.v.t)
			n.lf = &l
			return n
		}
		for p.isP(".") {
			p.i++
			s += "." + p.name()
		}
		if p.isP("[") {
			p.i++
			num := p.peek()
			if num.k != 'n' {
				panic(parseErr("index"))
			}
			p.i++
			p.expectP("]")
			s += "[" + num.s + "]"
		}
		return p.leafNode(s)
	}
	panic(parseErr(fmt.Sprintf("unexpected token %q at %d", t.s, p.i)))
}

var leafBySrc = func() map[string]*leaf {
	m := map[string]*leaf{}
	for _, ps := range pools {
		for i := range ps {
			l := ps[i]
			m[l.src[0]] = &l
		}
	}
	return m
}()

func (p *parser) leafNode(src string) *node {
	l, ok := leafBySrc[src]
	if !ok {
		panic(parseErr("unknown leaf " + src))
	}
	n := mk('a', "", l.v.t)
	n.lf = l
	return n
}

func parsedCanon(n *node) string {
	return canon(n, func(o int, n *node) string { return n.lf.src[0] })
}

func evalParsed(n *node) (val, error) {
	e := &evaluator{}
	return e.eval(n, 0)
}
