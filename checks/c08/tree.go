package main

// Typed expression trees, their generator, the reference evaluator and the printer.
// Everything here is transcribed from the statement of C08 (operator table, left grouping,
// exact integers, short circuit); nothing is taken from twig's code.

import (
	"fmt"
	"math"
	"math/big"
	"regexp"
	"sort"
	"strconv"
	"strings"
	"unicode/utf8"
)

// ---- values

type val struct {
	t byte // 'i' int, 'b' bool, 's' string, 'l' list of ints (a numeric string, static type 'n', is a string)
	i int64
	b bool
	s string
	l []int64
	// 'L': a list of strings — only ever a haystack leaf of the long-haystack family (longin.go)
	ls []string
}

func (v val) String() string {
	switch v.t {
	case 'i':
		return fmt.Sprint(v.i)
	case 'b':
		if v.b {
			return "T"
		}
		return "F"
	case 's':
		return v.s
	case 'l':
		var sb strings.Builder
		for _, x := range v.l {
			fmt.Fprintf(&sb, "%d,", x)
		}
		return sb.String()
	case 'L':
		return strings.Join(v.ls, ",") + ","
	}
	return "?"
}

func (v val) eq(w val) bool { return v.t == w.t && v.String() == w.String() }

func iv(i int64) val  { return val{t: 'i', i: i} }
func bv(b bool) val   { return val{t: 'b', b: b} }
func sv(s string) val { return val{t: 's', s: s} }

// ---- leaves

type leaf struct {
	src   [3]string // spelling under normal, tight and wide spacing
	v     val
	kind  string // lit | var | attr | index | list | call | litindex | hashindex | filtered
	comma bool   // the spelling contains a comma at nesting depth > 0 (inside ( ), [ ] or { })
}

func lf(kind string, v val, src ...string) leaf {
	l := leaf{kind: kind, v: v}
	switch len(src) {
	case 1:
		l.src = [3]string{src[0], src[0], src[0]}
	case 3:
		l.src = [3]string{src[0], src[1], src[2]}
	default:
		panic("lf")
	}
	return l
}

// ---- leaves that contain commas: calls with 2-4 arguments, indexed list / hash literals with two
// entries, a call as filter argument, one level of nesting. Spelling (three spacings) and value are
// both computed from the structure; the value rules are the obvious ones: max / min of integers,
// pick(i, x0, x1, ...) = x_i (a function the harness registers), [x0, x1][i] = x_i,
// {'k': x, 'j': y}['k'] = x, null|default(x) = x.

func seq3(open, close string, parts [][3]string) [3]string {
	var out [3]string
	for sp := 0; sp < 3; sp++ {
		sep := [3]string{", ", ",", "  ,  "}[sp]
		pad := [3]string{"", "", "  "}[sp]
		var ps []string
		for _, p := range parts {
			ps = append(ps, p[sp])
		}
		out[sp] = open + pad + strings.Join(ps, sep) + pad + close
	}
	return out
}

func srcs(ls []leaf) [][3]string {
	var out [][3]string
	for _, l := range ls {
		out = append(out, l.src)
	}
	return out
}

func cat3(a, b [3]string) [3]string { return [3]string{a[0] + b[0], a[1] + b[1], a[2] + b[2]} }

func ilit(i int64) leaf { return lf("lit", iv(i), fmt.Sprint(i)) }

// call: fn(arg, arg, ...) for fn = max | min | pick
func call(fn string, args ...leaf) leaf {
	if len(args) < 2 {
		panic("call: a comma leaf needs two arguments")
	}
	l := leaf{kind: "call", comma: true, src: cat3([3]string{fn, fn, fn}, seq3("(", ")", srcs(args)))}
	switch fn {
	case "max", "min":
		for i, a := range args {
			if a.v.t != 'i' {
				panic("call: " + fn + " of a non-integer")
			}
			if i == 0 || (fn == "max" && a.v.i > l.v.i) || (fn == "min" && a.v.i < l.v.i) {
				l.v = a.v
			}
		}
	case "pick":
		i := args[0].v.i
		if args[0].v.t != 'i' || i < 0 || int(i)+1 >= len(args) {
			panic("call: pick index")
		}
		l.v = args[i+1].v
	default:
		panic("call: " + fn)
	}
	return l
}

// elemAt: [x0, x1][i]
func elemAt(i int, elems ...leaf) leaf {
	if len(elems) < 2 {
		panic("elemAt")
	}
	return leaf{kind: "litindex", comma: true, v: elems[i].v,
		src: cat3(seq3("[", "]", srcs(elems)), seq3("[", "]", [][3]string{ilit(int64(i)).src}))}
}

// hashAt: {'k0': x0, 'k1': x1}['ki']
func hashAt(key string, k0 string, x0 leaf, k1 string, x1 leaf) leaf {
	colon := [3]string{": ", ":", "  :  "}
	q := func(k string) [3]string { return [3]string{"'" + k + "'", "'" + k + "'", "'" + k + "'"} }
	l := leaf{kind: "hashindex", comma: true}
	l.src = cat3(seq3("{", "}", [][3]string{cat3(cat3(q(k0), colon), x0.src), cat3(cat3(q(k1), colon), x1.src)}),
		seq3("[", "]", [][3]string{q(key)}))
	switch key {
	case k0:
		l.v = x0.v
	case k1:
		l.v = x1.v
	default:
		panic("hashAt")
	}
	return l
}

// deflt: null|default(x) — a postfix filter on the leaf, so never the operand of a unary operator
// (that is the open form -a|abs); used for strings only
func deflt(x leaf) leaf {
	return leaf{kind: "filtered", comma: x.comma, v: x.v,
		src: cat3([3]string{"null|default", "null|default", "null | default"}, seq3("(", ")", [][3]string{x.src}))}
}

// listOf: [x0, x1] with integer-valued elements, a list-typed leaf
func listOf(elems ...leaf) leaf {
	l := leaf{kind: "list", v: val{t: 'l'}, src: seq3("[", "]", srcs(elems))}
	for _, e := range elems {
		if e.v.t != 'i' {
			panic("listOf")
		}
		l.v.l = append(l.v.l, e.v.i)
		l.comma = l.comma || e.comma
	}
	return l
}

// Leaf pools per type. A tree with leaf ordinals 0..n-1 (in source order) under rotation r uses
// pool[(ordinal+r) mod len(pool)] for each leaf of that type.
//
// The int, bool and string pools have 12 slots: slots 0-5 are the plain leaves (literal, variable,
// attribute, item access), slot i+6 is a comma-containing leaf with the value of slot i. So rotation
// r+6 gives every leaf the value it has under rotation r (and the analysis of r carries over), with
// the other kind of spelling; a tree with several leaves of one type mixes both kinds when its
// ordinals straddle slot 5/6 or 11/0. The list pool repeats its four values three times, the middle
// third with commas inside parentheses.
var pools = poolsW[0][0]

// buildPools: the pools with the values the variables have in world w (worlds.go); world 0 is the
// original assignment. With pre = "w." every variable is spelled as an attribute of the loop variable
// of `{% for w in ws %}` (a -> w.a, o.n -> w.o.n, xs[1] -> w.xs[1]); literals are the same everywhere.
func buildPools(w world, pre string) map[byte][]leaf {
	idx := func(name, i string) []string {
		return []string{pre + name + "[" + i + "]", pre + name + "[" + i + "]", pre + name + "[  " + i + "  ]"}
	}
	i2, ia, i12, ib := lf("lit", iv(2), "2"), lf("var", iv(w.a), pre+"a"), lf("lit", iv(12), "12"), lf("var", iv(w.b), pre+"b")
	ion, ixs1 := lf("attr", iv(w.on), pre+"o.n"), lf("index", iv(w.xs[1]), idx("xs", "1")...)
	bt, bf, btrue, bof := lf("var", bv(w.t), pre+"t"), lf("var", bv(w.f), pre+"f"), lf("lit", bv(true), "true"), lf("attr", bv(w.of), pre+"o.f")
	bbs0, bfalse := lf("index", bv(w.bs[0]), idx("bs", "0")...), lf("lit", bv(false), "false")
	sa, ss, sb, sos := lf("lit", sv("a"), "'a'"), lf("var", sv(w.s), pre+"s"), lf("lit", sv("b"), "'b'"), lf("attr", sv(w.os), pre+"o.s")
	sab, sss1 := lf("lit", sv("ab"), "\"ab\""), lf("index", sv(w.ss[1]), idx("ss", "1")...)
	lxs := lf("var", val{t: 'l', l: w.xs}, pre+"xs")
	l37 := listOf(ilit(3), ilit(7))
	loxs := lf("attr", val{t: 'l', l: w.oxs}, pre+"o.xs")
	la12 := listOf(ia, i12)
	comma := lf("lit", sv(","), "','")
	g999, gbig := lf("lit", iv(999999999999999), "999999999999999"), lf("var", iv(w.big), pre+"big")
	g1e15, gog := lf("lit", iv(1000000000000000), "1000000000000000"), lf("attr", iv(w.og), pre+"o.g")
	g252 := lf("lit", iv(4503599627370497), "4503599627370497")
	ggs1 := lf("index", iv(w.gs[1]), idx("gs", "1")...)

	p := map[byte][]leaf{
		'i': {i2, ia, i12, ib, ion, ixs1,
			call("min", ib, ia, i2),               // 2: three arguments
			call("max", i2, ia),                   // 3: two arguments
			elemAt(1, ia, i12),                    // 12: [a, 12][1]
			hashAt("k", "k", ib, "j", i2),         // 7: {'k': b, 'j': 2}['k']
			call("max", ia, call("min", ion, ib)), // 5: nested one level
			call("pick", ilit(1), ia, ixs1),       // 30: the harness function, an item access among the arguments
		},
		'b': {bt, bf, btrue, bof, bbs0, bfalse,
			call("pick", ilit(0), bt, bf),         // true
			elemAt(1, bt, bf),                     // false: [t, f][1]
			hashAt("k", "k", btrue, "j", bf),      // true
			call("pick", ilit(1), bt, bof),        // false
			elemAt(1, bf, bbs0),                   // true: [f, bs[0]][1]
			call("pick", ilit(2), ia, bt, bfalse), // false: four arguments
		},
		's': {sa, ss, sb, sos, sab, sss1,
			elemAt(1, sb, sa),                           // 'a': ['b', 'a'][1]
			deflt(call("pick", ilit(1), ia, ss)),        // "ab": a call with commas as filter argument
			hashAt("k", "j", sa, "k", sb),               // 'b': the second entry of {'j': 'a', 'k': 'b'}
			call("pick", ilit(2), sa, ss, sos),          // "ba": four arguments
			call("pick", ilit(0), sab, comma),           // "ab": a comma inside a string literal among the arguments
			call("pick", ilit(1), listOf(ia, i2), sss1), // "abab": a list literal among the arguments
		},
		// numeric strings: strings that hold an integer in its canonical decimal spelling. Neighbours in
		// the pool (the operands of `N0 < N1` under the six rotations) are ordered differently as numbers
		// and as texts in four of the six pairs: 10/9, -2/-1, 30/5, 5/10 (9/-2 and -1/30 agree), and
		// n[4] = "30" meets xs[1] = 30, n[5] = "5" meets o.n = 5 in `N0 == I1` / `I0 == N1`.
		'n': {
			lf("lit", sv("10"), "'10'"),
			lf("var", sv(w.n), pre+"n"),
			lf("lit", sv("-2"), "'-2'"),
			lf("attr", sv(w.om), pre+"o.m"),
			lf("lit", sv("30"), "\"30\""),
			lf("index", sv(w.ns[1]), idx("ns", "1")...),
		},
		'l': {lxs, l37, loxs, la12,
			call("pick", ilit(1), ia, lxs),   // xs
			listOf(call("max", i2, ia), ib),  // [3, 7] as [max(2, a), b]
			call("pick", ilit(0), loxs, lxs), // o.xs
			listOf(ia, call("max", i2, i12)), // [3, 12] as [a, max(2, 12)]
			lxs, l37, loxs, la12,
		},
		// large integers (static type 'g'): magnitudes 10^14 .. 2^53-1 on both sides of 10^15, where a
		// formatter that is not the print tag's may switch to another spelling. Slots 6-11 are the comma
		// twins of slots 0-5 (the values come back out of a call, a list or a hash literal).
		'g': {g999, gbig, g1e15, gog, g252, ggs1,
			elemAt(1, ia, g999),              // [a, 999999999999999][1]
			call("pick", ilit(1), ia, gbig),  // pick(1, a, big)
			hashAt("k", "k", g1e15, "j", i2), // {'k': 1000000000000000, 'j': 2}['k']
			call("pick", ilit(0), gog, i2),   // pick(0, o.g, 2)
			call("max", i2, g252),            // max(2, 4503599627370497)
			call("min", ggs1, ia),            // min(gs[1], a) = -9007199254740991
		},
		// medium integers (static type 'm', 10^7 .. 94906265): only ever factors of a product M * M or
		// the base of M ^ 2, so that a large integer arises as an intermediate result; every product of
		// two of them lies in 10^14 .. 2^53 (10000000^2 = 10^14, 94906265^2 = 9007199136250225 < 2^53), and
		// the pool straddles 10^15: 31622776 * 31622777 = 999999993568952 < 10^15 < 31622777^2
		'm': {
			lf("lit", iv(67108865), "67108865"), // 2^26 + 1
			lf("var", iv(w.c), pre+"c"),
			lf("lit", iv(31622777), "31622777"),
			lf("attr", iv(w.oc), pre+"o.c"),
			lf("lit", iv(10000000), "10000000"),
			lf("index", iv(w.ms[1]), idx("ms", "1")...),
		},
		'r': { // regular expressions, only ever the right operand of `matches`
			lf("lit", sv("/^a/"), "'/^a/'"),
			lf("lit", sv("/b$/"), "'/b$/'"),
		},
	}
	p['x'] = extraLeaves(pre)
	if !w.base {
		return p // in the other worlds the values follow from the structure of the leaves
	}
	// the comma leaves are twins: same value as the plain leaf half (a third) of the pool away
	for _, t := range []byte{'i', 'b', 's', 'g'} {
		for i := 0; i < 6; i++ {
			if len(p[t]) != 12 || !p[t][i].v.eq(p[t][i+6].v) || p[t][i].comma || !p[t][i+6].comma {
				panic(fmt.Sprintf("pool %c: slot %d and its comma twin disagree", t, i))
			}
		}
	}
	for i := 0; i < 4; i++ {
		if !p['l'][i].v.eq(p['l'][i+4].v) || !p['l'][i+4].comma {
			panic("list pool: twin")
		}
	}
	return p
}

const nRot = 12 // lcm of the pool sizes

// the context every template is rendered with in world 0 (contextOf in worlds.go; must agree with the pools above)
func context() map[string]interface{} { return contextOf(worlds[0]) }
// ---- trees

type node struct {
	kind byte // 'a' atom, 'u' unary, 'f' filter, 'b' binary, 'c' conditional
	op   string
	typ  byte
	k    []*node
	nl   int // number of leaves below
	nops int // number of operator nodes (all kinds) below, including this one
	// only in trees built by the mini parser:
	lf   *leaf
	bare bool // a unary operator written without surrounding parentheses
}

func mk(kind byte, op string, typ byte, kids ...*node) *node {
	n := &node{kind: kind, op: op, typ: typ, k: kids}
	if kind == 'a' {
		n.nl = 1
		return n
	}
	n.nops = 1
	for _, c := range kids {
		n.nl += c.nl
		n.nops += c.nops
	}
	return n
}

// the operator table of the statement: or < and < comparison < + - ~ < * / % < ^
var trueLevel = map[string]int{
	"or": 1, "and": 2,
	"==": 3, "!=": 3, "<": 3, ">": 3, "<=": 3, ">=": 3, "in": 3, "not in": 3, "matches": 3, "starts with": 3, "ends with": 3,
	"+": 4, "-": 4, "~": 4,
	"*": 5, "/": 5, "%": 5,
	"^": 6,
}

type bspec struct {
	op     string
	lt, rt byte
	res    byte
	core   bool
	ns     byte // 0: no numeric string involved; 1: numeric-string typing kept in the largest classes; 2: the others
	big    byte // 0: no large integer involved; 1: large-integer typing kept in rep mode; 2: the others
}

var bspecs = []bspec{
	{"or", 'b', 'b', 'b', true, 0, 0}, {"and", 'b', 'b', 'b', true, 0, 0},
	{"==", 'i', 'i', 'b', true, 0, 0}, {"==", 's', 's', 'b', false, 0, 0}, {"==", 'b', 'b', 'b', true, 0, 0},
	{"!=", 'i', 'i', 'b', true, 0, 0}, {"!=", 's', 's', 'b', false, 0, 0}, {"!=", 'b', 'b', 'b', false, 0, 0},
	{"<", 'i', 'i', 'b', true, 0, 0}, {">", 'i', 'i', 'b', false, 0, 0}, {"<=", 'i', 'i', 'b', false, 0, 0}, {">=", 'i', 'i', 'b', true, 0, 0},
	{"in", 'i', 'l', 'b', true, 0, 0}, {"not in", 'i', 'l', 'b', false, 0, 0},
	{"matches", 's', 'r', 'b', false, 0, 0}, {"starts with", 's', 's', 'b', true, 0, 0}, {"ends with", 's', 's', 'b', false, 0, 0},
	{"+", 'i', 'i', 'i', true, 0, 0}, {"-", 'i', 'i', 'i', true, 0, 0},
	{"~", 'i', 'i', 's', true, 0, 0}, {"~", 'i', 's', 's', false, 0, 0}, {"~", 's', 'i', 's', true, 0, 0}, {"~", 's', 's', 's', true, 0, 0},
	{"*", 'i', 'i', 'i', true, 0, 0}, {"/", 'i', 'i', 'i', true, 0, 0}, {"%", 'i', 'i', 'i', true, 0, 0},
	{"^", 'i', 'i', 'i', true, 0, 0},
	// numeric strings (static type 'n'): ordered by numeric value, equal to the number they spell
	{"<", 'n', 'n', 'b', false, 1, 0}, {">", 'n', 'n', 'b', false, 2, 0}, {"<=", 'n', 'n', 'b', false, 2, 0}, {">=", 'n', 'n', 'b', false, 1, 0},
	{"==", 'n', 'i', 'b', false, 1, 0}, {"==", 'i', 'n', 'b', false, 2, 0}, {"!=", 'n', 'i', 'b', false, 2, 0}, {"!=", 'i', 'n', 'b', false, 1, 0},
	{"<", 'n', 'i', 'b', false, 2, 0}, {">=", 'i', 'n', 'b', false, 2, 0},
	{"~", 'i', 'i', 'n', false, 1, 0},
	// large integers (static type 'g', 10^14 <= |v| < 2^53) and the medium factors 'm' they arise from:
	// exact arithmetic, numeric comparison, and concatenation of the exact decimal spelling
	{"~", 'g', 's', 's', false, 0, 1}, {"~", 's', 'g', 's', false, 0, 1}, {"~", 'g', 'g', 's', false, 0, 2},
	{"+", 'g', 'i', 'g', false, 0, 1}, {"-", 'g', 'i', 'g', false, 0, 2}, {"+", 'i', 'g', 'g', false, 0, 2},
	{"-", 'g', 'g', 'i', false, 0, 1},
	{"*", 'm', 'm', 'g', false, 0, 1}, {"*", 'i', 'g', 'g', false, 0, 2},
	{"/", 'g', 'i', 'g', false, 0, 2}, {"%", 'g', 'i', 'i', false, 0, 2},
	{"^", 'm', 'i', 'g', false, 0, 2},
	{"==", 'g', 'g', 'b', false, 0, 1}, {"!=", 'g', 'g', 'b', false, 0, 2},
	{"<", 'g', 'g', 'b', false, 0, 1}, {">=", 'g', 'g', 'b', false, 0, 2},
}

type uspec struct {
	kind    byte
	op      string
	in, out byte
	big     byte // as in bspec
}

var uspecs = []uspec{
	{'u', "-", 'i', 'i', 0}, {'u', "not", 'b', 'b', 0},
	{'f', "abs", 'i', 'i', 0}, {'f', "length", 's', 'i', 0}, {'f', "length", 'l', 'i', 0}, {'f', "upper", 's', 's', 0},
	// large integers: negation and |abs stay exact, |trim yields the decimal spelling
	{'u', "-", 'g', 'g', 1}, {'f', "abs", 'g', 'g', 2}, {'f', "trim", 'g', 's', 1},
}

// gen returns every tree skeleton of result type typ with exactly k binary/conditional operators
// and exactly u unary operators / filter applications. coreOnly restricts the binary operators to
// one or two representatives per (level, typing) — used for the largest size only.
type genKey struct {
	k, u int
	typ  byte
	core genMode
}

// genMode restricts the binary typings: core = one or two representatives per (level, typing)
// (unused by the present tiers); nsRep = of the numeric-string typings only the representatives
// `<` `>=` (n,n), `==` (n,i), `!=` (i,n) and `~` (i,i) -> n.
// big: 0 = every large-integer typing, 1 = only the representatives `~` (g,s) (s,g), `+` (g,i), `-` (g,g),
// `*` (m,m), `==` `<` (g,g), unary minus and |trim, 2 = none (no tree contains a large integer).
type genMode struct {
	core, nsRep bool
	big         byte
}

func (m genMode) skipsBig(b byte) bool { return b > 0 && (m.big == 2 || (m.big == 1 && b > 1)) }

var genMemo = map[genKey][]*node{}

func gen(k, u int, typ byte, core genMode) []*node {
	key := genKey{k, u, typ, core}
	if r, ok := genMemo[key]; ok {
		return r
	}
	var out []*node
	emit := func(n *node) { out = append(out, n) }
	genInto(k, u, typ, core, emit)
	genMemo[key] = out
	return out
}

// genInto streams the same trees to emit (used for the top level so that the largest class is
// never materialised).
func genInto(k, u int, typ byte, core genMode, emit func(*node)) {
	if (typ == 'g' || typ == 'm') && core.big == 2 {
		return
	}
	if k == 0 && u == 0 {
		emit(mk('a', "", typ))
		return
	}
	if typ == 'r' {
		return
	}
	if u > 0 {
		for _, s := range uspecs {
			if s.out != typ || core.skipsBig(s.big) {
				continue
			}
			for _, c := range gen(k, u-1, s.in, core) {
				if s.kind == 'u' && c.kind == 'u' {
					continue // no double unary (`- -a`, `not not t`)
				}
				emit(mk(s.kind, s.op, typ, c))
			}
		}
	}
	if k == 0 {
		return
	}
	if typ != 'l' {
		for _, s := range bspecs {
			if s.res != typ || (core.core && !s.core) || (core.nsRep && s.ns > 1) || core.skipsBig(s.big) {
				continue
			}
			for kl := 0; kl < k; kl++ {
				for ul := 0; ul <= u; ul++ {
					ls := gen(kl, ul, s.lt, core)
					rs := gen(k-1-kl, u-ul, s.rt, core)
					for _, l := range ls {
						for _, r := range rs {
							emit(mk('b', s.op, typ, l, r))
						}
					}
				}
			}
		}
	}
	for kc := 0; kc < k; kc++ {
		for kl := 0; kc+kl < k; kl++ {
			kr := k - 1 - kc - kl
			for uc := 0; uc <= u; uc++ {
				for ul := 0; uc+ul <= u; ul++ {
					ur := u - uc - ul
					for _, c := range gen(kc, uc, 'b', core) {
						for _, l := range gen(kl, ul, typ, core) {
							for _, r := range gen(kr, ur, typ, core) {
								emit(mk('c', "?", typ, c, l, r))
							}
						}
					}
				}
			}
		}
	}
}

// ---- an instance: a skeleton plus the leaves chosen for it

type inst struct {
	root   *node
	leaves []leaf    // by leaf ordinal
	refs   []leafRef // where each leaf stands in the pools (the same slot in every world and spelling)
}

// leafRef: slot `slot` of the pool of type `typ`
type leafRef struct {
	typ  byte
	slot int
}

func instantiate(root *node, rot int) *inst {
	in := &inst{root: root}
	var walk func(n *node)
	walk = func(n *node) {
		if n.kind == 'a' {
			p := pools[n.typ]
			in.refs = append(in.refs, leafRef{n.typ, (len(in.leaves) + rot) % len(p)})
			in.leaves = append(in.leaves, p[(len(in.leaves)+rot)%len(p)])
			return
		}
		for _, c := range n.k {
			walk(c)
		}
	}
	walk(root)
	return in
}

// ---- reference evaluation (dynamic typing; an ill-typed or undefined operation is an error)

type evalErr string

func (e evalErr) Error() string { return string(e) }

const maxExact = int64(1) << 53

func inRange(x *big.Int) bool {
	return x.IsInt64() && x.Int64() <= maxExact && x.Int64() >= -maxExact
}

type evaluator struct {
	leaves []leaf
	all    bool  // evaluate every operand (well-definedness check) instead of short-circuiting
	trace  []int // leaf ordinals evaluated
	maxAbs int64 // the largest magnitude of an integer leaf or intermediate result evaluated
}

// eval evaluates n whose first leaf has ordinal base, and notes the largest integer magnitude met.
func (e *evaluator) eval(n *node, base int) (val, error) {
	v, err := e.eval1(n, base)
	if err == nil && v.t == 'i' {
		a := v.i
		if a < 0 {
			a = -a
		}
		if a > e.maxAbs {
			e.maxAbs = a
		}
	}
	return v, err
}

func (e *evaluator) eval1(n *node, base int) (val, error) {
	switch n.kind {
	case 'a':
		e.trace = append(e.trace, base)
		if n.lf != nil {
			return n.lf.v, nil
		}
		return e.leaves[base].v, nil
	case 'u':
		x, err := e.eval(n.k[0], base)
		if err != nil {
			return val{}, err
		}
		if n.op == "-" || n.op == "+" {
			// unary plus (only in the signed-operand family): the operand itself
			if x.t != 'i' {
				return val{}, evalErr("type: " + n.op + string(x.t))
			}
			if n.op == "+" {
				return x, nil
			}
			return iv(-x.i), nil
		}
		if x.t != 'b' {
			return val{}, evalErr("type: not " + string(x.t))
		}
		return bv(!x.b), nil
	case 'f':
		x, err := e.eval(n.k[0], base)
		if err != nil {
			return val{}, err
		}
		switch n.op {
		case "abs":
			if x.t != 'i' {
				return val{}, evalErr("type: abs")
			}
			if x.i < 0 {
				return iv(-x.i), nil
			}
			return x, nil
		case "length":
			if x.t == 's' {
				return iv(int64(utf8.RuneCountInString(x.s))), nil
			}
			if x.t == 'l' {
				return iv(int64(len(x.l))), nil
			}
			return val{}, evalErr("type: length")
		case "upper":
			if x.t != 's' {
				return val{}, evalErr("type: upper")
			}
			return sv(strings.ToUpper(x.s)), nil
		case "trim":
			// of an integer: its decimal spelling (generated for large integers only)
			if x.t != 'i' {
				return val{}, evalErr("type: trim")
			}
			return sv(x.String()), nil
		}
		return val{}, evalErr("filter " + n.op)
	case 'c':
		c, err := e.eval(n.k[0], base)
		if err != nil {
			return val{}, err
		}
		if c.t != 'b' {
			return val{}, evalErr("type: condition")
		}
		b1 := base + n.k[0].nl
		b2 := b1 + n.k[1].nl
		if e.all {
			x, err1 := e.eval(n.k[1], b1)
			y, err2 := e.eval(n.k[2], b2)
			if err1 != nil {
				return val{}, err1
			}
			if err2 != nil {
				return val{}, err2
			}
			if x.t != y.t {
				return val{}, evalErr("type: branches")
			}
			if c.b {
				return x, nil
			}
			return y, nil
		}
		if c.b {
			return e.eval(n.k[1], b1)
		}
		return e.eval(n.k[2], b2)
	case 'b':
		l, err := e.eval(n.k[0], base)
		if err != nil {
			return val{}, err
		}
		rb := base + n.k[0].nl
		if n.op == "and" || n.op == "or" {
			if l.t != 'b' {
				return val{}, evalErr("type: " + n.op)
			}
			if !e.all && l.b == (n.op == "or") {
				return bv(l.b), nil
			}
			r, err := e.eval(n.k[1], rb)
			if err != nil {
				return val{}, err
			}
			if r.t != 'b' {
				return val{}, evalErr("type: " + n.op)
			}
			if n.op == "and" {
				return bv(l.b && r.b), nil
			}
			return bv(l.b || r.b), nil
		}
		r, err := e.eval(n.k[1], rb)
		if err != nil {
			return val{}, err
		}
		return binop(n.op, l, r)
	}
	return val{}, evalErr("node kind")
}

func binop(op string, l, r val) (val, error) {
	bad := func() (val, error) {
		return val{}, evalErr(fmt.Sprintf("type: %c %s %c", l.t, op, r.t))
	}
	switch op {
	case "==", "!=":
		if l.t == 'l' || r.t == 'l' || l.t == 'L' || r.t == 'L' {
			return bad()
		}
		if l.t != r.t {
			// a numeric string equals the number it spells; every other mixture is left open
			a, aok := numeric(l)
			b, bok := numeric(r)
			if !aok || !bok {
				return bad()
			}
			return bv((a == b) == (op == "==")), nil
		}
		return bv(l.eq(r) == (op == "==")), nil
	case "<", ">", "<=", ">=":
		// numeric comparison: of integers, and of strings that spell integers (never of other strings)
		a, aok := numeric(l)
		b, bok := numeric(r)
		if !aok || !bok {
			return bad()
		}
		switch op {
		case "<":
			return bv(a < b), nil
		case ">":
			return bv(a > b), nil
		case "<=":
			return bv(a <= b), nil
		}
		return bv(a >= b), nil
	case "in", "not in":
		// membership: an integer among integers, a string among strings (equal as strings); every mixture is left open
		found := false
		switch {
		case l.t == 'i' && r.t == 'l':
			for _, x := range r.l {
				if x == l.i {
					found = true
				}
			}
		case l.t == 's' && r.t == 'L':
			for _, x := range r.ls {
				if x == l.s {
					found = true
				}
			}
		default:
			return bad()
		}
		return bv(found == (op == "in")), nil
	case "starts with":
		if l.t != 's' || r.t != 's' {
			return bad()
		}
		return bv(strings.HasPrefix(l.s, r.s)), nil
	case "ends with":
		if l.t != 's' || r.t != 's' {
			return bad()
		}
		return bv(strings.HasSuffix(l.s, r.s)), nil
	case "matches":
		if l.t != 's' || r.t != 's' || len(r.s) < 3 || r.s[0] != '/' || r.s[len(r.s)-1] != '/' {
			return bad()
		}
		re, err := regexp.Compile(r.s[1 : len(r.s)-1])
		if err != nil {
			return bad()
		}
		return bv(re.MatchString(l.s)), nil
	case "~":
		if (l.t != 'i' && l.t != 's') || (r.t != 'i' && r.t != 's') {
			return bad()
		}
		return sv(l.String() + r.String()), nil
	case "+", "-", "*", "/", "%", "^":
		if l.t != 'i' || r.t != 'i' {
			return bad()
		}
		a, b := big.NewInt(l.i), big.NewInt(r.i)
		z := new(big.Int)
		switch op {
		case "+":
			z.Add(a, b)
		case "-":
			z.Sub(a, b)
		case "*":
			z.Mul(a, b)
		case "/":
			if r.i == 0 || l.i%r.i != 0 {
				return val{}, evalErr("undefined: inexact or zero division")
			}
			z.Quo(a, b)
		case "%":
			if l.i < 0 || r.i <= 0 {
				return val{}, evalErr("undefined: % outside non-negative % positive")
			}
			z.Rem(a, b)
		case "^":
			if r.i < 0 || r.i > 3 || (l.i == 0 && r.i == 0) {
				return val{}, evalErr("undefined: exponent outside 0..3")
			}
			z.Exp(a, b, nil)
		}
		if !inRange(z) {
			return val{}, evalErr("undefined: beyond 2^53")
		}
		return iv(z.Int64()), nil
	}
	return val{}, evalErr("operator " + op)
}

// numeric: the number an operand of a comparison stands for — an integer, or a string that holds
// an integer within +-2^53 in its canonical decimal spelling (no sign on zero, no leading zeros, no
// blanks, no fraction, no exponent: the statement says nothing about how those would be read).
func numeric(v val) (int64, bool) {
	switch v.t {
	case 'i':
		return v.i, true
	case 's':
		x, err := strconv.ParseInt(v.s, 10, 64)
		if err != nil || strconv.FormatInt(x, 10) != v.s || x > maxExact || x < -maxExact {
			return 0, false
		}
		return x, true
	}
	return 0, false
}

// value evaluates with short circuit and returns the sorted set of evaluated leaf ordinals.
func (in *inst) value() (val, []int, error) {
	e := &evaluator{leaves: in.leaves}
	v, err := e.eval(in.root, 0)
	sort.Ints(e.trace)
	return v, e.trace, err
}

// large: the magnitude from which an integer counts as large (the band 10^14 .. 2^53 of the statement's
// exact range in which spellings of differing formatters part)
const large = int64(100000000000000)

// maxMagnitude: the largest integer magnitude among the leaves and intermediate results (all of
// them, also those a short circuit skips).
func (in *inst) maxMagnitude() int64 {
	e := &evaluator{leaves: in.leaves, all: true}
	e.eval(in.root, 0)
	return e.maxAbs
}

// wellDefined: every subexpression (also those a short circuit skips) has a value the statement
// determines, and the static types are respected.
func (in *inst) wellDefined() bool {
	e := &evaluator{leaves: in.leaves, all: true}
	_, err := e.eval(in.root, 0)
	return err == nil
}

// ---- printing

const (
	parMin  = iota // only the parentheses the table requires
	parFull        // every compound operand parenthesised
	parMax         // every operand, every leaf and the whole expression parenthesised
	parRoot        // minimal, and the whole expression parenthesised
	parMask        // minimal plus the subset `mask` of the optional parentheses around compound operands
)

const (
	spNormal = iota
	spTight
	spWide
)

type style struct {
	par    int
	mask   uint
	sp     int
	traced bool // leaves are printed as calls k(ordinal)
	loop   bool // the position stands inside `{% for w in ws %}` (the tree is spelled with w.a, w.o.n, …)
	quirk  bool // KF-C08-1 twin: a unary operator on an index-access leaf is printed as (-xs)[1]
}

func (s style) String() string {
	p := []string{"min", "full", "max", "root", "mask"}[s.par]
	if s.par == parMask {
		p = fmt.Sprintf("mask%b", s.mask)
	}
	r := p + "/" + []string{"normal", "tight", "wide"}[s.sp]
	if s.traced {
		r += "/traced"
	}
	if s.loop {
		r += "/loop"
	}
	return r
}

type printer struct {
	st     style
	leaves []leaf
	ord    int  // next leaf ordinal
	ci     uint // next optional-parenthesis index (parMask)
	nopt   uint // number of optional parenthesis sites seen
}

func isWord(op string) bool { return op[0] >= 'a' && op[0] <= 'z' }

func (p *printer) binSep(op string) string {
	switch p.st.sp {
	case spTight:
		if isWord(op) {
			return " " + op + " "
		}
		return op
	case spWide:
		return "  " + op + "  "
	}
	return " " + op + " "
}

func (p *printer) paren(s string) string {
	if p.st.sp == spWide {
		return "(  " + s + "  )"
	}
	return "(" + s + ")"
}

// required reports whether the statement's table (plus the documented exclusions) forces
// parentheses around child c in slot i of parent n.
func required(n, c *node, slot int) bool {
	switch n.kind {
	case 'b':
		switch c.kind {
		case 'b':
			if slot == 0 {
				return trueLevel[c.op] < trueLevel[n.op]
			}
			return trueLevel[c.op] <= trueLevel[n.op]
		case 'c':
			return true
		case 'u':
			if c.op != "not" {
				return n.op == "^" && slot == 0 // -a ^ b (and +a ^ b) is excluded
			}
			return trueLevel[n.op] == 3 // not a == b is excluded
		}
		return false
	case 'u':
		return c.kind != 'a' // -a|abs is excluded; compound operands need them anyway
	case 'f':
		return c.kind != 'a' && c.kind != 'f'
	case 'c':
		return slot == 0 && c.kind == 'c'
	}
	return false
}

func (p *printer) child(n, c *node, slot int) string {
	// the quirk twin: (-xs)[1] instead of -xs[1]
	s := p.expr(c)
	req := required(n, c, slot)
	wrap := req
	switch p.st.par {
	case parFull:
		wrap = wrap || c.kind != 'a'
	case parMax:
		wrap = true
	case parMask:
		if !req && c.kind != 'a' {
			if p.st.mask&(1<<p.ci) != 0 {
				wrap = true
			}
			p.ci++
		}
	}
	if !req && c.kind != 'a' {
		p.nopt++
	}
	if wrap {
		return p.paren(s)
	}
	return s
}

func (p *printer) expr(n *node) string {
	switch n.kind {
	case 'a':
		o := p.ord
		p.ord++
		if p.st.traced {
			return fmt.Sprintf("k(%d)", o)
		}
		if n.lf != nil {
			return n.lf.src[0]
		}
		return p.leaves[o].src[p.st.sp]
	case 'u':
		c := n.k[0]
		opS := n.op // - or +
		if n.op == "not" {
			opS = "not "
		}
		if p.st.quirk && !p.st.traced && c.kind == 'a' && p.leaves[p.ord].kind == "index" && p.st.par != parMax {
			// print -xs[1] as (-xs)[1]
			src := p.leaves[p.ord].src[p.st.sp]
			p.ord++
			br := strings.Index(src, "[")
			return "(" + opS + src[:br] + ")" + src[br:]
		}
		return opS + p.child(n, c, 0)
	case 'f':
		s := p.child(n, n.k[0], 0)
		if p.st.sp == spWide {
			return s + " | " + n.op
		}
		return s + "|" + n.op
	case 'b':
		l := p.child(n, n.k[0], 0)
		r := p.child(n, n.k[1], 1)
		return l + p.binSep(n.op) + r
	case 'c':
		c := p.child(n, n.k[0], 0)
		x := p.child(n, n.k[1], 1)
		y := p.child(n, n.k[2], 2)
		switch p.st.sp {
		case spTight:
			return c + "?" + x + ":" + y
		case spWide:
			return c + "  ?  " + x + "  :  " + y
		}
		return c + " ? " + x + " : " + y
	}
	panic("print")
}

// print returns the expression under the style, and the number of optional parenthesis sites.
func (in *inst) print(st style) (string, uint) {
	p := &printer{st: st, leaves: in.leaves}
	s := p.expr(in.root)
	if st.par == parMax || st.par == parRoot {
		s = p.paren(s)
	}
	return s, p.nopt
}

// hasUnaryOnIndex: the predicate of KF-C08-1 — some unary operator stands directly in front of an
// index-access leaf.
func (in *inst) hasUnaryOnIndex() bool {
	ord := 0
	found := false
	var walk func(n *node)
	walk = func(n *node) {
		if n.kind == 'a' {
			ord++
			return
		}
		if n.kind == 'u' && n.k[0].kind == 'a' && in.leaves[ord].kind == "index" {
			found = true
		}
		for _, c := range n.k {
			walk(c)
		}
	}
	walk(in.root)
	return found
}

// canon is the fully parenthesised, normally spaced form used as identity of a tree.
func canon(n *node, leafSrc func(ord int, n *node) string) string {
	ord := 0
	var f func(n *node) string
	f = func(n *node) string {
		switch n.kind {
		case 'a':
			o := ord
			ord++
			return leafSrc(o, n)
		case 'u':
			if n.op == "not" {
				return "(not " + f(n.k[0]) + ")"
			}
			return "(" + n.op + f(n.k[0]) + ")"
		case 'f':
			return "(" + f(n.k[0]) + "|" + n.op + ")"
		case 'b':
			l := f(n.k[0])
			r := f(n.k[1])
			return "(" + l + " " + n.op + " " + r + ")"
		case 'c':
			c := f(n.k[0])
			x := f(n.k[1])
			y := f(n.k[2])
			return "(" + c + " ? " + x + " : " + y + ")"
		}
		panic("canon")
	}
	return f(n)
}

// skeleton key: types and ordinals of the leaves instead of their spelling
func skelKey(n *node) string {
	return canon(n, func(o int, n *node) string { return fmt.Sprintf("%c%d", n.typ-32, o) })
}

func (in *inst) canon() string {
	return canon(in.root, func(o int, n *node) string { return in.leaves[o].src[0] })
}

func (in *inst) hasShortCircuit() bool {
	var f func(n *node) bool
	f = func(n *node) bool {
		if n.kind == 'c' || (n.kind == 'b' && (n.op == "and" || n.op == "or")) {
			return true
		}
		for _, c := range n.k {
			if f(c) {
				return true
			}
		}
		return false
	}
	return f(in.root)
}

// ---- KF-C08-2: the alternative oracle "arithmetic is done in IEEE-754 doubles and the quotient
// 0 / negative (and a power of it) keeps its sign: negative zero, printed as -0". The shadow
// evaluator repeats the reference evaluation in float64 with exactly that deviation: + and - as
// IEEE, the results of *, %, unary minus and abs normalised to +0 (what the repaired tree does),
// / and ^ not.

type sval struct {
	t byte
	f float64
	b bool
	s string
	l []int64
}

func (v sval) String() string {
	switch v.t {
	case 'i':
		return strconv.FormatFloat(v.f, 'f', -1, 64)
	case 'b':
		if v.b {
			return "T"
		}
		return "F"
	case 's':
		return v.s
	}
	return val{t: 'l', l: v.l}.String()
}

// num: the value of an operand of a comparison (a numeric string counts as its number)
func (v sval) num() float64 {
	if v.t == 's' {
		f, _ := strconv.ParseFloat(v.s, 64)
		return f
	}
	return v.f
}

type shadow struct {
	leaves  []leaf
	negZero bool // a division or power produced negative zero
}

func isNegZero(f float64) bool { return f == 0 && math.Signbit(f) }

func (e *shadow) eval(n *node, base int) sval {
	switch n.kind {
	case 'a':
		v := e.leaves[base].v
		return sval{t: v.t, f: float64(v.i), b: v.b, s: v.s, l: v.l}
	case 'u':
		x := e.eval(n.k[0], base)
		if n.op == "-" {
			return sval{t: 'i', f: -x.f + 0}
		}
		if n.op == "+" {
			return x
		}
		return sval{t: 'b', b: !x.b}
	case 'f':
		x := e.eval(n.k[0], base)
		switch n.op {
		case "abs":
			return sval{t: 'i', f: math.Abs(x.f)}
		case "length":
			if x.t == 's' {
				return sval{t: 'i', f: float64(utf8.RuneCountInString(x.s))}
			}
			return sval{t: 'i', f: float64(len(x.l))}
		case "trim":
			return sval{t: 's', s: x.String()}
		}
		return sval{t: 's', s: strings.ToUpper(x.s)}
	case 'c':
		b1 := base + n.k[0].nl
		if e.eval(n.k[0], base).b {
			return e.eval(n.k[1], b1)
		}
		return e.eval(n.k[2], b1+n.k[1].nl)
	}
	l := e.eval(n.k[0], base)
	rb := base + n.k[0].nl
	switch n.op {
	case "and":
		return sval{t: 'b', b: l.b && e.eval(n.k[1], rb).b}
	case "or":
		return sval{t: 'b', b: l.b || e.eval(n.k[1], rb).b}
	}
	r := e.eval(n.k[1], rb)
	num := func(f float64) sval { return sval{t: 'i', f: f} }
	boolean := func(b bool) sval { return sval{t: 'b', b: b} }
	switch n.op {
	case "+":
		return num(l.f + r.f)
	case "-":
		return num(l.f - r.f)
	case "*":
		return num(l.f*r.f + 0)
	case "%":
		return num(math.Mod(l.f, r.f) + 0)
	case "/":
		q := l.f / r.f
		if isNegZero(q) {
			e.negZero = true
		}
		return num(q)
	case "^":
		q := math.Pow(l.f, r.f)
		if isNegZero(q) {
			e.negZero = true
		}
		return num(q)
	case "~":
		return sval{t: 's', s: l.String() + r.String()}
	case "==", "!=":
		eq := l.String() == r.String()
		if l.t == 'i' || r.t == 'i' {
			eq = l.num() == r.num()
		}
		return boolean(eq == (n.op == "=="))
	case "<":
		return boolean(l.num() < r.num())
	case ">":
		return boolean(l.num() > r.num())
	case "<=":
		return boolean(l.num() <= r.num())
	case ">=":
		return boolean(l.num() >= r.num())
	case "in", "not in":
		found := false
		for _, x := range r.l {
			if float64(x) == l.f {
				found = true
			}
		}
		return boolean(found == (n.op == "in"))
	case "starts with":
		return boolean(strings.HasPrefix(l.s, r.s))
	case "ends with":
		return boolean(strings.HasSuffix(l.s, r.s))
	case "matches":
		return boolean(regexp.MustCompile(r.s[1 : len(r.s)-1]).MatchString(l.s))
	}
	panic("shadow: " + n.op)
}

// negativeZeroQuirk: what KF-C08-2 predicts for the tree, and whether its predicate holds.
func (in *inst) negativeZeroQuirk() (string, bool) {
	e := &shadow{leaves: in.leaves}
	v := e.eval(in.root, 0)
	return v.String(), e.negZero
}
