package main

// Re-evaluation of the same expression node with other values of the variables it reads.
//
// A "world" is one assignment of values to all the variables the leaves read. World 0 is the original
// assignment (every earlier case, key and rotation ranking is defined by it). The other worlds give every
// variable another value of the same type: other signs, zero, other truth values, other strings, other
// list lengths, other large integers. A tree is evaluated
//   (b) by rendering its template — registered once, on one engine — once per world, in order, and
//   (a) inside `{% for w in ws %}…{% endfor %}`, ws being the list of the worlds' contexts and every
//       variable leaf spelled as an attribute of w (a -> w.a, o.n -> w.o.n, xs[1] -> w.xs[1]);
// every single evaluation must print the value the reference evaluator gives for ITS world. Only worlds in
// which every subexpression of the tree is defined by the statement are used (exact division, exponent
// 0..3, |values| <= 2^53, canonical numeric strings, ...).
//
// The signed-operand family (signedCases) makes sure that a unary - / + / not applied to a variable, an
// attribute read, an item access and a parenthesised sum stands as left operand, as right operand and on
// both sides of every binary operator typing, next to literals and constant sub-expressions.

import (
	"fmt"
	"strings"
)

type world struct {
	name string
	base bool // world 0
	a, b int64
	on   int64   // o.n
	xs   []int64 // xs[1] is an integer leaf, xs a list leaf
	oxs  []int64 // o.xs
	t, f bool
	of   bool   // o.f
	bs   []bool // bs[0]
	s    string
	os   string   // o.s
	ss   []string // ss[1]
	n    string   // numeric strings
	om   string   // o.m
	ns   []string // ns[1]
	big  int64
	og   int64   // o.g
	gs   []int64 // gs[1]
	c    int64
	oc   int64   // o.c
	ms   []int64 // ms[1]
}

// worlds[0] is the original context. 1, 2, 4, 5 change signs and bring zero; 3 and 6 stay positive and keep
// the divisibility of world 0 (12 / a, xs[1] / a, xs[1] / o.n are exact in 0, 3 and 6), so that the trees
// with / % ^ have further defined evaluations; in 7 all variables of a type are equal and the integers zero
// (so == between two variables holds somewhere). A number of values are chosen so that a comparison with a
// literal of the pools holds in one world and fails in the others (-big = 999999999999999 in W4,
// o.g = 1000000000000000 in W2, o.g + a = 10^15 in W6, -(a + b) = 10 in W5, o.n + 2 = 12 in W6, …).
var worlds = []world{
	{name: "W0", base: true, a: 3, b: 7, on: 5, xs: []int64{2, 30, 5}, oxs: []int64{12, 7},
		t: true, f: false, of: false, bs: []bool{true, false},
		s: "ab", os: "ba", ss: []string{"ba", "abab"}, n: "9", om: "-1", ns: []string{"7", "5"},
		big: 9007199254740991, og: 100000000000000, gs: []int64{1, -9007199254740991},
		c: 94906265, oc: 31622776, ms: []int64{1, 33554432}},
	{name: "W1", a: -4, b: 2, on: -3, xs: []int64{5, -2, 2, 7}, oxs: []int64{-4, 12, 3},
		t: false, f: true, of: true, bs: []bool{false, true},
		s: "b", os: "ab", ss: []string{"a", "ba"}, n: "-3", om: "12", ns: []string{"0", "100"},
		big: 9007199254740990, og: -300000000000000, gs: []int64{2, 4503599627370495},
		c: 67108864, oc: 94906264, ms: []int64{0, 10000001}},
	{name: "W2", a: -2, b: -1, on: -1, xs: []int64{30, -12}, oxs: []int64{7, -2, 3},
		t: true, f: true, of: false, bs: []bool{false, false},
		s: "ba", os: "abab", ss: []string{"b", "ab"}, n: "30", om: "5", ns: []string{"1", "-20"},
		big: -1000000000000001, og: 1000000000000000, gs: []int64{0, -1000000000000000},
		c: 31622778, oc: 10000019, ms: []int64{5, 67108863}},
	{name: "W3", a: 2, b: 5, on: 3, xs: []int64{2, 12, 3}, oxs: []int64{2, 5, 30},
		t: false, f: false, of: true, bs: []bool{true, true},
		s: "a", os: "b", ss: []string{"ab", "ba"}, n: "10", om: "-2", ns: []string{"3", "9"},
		big: 4503599627370496, og: 200000000000000, gs: []int64{1, -4503599627370496},
		c: 10000001, oc: 67108865, ms: []int64{2, 31622777}},
	{name: "W4", a: 0, b: -3, on: 2, xs: []int64{1, 3, -4}, oxs: []int64{0, 30},
		t: true, f: false, of: true, bs: []bool{false, true},
		s: "abab", os: "a", ss: []string{"a", "b"}, n: "0", om: "7", ns: []string{"2", "-1"},
		big: -999999999999999, og: 999999999999999, gs: []int64{3, 123456789012345},
		c: 94906264, oc: 33554433, ms: []int64{7, 94906265}},
	{name: "W5", a: -1, b: -9, on: -2, xs: []int64{3, -3, 1}, oxs: []int64{5},
		t: false, f: true, of: false, bs: []bool{true, false},
		s: "bab", os: "aba", ss: []string{"ab", "a"}, n: "5", om: "-10", ns: []string{"9", "30"},
		big: 8999999999999999, og: -100000000000001, gs: []int64{1, 8999999999999999},
		c: 50000000, oc: 20000001, ms: []int64{1, 67108864}},
	{name: "W6", a: 1, b: 2, on: 10, xs: []int64{7, 60, 1, 2}, oxs: []int64{1, 12},
		t: true, f: false, of: false, bs: []bool{false, false},
		s: "aab", os: "bb", ss: []string{"ba", "abb"}, n: "-1", om: "2", ns: []string{"5", "12"},
		big: 6000000000000001, og: 999999999999999, gs: []int64{4, -1000000000000000},
		c: 30000001, oc: 94906263, ms: []int64{3, 40000000}},
	// every variable of a type has the same value, the integers are zero
	{name: "W7", a: 0, b: 0, on: 0, xs: []int64{0, 0, 0}, oxs: []int64{0, 0},
		t: false, f: false, of: false, bs: []bool{false, false},
		s: "a", os: "a", ss: []string{"a", "a"}, n: "0", om: "0", ns: []string{"0", "0"},
		big: 1000000000000000, og: 1000000000000000, gs: []int64{0, 1000000000000000},
		c: 10000000, oc: 10000000, ms: []int64{0, 10000000}},
}

// describe: the values a mismatch report names
func (w world) describe() string {
	return fmt.Sprintf("%s {a: %d, b: %d, o.n: %d, xs: %v, o.xs: %v, t: %v, f: %v, o.f: %v, bs: %v, s: %q, o.s: %q, ss: %q, n: %q, o.m: %q, ns: %q, big: %d, o.g: %d, gs: %v, c: %d, o.c: %d, ms: %v}",
		w.name, w.a, w.b, w.on, w.xs, w.oxs, w.t, w.f, w.of, w.bs, w.s, w.os, w.ss, w.n, w.om, w.ns, w.big, w.og, w.gs, w.c, w.oc, w.ms)
}

// poolsW[w][0]: the leaf pools with the values of world w; poolsW[w][1]: the same with every variable
// spelled as an attribute of the loop variable w
var poolsW = func() [][2]map[byte][]leaf {
	out := make([][2]map[byte][]leaf, len(worlds))
	for i, w := range worlds {
		out[i] = [2]map[byte][]leaf{buildPools(w, ""), buildPools(w, "w.")}
	}
	return out
}()

// extraLeaves: leaves that only the families use (pool 'x'; the same values in every world): the literals of
// the signed-operand family, the empty string, and — last — the haystacks of the long-haystack family
// (longin.go; pre spells their context variables for the loop form)
func extraLeaves(pre string) []leaf {
	out := []leaf{
		ilit(1), ilit(3), ilit(5), ilit(7),
		lf("lit", sv("n="), "'n='"),
		listOf(ilit(4), ilit(2), ilit(1)),
		lf("lit", sv(""), "''"),
	}
	return append(out, hayLeaves(pre)...)
}

func ints(xs []int64) []interface{} {
	out := make([]interface{}, len(xs))
	for i, x := range xs {
		out[i] = int(x)
	}
	return out
}

func contextOf(w world) map[string]interface{} {
	bs := make([]interface{}, len(w.bs))
	for i, x := range w.bs {
		bs[i] = x
	}
	strs := func(xs []string) []interface{} {
		out := make([]interface{}, len(xs))
		for i, x := range xs {
			out[i] = x
		}
		return out
	}
	m := map[string]interface{}{
		"a": int(w.a), "b": int(w.b), "t": w.t, "f": w.f, "s": w.s, "n": w.n,
		"big": int(w.big), "c": int(w.c),
		"gs": ints(w.gs), "ms": ints(w.ms), "ns": strs(w.ns), "xs": ints(w.xs), "bs": bs, "ss": strs(w.ss),
		"o": map[string]interface{}{"n": int(w.on), "s": w.os, "f": w.of, "t": true, "m": w.om,
			"g": int(w.og), "c": int(w.oc), "xs": ints(w.oxs)},
		"seq": []interface{}{100, 101, 102, 103, 104, 105, 106, 107, 108, 109},
	}
	for k, v := range hayContext {
		m[k] = v // the haystacks of the long-haystack family: the same in every world
	}
	return m
}

// inWorld: the same tree with the values of world w; loop = spelled for the body of `{% for w in ws %}`
func (in *inst) inWorld(w int, loop bool) *inst {
	out := &inst{root: in.root, refs: in.refs, leaves: make([]leaf, len(in.refs))}
	sp := 0
	if loop {
		sp = 1
	}
	for i, r := range in.refs {
		out.leaves[i] = poolsW[w][sp][r.typ][r.slot]
	}
	return out
}

// evaluation: one evaluation of a tree — the world, the tree with that world's values (plain spelling),
// the value and the evaluated leaves the reference evaluator gives there
type evaluation struct {
	w     int
	in    *inst
	v     val
	trace []int
}

func evaluate(in *inst, w int) (evaluation, bool) {
	x := in.inWorld(w, false)
	if !x.wellDefined() {
		return evaluation{}, false
	}
	v, tr, err := x.value()
	if err != nil {
		return evaluation{}, false
	}
	return evaluation{w: w, in: x, v: v, trace: tr}, true
}

// chooseWorlds: up to n evaluations of the tree, those of `first` (when defined) and then, in the order
// given, first the worlds whose value differs from the evaluation before them, then any other world in
// which the tree is defined. Deterministic; depends only on the reference evaluator.
func chooseWorlds(in *inst, first, order []int, n int) []evaluation {
	var evs []evaluation
	used := map[int]bool{}
	for _, w := range first {
		if ev, ok := evaluate(in, w); ok && len(evs) < n {
			evs = append(evs, ev)
			used[w] = true
		}
	}
	var defined []evaluation
	for _, w := range order {
		if used[w] {
			continue
		}
		if ev, ok := evaluate(in, w); ok {
			defined = append(defined, ev)
		}
	}
	for _, ev := range defined {
		if len(evs) < n && (len(evs) == 0 || !evs[len(evs)-1].v.eq(ev.v)) {
			evs = append(evs, ev)
			used[ev.w] = true
		}
	}
	for _, ev := range defined {
		if len(evs) < n && !used[ev.w] {
			evs = append(evs, ev)
			used[ev.w] = true
		}
	}
	return evs
}

// valueChanges: two consecutive evaluations differ in value (a stale result would be visible)
func valueChanges(evs []evaluation) bool {
	for i := 1; i < len(evs); i++ {
		if !evs[i].v.eq(evs[i-1].v) {
			return true
		}
	}
	return false
}

func worldNames(evs []evaluation) string {
	var s []string
	for _, e := range evs {
		s = append(s, worlds[e.w].name)
	}
	return strings.Join(s, ", ")
}

// the order in which the corpus trees (always evaluated in world 0 first) try the other worlds: the ones
// that change signs first, the tame ones as fallback
var corpusOrder = []int{1, 2, 4, 5, 7, 3, 6}
var signedOrder = []int{0, 1, 2, 3, 4, 5, 6, 7}

// ---- the signed-operand family

// sx: a subtree with the pool slots of its leaves in source order
type sx struct {
	n    *node
	refs []leafRef
}

func at(typ byte, slot int) sx {
	t := typ
	if typ == 'x' {
		t = poolsW[0][0]['x'][slot].v.t
	}
	return sx{mk('a', "", t), []leafRef{{typ, slot}}}
}

// ex: a leaf of the extra pool by its spelling
func ex(src string) sx {
	for i, l := range poolsW[0][0]['x'] {
		if l.src[0] == src {
			return at('x', i)
		}
	}
	panic("ex: " + src)
}

func un(op string, c sx) sx { return sx{mk('u', op, c.n.typ, c.n), c.refs} }

func bi(op string, typ byte, l, r sx) sx {
	return sx{mk('b', op, typ, l.n, r.n), append(append([]leafRef{}, l.refs...), r.refs...)}
}

func (x sx) inst() *inst {
	in := &inst{root: x.n, refs: x.refs}
	return in.inWorld(0, false)
}

// signedForms: unary - / + (not for booleans) on a variable, an attribute read, an item access and a
// parenthesised sum of the operand type
func signedForms(t byte) []sx {
	switch t {
	case 'i':
		a, b, on, xs1 := at('i', 1), at('i', 3), at('i', 4), at('i', 5)
		return []sx{un("-", a), un("+", a), un("-", on), un("+", on), un("-", xs1), un("+", xs1),
			un("-", bi("+", 'i', a, b)), un("+", bi("+", 'i', on, at('i', 0)))}
	case 'b':
		t, f, of, bs0 := at('b', 0), at('b', 1), at('b', 3), at('b', 4)
		return []sx{un("not", t), un("not", of), un("not", bs0), un("not", bi("and", 'b', t, f))}
	case 'g':
		big, og, gs1 := at('g', 1), at('g', 3), at('g', 5)
		return []sx{un("-", big), un("+", og), un("-", gs1), un("+", bi("+", 'g', og, at('i', 1)))}
	case 'm':
		c, oc, ms1 := at('m', 1), at('m', 3), at('m', 5)
		return []sx{un("-", c), un("+", oc), un("-", ms1), un("+", bi("-", 'm', c, at('i', 0)))}
	}
	return nil
}

// constantForms: literals and sub-expressions made of literals only, of the operand type
func constantForms(t byte) []sx {
	switch t {
	case 'i':
		return []sx{at('i', 0), at('i', 2), ex("7"), bi("+", 'i', ex("1"), at('i', 0)), bi("*", 'i', at('i', 0), ex("3")), un("-", ex("5"))}
	case 'b':
		return []sx{at('b', 2), at('b', 5), bi("<", 'b', at('i', 0), at('i', 2)), un("not", at('b', 2))}
	case 's':
		return []sx{at('s', 0), at('s', 4), ex("'n='"), bi("~", 's', at('s', 0), at('s', 2))}
	case 'n':
		return []sx{at('n', 0), at('n', 2), at('n', 4), bi("~", 'n', ex("1"), at('i', 0))}
	case 'l':
		return []sx{at('l', 1), ex("[4, 2, 1]")}
	case 'g':
		return []sx{at('g', 0), at('g', 2), bi("-", 'g', at('g', 2), ex("1"))}
	case 'm':
		return []sx{at('m', 0), at('m', 4), at('m', 2)}
	}
	return nil
}

type signedCase struct {
	key   string
	trees []sx
	// always: the case is non-trivial whatever its values do (long-haystack family: more than 50 elements)
	always bool
}

// signedCases: for every binary typing and every signed form of an operand type, the trees
//   L: signed op constant     R: constant op signed     B: signed op signed (the signed forms two and three places on)
// one case per (typing, side, signed form); its trees run over the constant forms (or the partners).
func signedCases() []signedCase {
	var out []signedCase
	for _, s := range bspecs {
		ls, rs := signedForms(s.lt), signedForms(s.rt)
		lc, rc := constantForms(s.lt), constantForms(s.rt)
		typing := fmt.Sprintf("%s(%c,%c)", s.op, s.lt, s.rt)
		if s.res == 'n' {
			continue // i ~ i is the same operator and operands as the string-typed ~ (i,i)
		}
		name := func(x sx) string { c := x.inst().canon(); return c[1 : len(c)-1] }
		for _, l := range ls {
			c := signedCase{key: "signed:" + typing + ":L:" + name(l)}
			for _, r := range rc {
				c.trees = append(c.trees, bi(s.op, s.res, l, r))
			}
			if len(c.trees) > 0 {
				out = append(out, c)
			}
		}
		for _, r := range rs {
			c := signedCase{key: "signed:" + typing + ":R:" + name(r)}
			for _, l := range lc {
				c.trees = append(c.trees, bi(s.op, s.res, l, r))
			}
			if len(c.trees) > 0 {
				out = append(out, c)
			}
		}
		if len(ls) > 0 && len(rs) > 0 {
			for i, l := range ls {
				c := signedCase{key: "signed:" + typing + ":B:" + name(l)}
				for _, d := range []int{2, 3} {
					c.trees = append(c.trees, bi(s.op, s.res, l, rs[(i+d)%len(rs)]))
				}
				out = append(out, c)
			}
		}
	}
	return out
}
