// Part E of C14 — many names (added after the seeded change C14-F was missed).
//
// Parts A–D use a handful of variable names (a, x, xs, i, ...) however long the template gets. Whatever the
// engine keeps per *distinct* name (it interns the identifiers of plain print tags of large templates in
// a process-wide table) therefore never grows in those parts. Part E grows exactly that: templates above
// 4096 bytes made of N plain print tags with N distinct names, for N = 100, 1000, 4000, 4100, 5000, 8000
// (thorough: also 16000, 20000), rendered one after the other in one process, and afterwards small
// everyday templates with names the process has not seen yet, padded across 4096 bytes. "How a tag is
// recognised and parsed does not depend on the length of the template or on where in it the tag
// stands": the i-th tag has to print the value of its own variable, whatever i and N are and whatever
// the process rendered before.
//
// One vlib case = one history (name shape, tag style, same names in every stage or new names in every
// stage); its stages run in the order given, on a fresh engine each. The oracle does not depend on the
// history (a plain print tag prints the value its name has in the context), so a case gives the same
// verdict wherever and whenever it runs.
package main

import (
	"fmt"
	"strings"

	"github.com/semihalev/twig"

	"verif/lib/vlib"
)

type nameShape struct {
	name string
	mk   func(stage string, i int) string
}

func padName(s string, n int) string {
	if len(s) >= n {
		return s
	}
	return s + strings.Repeat("x", n-len(s))
}

var nameShapes = []nameShape{
	{"short", func(st string, i int) string { return fmt.Sprintf("v%s%04d", st, i) }},
	{"under", func(st string, i int) string { return fmt.Sprintf("seed_col_%s_%d", st, i) }},
	{"upper", func(st string, i int) string { return fmt.Sprintf("_V%sn%dZ", st, i) }},
	// names of 63, 64 and 65 bytes (the property knows no length limit for names)
	{"len63", func(st string, i int) string { return padName(fmt.Sprintf("w%s_%d_", st, i), 63) }},
	{"len64", func(st string, i int) string { return padName(fmt.Sprintf("w%s_%d_", st, i), 64) }},
	{"len65", func(st string, i int) string { return padName(fmt.Sprintf("w%s_%d_", st, i), 65) }},
}

type nameStyle struct {
	name, open, cl string
}

// The separator between the tags is ";" — not whitespace, so the dashed style has nothing to trim.
var nameStyles = []nameStyle{
	{"spaced", "{{ ", " }}"},
	{"tight", "{{", "}}"},
	{"dashed", "{{- ", " -}}"},
}

func nameCounts(thorough bool) []int {
	if thorough {
		return []int{100, 1000, 4000, 4100, 5000, 8000, 16000, 20000}
	}
	return []int{100, 1000, 4000, 4100, 5000, 8000}
}

func renderCtx(src string, c map[string]interface{}) (res string) {
	defer func() {
		if r := recover(); r != nil {
			res = fmt.Sprintf("PANIC %v", r)
		}
	}()
	e := twig.New()
	if err := e.RegisterString("t", src); err != nil {
		return "PARSEERR " + err.Error()
	}
	out, err := e.Render("t", c)
	if err != nil {
		return "ERR " + err.Error()
	}
	return "OK:" + out
}

// everyday templates: {name} is replaced by a name that is new for the process (it carries the
// history's own prefix); cut marks the point between two constructs where comment padding goes.
var everyday = []struct{ name, src, want string }{
	{"hello", "Hello {{ @user }}|, you have {{ @count }} new messages{% if @count > 1 %}!{% endif %}", "Hello World, you have 3 new messages!"},
	{"title", "{{ @title }}|", "T"},
	{"item", "<li>{{ @user }}</li>|<li>{{- @title -}}</li>", "<li>World</li><li>T</li>"},
	{"loop", "{% for r in @rows %}{{ r }},{% endfor %}|{{ @total }}", "1,2,6"},
	{"cond", "{% if @flag %}{{ @user }}{% else %}{{ @title }}{% endif %}|.", "World."},
}

func everydaySizes(thorough bool) []int {
	r := []int{}
	d := 2
	if thorough {
		d = 6
	}
	for n := 4096 - d; n <= 4096+d; n++ {
		r = append(r, n)
	}
	return append(r, 1025, 20481, 65537)
}

func namesCase(t *vlib.T, sh nameShape, st nameStyle, fresh bool) *vlib.Outcome {
	o := &vlib.Outcome{Counters: map[string]int64{}, Nontrivial: true}
	o.Class = "names/" + sh.name + "/" + st.name
	hist := sh.name + "/" + st.name
	var done []int
	fail := func(format string, a ...interface{}) *vlib.Outcome {
		o.Violation = fmt.Sprintf(format, a...) + fmt.Sprintf("\n (earlier stages of this case, all rendered correctly: templates with %v distinct names; the process may have rendered other cases before)", done)
		return o
	}
	count := func(src string) {
		o.Counters["renders"]++
		o.Counters["bytes_scanned"] += int64(len(src))
	}
	for si, n := range nameCounts(t.Thorough()) {
		// a stage whose template would exceed 300 000 bytes (the bound of this check) is left out
		if n*(len(st.open)+len(sh.mk("a", n-1))+len(st.cl)+1) > 300000 {
			continue
		}
		stage := ""
		if fresh {
			stage = string(rune('a' + si))
		}
		names := make([]string, n)
		vals := make([]string, n)
		c := make(map[string]interface{}, n)
		for i := 0; i < n; i++ {
			names[i] = sh.mk(stage, i)
			vals[i] = fmt.Sprintf("<%d>", i)
			c[names[i]] = vals[i]
		}
		var sb, wb strings.Builder
		for i := 0; i < n; i++ {
			sb.WriteString(st.open + names[i] + st.cl + ";")
			wb.WriteString(vals[i] + ";")
		}
		src, want := sb.String(), wb.String()
		if len(src) <= 4096 {
			p := strings.Repeat("0", 4100-len(src))
			src += p
			want += p
		}
		if len(src) > 300000 {
			panic("harness: many-names template above 300 000 bytes")
		}
		t.Progress()
		got := renderCtx(src, c)
		count(src)
		o.Counters["name_tags"] += int64(n)
		if got != "OK:"+want {
			if kind(got) != "OK" {
				return fail("a template of %d plain print tags with %d distinct names (%d bytes, %q ...) does not render: %.200s", n, n, len(src), src[:60], got)
			}
			gp, wp := strings.Split(got[3:], ";"), strings.Split(want, ";")
			for i := range wp {
				if i >= len(gp) || gp[i] != wp[i] {
					g := "<nothing>"
					if i < len(gp) {
						g = gp[i]
					}
					o.Detail = map[string]interface{}{"names": n, "tag_index": i, "tag": st.open + names[i%n] + st.cl, "history": hist, "fresh_names_per_stage": fresh}
					return fail("in a template of %d plain print tags with %d distinct names (%d bytes) tag number %d, %q, prints %q; its variable has the value %q", n, n, len(src), i+1, st.open+names[i%n]+st.cl, g, wp[i])
				}
			}
			return fail("a template of %d plain print tags with %d distinct names (%d bytes): output differs from the values of the variables", n, n, len(src))
		}
		// twin: the same tags cut into templates below the tokenizer switch render the same values
		per := 4000 / (len(st.open) + len(names[n-1]) + len(st.cl) + 1)
		var tw strings.Builder
		for lo := 0; lo < n; lo += per {
			hi := lo + per
			if hi > n {
				hi = n
			}
			var cb strings.Builder
			for i := lo; i < hi; i++ {
				cb.WriteString(st.open + names[i] + st.cl + ";")
			}
			if cb.Len() > 4096 {
				panic("harness: twin chunk above 4096 bytes")
			}
			r := renderCtx(cb.String(), c)
			count(cb.String())
			if kind(r) != "OK" {
				return fail("the tags %d..%d of the %d-name template do not render as a template of their own (%d bytes): %.200s", lo+1, hi, n, cb.Len(), r)
			}
			tw.WriteString(r[3:])
			t.Progress()
		}
		if tw.String() != wb.String() {
			return fail("the %d-name template cut into templates of at most %d tags renders something else than the values of the variables", n, per)
		}
		done = append(done, n)
	}
	// everyday templates with names the process has not seen, bare and padded across the thresholds
	pre := "nw_" + sh.name + "_" + st.name + "_"
	if fresh {
		pre += "f_"
	}
	c := map[string]interface{}{pre + "user": "World", pre + "count": 3, pre + "title": "T", pre + "rows": []interface{}{1, 2}, pre + "total": 6, pre + "flag": true}
	for _, ev := range everyday {
		full := strings.ReplaceAll(ev.src, "@", pre)
		cut := strings.Index(full, "|")
		head, tail := full[:cut], full[cut+1:]
		bare := head + tail
		rb := renderCtx(bare, c)
		count(bare)
		if rb != "OK:"+ev.want {
			return fail("the everyday template %q (%d bytes) renders %.200q, want %q", bare, len(bare), rb, ev.want)
		}
		for _, total := range everydaySizes(t.Thorough()) {
			n := total - len(bare)
			p := strings.Repeat("0", n)
			variants := []struct{ how, src, want string }{
				{"literal text in front", p + bare, p + ev.want},
				{"literal text behind", bare + p, ev.want + p},
				{"a comment between two constructs", head + "{#" + strings.Repeat("c", n-4) + "#}" + tail, ev.want},
			}
			for _, v := range variants {
				if len(v.src) != total {
					panic("harness: everyday padding length")
				}
				got := renderCtx(v.src, c)
				count(v.src)
				if got != "OK:"+v.want {
					o.Detail = map[string]interface{}{"template": bare, "padding": v.how, "total": total, "history": hist}
					return fail("the everyday template %q renders %q, but padded with %s to %d bytes %s (want the unpadded output plus the visible padding)", bare, ev.want, v.how, total, abbreviate(got))
				}
			}
			t.Progress()
		}
	}
	return o
}

func runNames(t *vlib.T) {
	for _, fresh := range []bool{false, true} {
		for _, sh := range nameShapes {
			for _, st := range nameStyles {
				h := "same"
				if fresh {
					h = "fresh"
				}
				key := fmt.Sprintf("names/%s/%s/%s", sh.name, st.name, h)
				t.Case(key, func() *vlib.Outcome { return namesCase(t, sh, st, fresh) })
				if t.Stopped() {
					return
				}
			}
		}
	}
}

func namesCoverage(tier string, cov map[string]interface{}) {
	var sh, st []string
	for _, s := range nameShapes {
		sh = append(sh, s.name)
	}
	for _, s := range nameStyles {
		st = append(st, s.open+"name"+s.cl)
	}
	cov["many_names_counts"] = nameCounts(tier == "thorough")
	cov["many_names_shapes"] = sh
	cov["many_names_styles"] = st
	cov["many_names_everyday_total_lengths"] = everydaySizes(tier == "thorough")
}
