// Comment-bearing bases of C14: templates in which a comment is NOT inert for the token stream —
// inside a verbatim body (there it is literal text) and directly next to a dashed delimiter with
// whitespace text on the comment's other side (the comment ends the run the dash trims). A tokenizer
// that treats comments differently above a size threshold reads these templates differently, although
// every comment-free template and every template whose comments stand between plain delimiters still
// renders the same. They go through the ordinary padding enumeration of part A.
package main

var commentBases = []base{
	// a comment (closed, and an opener that is never closed) inside a verbatim body
	{name: "verbatimcomment", segs: []seg{T("p@"), B("verbatim"), T("@y {# c #} z@"), B("endverbatim"), T("@q")}, noModel: true},
	{name: "verbatimcommentopen", segs: []seg{T("p@"), B("verbatim"), T("@y {# z@"), B("endverbatim"), T("@q")}, noModel: true},
	{name: "verbatimcommenttag", segs: []seg{T("p@"), B("verbatim"), T("@{# c #}{{ a }}{#- d -#}@"), B("endverbatim"), T("@q")}, noModel: true},
	// a comment between a print / block delimiter and text that begins or ends with whitespace
	{name: "cmtafterprint", segs: []seg{T("p@"), V("a"), C(" c "), T("@q")}, noModel: true},
	{name: "cmtbeforeprint", segs: []seg{T("p@"), C(" c "), V("a"), T("@q")}, noModel: true},
	{name: "cmtaroundprint", segs: []seg{T("p@"), C(" c "), V("a"), C(" d "), T("@q")}, noModel: true},
	{name: "cmtafterprint2", segs: []seg{T("p@"), V("a"), C(" c "), C(" d "), T("@q")}, noModel: true},
	{name: "cmtbetweenprints", segs: []seg{T("p@"), V("a"), C(" c "), T("@"), C(" d "), V("w"), T("@q")}, noModel: true},
	{name: "cmtafterif", segs: []seg{T("p@"), B("if x"), C(" c "), T("@y@"), C(" d "), B("endif"), C(" e "), T("@q")}, noModel: true},
	{name: "cmtbeforeif", segs: []seg{T("p@"), C(" c "), B("if x"), T("@y@"), B("endif"), T("@q")}, noModel: true},
	{name: "cmtafterset", segs: []seg{T("p@"), B("set v = 1"), C(" c "), T("@"), V("v"), T("@q")}, noModel: true},
	{name: "cmtinfor", segs: []seg{T("p@"), B("for i in xs"), C(" c "), T("@"), V("i"), C(" d "), T("@"), C(" e "), B("endfor"), T("@q")}, noModel: true},
	{name: "cmtnewline", segs: []seg{T("p@"), V("a"), C("\n c\n"), T("@q")}, noModel: true},
}

// Comments whose BODY looks like something else (added after the seeded change C14-E was missed): quotes
// and apostrophes (balanced and not), backslashes, closing and opening delimiters of the other tag kinds,
// dashes directly inside the comment delimiters. A comment ends at the first "#}" whatever stands in
// between; a tokenizer that reads comment bodies with the rules of expressions (string literals,
// escapes, whitespace control) reads such a template differently. Each body stands alone, between
// texts, in front of a print tag (plain, and one that holds string literals of both kinds), in front of
// another comment, and between texts that hold quotes themselves. They go through the ordinary padding
// enumeration of part A.
var quoteCommentBodies = []struct{ name, body string }{
	{"apos", " it's "},
	{"quot", ` say "hi" `},
	{"aposquot", ` ' " `},
	{"quot1", ` 15" `},
	{"aposend", " see 'notes"},
	{"closers", " }} %} "},
	{"openers", " {{ {% "},
	{"dash", " - "},
	{"dashed", "- x -"},
	{"dashes", "---"},
	{"backslash", ` \ `},
	{"bsapos", ` \' `},
	{"aposbs", ` 'a\' `},
	{"strcloser", ` '#' "}}" `},
}

// undashedInQuick: bases that the quick tier pads without dash variants only (what a dash does next to a
// comment is the business of the 13 bases above; the thorough tier runs every variant of these too).
var undashedInQuick = map[string]bool{}

func init() {
	n0 := len(commentBases)
	defer func() {
		for _, b := range commentBases[n0:] {
			undashedInQuick[b.name] = true
		}
	}()
	for _, q := range quoteCommentBodies {
		c := C(q.body)
		commentBases = append(commentBases,
			base{name: "qc" + q.name + "alone", segs: []seg{c}, noModel: true},
			base{name: "qc" + q.name + "text", segs: []seg{T("p@"), c, T("@q")}, noModel: true},
			base{name: "qc" + q.name + "print", segs: []seg{T("p@"), c, V("a"), T("@q")}, noModel: true},
			base{name: "qc" + q.name + "printstr", segs: []seg{T("p@"), c, V(`a ~ "b" ~ 'c'`), T("@q")}, noModel: true},
			base{name: "qc" + q.name + "comment", segs: []seg{T("p@"), c, C(" d "), T("@q")}, noModel: true},
			base{name: "qc" + q.name + "quotedtext", segs: []seg{T("it's@"), c, T("@"), V("a"), T("@it's \"q"), C(" e's "), T("@r")}, noModel: true},
		)
	}
}
