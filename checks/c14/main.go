// C14 — template length and tag position do not change how a template is read.
//
// Part A (padding): the C13 corpus (every tag kind, no dash / every single dash / all dashes) plus a
// list of expression templates; literal text, one long comment, many short comments, multi-byte text
// with line breaks, or alternating text and comments are inserted at every admissible insertion
// point (and at all of them at once) so that the total source length hits every value around every
// size threshold of the engine (1 KiB, 4 KiB tokenizer switch, 20 KiB, 64 KiB, 100 KiB, 300 KB).
// Oracle: the padded rendering equals the unpadded rendering with the visible part of the padding
// inserted at the same point (taken from a rendering with a 3-byte marker at that point; the model of
// the corpus is checked as well); comments add nothing; parse success is preserved.
//
// Part B (padded twin on all small sources): every sequence of at most 5 (thorough: 6) pieces from
// {{ }} {% %} {# #} - space a \ { } "if x" "endif" LF is rendered bare and behind a 4100-byte comment
// (thorough: also behind 4100 bytes of literal text): same success/failure class and same output.
//
// Comment-bearing bases (comments.go) go through part A: a comment inside a verbatim body and comments
// directly next to dashed delimiters. Part C repeats part B with whole tags as pieces (runTagSeq).
//
// Part D (rep.go, repetition / tag position): a self-contained unit (print tag, if block, for block,
// comment; every dash placement) repeated k times for EVERY k up to 700 (thorough 3000), also behind a
// short lead of plain print tags and followed by literal padding, each rendering starting from empty
// pools: the output is k copies of what the unit renders as a whole template.
//
// Quoted-comment bases (comments.go) go through part A as well: comments whose body holds quotes,
// apostrophes, backslashes, delimiter look-alikes or dashes. Part E (names.go, many names): templates of
// N plain print tags with N distinct names for N up to 8000 (thorough 20000), one after the other in one
// process, then everyday templates with new names padded across the thresholds.
//
// Part F (routes.go, route at large sizes): padded templates of part A are also saved in compiled form and
// read back on a fresh engine (three ways), at every total length around every power of two from 1 KiB
// to 256 KiB, 20 KiB, 100 KiB and 300 000: padded = unpadded plus the visible padding, on every route.
package main

import (
	"fmt"
	"os"
	"strings"

	"github.com/semihalev/twig"

	"verif/lib/vlib"
)

// ---- running twig ---------------------------------------------------------------------------

func render(src string) (res string) {
	defer func() {
		if r := recover(); r != nil {
			res = fmt.Sprintf("PANIC %v", r)
		}
	}()
	e := twig.New()
	for _, h := range helpers {
		e.RegisterString(h[0], h[1])
	}
	if err := e.RegisterString("t", src); err != nil {
		return "PARSEERR " + err.Error()
	}
	out, err := e.Render("t", ctx)
	if err != nil {
		return "ERR " + err.Error()
	}
	return "OK:" + out
}

func kind(r string) string {
	if i := strings.IndexAny(r, " :"); i > 0 {
		return r[:i]
	}
	return r
}

// same: equal success class, and equal output when both succeed (error texts carry line numbers and
// offsets that legitimately move with the padding).
func same(a, b string) bool {
	if kind(a) != kind(b) {
		return false
	}
	return kind(a) != "OK" || a == b
}

// ---- part A: padding ------------------------------------------------------------------------

var exprs = []string{
	"1 + 2 * 3", "(1 + 2) * 3", "10 - 4 - 3", "2 * 3 % 4", "7 / 7", "1 - 1", "-1 + 2", "3 - -1",
	"a ~ 'b' ~ 1", "'-' ~ a ~ '-'", "\"q\" ~ a", "a == 'A'", "a != 'A' or x", "x and not n", "n or x and n",
	"1 < 2", "2 >= 3 ? 'y' : 'n'", "x ? 'y' : 'n'", "n ? 'y' : x ? 'z' : 'w'",
	"a|lower", "a|lower|upper", "w|trim", "xs|length", "xs|join('-')", "[1, 2, 3]|join(',')",
	"xs[0]", "xs[1] + 1", "m.k", "m['k']", "{'p': 1}['p']", "a in ['A', 'B']", "a starts with 'A'", "a ends with 'A'",
	"a is defined", "zz is not defined", "3 is odd", "a|default('d')", "zz|default('d')", "range(1, 3)|join",
	"xs|first", "xs|last", "a|length", "max(1, 2)", "xs|length > 1 and x",
}

var corpus []*base

func init() {
	ctx["m"] = map[string]interface{}{"k": "v"}
	for i := range bases {
		corpus = append(corpus, &bases[i])
	}
	for i, e := range exprs {
		corpus = append(corpus, &base{name: fmt.Sprintf("expr%02d", i), segs: []seg{T("p@"), V(e), T("@q")}, noModel: true})
	}
	for i := range commentBases {
		corpus = append(corpus, &commentBases[i])
	}
}

type lr struct{ l, r bool }

// pieces: the source of every segment and which sides of it carry a dash.
func (b *base) pieces(texts []string, mask uint) (src []string, d []lr) {
	src = make([]string, len(b.segs))
	d = make([]lr, len(b.segs))
	bit := uint(0)
	for i, s := range b.segs {
		switch s.k {
		case 't':
			src[i] = texts[i]
		case 'c':
			src[i] = "{#" + s.s + "#}"
		default:
			d[i].l = mask&(1<<bit) != 0
			bit++
			d[i].r = mask&(1<<bit) != 0
			bit++
			src[i] = tagSrc(s, d[i].l, d[i].r, styleSpaced)
		}
	}
	return
}

func isWS(c byte) bool { return c == ' ' || c == '\t' || c == '\r' || c == '\n' }

// admissible insertion points: j = insert before segment j (j = len(segs): at the end).
//   - not inside a verbatim body (a comment is literal there);
//   - not between a dashed delimiter and the whitespace it trims (the dash then has nothing adjacent
//     to trim, so the insertion legitimately changes the output).
func (b *base) points(texts []string, d []lr) []int {
	var r []int
	inVerbatim := false
	for j := 0; j <= len(b.segs); j++ {
		if j > 0 && b.segs[j-1].k == 'b' {
			if b.segs[j-1].s == "verbatim" {
				inVerbatim = true
			} else if b.segs[j-1].s == "endverbatim" {
				inVerbatim = false
			}
		}
		if inVerbatim {
			continue
		}
		if j > 0 && j < len(b.segs) {
			// Look left and right of the point across comments and empty texts. If a dashed delimiter
			// faces the point on one side and the first non-empty text on the other side begins / ends
			// with whitespace, the insertion would stand between the dash and whitespace it reaches
			// (directly) or may reach (across comments: not determined by the statement).
			skip := func(i int) bool { return b.segs[i].k == 'c' || (b.segs[i].k == 't' && texts[i] == "") }
			l := j - 1
			for l > 0 && skip(l) {
				l--
			}
			rr := j
			for rr < len(b.segs)-1 && skip(rr) {
				rr++
			}
			isTag := func(i int) bool { return b.segs[i].k == 'v' || b.segs[i].k == 'b' }
			isTxt := func(i int) bool { return b.segs[i].k == 't' && texts[i] != "" }
			if isTag(l) && d[l].r && isTxt(rr) && isWS(texts[rr][0]) {
				continue
			}
			if isTag(rr) && d[rr].l && isTxt(l) && isWS(texts[l][len(texts[l])-1]) {
				continue
			}
		}
		r = append(r, j)
	}
	return r
}

var kindNames = []string{"text", "comment", "comments", "utf8lines", "mixed"}

// pad builds n bytes of padding of the given kind; shown is what it contributes to the output.
func pad(k, n int) (src, shown string) {
	switch {
	case k == 1 && n >= 4:
		return "{#" + strings.Repeat("c", n-4) + "#}", ""
	case k == 2 && n >= 7:
		return "{# c" + strings.Repeat("c", n%7) + " #}" + strings.Repeat("{# c #}", n/7-1), ""
	case k == 3 && n >= 6:
		// both ends are non-whitespace: padding next to a dashed delimiter must not offer it anything to trim
		s := "0" + strings.Repeat("€\n", (n-2)/4) + strings.Repeat("0", (n-2)%4) + "0"
		return s, s
	case k == 4 && n >= 6:
		return strings.Repeat("0{#c#}", n/6) + strings.Repeat("0", n%6), strings.Repeat("0", n/6+n%6)
	}
	s := strings.Repeat("0", n)
	return s, s
}

func marker(i int) string { return "\x01" + string(rune('A'+i)) + "\x02" }

func sizes(thorough bool) []int {
	var r []int
	add := func(c, d int) {
		for n := c - d; n <= c+d; n++ {
			r = append(r, n)
		}
	}
	if thorough {
		add(4096, 6) // 4090..4102: the tokenizer switch is len > 4096
		add(1024, 2)
		add(20480, 2)
		add(65536, 2)
		add(102400, 2)
		r = append(r, 300000)
		return r
	}
	add(4096, 2)
	add(1024, 1)
	add(20480, 1)
	add(65536, 1)
	add(102400, 1)
	r = append(r, 300000)
	return r
}

// padCase: one base variant, one choice of insertion points, one padding kind, every total length.
func padCase(b *base, texts []string, mask uint, pts []int, k int, thorough bool) *vlib.Outcome {
	return padCaseVia(nil, b, texts, mask, pts, k, sizes(thorough), nil)
}

// padCaseVia: the same, with the list of total lengths given and every rendering (base, marker, padded)
// taken by the route rt (nil: the source is registered and rendered directly). See routes.go (part F).
func padCaseVia(t *vlib.T, b *base, texts []string, mask uint, pts []int, k int, totals []int, rt *route) *vlib.Outcome {
	render, via, prefix := render, "", "pad/"
	if rt != nil {
		render, via, prefix = rt.run, " [every rendering of this case, the unpadded ones too, taken by the route: "+rt.what+"]", "route/"+rt.name+"/"
	}
	src, _ := b.pieces(texts, mask)
	join := func(ins []string) string {
		var sb strings.Builder
		pi := 0
		for j := 0; j <= len(src); j++ {
			if pi < len(pts) && pts[pi] == j {
				sb.WriteString(ins[pi])
				pi++
			}
			if j < len(src) {
				sb.WriteString(src[j])
			}
		}
		return sb.String()
	}
	empty := make([]string, len(pts))
	baseSrc := join(empty)
	marks := make([]string, len(pts))
	for i := range pts {
		marks[i] = marker(i)
	}
	rBase := render(baseSrc)
	rMark := render(join(marks))
	o := &vlib.Outcome{Counters: map[string]int64{"renders": 2}}
	fail := func(msg string, padded, got, want string) *vlib.Outcome {
		o.Violation = fmt.Sprintf("%s%s\n base %q -> %.120q\n padded source (%d bytes) %s\n got  %s\n want %s", msg, via, baseSrc, rBase, len(padded), abbreviate(padded), abbreviate(got), abbreviate(want))
		o.Detail = map[string]interface{}{"base": baseSrc, "padded_len": len(padded), "points": pts, "kind": kindNames[k]}
		if rt != nil {
			o.Detail.(map[string]interface{})["route"] = rt.name
		}
		return o
	}
	// The base rendering is only a reference here: whether it is RIGHT is decided by C13 (dashes) and the
	// per-construct properties. Self-check of the twin: the marker rendering, with the markers taken
	// out, is the base rendering (this is the property itself for a 3-byte insertion).
	{
		stripped := rMark
		for _, m := range marks {
			stripped = strings.ReplaceAll(stripped, m, "")
		}
		if kind(rMark) != kind(rBase) || (kind(rBase) == "OK" && stripped != rBase) {
			return fail("a 3-byte literal marker at the insertion point changes more than itself (below every threshold)", join(marks), rMark, rBase)
		}
	}
	o.Counters["base_"+kind(rBase)]++
	classes := map[string]bool{}
	for _, total := range totals {
		if t != nil {
			t.Progress()
		}
		n := total - len(baseSrc)
		ins := make([]string, len(pts))
		shown := make([]string, len(pts))
		for i := range pts {
			q := n / len(pts)
			if i == 0 {
				q += n % len(pts)
			}
			ins[i], shown[i] = pad(k, q)
		}
		padded := join(ins)
		if len(padded) != total {
			panic(fmt.Sprintf("harness: padded length %d != %d", len(padded), total))
		}
		want := rMark
		if kind(rMark) == "OK" {
			for i, m := range marks {
				want = strings.ReplaceAll(want, m, shown[i])
			}
		}
		got := render(padded)
		o.Counters["renders"]++
		o.Counters["bytes_scanned"] += int64(total)
		if !same(got, want) {
			return fail(fmt.Sprintf("padding of kind %q at points %v to a total of %d bytes changes the result", kindNames[k], pts, total), padded, got, want)
		}
		classes[kind(got)] = true
	}
	o.Nontrivial = mask != 0 || len(b.tagIdx()) > 1 || b.noModel
	cl := "plain"
	if mask != 0 {
		cl = "dashed"
	}
	for c := range classes {
		if c != "OK" {
			cl += "-" + c
		}
	}
	o.Class = prefix + kindNames[k] + "/" + cl
	if rt != nil && rt.compiled {
		o.Nontrivial = true // the template goes through the compiled writer and reader at every length
	}
	return o
}

func abbreviate(s string) string {
	q := fmt.Sprintf("%q", s)
	if len(q) <= 260 {
		return q
	}
	// collapse long runs of one padding unit
	for _, u := range []string{"0", "c", "{# c #}", "0{#c#}", `€\n`} {
		for {
			i := strings.Index(q, strings.Repeat(u, 12))
			if i < 0 {
				break
			}
			j := i
			for strings.HasPrefix(q[j:], u) {
				j += len(u)
			}
			q = q[:i] + fmt.Sprintf("<%s x%d>", u, (j-i)/len(u)) + q[j:]
		}
	}
	if len(q) > 600 {
		q = q[:300] + " ... " + q[len(q)-300:]
	}
	return q
}

func bits(n uint) []uint {
	r := []uint{0}
	for i := uint(0); i < n; i++ {
		r = append(r, 1<<i)
	}
	if n > 1 {
		r = append(r, 1<<n-1)
	}
	return r
}

func runPad(t *vlib.T) {
	type fill struct{ wa, wb string }
	fills := []fill{{" ", "\n "}}
	kinds := []int{0, 1, 4}
	if t.Thorough() {
		fills = []fill{{" ", "\n "}, {"", ""}, {"\t", " "}}
		kinds = []int{0, 1, 2, 3, 4}
	}
	for _, b := range corpus {
		for fi, f := range fills {
			texts := b.fillUniform(0, f.wa, f.wb)
			masks := bits(uint(2 * len(b.tagIdx())))
			if !t.Thorough() && undashedInQuick[b.name] {
				masks = masks[:1] // the quoted-comment bases: dash variants in the thorough tier only
			}
			for _, mask := range masks {
				_, d := b.pieces(texts, mask)
				pts := b.points(texts, d)
				choices := make([][]int, 0, len(pts)+1)
				for _, p := range pts {
					choices = append(choices, []int{p})
				}
				if len(pts) > 1 {
					choices = append(choices, pts)
				}
				for ci, ch := range choices {
					for _, k := range kinds {
						pn := fmt.Sprint(ch[0])
						if len(ch) > 1 {
							pn = "all"
						}
						key := fmt.Sprintf("pad/%s/f%d/m%d/p%s/%s", b.name, fi, mask, pn, kindNames[k])
						_ = ci
						t.Case(key, func() *vlib.Outcome { return padCase(b, texts, mask, ch, k, t.Thorough()) })
					}
				}
				if t.Stopped() {
					return
				}
			}
		}
	}
}

// ---- part B: every small source, bare and behind 4100 bytes ------------------------------------

var smallPieces = []string{"{{", "}}", "{%", "%}", "{#", "#}", "-", " ", "a", "\\", "{", "}", "if x", "endif", "\n"}

var bigComment = "{#" + strings.Repeat("c", 4100) + "#}"
var bigText = strings.Repeat("0", 4100)

func smallCase(src string, thorough bool) *vlib.Outcome {
	bare := render(src)
	o := &vlib.Outcome{Counters: map[string]int64{"renders": 2}}
	o.Nontrivial = strings.Contains(src, "{{") || strings.Contains(src, "{%") || strings.Contains(src, "{#")
	cl := "small/" + kind(bare)
	if strings.Contains(src, "-}}") || strings.Contains(src, "-%}") || strings.Contains(src, "{{-") || strings.Contains(src, "{%-") {
		cl += "/dash"
	}
	o.Class = cl
	big := render(bigComment + src)
	if !same(bare, big) {
		o.Violation = fmt.Sprintf("source %q renders %.200q, but %.200q behind a 4100-byte comment", src, bare, big)
		o.Detail = map[string]string{"source": src, "bare": bare, "behind_comment": big}
		return o
	}
	if thorough {
		o.Counters["renders"]++
		big2 := render(bigText + src)
		want := bare
		if kind(bare) == "OK" {
			want = "OK:" + bigText + bare[3:]
		}
		if !same(want, big2) {
			o.Violation = fmt.Sprintf("source %q renders %.200q, but behind 4100 bytes of literal '0' text %s", src, bare, abbreviate(big2))
			o.Detail = map[string]string{"source": src, "bare": bare}
			return o
		}
	}
	return o
}

func runSmall(t *vlib.T, from, to int) {
	// breadth first: all sources of 0 pieces, then 1, ... (simplest first)
	for n := from; n <= to; n++ {
		idx := make([]int, n)
		for {
			var sb, id strings.Builder
			for _, i := range idx {
				sb.WriteString(smallPieces[i])
				id.WriteByte(byte('a' + i))
			}
			src := sb.String()
			t.Case("small/"+id.String(), func() *vlib.Outcome { return smallCase(src, t.Thorough()) })
			k := n - 1
			for k >= 0 {
				idx[k]++
				if idx[k] < len(smallPieces) {
					break
				}
				idx[k] = 0
				k--
			}
			if k < 0 || t.Stopped() {
				break
			}
		}
		if t.Stopped() {
			return
		}
	}
}

// ---- part C: every short sequence of whole tags, bare and behind 4100 bytes -------------------------
//
// Part B's pieces are lexical, so five of them never spell "comment next to a dashed delimiter next to
// whitespace" or "comment inside verbatim". Part C repeats the same differential with whole tags as
// pieces (print tag plain / dashed left / dashed right, comment, space, letter, line break, if / endif
// plain and dashed, verbatim / endverbatim): every sequence of at most 5 of them.

var tagPieces = []string{"{{ a }}", "{{- a }}", "{{ a -}}", "{# c #}", " ", "x", "\n", "{% if x %}", "{%- if x -%}", "{% endif %}", "{%- endif -%}", "{% verbatim %}", "{% endverbatim %}"}

func runTagSeq(t *vlib.T, to int) {
	for n := 1; n <= to; n++ {
		idx := make([]int, n)
		for {
			var sb, id strings.Builder
			for _, i := range idx {
				sb.WriteString(tagPieces[i])
				id.WriteByte(byte('a' + i))
			}
			src := sb.String()
			t.Case("tagseq/"+id.String(), func() *vlib.Outcome {
				o := smallCase(src, t.Thorough())
				o.Class = "tagseq" + strings.TrimPrefix(o.Class, "small")
				o.Nontrivial = n > 1 && o.Nontrivial
				return o
			})
			k := n - 1
			for k >= 0 {
				idx[k]++
				if idx[k] < len(tagPieces) {
					break
				}
				idx[k] = 0
				k--
			}
			if k < 0 || t.Stopped() {
				break
			}
		}
		if t.Stopped() {
			return
		}
	}
}

func main() {
	vlib.Main(vlib.Spec{
		ID:    "C14",
		Level: "exploration",
		Rule: "A: every corpus template (every tag kind; 44 expression templates; 13 templates with a comment inside a verbatim body or directly next to a (dashed) delimiter with whitespace text on its other side; 84 templates with a comment whose body holds quotes, apostrophes, backslashes, delimiter look-alikes or dashes (14 bodies), alone, between texts, before a print tag, before a print tag with string literals, before another comment, between texts with quotes - undashed in the quick tier) x {no dash, each single dash, all dashes} x every admissible insertion point (and all at once) x padding kind " +
			"(literal text, one long comment, many short comments, multi-byte text with line breaks, alternating text and comments) x every total length around 1 KiB, 4 KiB (tokenizer switch), 20 KiB, 64 KiB, 100 KiB and 300 KB, " +
			"compared with the unpadded rendering plus the visible padding; non-trivial = the template has a dash or more than one tag or an operator expression. " +
			"B: every sequence of at most 5 (thorough 6) pieces of {{ }} {% %} {# #} - space a \\ { } 'if x' endif LF, bare vs behind 4100 bytes; non-trivial = the source contains a tag opener. " +
			"C: every sequence of at most 5 whole tags of {{ a }} {{- a }} {{ a -}} {# c #} space x LF {% if x %} {%- if x -%} {% endif %} {%- endif -%} {% verbatim %} {% endverbatim %}, bare vs behind 4100 bytes; non-trivial = at least two pieces, one of them a tag. " +
			"D: every unit of {p LF {{ a }} LF q and {{ a }} with each of the 4 dash placements; p LF {{- a }} and {{ a -}} LF q (thorough: all 4 placements of both); p {% if x %} y {% endif %} q with 7 (thorough: all 16) dash placements; {# c #} alone, between texts, before {{- a }}; a for block all dashed (thorough: also undashed)} " +
			"repeated k times for every k = 1..700 (thorough 1..3000), alone and followed by 997 or 4099 (thorough: 997 up to k = 700, 4099 up to k = 1500, 20011 up to k = 2000) bytes of literal text, and for every k = 1..300 (thorough 1..500) behind each of 6 (thorough 11) leads of plain print tags and text that shift the token positions by 3..9 (3..14); " +
			"every rendering starts from empty pools; the output must be the lead's output, k copies of the unit's own output as a whole template, and the padding; one case = 50 consecutive k; non-trivial = the case contains a k >= 2. " +
			"E: templates above 4096 bytes of N plain print tags with N distinct names, N = 100, 1000, 4000, 4100, 5000, 8000 (thorough also 16000, 20000; stages above 300 000 bytes left out), rendered one after the other in one process, for each of 6 name shapes (short, with underscores, mixed case, 63 / 64 / 65 bytes) x 3 tag styles ({{ n }}, {{n}}, {{- n -}}) x {same names in every stage, new names in every stage}; every tag must print the value of its own variable and the same tags cut into templates below 4096 bytes must print the same; " +
			"then 5 everyday templates with names new to the process, bare and padded to every total of 4094..4098 (thorough 4090..4102), 1025, 20481, 65537 bytes by text in front, text behind and a comment between two constructs; one case = one such history. " +
			"F: 10 templates of part A's corpus (print, ifelse, for, nested, extends, include, macroargs, verbatim, comment, cmtinfor; thorough: all 51 tag and comment-bearing bases, the two deliberately bad ones left out) x {no dash, all dashes} x {padding in front, at the end, at every admissible point} x padding kind (text, one comment, mixed; thorough all 5) x route " +
			"{direct; Template.SaveCompiled -> LoadFromCompiledData; CompileTemplate + SerializeCompiledTemplate -> DeserializeCompiledTemplate + RegisterCompiledTemplate; CompiledLoader.SaveCompiled -> a fresh engine with a CompiledLoader}, the loading side always a fresh engine, " +
			"x every total length c-1, c, c+1 for c = every power of two from 1 KiB to 256 KiB, 20 KiB, 100 KiB, and 300 000: the padded rendering equals the unpadded rendering taken by the same route plus the visible padding; non-trivial = a compiled route, or (direct) as in A",
		Assumptions: []string{
			"padding is inserted at segment boundaries only, never inside a verbatim body and never between a dashed delimiter and the whitespace it trims (nor between such a delimiter and that whitespace across comments)",
			"the expected output of a padded template is derived from the same implementation's rendering of the unpadded template (below every threshold) with a 3-byte marker at the insertion points; the corpus model pins the unpadded rendering",
			"for sources that fail, only the failure class (parse error / render error / panic) is compared, not the message",
			"templates up to 300 000 bytes; larger size classes are not explored",
			"part F: the expected output on a route is derived from the same route's rendering of the unpadded template with the marker (below every threshold); whether a compiled template renders like its source at small sizes is not asked (C16)",
			"part E: the expected output of a plain print tag is the value its name has in the context (string values without markup); the verdict of a case does not depend on what the worker process rendered before it",
			"part D: the units begin and end with a non-whitespace byte or a delimiter, so no dash reaches from one copy into the next, the lead or the padding; the pools of the engine are emptied before every rendering by two forced garbage collections (sync.Pool semantics of the Go runtime) and the case runs on one processor",
		},
		QuickDeadline:    150,
		ThoroughDeadline: 870,
		Run: func(t *vlib.T) {
			maxLen := 5
			if t.Thorough() {
				maxLen = 6
			}
			// C14_ONLY=ADE... restricts a run to some parts (development aid for measuring one part; never
			// set by run.sh or the framework)
			on := func(part string) bool {
				only := os.Getenv("C14_ONLY")
				return only == "" || strings.Contains(only, part)
			}
			if on("B") {
				runSmall(t, 0, 4)
			}
			if on("A") {
				runPad(t)
			}
			// F directly after A: the same family of cases on other routes and other lengths
			if on("F") {
				runRoutes(t)
			}
			if on("C") {
				runTagSeq(t, 5)
			}
			if on("D") {
				runRep(t)
			}
			// E after D: the names that part E leaves in the engine's process-wide table make every forced
			// garbage collection of part D four times as expensive (measured: D alone 57 s CPU, after E 195 s);
			// E before the long tail of B, so that a deadline cuts B's tail and not E.
			if on("E") {
				runNames(t)
			}
			if on("B") {
				runSmall(t, 5, maxLen)
			}
		},
		Extra: func(tier string, cov map[string]interface{}) {
			cov["total_lengths"] = sizes(tier == "thorough")
			cov["corpus_templates"] = len(corpus)
			cov["comment_templates"] = len(commentBases)
			cov["tag_sequence_pieces"] = len(tagPieces)
			repCoverage(tier, cov)
			routesCoverage(tier, cov)
			namesCoverage(tier, cov)
		},
	})
}
