// Part D of C14 — repetition / tag position.
//
// A self-contained unit (a tag with its surrounding text, with every dash placement) is repeated k
// times, for EVERY k from 1 to the bound, optionally behind a short lead of plain print tags (which
// shifts every following token by a few places) or followed by literal padding (which changes the
// length of the source and nothing else). "How a tag is recognised and parsed does not depend on the
// length of the template or on where in it the tag stands": the i-th copy of the unit has to come out
// exactly as the unit does when it is the whole template, whatever i and k are.
//
// Why every k: the engine sizes its token buffer from the source length (a tenth of it, at least what
// a fresh or a re-used buffer has) and lets it grow while tokens are added. At which token the buffer
// is full therefore moves with k, with the padding and with the lead; enumerating every k makes every
// growth step fall on every token of every unit. Nothing of this is used by the oracle.
//
// The engine keeps tokenizers, buffers and node slices of earlier templates in sync.Pool's; what a
// template finds there depends on everything the process rendered before. Every rendering of this
// part therefore starts from empty pools (two garbage collections empty a sync.Pool), which makes
// a case independent of the cases before it and a failing case reproducible.
package main

import (
	"fmt"
	"runtime"
	"strings"

	"github.com/semihalev/twig"

	"verif/lib/vlib"
)

type repUnit struct {
	name     string
	src      string
	fam      string
	thorough bool // only in the thorough tier
}

func dashTag(open, body, cl string, l, r bool) string {
	s := open
	if l {
		s += "-"
	}
	s += " " + body + " "
	if r {
		s += "-"
	}
	return s + cl
}

// Every unit begins and ends with a non-whitespace text byte or with a delimiter, so that no dash of
// one copy can reach into the neighbouring copy, the lead or the padding: the copies are independent
// by the statement of whitespace control itself (a dash trims the whitespace adjacent to its tag).
func repUnits() []repUnit {
	var us []repUnit
	quickL := map[uint]bool{1: true} // p \n{{- a }}
	quickR := map[uint]bool{2: true} // {{ a -}} \n q
	for m := uint(0); m < 4; m++ {
		l, r := m&1 != 0, m&2 != 0
		tag := dashTag("{{", "a", "}}", l, r)
		us = append(us,
			repUnit{fmt.Sprintf("print/m%d", m), "p \n" + tag + " \nq", "print", false},
			repUnit{fmt.Sprintf("bare/m%d", m), tag, "bare", false},
			repUnit{fmt.Sprintf("printl/m%d", m), "p \n" + tag, "print", !quickL[m]},
			repUnit{fmt.Sprintf("printr/m%d", m), tag + " \n q", "print", !quickR[m]},
		)
	}
	// none, every single dash, all four, and "{%- if x %} y {%- endif -%}"
	quickIf := map[uint]bool{0: true, 1: true, 2: true, 4: true, 8: true, 15: true, 13: true}
	for m := uint(0); m < 16; m++ {
		src := "p " + dashTag("{%", "if x", "%}", m&1 != 0, m&2 != 0) + " y " + dashTag("{%", "endif", "%}", m&4 != 0, m&8 != 0) + " q"
		us = append(us, repUnit{fmt.Sprintf("if/m%d", m), src, "if", !quickIf[m]})
	}
	us = append(us,
		repUnit{"comment", "{# c #}", "comment", false},
		repUnit{"commenttext", "p \n{# c #} \nq", "comment", false},
		repUnit{"commentdash", "p \n{# c #}{{- a }}", "comment", false},
		repUnit{"for/m0", "p {% for i in xs %} {{ i }} {% endfor %} q", "for", true},
		repUnit{"for/m63", "p {%- for i in xs -%} {{- i -}} {%- endfor -%} q", "for", false},
	)
	return us
}

type repLead struct {
	name string
	src  string
}

// A lead of a plain print tags and b "text + plain print tag" pairs stands for 3a+4b tokens in front
// of the first unit (an estimate that only guides the choice; the oracle does not use it): the
// leads below shift the units by 3, 4, 6, 7, ... 14 places, i.e. by every residue modulo every unit
// size up to 9 tokens.
func repLeads(thorough bool) []repLead {
	ab := [][2]int{{1, 0}, {0, 1}, {2, 0}, {1, 1}, {0, 2}, {3, 0}}
	if thorough {
		ab = append(ab, [][2]int{{2, 1}, {1, 2}, {0, 3}, {3, 1}, {2, 2}}...)
	}
	var ls []repLead
	for _, x := range ab {
		ls = append(ls, repLead{fmt.Sprintf("l%d", 3*x[0]+4*x[1]), strings.Repeat("{{ a }}", x[0]) + strings.Repeat("z{{ a }}", x[1])})
	}
	return ls
}

type repBounds struct {
	maxK, maxKLead, group int
	pads                  [][2]int // padding length, every k up to
}

func repBound(thorough bool) repBounds {
	if thorough {
		return repBounds{maxK: 3000, maxKLead: 500, group: 50, pads: [][2]int{{997, 700}, {4099, 1500}, {20011, 2000}}}
	}
	return repBounds{maxK: 700, maxKLead: 300, group: 50, pads: [][2]int{{997, 700}, {4099, 700}}}
}

// renderFresh: one rendering on a fresh engine with empty pools.
func renderFresh(src string) (res string) {
	defer func() {
		if r := recover(); r != nil {
			res = fmt.Sprintf("PANIC %v", r)
		}
	}()
	runtime.GC()
	runtime.GC()
	e := twig.New()
	if err := e.RegisterString("t", src); err != nil {
		return "PARSEERR " + err.Error()
	}
	out, err := e.Render("t", ctx)
	if err != nil {
		return "ERR " + err.Error()
	}
	return "OK:" + out
}

func repCase(t *vlib.T, u repUnit, lead repLead, pad, lo, hi int) *vlib.Outcome {
	// One processor while the case runs: the pools are per processor, and a forced collection with
	// several processors spins while it waits for the others (4 ms instead of 0.4 ms on a busy machine).
	defer runtime.GOMAXPROCS(runtime.GOMAXPROCS(1))
	o := &vlib.Outcome{Counters: map[string]int64{}}
	padding := strings.Repeat("0", pad)
	ref := renderFresh(u.src)
	leadRef := "OK:"
	if lead.src != "" {
		leadRef = renderFresh(lead.src)
		o.Counters["renders"]++
	}
	o.Counters["renders"]++
	dashed := strings.Contains(u.src, "{{-") || strings.Contains(u.src, "-}}") || strings.Contains(u.src, "{%-") || strings.Contains(u.src, "-%}")
	shape := "bare"
	if lead.src != "" {
		shape = "lead"
	} else if pad > 0 {
		shape = "pad"
	}
	cl := "rep/" + u.fam + "/"
	if dashed {
		cl += "dashed/"
	} else {
		cl += "plain/"
	}
	cl += shape
	if kind(ref) != "OK" {
		cl += "-" + kind(ref)
	}
	o.Class = cl
	o.Nontrivial = hi >= 2
	if kind(leadRef) != "OK" {
		panic(fmt.Sprintf("harness: the lead %q does not render: %s", lead.src, leadRef))
	}
	for k := lo; k <= hi; k++ {
		t.Progress()
		src := lead.src + strings.Repeat(u.src, k) + padding
		want := ref
		if kind(ref) == "OK" {
			want = leadRef + strings.Repeat(ref[3:], k) + padding
		}
		got := renderFresh(src)
		o.Counters["renders"]++
		o.Counters["rep_renders"]++
		o.Counters["bytes_scanned"] += int64(len(src))
		if same(got, want) {
			continue
		}
		where := ""
		if kind(got) == "OK" && kind(want) == "OK" {
			i := 0
			for i < len(got) && i < len(want) && got[i] == want[i] {
				i++
			}
			clip := func(s string) string {
				a, b := i-12, i+20
				if a < 0 {
					a = 0
				}
				if b > len(s) {
					b = len(s)
				}
				if a > b {
					a = b
				}
				return s[a:b]
			}
			copyNo := 0
			if n := len(ref) - 3; n > 0 {
				copyNo = (i-len(leadRef))/n + 1
			}
			where = fmt.Sprintf("\n first difference at output byte %d (about copy %d of %d): got ...%q... want ...%q...; output length got %d want %d", i-3, copyNo, k, clip(got), clip(want), len(got)-3, len(want)-3)
		} else {
			where = fmt.Sprintf("\n got  %.200q\n want %.200q", got, want)
		}
		o.Violation = fmt.Sprintf("the unit %q renders %q as a whole template, but not in every one of its %d repetitions (lead %q, %d bytes of literal '0' after the last copy, source length %d)%s",
			u.src, ref, k, lead.src, pad, len(src), where)
		o.Detail = map[string]interface{}{"unit": u.src, "unit_alone": ref, "k": k, "lead": lead.src, "padding_bytes": pad, "source_len": len(src)}
		return o
	}
	return o
}

func runRep(t *vlib.T) {
	b := repBound(t.Thorough())
	none := repLead{"l0", ""}
	groups := func(u repUnit, lead repLead, pad, maxK int) {
		for lo := 1; lo <= maxK; lo += b.group {
			hi := lo + b.group - 1
			if hi > maxK {
				hi = maxK
			}
			key := fmt.Sprintf("rep/%s/%s/p%d/k%d-%d", u.name, lead.name, pad, lo, hi)
			t.Case(key, func() *vlib.Outcome { return repCase(t, u, lead, pad, lo, hi) })
			if t.Stopped() {
				return
			}
		}
	}
	var units []repUnit
	for _, u := range repUnits() {
		if !u.thorough || t.Thorough() {
			units = append(units, u)
		}
	}
	// simplest first: plain repetition, then padding, then leads
	for _, u := range units {
		groups(u, none, 0, b.maxK)
	}
	for _, p := range b.pads {
		for _, u := range units {
			groups(u, none, p[0], p[1])
		}
	}
	for _, l := range repLeads(t.Thorough()) {
		for _, u := range units {
			groups(u, l, 0, b.maxKLead)
		}
	}
}

func repCoverage(tier string, cov map[string]interface{}) {
	th := tier == "thorough"
	b := repBound(th)
	var names []string
	for _, u := range repUnits() {
		if !u.thorough || th {
			names = append(names, u.src)
		}
	}
	var leads []string
	for _, l := range repLeads(th) {
		leads = append(leads, l.src)
	}
	cov["repetition_units"] = names
	cov["repetition_every_k_up_to"] = b.maxK
	cov["repetition_paddings"] = b.pads
	cov["repetition_leads"] = leads
	cov["repetition_leads_every_k_up_to"] = b.maxKLead
}
