// Part F of C14 — the route by which the template reaches the parser, at large sizes (added after the
// seeded change C14-J was missed).
//
// Parts A–E hand every source to the engine by RegisterString. A template can also be saved in compiled
// form and read back (Template.SaveCompiled / Engine.CompileTemplate + SerializeCompiledTemplate /
// CompiledLoader.SaveCompiled, then Engine.LoadFromCompiledData / DeserializeCompiledTemplate +
// RegisterCompiledTemplate / a CompiledLoader registered with a fresh engine); the source then passes
// through a writer and a reader that have size classes of their own before the parser sees it. "A
// template renders the same below and above every internal size threshold of the engine": part F sends
// the padded templates of part A's size sweep through each of these routes, on a fresh engine, and
// demands what part A demands — the padded rendering is the unpadded rendering (taken by the SAME
// route, far below every threshold, with a 3-byte marker at the insertion points) with the visible
// padding put in. Whether the compiled route renders a small template like the direct route does is not
// asked here (that is C16's property); only that length does not matter on any route.
//
// Total lengths: every power of two from 1 KiB to 256 KiB and the engine's own classes 20 KiB and
// 100 KiB, each -1 / exact / +1, and 300 000 — the stages of a writer or reader (length prefixes, stream
// windows, buffered-reader sizes) sit at powers of two, not only at the constants of the tokenizer and
// the pools. The direct route is taken along on the same lengths.
package main

import (
	"fmt"
	"os"

	"github.com/semihalev/twig"

	"verif/lib/vlib"
)

type route struct {
	name     string
	what     string
	compiled bool
	run      func(src string) string
}

func newEngine() *twig.Engine {
	e := twig.New()
	for _, h := range helpers {
		e.RegisterString(h[0], h[1])
	}
	return e
}

// viaCompiled: register src on a producer engine, hand it to save (which returns the serialised form or
// stores it somewhere), then let load put it into a fresh consumer engine and render it there.
func viaCompiled(src string, save func(p *twig.Engine) ([]byte, error), load func(c *twig.Engine, data []byte) error) (res string) {
	defer func() {
		if r := recover(); r != nil {
			res = fmt.Sprintf("PANIC %v", r)
		}
	}()
	p := newEngine()
	if err := p.RegisterString("t", src); err != nil {
		return "PARSEERR " + err.Error()
	}
	data, err := save(p)
	if err != nil {
		return "SAVEERR " + err.Error()
	}
	c := newEngine()
	if err := load(c, data); err != nil {
		return "LOADERR " + err.Error()
	}
	out, err := c.Render("t", ctx)
	if err != nil {
		return "ERR " + err.Error()
	}
	return "OK:" + out
}

func routeData(src string) string {
	return viaCompiled(src,
		func(p *twig.Engine) ([]byte, error) {
			tmpl, err := p.Load("t")
			if err != nil {
				return nil, err
			}
			return tmpl.SaveCompiled()
		},
		func(c *twig.Engine, data []byte) error { return c.LoadFromCompiledData(data) })
}

func routeSerialize(src string) string {
	return viaCompiled(src,
		func(p *twig.Engine) ([]byte, error) {
			ct, err := p.CompileTemplate("t")
			if err != nil {
				return nil, err
			}
			return twig.SerializeCompiledTemplate(ct)
		},
		func(c *twig.Engine, data []byte) error {
			ct, err := twig.DeserializeCompiledTemplate(data)
			if err != nil {
				return err
			}
			return c.RegisterCompiledTemplate(ct)
		})
}

// routeLoader: CompiledLoader.SaveCompiled writes <dir>/t.twig.compiled; a fresh engine that has a
// CompiledLoader on the same directory as its only loader renders "t". The directory lives under the
// run's scratch directory (the default temporary directory in replay mode) and is removed afterwards.
func routeLoader(src string) string {
	dir, err := os.MkdirTemp(vlib.Scratch(), "c14-route-")
	if err != nil {
		panic("harness: no scratch directory: " + err.Error())
	}
	defer os.RemoveAll(dir)
	return viaCompiled(src,
		func(p *twig.Engine) ([]byte, error) { return nil, twig.NewCompiledLoader(dir).SaveCompiled(p, "t") },
		func(c *twig.Engine, _ []byte) error {
			c.RegisterLoader(twig.NewCompiledLoader(dir))
			return nil
		})
}

var routes = []*route{
	{"direct", "RegisterString + Render", false, render},
	{"data", "RegisterString on one engine, Template.SaveCompiled, LoadFromCompiledData on a fresh engine, Render there", true, routeData},
	{"serialize", "RegisterString on one engine, Engine.CompileTemplate + SerializeCompiledTemplate, DeserializeCompiledTemplate + RegisterCompiledTemplate on a fresh engine, Render there", true, routeSerialize},
	{"loader", "RegisterString on one engine, CompiledLoader.SaveCompiled into a directory, a fresh engine with a CompiledLoader on that directory, Render there", true, routeLoader},
}

// routeSizes: every power of two from 1 KiB to 256 KiB plus 20 KiB and 100 KiB, each -1 / exact / +1,
// and 300 000; ascending.
func routeSizes() []int {
	var r []int
	for _, c := range []int{1 << 10, 1 << 11, 1 << 12, 1 << 13, 1 << 14, 20480, 1 << 15, 1 << 16, 102400, 1 << 17, 1 << 18} {
		r = append(r, c-1, c, c+1)
	}
	return append(r, 300000)
}

// The templates that take the routes: one of every family of part A's corpus in the quick tier (plain
// print tag, branch, loop, nesting, inheritance, include, macro with arguments, verbatim, comments
// between texts, comments next to delimiters inside a loop); every tag base (the two deliberately bad
// ones left out) and each of the 13 comment-bearing bases in the thorough tier.
var routeQuickBases = map[string]bool{
	"print": true, "ifelse": true, "for": true, "nested": true, "extends": true, "include": true,
	"macroargs": true, "verbatim": true, "comment": true, "cmtinfor": true,
}

func routeBases(thorough bool) []*base {
	var r []*base
	for i := range bases {
		if !bases[i].bad && (thorough || routeQuickBases[bases[i].name]) {
			r = append(r, &bases[i])
		}
	}
	for i := range commentBases {
		if undashedInQuick[commentBases[i].name] {
			continue // the 84 quoted-comment bases: what a comment body may hold is not a matter of the route
		}
		if thorough || routeQuickBases[commentBases[i].name] {
			r = append(r, &commentBases[i])
		}
	}
	return r
}

func routeKinds(thorough bool) []int {
	if thorough {
		return []int{0, 1, 2, 3, 4}
	}
	return []int{0, 1, 4}
}

// runRoutes: base x {no dash, all dashes} x {padding in front, padding at the end, padding at every
// admissible point} x padding kind x route; one case runs through every total length.
func runRoutes(t *vlib.T) {
	totals := routeSizes()
	for _, b := range routeBases(t.Thorough()) {
		texts := b.fillUniform(0, " ", "\n ")
		n := uint(2 * len(b.tagIdx()))
		for _, mask := range []uint{0, 1<<n - 1} {
			_, d := b.pieces(texts, mask)
			pts := b.points(texts, d)
			choices := [][]int{{pts[0]}}
			if len(pts) > 1 {
				choices = append(choices, []int{pts[len(pts)-1]}, pts)
			}
			for _, ch := range choices {
				pn := fmt.Sprint(ch[0])
				if len(ch) > 1 {
					pn = "all"
				}
				for _, k := range routeKinds(t.Thorough()) {
					for _, rt := range routes {
						key := fmt.Sprintf("route/%s/%s/m%d/p%s/%s", rt.name, b.name, mask, pn, kindNames[k])
						t.Case(key, func() *vlib.Outcome { return padCaseVia(t, b, texts, mask, ch, k, totals, rt) })
					}
				}
			}
			if t.Stopped() {
				return
			}
		}
	}
}

func routesCoverage(tier string, cov map[string]interface{}) {
	var rn, bn []string
	for _, r := range routes {
		rn = append(rn, r.name+": "+r.what)
	}
	for _, b := range routeBases(tier == "thorough") {
		bn = append(bn, b.name)
	}
	cov["routes"] = rn
	cov["route_templates"] = bn
	cov["route_total_lengths"] = routeSizes()
}
