package main

// Rebinding dimension — added after seeded change C12-K was missed.
//
// Within ONE render context the same macro name (or alias, or module variable) is bound more
// than once, by tags that stand one after the other in the source: `{% from 'la' import f %}`
// then `{% from 'lb' import f %}`; `{% from 'la' import f as g %}` then `{% from 'lb' import h
// as g %}`; a local `{% macro f %}` followed by `{% from 'la' import f %}`; `{% import 'la' as m
// %}` then `{% import 'lb' as m %}`. After every binding the name is called with 0 … 3
// arguments. Oracle: the calls that follow a binding render what the macro that binding names
// renders when called directly in its defining template with the same arguments (twin render
// of the library's own source plus the calls, fresh engine) — "the same macro produces the same
// output whether it is called directly in its defining template … or through from … import name
// with or without an alias".
//
// Only a LATER tag rebinding an earlier one is asserted; a local macro is therefore only ever
// the FIRST binding (whether a macro defined later in the source wins over an earlier import is
// not stated), and the macro-name space (from / alias / local) is never mixed with the
// module-variable space (import … as m).

import (
	"fmt"
	"strings"

	"verif/lib/vlib"
)

// the two libraries define macros of the same names that differ in body AND in defaults
var rbLibs = map[string]string{
	"la": "{% macro f(x, y = 'ay') %}A[{{ x }}|{{ y }}]{% endmacro %}{% macro h(x = 'ah', y = 7) %}Ah[{{ x }}/{{ y }}]{% endmacro %}",
	"lb": "{% macro f(x = 'bx', y = 'by') %}B<{{ x }};{{ y }}>{% endmacro %}{% macro h(x, y) %}Bh<{{ y }}:{{ x }}>{% endmacro %}",
}

const rbLocalBody = "(x = 'own', y) %}O({{ x }},{{ y }}){% endmacro %}"

// ways of binding
const (
	rbLocal  = iota // {% macro N(…) %}…{% endmacro %} in the calling template (first binding only)
	rbFrom          // {% from 'S' import N %}
	rbAlias         // {% from 'S' import M as N %}
	rbMulti         // {% from 'S' import f, h %} resp. {% from 'S' import f as N, h as k %}
	rbImport        // {% import 'S' as m %} — calls m.M(…)
)

var rbFormName = [...]string{"local", "from", "alias", "multi", "import"}

type rbBind struct {
	Form int
	Lib  string // "" for local
	Mac  string // the library macro the name designates afterwards ("" for local)
}

func (b rbBind) String() string {
	if b.Form == rbLocal {
		return "local"
	}
	return rbFormName[b.Form] + ":" + b.Lib + "." + b.Mac
}

// tag is the binding's source; name is the bound name (macro space) — ignored for import
func (b rbBind) tag(name string) string {
	switch b.Form {
	case rbLocal:
		return "{% macro " + name + rbLocalBody
	case rbFrom:
		return "{% from '" + b.Lib + "' import " + name + " %}"
	case rbAlias:
		return "{% from '" + b.Lib + "' import " + b.Mac + " as " + name + " %}"
	case rbMulti:
		if name == "f" {
			return "{% from '" + b.Lib + "' import f, h %}"
		}
		return "{% from '" + b.Lib + "' import f as " + name + ", h as k %}"
	default:
		return "{% import '" + b.Lib + "' as m %}"
	}
}

// rbCalls: the name called with 0 … 3 arguments
func rbCalls(callee string) string {
	return "{{ " + callee + "() }};{{ " + callee + "('a1') }};{{ " + callee + "('a1', 2) }};{{ " + callee + "('a1', 2, 'a3') }}"
}

// bindings that can bind the macro-space name n
func rbBindings(n string, first bool) []rbBind {
	var bs []rbBind
	if first {
		bs = append(bs, rbBind{Form: rbLocal})
	}
	for _, l := range []string{"la", "lb"} {
		if n == "f" {
			bs = append(bs, rbBind{rbFrom, l, "f"}, rbBind{rbAlias, l, "h"})
		} else {
			bs = append(bs, rbBind{rbAlias, l, "f"}, rbBind{rbAlias, l, "h"})
		}
		bs = append(bs, rbBind{rbMulti, l, "f"})
	}
	return bs
}

func rbImports() []rbBind {
	var bs []rbBind
	for _, l := range []string{"la", "lb"} {
		for _, m := range []string{"f", "h"} {
			bs = append(bs, rbBind{rbImport, l, m})
		}
	}
	return bs
}

// sites: where the whole sequence of bindings and calls stands
const (
	rbTop   = iota // top level
	rbIf           // inside {% if t %}
	rbMacro        // inside the body of a macro v of the calling template, called once
	rbSplit        // first binding at top level, the later ones inside {% if t %}
)

var rbSiteName = [...]string{"top", "if", "inmacro", "split"}

type rbCase struct {
	Name string // bound name: f, g (macro space) or m (module variable)
	Site int
	Seq  []rbBind
}

func (c *rbCase) key() string {
	var s []string
	for _, b := range c.Seq {
		s = append(s, b.String())
	}
	return "rebind:" + c.Name + "|" + rbSiteName[c.Site] + "|" + strings.Join(s, ">")
}

func (c *rbCase) callee(b rbBind) string {
	if b.Form == rbImport {
		return "m." + b.Mac
	}
	return c.Name
}

func (c *rbCase) program() map[string]string {
	var sb strings.Builder
	for i, b := range c.Seq {
		if i == 1 && c.Site == rbSplit {
			sb.WriteString("{% if t %}")
		}
		sb.WriteString(b.tag(c.Name))
		sb.WriteString("<" + rbCalls(c.callee(b)) + ">")
	}
	body := sb.String()
	switch c.Site {
	case rbIf:
		body = "{% if t %}" + body + "{% endif %}"
	case rbMacro:
		body = "{% macro v() %}" + body + "{% endmacro %}{{ v() }}"
	case rbSplit:
		body += "{% endif %}"
	}
	return map[string]string{"la": rbLibs["la"], "lb": rbLibs["lb"], "main": body}
}

// rbDirect: what the calls render in the macro's defining template (twin), cached per macro
var rbDirectCache = map[string][2]string{}

func rbDirect(b rbBind) (string, string) {
	k := b.Lib + "." + b.Mac
	if b.Form == rbLocal {
		k = "local"
	}
	if r, ok := rbDirectCache[k]; ok {
		return r[0], r[1]
	}
	src, callee := "", b.Mac
	if b.Form == rbLocal {
		src, callee = "{% macro own"+rbLocalBody, "own"
	} else {
		src = rbLibs[b.Lib]
	}
	e, errs := newEngine(map[string]string{"def": src + "<" + rbCalls(callee) + ">"})
	out := ""
	if errs == "" {
		out, errs = render(e, "def")
	}
	rbDirectCache[k] = [2]string{out, errs}
	return out, errs
}

func checkRebind(c rbCase) *vlib.Outcome {
	o := &vlib.Outcome{Nontrivial: len(c.Seq) > 1, Counters: map[string]int64{}}
	var forms []string
	want := ""
	for _, b := range c.Seq {
		forms = append(forms, rbFormName[b.Form])
		d, errs := rbDirect(b)
		if errs != "" {
			o.Violation = fmt.Sprintf("rebinding: the direct call of %s in its defining template fails: %s", b, errs)
			return o
		}
		want += d
	}
	o.Class = "rebind|" + rbSiteName[c.Site] + "|" + strings.Join(forms, ">")
	src := c.program()
	e, errs := newEngine(src)
	if errs != "" {
		o.Violation = fmt.Sprintf("rebinding: templates %v: %s", src, errs)
		o.Detail = map[string]interface{}{"templates": src}
		return o
	}
	o.Counters["engines"]++
	for r := 0; r < 2; r++ {
		got, errs := render(e, "main")
		o.Counters["renders"]++
		if errs != "" || got != want {
			o.Violation = fmt.Sprintf("rebinding: after each binding the name must call the macro bound last (as called directly in its defining template); templates %v render %d: got %q %s want %q", src, r+1, got, errs, want)
			o.Detail = map[string]interface{}{"templates": src, "expected": want, "got": got, "error": errs, "render": r + 1}
			return o
		}
	}
	return o
}

// rbEach enumerates every sequence of 2 … maxLen bindings of one name, on every site
func rbEach(maxLen int, emit func(rbCase)) {
	for n := 2; n <= maxLen; n++ {
		for _, name := range []string{"f", "g", "m"} {
			var rec func(seq []rbBind)
			rec = func(seq []rbBind) {
				if len(seq) == n {
					for _, site := range []int{rbTop, rbIf, rbMacro, rbSplit} {
						if seq[0].Form == rbLocal && site != rbTop && site != rbSplit {
							continue // own macros are defined at top level only
						}
						emit(rbCase{Name: name, Site: site, Seq: append([]rbBind(nil), seq...)})
					}
					return
				}
				var bs []rbBind
				if name == "m" {
					bs = rbImports()
				} else {
					bs = rbBindings(name, len(seq) == 0)
				}
				for _, b := range bs {
					rec(append(seq, b))
				}
			}
			rec(nil)
		}
	}
}

func runRebind(t *vlib.T) {
	maxLen := 3
	if t.Thorough() {
		maxLen = 4
	}
	rbEach(maxLen, func(c rbCase) {
		if t.Stopped() {
			return
		}
		k := c.key()
		if !t.Owns(k) {
			return
		}
		t.Case(k, func() *vlib.Outcome { return checkRebind(c) })
	})
}
