// Collision dimension (added after seeded change C12-G was missed) and wide signatures (added after
// seeded change C12-H was missed).
//
// Collision: until then no name of the importing side ever coincided with the name of a macro of the
// library. An imported macro whose body calls a sibling of its defining template (g, plain and through
// _self; for the sites libw/libwself: w calling f, which may call g) must render what it renders in its
// defining template — there the name designates the library's macro — also when the importing template
// binds that very name to something else: a macro of its own (defined before or after the import), or
// another macro imported under that name as an alias (from the same library or from another one; in
// its own from-statement before or after the import, or inside the from-statement that imports the
// macro, before or after it). After the call the importing template calls the colliding name itself:
// there it designates the importing template's macro (its body is rendered).
//
// Site wrap: the import stands at top level of the calling template and the call inside a macro v of
// that template ({% import 'lib' as m %}{% macro v() %}({{ m.f(…) }}){% endmacro %}{{ v() }}); site
// inmacro has the import inside v.
//
// Wide signatures: 8, 9, 10 and 12 parameters (thorough: 4 … 12) with patterns of defaults, argument
// lists that bind all parameters, all but the last two, and more than there are parameters.
package main

import "sort"

// how the importing template binds a name that a macro of the library also carries
const (
	cNone       = iota
	cOwnPre     // a macro of its own, defined before the import
	cOwnPost    // … after the import (before the call)
	cAliasPre   // {% from 'lib' import altg as g %} before the import
	cAliasPost  // … after the import
	cAliasIn    // inside the from-statement that imports the macro, after it: {% from 'lib' import f, altg as g %}
	cAliasFirst // … before it: {% from 'lib' import altg as g, f %}
	cXAliasPre  // {% from 'xlib' import altg as g %} (another library) before the import
	cXAliasPost // … after the import
	nCols
)

var colName = [...]string{"", "ownpre", "ownpost", "aliaspre", "aliaspost", "aliasin", "aliasfirst", "xaliaspre", "xaliaspost"}

var allCols = []int{cOwnPre, cOwnPost, cAliasPre, cAliasPost, cAliasIn, cAliasFirst, cXAliasPre, cXAliasPost}

// which names collide (bit set)
const (
	nmG = 1 // the sibling g that bodies sib / selfsib call
	nmF = 2 // f itself, called by w (sites libw, libwself: the caller reaches w)
)

var colNamesName = [...]string{"", "g", "f", "fg"}

func (c *kase) colNameList() []string {
	var ns []string
	if c.ColNames&nmF != 0 {
		ns = append(ns, "f")
	}
	if c.ColNames&nmG != 0 {
		ns = append(ns, "g")
	}
	return ns
}

// the importing template's own macro of that name, and the library macros that are imported under it
func ownMacro(n string) string {
	return "{% macro " + n + "(x, y = 'py') %}P" + n + "({{ x }};{{ y }}){% endmacro %}"
}

func altMacro(n string) string {
	return "{% macro alt" + n + "(x, y = 'oy') %}O" + n + "({{ x }};{{ y }}){% endmacro %}"
}

var altDefs = altMacro("f") + altMacro("g")

func (c *kase) colOwn() bool   { return c.Col == cOwnPre || c.Col == cOwnPost }
func (c *kase) colXlib() bool  { return c.Col == cXAliasPre || c.Col == cXAliasPost }
func (c *kase) colAlias() bool { return c.Col != cNone && !c.colOwn() }

// colExercised: the macro the caller reaches really calls a colliding name
func (c *kase) colExercised() bool {
	libw := c.Site == sLibDirect || c.Site == sLibSelf
	if c.ColNames&nmF != 0 && !libw {
		return false // f is what the caller imports: the importing side cannot bind that name to something else as well
	}
	callsG := c.Body == bSibling || c.Body == bSelfSibling
	if c.ColNames&nmG != 0 && !callsG {
		return false
	}
	return c.ColNames != 0
}

// colPlan says what the collision adds to the calling template
type colPlan struct {
	stmtPre, stmtPost   string // next to the import statement, wherever that stands
	outerPre, outerPost string // at top level of the template, when the import stands inside a macro or a loop body
	inList              string // entries added to the import list of the from-statement
	inFirst             bool   // … before the macro's own entry
	probe               string // after the call: the importing template calls the colliding names itself
}

func (c *kase) collision(reach int, libName string) (p colPlan, ok bool) {
	if c.Col == cNone {
		return p, true
	}
	if reach == rDirect || reach == rSelf {
		return p, false // the calling template is the defining template: nothing is imported
	}
	names := c.colNameList()
	if len(names) == 0 {
		return p, false
	}
	if c.colOwn() {
		defs := ""
		for _, n := range names {
			defs += ownMacro(n)
		}
		switch c.Site {
		case sChildBlock:
			return p, false // a child template's macro definitions stand outside its blocks
		case sLoopImport:
			if c.Col == cOwnPost {
				return p, false // would be a definition inside the loop body
			}
			p.outerPre = defs
		case sInMacro: // the import stands inside v: the page's macro is defined before v, or between v and the call of v
			if c.Col == cOwnPre {
				p.outerPre = defs
			} else {
				p.outerPost = defs
			}
		default:
			if c.Col == cOwnPre {
				p.stmtPre = defs
			} else {
				p.stmtPost = defs
			}
		}
	} else {
		list := ""
		for i, n := range names {
			if i > 0 {
				list += ", "
			}
			list += "alt" + n + " as " + n
		}
		from := libName
		if c.colXlib() {
			from = "xlib"
		}
		stmt := "{% from '" + from + "' import " + list + " %}"
		switch c.Col {
		case cAliasPre, cXAliasPre:
			p.stmtPre = stmt
		case cAliasPost, cXAliasPost:
			p.stmtPost = stmt
		case cAliasIn, cAliasFirst:
			if reach == rImport {
				return p, false // no from-statement to extend
			}
			p.inList = list
			p.inFirst = c.Col == cAliasFirst
		}
	}
	for _, n := range names {
		p.probe += "~{{ " + n + "('c" + n + "') }}"
	}
	return p, true
}

// what the importing template's own calls of the colliding names render
func (c *kase) probeOut() string {
	if c.Col == cNone {
		return ""
	}
	out := ""
	for _, n := range c.colNameList() {
		if c.colOwn() {
			out += "~P" + n + "(c" + n + ";py)"
		} else {
			out += "~O" + n + "(c" + n + ";oy)"
		}
	}
	return out
}

// ---------------------------------------------------------------------------------------------
// wide signatures

// widePatterns: the subsets of parameters that have defaults, for a signature of n parameters: none, all,
// every other one (both phases), the last one, the last two, all from the ninth on, all but the first
func widePatterns(n int) []int {
	full := 1<<n - 1
	even := 0
	for i := 0; i < n; i += 2 {
		even |= 1 << i
	}
	set := map[int]bool{0: true, full: true, even: true, full &^ even: true, 1 << (n - 1): true, 3 << (n - 2): true, full &^ 1: true}
	if n > 8 {
		set[full&^(1<<8-1)] = true
	}
	return sortedInts(set)
}

// wideMasksThorough adds every single default and every single parameter without default
func wideMasksThorough(n int) []int {
	full := 1<<n - 1
	set := map[int]bool{}
	for _, m := range widePatterns(n) {
		set[m] = true
	}
	for i := 0; i < n; i++ {
		set[1<<i] = true
		set[full&^(1<<i)] = true
	}
	return sortedInts(set)
}

func sortedInts(set map[int]bool) []int {
	r := make([]int, 0, len(set))
	for m := range set {
		r = append(r, m)
	}
	sort.Ints(r)
	return r
}

// wideArgcs: arguments for all parameters but the last two, for all, and one more than there are parameters
func wideArgcs(n int) []int { return []int{n - 2, n, n + 1} }

func wideArgcsThorough(n int) []int { return ints(n + 3) } // 0 … n+2
