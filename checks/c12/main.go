// C12 — macros bind arguments positionally with defaults, alike however they are reached.
//
// Bounded-exhaustive enumeration of macro signatures (0–3 parameters × every subset with defaults ×
// 5 kinds of constant default expressions × 4 ways of spacing the declaration) × argument lists
// (0 … n+1 arguments × 6 kinds of argument expressions) × 5 bodies × 9 call sites × padding across
// the 4096-byte tokenizer switch. Every such (macro, call, site) is rendered once per way of
// reaching the macro (direct, _self, import, from, from … as, multi-name from); each output is
// compared with a binding model transcribed from the statement, so all ways of reaching the macro
// are also compared with each other.
//
// Use dimension: the VALUE of the call is printed once ({{ f(…) }}), or held and used several times
// ({% set r = f(…) %}{{ r }}|{{ r }}, printed inside a for body, passed to a macro that prints its
// parameter twice, two calls held before either is printed). A held value is the text the call
// renders, every time it is used.
//
// History dimension (one engine, several renders): every way of reaching the macro is rendered
// three times in a row on its engine; in the "seq" cases all ways of reaching the same library
// live on ONE engine and are rendered one after the other, in every rotation of their order and
// in reverse order, two rounds each; two sites import the library several times within one render
// (import/from inside a loop body, an importing template included from a loop body).
//
// Version dimension (replace.go): the macro a name designates changes between two renders of cached
// calling templates — the macro LIBRARY is replaced (registered again, or changed in a loader with the
// cache off / with auto-reload) by a second version with another body / other defaults / other arity and
// replaced back; and a shared partial calls the macro supplied by its includer under two includers that
// supply different macros of that name, rendered alternately in both orders.
//
// Collision dimension and wide signatures (collide.go): the importing template binds a name that the
// reached library macro calls (a sibling) to a macro of its own or to an alias of another macro — the
// library macro must still render what it renders in its defining template; signatures of 8, 9, 10 and
// 12 parameters (thorough 4 … 12) with argument lists around the number of parameters.
//
// Escape dimension (escape.go): the text of the macro's body carries escaped delimiters (\{{ p0 }},
// \{% if p0 %}, \{# p0 #} …) next to the real print tags; that text must render inside the macro what
// the same text renders outside a macro (metamorphic twin), on every way of reaching the macro.
package main

import (
	"fmt"
	"runtime/debug"
	"sort"
	"strings"

	"github.com/semihalev/twig"

	"verif/lib/vlib"
)

// ---------------------------------------------------------------------------------------------
// alphabet

type val struct {
	s    string
	null bool
}

func (v val) truthy() bool { return !v.null && v.s != "" }

// default expressions: style × parameter index → (source, value)
const nDefStyles = 5

var defStyleName = [...]string{"str", "tricky", "int", "expr", "nullish"}

func defaultExpr(style, i int) (string, val) {
	switch style {
	case 0:
		return fmt.Sprintf("'d%d'", i), val{s: fmt.Sprintf("d%d", i)}
	case 1:
		switch i {
		case 0:
			return "'x, y'", val{s: "x, y"}
		case 1:
			return "\"(z)=w\"", val{s: "(z)=w"}
		default:
			return "'a=b, c)'", val{s: "a=b, c)"}
		}
	case 2:
		switch i {
		case 0:
			return "7", val{s: "7"}
		case 1:
			return "-3", val{s: "-3"}
		default:
			return "42", val{s: "42"}
		}
	case 3:
		switch i {
		case 0:
			return "1 + 2", val{s: "3"}
		case 1:
			return "'a' ~ 'b'", val{s: "ab"}
		default:
			return "2 * 5", val{s: "10"}
		}
	default:
		switch i {
		case 0:
			return "null", val{null: true}
		case 1:
			return "''", val{s: ""}
		default:
			return "'z'", val{s: "z"}
		}
	}
}

// argument expressions: style × position → (source, value in the caller's scope)
const (
	asStr = iota
	asInt
	asVar  // outer variables q0…q3
	asNull // null in first position
	asExpr
	asPar // outer variables that carry the parameters' names, rotated
	nArgStyles
)

var argStyleName = [...]string{"str", "int", "var", "null", "expr", "pnames"}

func argExpr(style, i int) (string, val) {
	switch style {
	case asStr:
		return fmt.Sprintf("'a%d'", i), val{s: fmt.Sprintf("a%d", i)}
	case asInt:
		return fmt.Sprint(10 + i), val{s: fmt.Sprint(10 + i)}
	case asVar:
		return fmt.Sprintf("q%d", i), val{s: fmt.Sprintf("Q%d", i)}
	case asNull:
		if i == 0 {
			return "null", val{null: true}
		}
		return fmt.Sprintf("\"b%d\"", i), val{s: fmt.Sprintf("b%d", i)}
	case asExpr:
		switch i {
		case 0:
			return "'a' ~ 'b'", val{s: "ab"}
		case 1:
			return "2 * 3", val{s: "6"}
		case 2:
			return "'c' ~ 1", val{s: "c1"}
		default:
			return "-4", val{s: "-4"}
		}
	default:
		k := (i + 1) % 3
		return fmt.Sprintf("p%d", k), val{s: fmt.Sprintf("OUT%d", k)}
	}
}

func usesOuter(style int) bool { return style == asVar || style == asPar }

// declaration spacing
const nSpacings = 4

var spacingName = [...]string{"std", "tight", "wide", "gap"}

// bodies
const (
	bPrint = iota
	bSet
	bSibling
	bSelfSibling
	bControl
	bRelInc // the body includes './part': a name relative to the macro's defining template
	nBodies
)

var bodyName = [...]string{"print", "set", "sib", "selfsib", "ctl", "relinc"}

// call sites
const (
	sTop = iota
	sLoop
	sIf
	sBlock
	sChildBlock  // block of a template that extends another; the import stands inside the block
	sInclude     // an included template reaches and calls the macro
	sInMacro     // another macro (of the calling template) reaches and calls the macro
	sLibDirect   // a macro w next to f in its defining template calls f(…); the caller reaches w
	sLibSelf     // the same with _self.f(…)
	sLoopImport  // the import/from statement stands inside the loop body: several imports in one render
	sLoopInclude // a loop body includes the template that reaches and calls the macro
	nSites
	// sites that only the families written for them enumerate (ints(nSites) does not contain them)
	sWrap = nSites // the import stands at top level of the calling template, the call inside a macro v of that template
)

var siteName = [...]string{"top", "loop", "if", "block", "childblock", "include", "inmacro", "libw", "libwself", "loopimport", "loopinclude", "wrap"}

var allSitesAndWrap = append(ints(nSites), sWrap)

// histories
const (
	hEach = iota // every way of reaching the macro on its own engine, rendered three times in a row
	hSeq         // all ways of reaching the macro on one engine, rendered one after the other
)

var histName = [...]string{"each", "seq"}

const (
	repeats = 3 // renders of the same template on one engine (hEach)
	rounds  = 2 // passes over the sequence of calling templates (hSeq)
)

// ways of reaching the macro
const (
	rDirect = iota
	rSelf
	rImport
	rFrom
	rAlias
	rMulti
	nReaches
)

var reachName = [...]string{"direct", "_self", "import", "from", "alias", "multi"}

// what the calling template does with the VALUE of the call expression
const (
	uPrint      = iota // {{ <call> }}
	uSet2              // {% set r = <call> %}{{ r }}|{{ r }}
	uSetLoop           // {% set r = <call> %}{% for i in [1, 2] %}{{ r }}{% endfor %}
	uOuter             // {% import 'olib' as o %}{{ o.tw(<call>) }}: tw prints its parameter twice
	uOuterLocal        // {{ tw(<call>) }}, tw being a macro of the calling template
	uTwo               // {% set r = <call> %}{% set q = <call2> %}{{ r }}{{ q }}{{ r }}
	nUses
)

var useName = [...]string{"print", "set2", "setloop", "outer", "outerlocal", "two"}

// the macro that receives the value of a call and prints it twice. Its parameter carries the name
// of an outer variable that argument kind pnames passes to f (tw(f(p1, …))): the argument is
// evaluated where the call is written, not where its value is printed
const twDef = "{% macro tw(p1) %}<{{ p1 }}{{ p1 }}>{% endmacro %}"

var heldUses = []int{uSet2, uSetLoop, uOuter, uOuterLocal, uTwo}

type kase struct {
	Name     string // macro name: f, or a name that is also a built-in function
	N        int    // parameters
	DefMask  int
	DefSt    int
	Spacing  int
	Argc     int
	ArgSt    int
	Body     int
	Site     int
	Pad      int    // 0 none, 1 defining template above 4096 bytes, 2 calling template above 4096 bytes
	Hist     int    // hEach or hSeq
	Use      int    // uPrint … uTwo
	Mark     bool   // second version of the macro (families replace, partial): the body's text carries a mark; not part of the key
	Col      int    // collide.go: how the importing template binds a name that a macro of the library also carries (cNone: it does not)
	ColNames int    // … which names (bit set nmG, nmF)
	Esc      int    // escape.go: the body's text carries an escaped fragment (\{{ p0 }} …) at its start and at its end (eNone: it does not)
	escOut   string // escape.go, model only: what that fragment renders outside a macro (its twin); not part of the key
}

func (c *kase) key() string {
	k := fmt.Sprintf("%s/%d|m%d|%s|%s|args%d|%s|%s|%s|p%d", c.Name, c.N, c.DefMask, defStyleName[c.DefSt], spacingName[c.Spacing],
		c.Argc, argStyleName[c.ArgSt], bodyName[c.Body], siteName[c.Site], c.Pad)
	if c.Use != uPrint {
		k += "|u:" + useName[c.Use]
	}
	if c.Esc != eNone {
		k += "|e:" + escName[c.Esc]
	}
	if c.Hist == hSeq {
		k += "|seq"
	}
	if c.Col != cNone {
		k = "col:" + colName[c.Col] + ":" + colNamesName[c.ColNames] + "|" + k
	}
	return k
}

// ---------------------------------------------------------------------------------------------
// printing

func (c *kase) decl() string {
	var ps []string
	for i := 0; i < c.N; i++ {
		p := fmt.Sprintf("p%d", i)
		if c.DefMask&(1<<i) != 0 {
			d, _ := defaultExpr(c.DefSt, i)
			switch c.Spacing {
			case 1:
				p += "=" + d
			default:
				p += " = " + d
			}
		}
		ps = append(ps, p)
	}
	switch c.Spacing {
	case 1:
		return c.Name + "(" + strings.Join(ps, ",") + ")"
	case 2:
		return c.Name + "( " + strings.Join(ps, " , ") + " )"
	case 3:
		return c.Name + " (" + strings.Join(ps, ", ") + ")"
	}
	return c.Name + "(" + strings.Join(ps, ", ") + ")"
}

// mark is literal text at the start of the body of the macro's second version
func (c *kase) mark() string {
	if c.Mark {
		return "v2:"
	}
	return ""
}

func (c *kase) first() string {
	if c.N > 0 {
		return "p0"
	}
	return "'k0'"
}

func (c *kase) bodySrc() string {
	var b strings.Builder
	b.WriteString("[" + c.mark() + c.escFrag())
	switch c.Body {
	case bControl:
		for i := 0; i < c.N; i++ {
			fmt.Fprintf(&b, "{%% if p%d %%}T{{ p%d }}{%% else %%}F{%% endif %%},", i, i)
		}
		fmt.Fprintf(&b, "{%% for x in [%s] %%}<{{ x }}>{%% endfor %%}", c.first())
	default:
		for i := 0; i < c.N; i++ {
			fmt.Fprintf(&b, "{{ p%d }},", i)
		}
	}
	switch c.Body {
	case bSet:
		b.WriteString("{% set p0 = 'inner' %}{% set zz = 'Z' %}<{{ p0 }}{{ zz }}>")
	case bSibling:
		fmt.Fprintf(&b, "{{ g(%s, 'k') }}{{ g() }}", c.first())
	case bSelfSibling:
		fmt.Fprintf(&b, "{{ _self.g(%s) }}", c.first())
	case bRelInc:
		b.WriteString("{% include './part' %}")
	}
	b.WriteString(c.escFrag() + "]")
	return b.String()
}

// for body relinc the defining template lives in directory d/ next to d/part; a decoy 'part'
// stands at the root, where the importing templates are
const (
	partSrc  = "(part)"
	decoySrc = "(WRONG)"
)

const siblingSrc = "{% macro g(x, y = 'gy') %}({{ x }};{{ y }}){% endmacro %}"

// the macro definitions of the defining template: f, then its sibling g (defined after f on purpose)
func (c *kase) defs() string {
	return "{% macro " + c.decl() + " %}" + c.bodySrc() + "{% endmacro %}" + siblingSrc
}

func (c *kase) argList() string {
	var as []string
	for i := 0; i < c.Argc; i++ {
		a, _ := argExpr(c.ArgSt, i)
		as = append(as, a)
	}
	return strings.Join(as, ", ")
}

// the arguments of the second call of use form `two`: as many, other values
func altArg(i int) (string, val) {
	return fmt.Sprintf("'z%d'", i), val{s: fmt.Sprintf("z%d", i)}
}

func (c *kase) altArgList() string {
	var as []string
	for i := 0; i < c.Argc; i++ {
		a, _ := altArg(i)
		as = append(as, a)
	}
	return strings.Join(as, ", ")
}

// useSrc is what stands at the call site: the call printed, or its value held and used several times
func (c *kase) useSrc(reach int, call, call2 string) string {
	switch c.Use {
	case uSet2:
		return "{% set r = " + call + " %}{{ r }}|{{ r }}"
	case uSetLoop:
		return "{% set r = " + call + " %}{% for i in [1, 2] %}{{ r }}{% endfor %}"
	case uOuter:
		return "{% import 'olib' as o %}{{ o.tw(" + call + ") }}"
	case uOuterLocal:
		if reach == rSelf {
			return "{{ _self.tw(" + call + ") }}"
		}
		return "{{ tw(" + call + ") }}"
	case uTwo:
		return "{% set r = " + call + " %}{% set q = " + call2 + " %}{{ r }}{{ q }}{{ r }}"
	}
	return "{{ " + call + " }}"
}

var padding = "{#" + strings.Repeat("padding-", 520) + "#}"

const after = "|{{ p0 }}|{{ zz }}|"

// program builds the templates for one way of reaching the macro; ok=false when the combination
// is not part of the space (see NOTES.md, exclusions). sfx is appended to the names of the calling
// template and of the template it includes, so that the programs of several ways can live on one
// engine (they share lib, base and part, whose sources do not depend on the way).
func (c *kase) program(reach int, sfx string) (tpls map[string]string, mainName string, ok bool) {
	args := c.argList()
	target := c.Name // the macro the caller reaches in the defining template
	callee := c.Name + "(" + args + ")"
	libExtra := ""
	local := reach == rDirect || reach == rSelf
	switch c.Site {
	case sLibDirect, sLibSelf:
		// w() stands next to f and calls it; the caller reaches w
		if usesOuter(c.ArgSt) {
			return nil, "", false // w's body would read outer variables
		}
		inner := c.Name + "(" + args + ")"
		if c.Site == sLibSelf {
			inner = "_self." + inner
		}
		libExtra = "{% macro w() %}{{ " + inner + " }}{% endmacro %}"
		target = "w"
		callee = "w()"
	case sInMacro:
		if usesOuter(c.ArgSt) {
			return nil, "", false
		}
	case sWrap:
		if usesOuter(c.ArgSt) {
			return nil, "", false
		}
		if local {
			return nil, "", false // the same text as site inmacro
		}
	case sChildBlock:
		if local {
			return nil, "", false // a child template's macro definitions stand outside its blocks
		}
	case sLoopImport:
		if local {
			return nil, "", false // no import statement to repeat; definitions inside a loop body are not specified
		}
	}
	calleeArgs := callee[len(target):]
	calleeArgs2 := calleeArgs // the second call of use form `two`: the same macro, other arguments
	if target == c.Name {
		calleeArgs2 = "(" + c.altArgList() + ")"
	}
	topDefs := "" // macro definitions at top level of the template in which the call stands
	switch c.Use {
	case uPrint:
	case uOuterLocal:
		if c.Site == sChildBlock {
			return nil, "", false // a child template's macro definitions stand outside its blocks
		}
		topDefs = twDef
		fallthrough
	default:
		if c.Argc == 0 {
			return nil, "", false // held values are enumerated for calls with at least one argument
		}
	}

	// names: for body relinc the defining template lives in d/, the importing templates at the root
	dir := ""
	if c.Body == bRelInc {
		dir = "d/"
	}
	libName := dir + "lib"
	mainName, incName := "main"+sfx, "inc"+sfx
	if local { // the calling template (or the one it includes) is the defining template
		mainName, incName = dir+mainName, dir+incName
	}

	// a name of the importing side that collides with a macro of the library (collide.go)
	col, colOK := c.collision(reach, libName)
	if !colOK {
		return nil, "", false
	}
	if c.colAlias() && !c.colXlib() {
		libExtra += altDefs
	}
	list := func(own string) string { // the import list of the from-statement
		switch {
		case col.inList == "":
			return own
		case col.inFirst:
			return col.inList + ", " + own
		}
		return own + ", " + col.inList
	}

	// how the calling template gets at the macro, and the call expression
	var reachStmt, fn string
	switch reach {
	case rDirect:
		fn = target
	case rSelf:
		fn = "_self." + target
	case rImport:
		reachStmt = "{% import '" + libName + "' as m %}"
		fn = "m." + target
	case rFrom:
		reachStmt = "{% from '" + libName + "' import " + list(target) + " %}"
		fn = target
	case rAlias:
		reachStmt = "{% from \"" + libName + "\" import " + list(target+" as h") + " %}"
		fn = "h"
	case rMulti:
		reachStmt = "{% from '" + libName + "' import " + list("g as g2, "+target+" as h") + " %}"
		fn = "h"
	}
	reachStmt = col.stmtPre + reachStmt + col.stmtPost
	call, call2 := fn+calleeArgs, fn+calleeArgs2
	if builtinName(c.Name) && target == c.Name && (reach == rDirect || reach == rFrom) {
		return nil, "", false // a bare call of that name could mean the built-in function
	}
	if builtinName(c.Name) && c.Site == sLibDirect {
		return nil, "", false // w calls the bare name
	}
	defs := c.defs() + libExtra
	if local {
		reachStmt = defs
	}
	use := c.useSrc(reach, call, call2) + col.probe

	tpls = map[string]string{}
	if c.Use == uOuter {
		tpls["olib"] = twDef
	}
	if c.colXlib() {
		tpls["xlib"] = altDefs
	}
	main := ""
	switch c.Site {
	case sTop, sLibDirect, sLibSelf:
		main = reachStmt + use
	case sLoop:
		main = reachStmt + "{% for i in xs %}" + use + ";{% endfor %}"
	case sLoopImport:
		main = col.outerPre + "{% for i in xs %}" + reachStmt + use + ";{% endfor %}"
	case sIf:
		main = reachStmt + "{% if t %}" + use + "{% else %}no{% endif %}"
	case sBlock:
		main = reachStmt + "<{% block k %}" + use + "{% endblock %}>"
	case sChildBlock:
		tpls["base"] = "<{% block k %}K0{% endblock %}>" + after
		main = "{% extends 'base' %}{% block k %}" + reachStmt + use + "{% endblock %}"
	case sInclude:
		tpls[incName] = topDefs + reachStmt + use
		main = "{% include '" + incName + "' %}"
	case sLoopInclude:
		tpls[incName] = topDefs + reachStmt + use
		main = "{% for i in xs %}{% include '" + incName + "' %};{% endfor %}"
	case sInMacro:
		if local {
			main = defs + "{% macro v() %}(" + use + "){% endmacro %}{{ v() }}"
		} else {
			main = col.outerPre + "{% macro v() %}" + reachStmt + "(" + use + "){% endmacro %}" + col.outerPost + "{{ v() }}"
		}
	case sWrap:
		main = reachStmt + "{% macro v() %}(" + use + "){% endmacro %}{{ v() }}"
	}
	if c.Site != sInclude && c.Site != sLoopInclude {
		main = topDefs + main
	}
	if c.Site != sChildBlock {
		main += after
	}
	if !local {
		lib := defs
		if c.Pad == 1 {
			lib = padding + lib
		}
		tpls[libName] = lib
	}
	if c.Body == bRelInc {
		tpls[dir+"part"] = partSrc
		tpls["part"] = decoySrc
	}
	if c.Pad == 2 || (c.Pad == 1 && local) {
		if c.Site == sInclude || c.Site == sLoopInclude {
			tpls[incName] = padding + tpls[incName]
		} else {
			main = padding + main
		}
	}
	tpls[mainName] = main
	return tpls, mainName, true
}

var builtins = map[string]bool{"max": true}

func builtinName(n string) bool { return builtins[n] }

// ---------------------------------------------------------------------------------------------
// reference model (C12 statement; DESIGN.md Appendix A "Macros")

func (c *kase) bind() (vals []val, pattern string) { return c.bindWith(false) }

// bindWith: alt selects the arguments of the second call of use form `two`
func (c *kase) bindWith(alt bool) (vals []val, pattern string) {
	vals = make([]val, c.N)
	var pat []string
	for i := 0; i < c.N; i++ {
		switch {
		case i < c.Argc && alt:
			_, vals[i] = altArg(i)
			pat = append(pat, "A")
		case i < c.Argc:
			_, vals[i] = argExpr(c.ArgSt, i)
			pat = append(pat, "A")
		case c.DefMask&(1<<i) != 0:
			_, vals[i] = defaultExpr(c.DefSt, i)
			pat = append(pat, "D")
		default:
			vals[i] = val{null: true}
			pat = append(pat, "N")
		}
	}
	pattern = strings.Join(pat, "")
	if c.Argc > c.N {
		pattern += "+x"
	}
	return
}

func (c *kase) callOutput() string { return c.callOutputWith(false) }

func (c *kase) callOutputWith(alt bool) string {
	vals, _ := c.bindWith(alt)
	first := val{s: "k0"}
	if c.N > 0 {
		first = vals[0]
	}
	var b strings.Builder
	b.WriteString("[" + c.mark() + c.escOut)
	switch c.Body {
	case bControl:
		for _, v := range vals {
			if v.truthy() {
				b.WriteString("T" + v.s + ",")
			} else {
				b.WriteString("F,")
			}
		}
		b.WriteString("<" + first.s + ">")
	default:
		for _, v := range vals {
			b.WriteString(v.s + ",")
		}
	}
	switch c.Body {
	case bSet:
		b.WriteString("<innerZ>")
	case bSibling:
		b.WriteString("(" + first.s + ";k)(;gy)")
	case bSelfSibling:
		b.WriteString("(" + first.s + ";gy)")
	case bRelInc:
		b.WriteString(partSrc)
	}
	b.WriteString(c.escOut + "]")
	return b.String()
}

func (c *kase) expected() string {
	out := c.callOutput()
	// a held value is the text the call renders, every time it is used
	switch c.Use {
	case uSet2:
		out = out + "|" + out
	case uSetLoop:
		out = out + out
	case uOuter, uOuterLocal:
		out = "<" + out + out + ">"
	case uTwo:
		// through w (sites libw, libwself) both calls are w(), which calls f with the first arguments
		out2 := c.callOutputWith(c.Site != sLibDirect && c.Site != sLibSelf)
		out = out + out2 + out
	}
	// where the importing template calls a colliding name itself, the name designates its own macro
	out += c.probeOut()
	switch c.Site {
	case sLoop, sLoopImport, sLoopInclude:
		out = out + ";" + out + ";"
	case sBlock, sChildBlock:
		out = "<" + out + ">"
	case sInMacro, sWrap:
		out = "(" + out + ")"
	}
	// afterwards the caller's variables are what they were: p0 is still the outer value, zz is
	// still undefined
	return out + "|OUT0||"
}

func ctx() map[string]interface{} {
	return map[string]interface{}{
		"p0": "OUT0", "p1": "OUT1", "p2": "OUT2",
		"q0": "Q0", "q1": "Q1", "q2": "Q2", "q3": "Q3",
		"xs": []interface{}{1, 2}, "t": true,
	}
}

// ---------------------------------------------------------------------------------------------

// newEngine registers the templates (in name order) on a fresh engine
func newEngine(src map[string]string) (*twig.Engine, string) {
	e := twig.New()
	names := make([]string, 0, len(src))
	for n := range src {
		names = append(names, n)
	}
	sort.Strings(names)
	for _, n := range names {
		if err := e.RegisterString(n, src[n]); err != nil {
			return nil, "register " + n + ": " + err.Error()
		}
	}
	return e, ""
}

func render(e *twig.Engine, name string) (string, string) {
	o, err := e.Render(name, ctx())
	if err != nil {
		return "", "render: " + err.Error()
	}
	return o, ""
}

func show(src map[string]string) map[string]string {
	m := make(map[string]string, len(src))
	for n, s := range src {
		m[n] = strings.Replace(s, padding, "{#…4162 bytes of padding…#}", 1)
	}
	return m
}

// step is one render of a history: which way's calling template is rendered
type step struct {
	reach int
	name  string // template rendered
}

// history is one engine's life: the templates registered on it and the renders made, in order
type history struct {
	label string
	src   map[string]string
	steps []step
}

// histories lists the engine lives of a case.
// hEach: one engine per way of reaching the macro; its calling template is rendered `repeats` times.
// hSeq: every engine holds the calling templates of all ways (they share lib); the engines differ
// in the order in which these are rendered: every rotation of the canonical order and the reverse
// order, `rounds` passes each.
func (c *kase) histories() []history {
	var hs []history
	if c.Hist == hEach {
		for r := 0; r < nReaches; r++ {
			src, name, ok := c.program(r, "")
			if !ok {
				continue
			}
			h := history{label: reachName[r], src: src}
			for i := 0; i < repeats; i++ {
				h.steps = append(h.steps, step{r, name})
			}
			hs = append(hs, h)
		}
		return hs
	}
	all := map[string]string{}
	var order []step
	for r := 0; r < nReaches; r++ {
		src, name, ok := c.program(r, "_"+reachName[r])
		if !ok {
			continue
		}
		for n, s := range src {
			if old, dup := all[n]; dup && old != s {
				panic("check bug: template " + n + " differs between ways of reaching the macro")
			}
			all[n] = s
		}
		order = append(order, step{r, name})
	}
	seq := func(label string, first []step) {
		h := history{label: label, src: all}
		for i := 0; i < rounds; i++ {
			h.steps = append(h.steps, first...)
		}
		hs = append(hs, h)
	}
	for k := range order {
		rot := append(append([]step{}, order[k:]...), order[:k]...)
		seq("from "+reachName[order[k].reach], rot)
	}
	if len(order) > 2 {
		rev := make([]step, len(order))
		for i, s := range order {
			rev[len(order)-1-i] = s
		}
		seq("reversed", rev)
	}
	return hs
}

func (c *kase) hasProgram() bool {
	for r := 0; r < nReaches; r++ {
		if _, _, ok := c.program(r, ""); ok {
			return true
		}
	}
	return false
}

func check(c kase) *vlib.Outcome {
	want := c.expected()
	_, pattern := c.bind()
	class := fmt.Sprintf("%s|%s|%s", pattern, bodyName[c.Body], siteName[c.Site])
	if c.Use != uPrint {
		class += "|" + useName[c.Use]
	}
	if c.Hist != hEach {
		class += "|" + histName[c.Hist]
	}
	if c.Col != cNone {
		class += "|" + colName[c.Col] + ":" + colNamesName[c.ColNames]
	}
	o := &vlib.Outcome{
		Nontrivial: (c.N+c.Argc > 0 || c.Esc != eNone) && (c.Col == cNone || c.colExercised()),
		Class:      class,
		Counters:   map[string]int64{},
	}
	// escape dimension (escape.go): the escaped fragments of the body render what the same fragment
	// renders outside a macro, under the tokenizer of the macro's defining template; wants[1] is the
	// expectation for the ways whose defining template stands above 4096 bytes
	wants := [2]string{want, want}
	wantOK := [2]bool{true, true}
	if c.Esc != eNone {
		twins, headline := "", -1
		for p := 0; p < 2; p++ {
			need := false
			for r := 0; r < nReaches; r++ {
				need = need || c.defPadded(r) == (p == 1)
			}
			if !need {
				continue
			}
			o.Counters["twin_renders"]++
			out, errText := c.escTwin(p == 1)
			if errText != "" {
				o.Counters["twin_errors"]++
				wantOK[p] = false
				twins += "|twin-error"
				continue
			}
			cc := c
			cc.escOut = out
			wants[p] = cc.expected()
			if headline < 0 {
				headline = p
			}
			if out == c.escLiteral() {
				twins += "|literal"
			} else {
				twins += "|not-literal"
			}
		}
		o.Class += "|e:" + escName[c.Esc] + twins
		if !wantOK[0] && !wantOK[1] {
			o.Nontrivial = false
		}
		if headline >= 0 {
			want = wants[headline] // shown in the message; a render that has the other expectation says so
		}
	}
	var bad []string
	var detail []interface{}
	allKnown := true
	outs := map[string]bool{}
	for _, h := range c.histories() {
		o.Counters["engines"]++
		e, regErr := newEngine(h.src)
		shown := false
		for i, st := range h.steps {
			var got, errText string
			if regErr != "" {
				errText = regErr
			} else {
				o.Counters["renders"]++
				if i > 0 {
					o.Counters["renders_on_used_engine"]++
				}
				got, errText = render(e, st.name)
			}
			obs := fmt.Sprintf("%q", got)
			if errText != "" {
				obs = "error: " + errText
			}
			outs[obs] = true
			wantHere := want
			if c.Esc != eNone {
				p := 0
				if c.defPadded(st.reach) {
					p = 1
				}
				if !wantOK[p] {
					continue // the fragment does not render outside a macro either: no verdict
				}
				wantHere = wants[p]
			}
			if errText == "" && got == wantHere {
				continue
			}
			where := fmt.Sprintf("engine %q, render %d of %d (%s, reached by %s)", h.label, i+1, len(h.steps), st.name, reachName[st.reach])
			if wantHere != want {
				where += fmt.Sprintf(" [want here %q]", wantHere)
			}
			if len(bad) < 4 {
				if !shown {
					bad = append(bad, fmt.Sprintf("%s: %v gives %s", where, show(h.src), obs))
					shown = true
				} else {
					bad = append(bad, fmt.Sprintf("%s: %s", where, obs))
				}
			}
			var prior []string
			for _, p := range h.steps[:i] {
				prior = append(prior, p.name)
			}
			if len(detail) < 12 {
				detail = append(detail, map[string]interface{}{"engine": h.label, "reach": reachName[st.reach], "templates": show(h.src),
					"rendered_before_on_this_engine": prior, "rendered": st.name, "observed": obs})
			}
			// KF-C12-1: _self.<name>(…) calls the built-in function <name> instead of the
			// template's macro of that name. Predicate: the macro's name is a built-in function's and
			// the call is written _self.<name>(…) (by the caller, or by w for site libwself).
			// Quirk: the call yields what max(<int arguments>) yields: the largest = the last argument.
			viaSelf := (st.reach == rSelf && c.Site != sLibDirect && c.Site != sLibSelf) || c.Site == sLibSelf
			if builtinName(c.Name) && viaSelf && c.ArgSt == asInt && c.Argc >= 1 && errText == "" &&
				got == strings.Replace(want, c.callOutput(), fmt.Sprint(10+c.Argc-1), -1) {
				continue
			}
			allKnown = false
			if regErr != "" {
				break
			}
		}
	}
	if len(outs) > 1 {
		o.Counters["cases_with_disagreeing_renders"]++
	}
	if len(bad) > 0 {
		o.Violation = fmt.Sprintf("want %q from every render, however the macro is reached and whatever the engine rendered before; %s", want, strings.Join(bad, "; "))
		o.Detail = map[string]interface{}{"expected": want, "context": ctx(), "mismatches": detail}
		if allKnown {
			o.Known = "KF-C12-1"
		}
	}
	return o
}

// ---------------------------------------------------------------------------------------------
// enumeration: a union of full products (families), simplest first

type family struct {
	name            string
	names           []string
	maxN            int
	defSt, spacings []int
	argSt, bodies   []int
	sites, pads     []int
	minArgc         int
	hist            int
	uses            []int           // nil: the call is printed
	kind            int             // kPlain, kReplace, kPartial (replace.go)
	changes         []int           // kReplace, kPartial: how the macro's second version differs from the first
	mechs           []int           // kReplace: how the library is replaced
	ns              []int           // the numbers of parameters, when not 0 … maxN (wide signatures)
	masks           func(int) []int // the subsets of parameters with defaults, when not every subset
	argcs           func(int) []int // the numbers of arguments, when not minArgc … n+1
	cols            []int           // collide.go: kinds of name collision between the importing side and the library; nil: none
	escs            []int           // escape.go: escaped fragments in the text of the macro's body; nil: none
}

func ints(n int) []int {
	r := make([]int, n)
	for i := range r {
		r[i] = i
	}
	return r
}

func families(thorough bool) []family {
	f := []string{"f"}
	if thorough {
		return []family{
			{name: "full", names: f, maxN: 3, defSt: ints(nDefStyles), spacings: ints(nSpacings), argSt: ints(nArgStyles), bodies: ints(nBodies), sites: ints(nSites), pads: []int{0, 1, 2}},
			{name: "builtin-name", names: []string{"max"}, maxN: 3, defSt: []int{0, 2}, spacings: []int{0, 3}, argSt: []int{asInt}, bodies: ints(nBodies), sites: ints(nSites), pads: []int{0, 1}, minArgc: 1},
			// escaped delimiters in the text of the macro's body (escape.go)
			{name: "escaped", names: f, maxN: 3, defSt: []int{0, 1}, spacings: []int{0}, argSt: []int{asStr, asNull, asPar}, bodies: ints(nBodies), sites: allSitesAndWrap, pads: []int{0, 1, 2}, escs: allEscs},
			{name: "escaped-held", names: f, maxN: 2, defSt: []int{0}, spacings: []int{0}, argSt: []int{asStr, asPar}, bodies: []int{bPrint, bSelfSibling}, sites: ints(nSites), pads: []int{0, 1}, minArgc: 1, uses: heldUses, escs: allEscs},
			{name: "escaped-seq", names: f, maxN: 2, defSt: []int{0}, spacings: []int{0}, argSt: []int{asStr, asPar}, bodies: []int{bPrint, bSelfSibling}, sites: ints(nSites), pads: []int{0, 1}, hist: hSeq, escs: allEscs},
			// wide signatures (collide.go): 4 … 12 parameters
			{name: "wide", names: f, ns: []int{4, 5, 6, 7, 8, 9, 10, 11, 12}, masks: wideMasksThorough, argcs: wideArgcsThorough, defSt: []int{0}, spacings: []int{0}, argSt: []int{asStr, asNull, asPar}, bodies: []int{bPrint, bSelfSibling}, sites: allSitesAndWrap, pads: []int{0}},
			{name: "wide-spelling", names: f, ns: []int{8, 9, 10, 12}, masks: widePatterns, argcs: wideArgcs, defSt: []int{0, 1, 3}, spacings: ints(nSpacings), argSt: []int{asStr, asExpr}, bodies: []int{bPrint, bControl}, sites: []int{sTop, sInclude, sLibSelf, sWrap}, pads: []int{0, 1, 2}},
			{name: "wide-held", names: f, ns: []int{8, 9, 10, 12}, masks: widePatterns, argcs: wideArgcs, defSt: []int{0}, spacings: []int{0}, argSt: []int{asStr, asPar}, bodies: []int{bPrint}, sites: allSitesAndWrap, pads: []int{0, 2}, minArgc: 1, uses: heldUses},
			{name: "wide-seq", names: f, ns: []int{8, 9, 10, 12}, masks: widePatterns, argcs: wideArgcs, defSt: []int{0}, spacings: []int{0}, argSt: []int{asStr, asPar}, bodies: []int{bPrint}, sites: allSitesAndWrap, pads: []int{0}, hist: hSeq},
			// a name of the importing side collides with a macro of the library (collide.go); site wrap
			{name: "collide", names: f, maxN: 3, defSt: []int{0, 1}, spacings: []int{0}, argSt: ints(nArgStyles), bodies: ints(nBodies), sites: allSitesAndWrap, pads: []int{0, 1, 2}, cols: allCols},
			{name: "collide-held", names: f, maxN: 2, defSt: []int{0}, spacings: []int{0}, argSt: []int{asStr, asPar}, bodies: []int{bPrint, bSibling, bSelfSibling}, sites: allSitesAndWrap, pads: []int{0}, minArgc: 1, uses: heldUses, cols: allCols},
			{name: "collide-seq", names: f, maxN: 2, defSt: []int{0}, spacings: []int{0}, argSt: []int{asStr, asPar}, bodies: []int{bPrint, bSibling, bSelfSibling}, sites: allSitesAndWrap, pads: []int{0}, hist: hSeq, cols: allCols},
			// all ways of reaching the macro on one engine, rendered one after the other
			{name: "seq", names: f, maxN: 3, defSt: []int{0, 1}, spacings: []int{0}, argSt: ints(nArgStyles), bodies: ints(nBodies), sites: ints(nSites), pads: []int{0, 1, 2}, hist: hSeq},
			{name: "seq-builtin-name", names: []string{"max"}, maxN: 2, defSt: []int{0}, spacings: []int{0}, argSt: []int{asInt}, bodies: ints(nBodies), sites: ints(nSites), pads: []int{0}, minArgc: 1, hist: hSeq},
			// the value of the call held and used several times (≥ 1 argument)
			{name: "held", names: f, maxN: 3, defSt: []int{0, 1}, spacings: []int{0}, argSt: ints(nArgStyles), bodies: ints(nBodies), sites: ints(nSites), pads: []int{0, 1, 2}, minArgc: 1, uses: heldUses},
			{name: "held-seq", names: f, maxN: 3, defSt: []int{0}, spacings: []int{0}, argSt: []int{asStr, asVar, asPar}, bodies: ints(nBodies), sites: ints(nSites), pads: []int{0, 2}, minArgc: 1, hist: hSeq, uses: heldUses},
			// the macro library replaced between renders (replace.go)
			{name: "replace", kind: kReplace, names: f, maxN: 3, defSt: []int{0, 1}, spacings: []int{0}, argSt: []int{asStr, asPar}, bodies: ints(nBodies), sites: ints(nSites), pads: []int{0}, changes: ints(nChanges), mechs: ints(nMechs)},
			{name: "replace-pad", kind: kReplace, names: f, maxN: 2, defSt: []int{0}, spacings: []int{0}, argSt: []int{asStr, asVar}, bodies: []int{bPrint, bSelfSibling, bRelInc}, sites: ints(nSites), pads: []int{1, 2}, changes: ints(nChanges), mechs: ints(nMechs)},
			{name: "replace-held", kind: kReplace, names: f, maxN: 2, defSt: []int{0}, spacings: []int{0}, argSt: []int{asStr, asPar}, bodies: []int{bPrint, bSelfSibling}, sites: ints(nSites), pads: []int{0}, minArgc: 1, uses: heldUses, changes: ints(nChanges), mechs: []int{mReg, mReload}},
			// a shared partial calls the macro its includer supplies; two includers, two macros (replace.go)
			{name: "partial", kind: kPartial, names: f, maxN: 3, defSt: []int{0, 1}, spacings: []int{0}, argSt: ints(nArgStyles), bodies: ints(nBodies), sites: ints(nSites), pads: []int{0, 2}, changes: ints(nChanges)},
			{name: "partial-held", kind: kPartial, names: f, maxN: 2, defSt: []int{0}, spacings: []int{0}, argSt: []int{asStr, asPar}, bodies: ints(nBodies), sites: ints(nSites), pads: []int{0}, minArgc: 1, uses: heldUses, changes: ints(nChanges)},
		}
	}
	return []family{
		// binding × bodies × sites with plain spelling
		{name: "core", names: f, maxN: 3, defSt: []int{0}, spacings: []int{0}, argSt: []int{asStr, asPar}, bodies: ints(nBodies), sites: ints(nSites), pads: []int{0}},
		// spelling: default kinds × declaration spacing × argument kinds × padding
		{name: "spelling", names: f, maxN: 3, defSt: ints(nDefStyles), spacings: ints(nSpacings), argSt: ints(nArgStyles), bodies: []int{bPrint, bControl}, sites: []int{sTop, sInclude, sLibSelf}, pads: []int{0, 1}},
		// padding of either template on every site
		{name: "pad", names: f, maxN: 2, defSt: []int{1, 3}, spacings: []int{0, 1}, argSt: []int{asStr, asExpr}, bodies: []int{bSet, bSibling, bSelfSibling}, sites: ints(nSites), pads: []int{1, 2}},
		{name: "builtin-name", names: []string{"max"}, maxN: 2, defSt: []int{0}, spacings: []int{0}, argSt: []int{asInt}, bodies: []int{bPrint, bSelfSibling}, sites: ints(nSites), pads: []int{0}, minArgc: 1},
		// escaped delimiters in the text of the macro's body (escape.go): \{{ p0 }}, \{% if p0 %}, \{# p0 #} … at the
		// start and at the end of the body, next to the real print tags; the defining template on either side of
		// the tokenizer switch; every site, every way of reaching the macro
		{name: "escaped", names: f, maxN: 2, defSt: []int{0}, spacings: []int{0}, argSt: []int{asStr, asPar}, bodies: []int{bPrint, bSelfSibling}, sites: ints(nSites), pads: []int{0, 1}, escs: allEscs},
		// … with the value of the call held
		{name: "escaped-held", names: f, maxN: 1, defSt: []int{0}, spacings: []int{0}, argSt: []int{asStr, asPar}, bodies: []int{bPrint}, sites: ints(nSites), pads: []int{0}, minArgc: 1, uses: []int{uSet2, uOuter}, escs: allEscs},
		// wide signatures (collide.go): 8, 9, 10 and 12 parameters, patterns of defaults, arguments for all
		// parameters but the last two / for all / one more; the body prints every parameter; every site, every
		// way of reaching the macro; either template on either side of the tokenizer switch
		{name: "wide", names: f, ns: []int{8, 9, 10, 12}, masks: widePatterns, argcs: wideArgcs, defSt: []int{0}, spacings: []int{0}, argSt: []int{asStr, asPar}, bodies: []int{bPrint}, sites: allSitesAndWrap, pads: []int{0, 1, 2}},
		// … with the value of the call held
		{name: "wide-held", names: f, ns: []int{8, 9, 10, 12}, masks: widePatterns, argcs: wideArgcs, defSt: []int{0}, spacings: []int{0}, argSt: []int{asStr}, bodies: []int{bPrint}, sites: allSitesAndWrap, pads: []int{0}, minArgc: 1, uses: heldUses},
		// a name of the importing side (own macro before / after the import, alias of another macro of the
		// library or of another library) collides with a sibling that the imported macro calls (collide.go);
		// plus site wrap without collision
		{name: "collide", names: f, maxN: 3, defSt: []int{0}, spacings: []int{0}, argSt: []int{asStr, asPar}, bodies: []int{bPrint, bSibling, bSelfSibling}, sites: allSitesAndWrap, pads: []int{0}, cols: allCols},
		// all ways of reaching the macro on one engine, rendered one after the other: the core product,
		// with the library on either side of the tokenizer switch
		{name: "seq", names: f, maxN: 3, defSt: []int{0}, spacings: []int{0}, argSt: []int{asStr, asPar}, bodies: ints(nBodies), sites: ints(nSites), pads: []int{0, 1}, hist: hSeq},
		// the value of the call held and used several times (≥ 1 argument): the core product × 5 use
		// forms, with the calling template on either side of the tokenizer switch
		{name: "held", names: f, maxN: 3, defSt: []int{0}, spacings: []int{0}, argSt: []int{asStr, asPar}, bodies: ints(nBodies), sites: ints(nSites), pads: []int{0, 2}, minArgc: 1, uses: heldUses},
		// … and with all ways of reaching the macro on one engine
		{name: "held-seq", names: f, maxN: 3, defSt: []int{0}, spacings: []int{0}, argSt: []int{asStr}, bodies: []int{bPrint, bSelfSibling}, sites: ints(nSites), pads: []int{0}, minArgc: 1, hist: hSeq, uses: heldUses},
		// the macro library replaced between renders while the calling templates stay (replace.go):
		// 5 kinds of second version × 4 ways of replacing, every importing way, all sites
		{name: "replace", kind: kReplace, names: f, maxN: 2, defSt: []int{0}, spacings: []int{0}, argSt: []int{asStr, asPar}, bodies: []int{bPrint, bSelfSibling}, sites: ints(nSites), pads: []int{0}, changes: ints(nChanges), mechs: ints(nMechs)},
		// a shared partial calls the macro its includer supplies; two includers, two macros (replace.go)
		{name: "partial", kind: kPartial, names: f, maxN: 2, defSt: []int{0}, spacings: []int{0}, argSt: []int{asStr, asPar}, bodies: ints(nBodies), sites: ints(nSites), pads: []int{0}, changes: ints(nChanges)},
	}
}

func (f *family) each(emit func(kase)) {
	uses := f.uses
	if uses == nil {
		uses = []int{uPrint}
	}
	escs := f.escs
	if escs == nil {
		escs = []int{eNone}
	}
	ns := f.ns
	if ns == nil {
		ns = ints(f.maxN + 1)
	}
	for _, n := range ns {
		masks := ints(1 << n)
		if f.masks != nil {
			masks = f.masks(n)
		}
		argcs := ints(n + 2)
		if f.argcs != nil {
			argcs = f.argcs(n)
		}
		for _, mask := range masks {
			for _, argc := range argcs {
				if argc < f.minArgc {
					continue
				}
				for _, nm := range f.names {
					for _, ds := range f.defSt {
						if mask == 0 && ds != f.defSt[0] {
							continue // no default is written: its kind does not occur
						}
						for _, sp := range f.spacings {
							for _, as := range f.argSt {
								if argc == 0 && as != f.argSt[0] {
									continue
								}
								for _, b := range f.bodies {
									for _, s := range f.sites {
										for _, p := range f.pads {
											for _, u := range uses {
												base := kase{Name: nm, N: n, DefMask: mask, DefSt: ds, Spacing: sp, Argc: argc, ArgSt: as, Body: b, Site: s, Pad: p, Hist: f.hist, Use: u}
												if f.cols == nil {
													for _, e := range escs {
														base.Esc = e
														emit(base)
													}
													continue
												}
												if s == sWrap {
													emit(base) // the new site also without a collision
												}
												for _, col := range f.cols {
													for names := 1; names < len(colNamesName); names++ {
														k := base
														k.Col, k.ColNames = col, names
														if k.colExercised() {
															emit(k)
														}
													}
												}
											}
										}
									}
								}
							}
						}
					}
				}
			}
		}
	}
}

func run(t *vlib.T) {
	// rebinding dimension first: small, and independent of the kase families
	runRebind(t)
	seen := map[string]struct{}{}
	for _, f := range families(t.Thorough()) {
		f := f
		f.each(func(c kase) {
			if t.Stopped() {
				return
			}
			if f.kind != kPlain {
				runVersions(t, &f, c, seen)
				return
			}
			k := c.key()
			if !t.Owns(k) {
				return
			}
			if _, dup := seen[k]; dup {
				return
			}
			seen[k] = struct{}{}
			// skip combinations for which no way of reaching the macro is inside the space
			if !c.hasProgram() {
				return
			}
			t.Case(k, func() *vlib.Outcome { return check(c) })
		})
	}
}

func main() {
	// the templates are tiny: a runaway recursion (a held callable that ends up among its own
	// arguments) shall end the worker at 64 MB of stack, not at the default 1 GB
	debug.SetMaxStack(64 << 20)
	vlib.Main(vlib.Spec{
		ID:    "C12",
		Level: "exploration",
		Rule:  "every macro signature with 0–3 parameters × every subset with defaults × 5 kinds of constant default × 4 declaration spacings × argument lists of 0…n+1 arguments × 6 kinds of argument × 6 bodies (print, set inside, call a sibling, call a sibling through _self, if/for over parameters, include a name relative to the defining template) × 11 call sites (top, for, if, block, block of an extending template, included template, inside another macro, through a macro w next to f calling f / _self.f, import statement inside a for body, importing template included from a for body) × padding of the defining or the calling template above 4096 bytes, as a union of full products (families, see NOTES.md). One case takes the same macro and call once per way of reaching it (direct, _self, import, from, from-as, multi-name from) and compares every render with the binding model. Histories on one engine: history 'each' renders every way's calling template three times in a row on its own engine; history 'seq' (own families) puts the calling templates of all ways on ONE engine next to one library and renders them one after the other, in every rotation of their order and in reverse, two passes each. Use of the call's VALUE (families 'held', 'held-seq', calls with at least one argument): besides being printed once, the value is held and used several times — {% set r = CALL %}{{ r }}|{{ r }}; {% set r = CALL %}{% for i in [1, 2] %}{{ r }}{% endfor %}; passed to a macro tw that prints its parameter twice, tw reached through {% import 'olib' as o %} (o.tw(CALL)) or defined in the calling template (tw(CALL), _self.tw(CALL)); two calls of the macro with different arguments held before either is printed ({% set r = CALL %}{% set q = CALL2 %}{{ r }}{{ q }}{{ r }}) — for every way of reaching the macro, on every site; model: a held value is the text the call renders, every time it is used. Version dimension (families 'replace…', 'partial…'; keys 'repl:<how>:<change>|…', 'part:<wayA>><wayB>:<change>|…'): the macro has a second version — other body text / the complementary subset of defaults of another kind / one parameter more / one fewer / all three at once. replace: the calling templates of the ways import, from, from-as, multi-name from stand on one engine next to the library; all are rendered, the library is replaced by the other version, all are rendered, it is replaced back, all are rendered (starting from either version, callers in order and in reverse order); replaced by RegisterString again / by changing the source in a loader with caching disabled / by changing source and modification time in a timestamp-aware loader with auto-reload on / the same with the calling templates registered as strings; every render must equal the model of the version current at that render. partial: includers pageA and pageB supply version 1 and version 2 of the macro (defined in the includer, or reached there by from / from-as / multi-name from / import from its own library; every pair of ways for which the call reads the same), call it and then include the shared partial row, which makes the same call; pageA, pageB, pageA, pageB and pageB, pageA, pageB, pageA on one engine each: both calls must render the version of the page being rendered. Wide signatures (families 'wide…'): 8, 9, 10 and 12 parameters (thorough: 4 … 12) with patterns of defaults (none, all, every other one in both phases, the last, the last two, all but the first, all from the ninth on; thorough: also every single default / every single parameter without one), arguments for all parameters but the last two, for all, and one more than there are parameters (thorough: 0 … n+2), bodies that print every parameter, on every site, through every way of reaching the macro, printed and held. Collision dimension (families 'collide…', keys 'col:<kind>:<names>|…', ways import/from/from-as/multi-name from): the importing template binds a name that the reached library macro calls (the sibling g called by bodies sib/selfsib; for sites libw/libwself also f, which w calls, or both) to something else — a macro of its own defined before or after the import, or another macro imported under that name as an alias (from the same library or from another one, in its own from-statement before or after the import, or inside the from-statement that imports the macro, before or after it) — and calls that name itself after the call; the library macro must render what it renders when called directly in its defining template (the model), the importing template's own call its own macro. Site wrap (these families): the import stands at top level of the calling template, the call inside a macro v of that template. Escape dimension (families 'escaped…', key suffix '|e:<kind>'): the TEXT of the macro's body contains escaped delimiters — a fragment written with a backslash before each opener stands directly after the body's opening '[' (before the first real print tag) and directly before its closing ']' (after the last real tag); kinds of fragment: every parameter as an escaped print tag (\\{{ p0 }}:\\{{ p1 }}; without parameters p0 is an outer variable), filter expressions on the last parameter (\\{{ p1|upper }}\\{{ p1|default('x') }}), an outer variable and an unknown name (\\{{ q0 }}\\{{ zz }}), escaped block tags (\\{% if p0 %}\\{{ p1 }}\\{% endif %}\\{% set p0 = 'e' %}), an escaped comment (\\{# p0 #}), tight and dashed spellings (\\{{p0}}\\{{- p1 -}}); the fragment must render inside the macro what the same fragment renders at top level of a template of its own with the same names bound (twin, tokenized like the macro's defining template), spliced into the binding model's output — on every way of reaching the macro, every site. Rebinding dimension (keys 'rebind:<name>|<site>|<binding>>…'): within one render the same macro name f or alias g (or module variable m) is bound 2 or 3 times (thorough: 4) by tags standing one after the other — a macro of the calling template (first binding only), from 'S' import f, from 'S' import h as f / f as g / h as g, multi-name from-statements, import 'S' as m — from two libraries whose macros f and h differ in body and in defaults, every sequence, at top level / inside if / inside a macro body / first binding at top level and the later ones inside if; after every binding the name is called with 0, 1, 2 and 3 arguments and must render what the macro bound last renders when called directly in its defining template (twin), two renders on one engine. Non-trivial: the signature or the call has at least one parameter/argument, i.e. a binding decision is made, or the body's text carries an escaped fragment (version families: and the two versions render differently; collision cases: and the reached macro calls a colliding name)",
		Assumptions: []string{
			"defaults and arguments are constant expressions or caller-scope variables; bodies read only their parameters; the result of a macro call is printed, assigned with set and printed, or passed as an argument to a macro that prints it (never part of a larger expression, never filtered); calls stand after the definitions/imports they use",
			"macros are defined at top level of a template that does not extend another one; 0–3 parameters with every subset of defaults and 4–12 parameters with patterns of defaults; named arguments and other body shapes are outside the bound; a colliding name is never bound twice on the importing side (own macro and import of the same name)",
		},
		QuickDeadline: 150, ThoroughDeadline: 840,
		Run: run,
		Extra: func(tier string, cov map[string]interface{}) {
			var fs []string
			for _, f := range families(tier == "thorough") {
				uses := []string{useName[uPrint]}
				if f.uses != nil {
					uses = uses[:0]
					for _, u := range f.uses {
						uses = append(uses, useName[u])
					}
				}
				extra := ""
				switch f.kind {
				case kReplace:
					var ch, ms []string
					for _, c := range f.changes {
						ch = append(ch, changeName[c])
					}
					for _, m := range f.mechs {
						ms = append(ms, mechName[m])
					}
					extra = fmt.Sprintf("; the library is replaced by a second version and replaced back (second version differs in %v; replaced by %v), ways import/from/alias/multi on one engine", ch, ms)
				case kPartial:
					var ch []string
					for _, c := range f.changes {
						ch = append(ch, changeName[c])
					}
					extra = fmt.Sprintf("; sites top/loop/if/block only, bodies without relinc: two includers supply two versions of the macro (second version differs in %v) to one shared partial, %d pairs of ways of supplying (define, from, alias, multi, import), includers rendered alternately in both orders", ch, len(supplyPairs()))
				}
				sig := fmt.Sprintf("0-%d parameters x every default subset", f.maxN)
				if f.ns != nil {
					var pats, acs []string
					for _, n := range f.ns {
						pats = append(pats, fmt.Sprint(len(f.masks(n))))
						acs = append(acs, fmt.Sprint(f.argcs(n)))
					}
					sig = fmt.Sprintf("%v parameters x %s patterns of defaults (none, all, every other one in both phases, last, last two, all but the first, from the ninth on; thorough: also every single default and every single parameter without one), numbers of arguments %s", f.ns, strings.Join(pats, "/"), strings.Join(acs, "/"))
				}
				if f.cols != nil {
					var cs []string
					for _, c := range f.cols {
						cs = append(cs, colName[c])
					}
					extra += fmt.Sprintf("; ways import/from/alias/multi only: the importing template binds a name that the reached library macro calls (g for bodies sib/selfsib; f, g or both for sites libw/libwself) to something else — %v — and calls that name itself after the call; plus site wrap without collision (all six ways but direct/_self)", cs)
				}
				if f.escs != nil {
					var es []string
					for _, e := range f.escs {
						es = append(es, escName[e])
					}
					extra += fmt.Sprintf("; the text of the macro's body carries an escaped fragment (backslash before the opener) at its start and at its end, inner words %v; expectation for the fragment: what it renders outside a macro (twin)", es)
				}
				fs = append(fs, fmt.Sprintf("%s: macro names %v, %s, %d default kinds, %d spacings, %d argument kinds, %d bodies, %d sites, %d padding variants, uses of the call's value %v, %d ways of reaching per case, history %s",
					f.name, f.names, sig, len(f.defSt), len(f.spacings), len(f.argSt), len(f.bodies), len(f.sites), len(f.pads), uses, nReaches, histName[f.hist])+extra)
			}
			cov["families"] = fs
			cov["histories"] = fmt.Sprintf("each: one engine per way of reaching the macro, its calling template rendered %d times in a row; seq: the calling templates of all ways on one engine, rendered one after the other in every rotation of the order %v and in reverse order, %d passes each", repeats, reachName, rounds)
		},
	})
}
