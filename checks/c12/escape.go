// Escape dimension (added after seeded change C12-J was missed).
//
// Until then the literal text of a macro body never contained a delimiter: no body had `{{`, `{%` or
// `{#` in its TEXT. A template writes such text with a backslash before the opener (\{{ name }},
// \{% if name %}, \{# name #}): the opener and everything after it is then ordinary text. "Calling a
// macro renders its body with each parameter bound …": the body's text is rendered as the same text
// is rendered outside a macro — in particular it is not looked at for the names of parameters,
// defaults or outer variables. The body of the macro carries such an escaped fragment twice: directly
// after its opening "[" (followed by the first real print tag) and directly before its closing "]"
// (after the last real tag or its "," text); the words inside the fragment name the macro's
// parameters (bound by an argument, by a default, or null — or, for a macro without parameters, an
// outer variable of that name), outer variables, an unknown name, filter expressions.
//
// Oracle: the metamorphic twin. What the escape does is not C12's business (C04 lists the backslash
// before an opener as not fixed by its statement), so the text a fragment has to render inside the
// macro is what the very same fragment renders at top level of a template ("[" fragment "]") in which
// the parameters' names are bound to the values the binding model gives them, tokenized by the same
// tokenizer as the macro's defining template (above / below 4096 bytes). That text is spliced into the
// binding model's output; everything else is the unchanged model. When the twin itself fails to
// render, the case gives no verdict (counter twin_errors).
package main

import (
	"fmt"
	"strings"

	"github.com/semihalev/twig"
)

// what stands between the escaped delimiters
const (
	eNone    = iota
	eParams  // every parameter as an escaped print tag: \{{ p0 }}:\{{ p1 }} (no parameter: \{{ p0 }}, an outer variable)
	eFilter  // filter expressions on the last parameter (the one most often bound by its default or null): \{{ p1|upper }}\{{ p1|default('x') }}
	eOuter   // an outer variable and an unknown name: \{{ q0 }}\{{ zz }}
	eTag     // escaped block tags around an escaped print tag: \{% if p0 %}\{{ p1 }}\{% endif %}\{% set p0 = 'e' %}
	eComment // an escaped comment: \{# p0 #}
	eTight   // no blanks, dashes: \{{p0}}\{{- p1 -}}
	nEscs
)

var escName = [...]string{"", "params", "filter", "outer", "tag", "comment", "tight"}

var allEscs = []int{eParams, eFilter, eOuter, eTag, eComment, eTight}

// escFrag is the escaped fragment as written in the body of the macro ("" without the dimension)
func (c *kase) escFrag() string {
	last := "p0"
	if c.N > 0 {
		last = fmt.Sprintf("p%d", c.N-1)
	}
	switch c.Esc {
	case eParams:
		ps := []string{`\{{ p0 }}`}
		for i := 1; i < c.N; i++ {
			ps = append(ps, fmt.Sprintf(`\{{ p%d }}`, i))
		}
		return strings.Join(ps, ":")
	case eFilter:
		return `\{{ ` + last + `|upper }}\{{ ` + last + `|default('x') }}`
	case eOuter:
		return `\{{ q0 }}\{{ zz }}`
	case eTag:
		return `\{% if p0 %}\{{ ` + last + ` }}\{% endif %}\{% set p0 = 'e' %}`
	case eComment:
		return `\{# p0 #}`
	case eTight:
		return `\{{p0}}\{{- ` + last + ` -}}`
	}
	return ""
}

// escLiteral: the fragment with the backslashes dropped (what twig renders today; reported in the
// class only, never demanded)
func (c *kase) escLiteral() string { return strings.ReplaceAll(c.escFrag(), `\{`, `{`) }

// defPadded: is the macro's defining template above 4096 bytes when the macro is reached this way?
func (c *kase) defPadded(reach int) bool {
	if reach == rDirect || reach == rSelf {
		return c.Pad >= 1 // the calling template (or the one it includes) is the defining template
	}
	return c.Pad == 1
}

// escTwin renders the fragment outside a macro: at top level of a template of its own, between the
// same neighbours "[" and "]", with the parameters' names bound to the values the binding model gives
// them (the outer variables are those of every render)
func (c *kase) escTwin(padded bool) (string, string) {
	src := "[" + c.escFrag() + "]"
	if padded {
		src = padding + src
	}
	e := twig.New()
	if err := e.RegisterString("twin", src); err != nil {
		return "", "register twin: " + err.Error()
	}
	vars := ctx()
	vals, _ := c.bind()
	for i, v := range vals {
		if v.null {
			vars[fmt.Sprintf("p%d", i)] = nil
		} else {
			vars[fmt.Sprintf("p%d", i)] = v.s
		}
	}
	out, err := e.Render("twin", vars)
	if err != nil {
		return "", "render twin: " + err.Error()
	}
	if len(out) < 2 || out[0] != '[' || out[len(out)-1] != ']' {
		return "", fmt.Sprintf("twin %q rendered %q: the neighbours of the fragment are gone", src, out)
	}
	return out[1 : len(out)-1], ""
}
