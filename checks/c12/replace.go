// Version dimension (added after seeded change C12-E was missed): which macro a name designates can
// change between two renders of a cached calling template.
//
// Family kind kReplace: the macro LIBRARY is replaced between renders (another body / other defaults /
// other arity), then replaced back, while the calling templates stay as they are on the engine; every
// render must show the library version current at that render, for every way of reaching the macro
// through an import (import, from, from … as, multi-name from).
//
// Family kind kPartial: a shared partial calls a macro supplied by its includer; two includers bind
// that name to two different macros (defined in the includer, or imported there from its own library);
// the includers are rendered alternately, in both orders, on one engine.
package main

import (
	"fmt"
	"sort"
	"strings"

	"github.com/semihalev/twig"

	"verif/lib/vlib"
)

const (
	kPlain = iota
	kReplace
	kPartial
)

// how the second version of the macro differs from the first
const (
	chBody = iota // same signature, other body text
	chDefs        // the complementary subset of parameters has defaults, of another kind
	chMore        // one more parameter (with a default)
	chLess        // one parameter fewer
	chAll         // other body text, complementary defaults of another kind, one more parameter
	nChanges
)

var changeName = [...]string{"body", "defaults", "more", "less", "all"}

// changed gives the second version of the macro of case c; ok=false when that change does not exist
// for this signature (no parameter to drop / to give a default; a fourth parameter is outside the bound)
func (c kase) changed(ch int) (kase, bool) {
	d := c
	full := 1<<c.N - 1
	otherSt := 0
	if c.DefSt == 0 {
		otherSt = 1
	}
	switch ch {
	case chBody:
		d.Mark = true
	case chDefs:
		if c.N == 0 {
			return d, false
		}
		d.DefMask = c.DefMask ^ full
		d.DefSt = otherSt
	case chMore:
		if c.N >= 3 {
			return d, false
		}
		d.N = c.N + 1
		d.DefMask = c.DefMask | 1<<c.N
	case chLess:
		if c.N == 0 {
			return d, false
		}
		d.N = c.N - 1
		d.DefMask = c.DefMask & (1<<d.N - 1)
	case chAll:
		if c.N >= 3 {
			return d, false
		}
		d.Mark = true
		d.N = c.N + 1
		d.DefMask = (c.DefMask ^ full) | 1<<c.N
		d.DefSt = otherSt
	}
	return d, true
}

// ---------------------------------------------------------------------------------------------
// in-memory loader with modification times

type memLoader struct {
	src map[string]string
	mt  map[string]int64
}

func newMemLoader() *memLoader { return &memLoader{src: map[string]string{}, mt: map[string]int64{}} }

func (l *memLoader) put(name, src string) {
	l.src[name] = src
	l.mt[name]++
}

func (l *memLoader) Load(name string) (string, error) {
	s, ok := l.src[name]
	if !ok {
		return "", fmt.Errorf("%w: %s", twig.ErrTemplateNotFound, name)
	}
	return s, nil
}

func (l *memLoader) Exists(name string) bool { _, ok := l.src[name]; return ok }

func (l *memLoader) GetModifiedTime(name string) (int64, error) {
	if _, ok := l.src[name]; !ok {
		return 0, fmt.Errorf("%w: %s", twig.ErrTemplateNotFound, name)
	}
	return l.mt[name], nil
}

// ---------------------------------------------------------------------------------------------
// kReplace

// how the library is replaced
const (
	mReg     = iota // everything registered with RegisterString; the library is registered again
	mNoCache        // everything comes from a loader, caching disabled; the loader's source of the library changes
	mReload         // everything comes from a timestamp-aware loader, auto-reload on; source and time of the library change
	mRegLoad        // calling templates registered with RegisterString, the library from a timestamp-aware loader, auto-reload on
	nMechs
)

var mechName = [...]string{"register", "nocache", "autoreload", "reg+autoreload"}

var importReaches = []int{rImport, rFrom, rAlias, rMulti}

func (c *kase) libName() string {
	if c.Body == bRelInc {
		return "d/lib"
	}
	return "lib"
}

// replaceProgram: the calling templates of all importing ways (they do not depend on the version) and
// the two versions of the library
func replaceProgram(c, c2 *kase) (callers map[string]string, libs [2]string, order []step, ok bool) {
	callers = map[string]string{}
	lib := c.libName()
	for _, r := range importReaches {
		s1, name, ok1 := c.program(r, "_"+reachName[r])
		s2, _, ok2 := c2.program(r, "_"+reachName[r])
		if ok1 != ok2 {
			panic("check bug: a way of reaching the macro exists for one version only")
		}
		if !ok1 {
			continue
		}
		for n, s := range s1 {
			if n == lib {
				libs[0], libs[1] = s, s2[n]
				continue
			}
			if s2[n] != s {
				panic("check bug: calling template " + n + " depends on the version of the library")
			}
			if old, dup := callers[n]; dup && old != s {
				panic("check bug: template " + n + " differs between ways of reaching the macro")
			}
			callers[n] = s
		}
		order = append(order, step{r, name})
	}
	return callers, libs, order, len(order) > 0
}

// replEngine is one engine whose library can be replaced
type replEngine struct {
	e    *twig.Engine
	l    *memLoader
	mech int
	lib  string
}

func sortedNames(m map[string]string) []string {
	names := make([]string, 0, len(m))
	for n := range m {
		names = append(names, n)
	}
	sort.Strings(names)
	return names
}

func newReplEngine(mech int, callers map[string]string, lib, libSrc string) (*replEngine, string) {
	re := &replEngine{e: twig.New(), l: newMemLoader(), mech: mech, lib: lib}
	switch mech {
	case mNoCache:
		re.e.SetCache(false)
	case mReload, mRegLoad:
		re.e.SetAutoReload(true)
	}
	if mech != mReg {
		re.e.RegisterLoader(re.l)
	}
	all := map[string]string{lib: libSrc}
	for n, s := range callers {
		all[n] = s
	}
	for _, n := range sortedNames(all) {
		if mech == mReg || (mech == mRegLoad && n != lib) {
			if err := re.e.RegisterString(n, all[n]); err != nil {
				return nil, "register " + n + ": " + err.Error()
			}
		} else {
			re.l.put(n, all[n])
		}
	}
	return re, ""
}

// replace puts another version of the library in place; nothing else on the engine is touched
func (re *replEngine) replace(src string) string {
	if re.mech == mReg {
		if err := re.e.RegisterString(re.lib, src); err != nil {
			return "register " + re.lib + " again: " + err.Error()
		}
		return ""
	}
	re.l.put(re.lib, src) // new source, later modification time
	return ""
}

func replKey(c *kase, ch, mech int) string {
	return "repl:" + mechName[mech] + ":" + changeName[ch] + "|" + c.key()
}

func checkReplace(c kase, ch, mech int) *vlib.Outcome {
	c2, _ := c.changed(ch)
	vers := [2]*kase{&c, &c2}
	want := [2]string{c.expected(), c2.expected()}
	_, pat1 := c.bind()
	_, pat2 := c2.bind()
	o := &vlib.Outcome{
		// the replacement is observable and a binding decision is made
		Nontrivial: want[0] != want[1] && c.N+c2.N+c.Argc > 0,
		Class:      fmt.Sprintf("repl|%s|%s|%s>%s|%s|%s", mechName[mech], changeName[ch], pat1, pat2, bodyName[c.Body], siteName[c.Site]),
		Counters:   map[string]int64{},
	}
	callers, libs, order, ok := replaceProgram(vers[0], vers[1])
	if !ok {
		return o
	}
	rev := make([]step, len(order))
	for i, s := range order {
		rev[len(order)-1-i] = s
	}
	var bad []string
	var detail []interface{}
	// engines: the version the library has first × the order in which the calling templates are rendered
	for first := 0; first < 2; first++ {
		for oi, ord := range [][]step{order, rev} {
			if oi == 1 && len(order) < 2 {
				continue
			}
			label := fmt.Sprintf("library versions %d,%d,%d; callers %s", first+1, 2-first, first+1, []string{"in order", "in reverse order"}[oi])
			o.Counters["engines"]++
			re, errText := newReplEngine(mech, callers, c.libName(), libs[first])
			var hist []string
			for phase := 0; phase < 3 && errText == ""; phase++ {
				v := (first + phase) % 2
				if phase > 0 {
					o.Counters["library_replacements"]++
					hist = append(hist, fmt.Sprintf("library := version %d", v+1))
					if errText = re.replace(libs[v]); errText != "" {
						break
					}
				}
				for _, st := range ord {
					o.Counters["renders"]++
					if len(hist) > 0 {
						o.Counters["renders_on_used_engine"]++
					}
					got, rerr := render(re.e, st.name)
					obs := fmt.Sprintf("%q", got)
					if rerr != "" {
						obs = "error: " + rerr
					}
					if rerr != "" || got != want[v] {
						if len(bad) < 4 {
							bad = append(bad, fmt.Sprintf("engine %q, after [%s]: render %s (reached by %s) with library version %d current gives %s, want %q",
								label, strings.Join(hist, "; "), st.name, reachName[st.reach], v+1, obs, want[v]))
						}
						if len(detail) < 12 {
							detail = append(detail, map[string]interface{}{"engine": label, "history": append([]string{}, hist...), "rendered": st.name,
								"reach": reachName[st.reach], "library_version_current": v + 1, "observed": obs, "expected": want[v]})
						}
					}
					hist = append(hist, "render "+st.name)
				}
			}
			if errText != "" {
				bad = append(bad, fmt.Sprintf("engine %q: %s", label, errText))
			}
		}
	}
	if len(bad) > 0 {
		o.Violation = fmt.Sprintf("a call must render the version of the macro library that is current at that render (mechanism %s); calling templates %v, library %q version 1 %q, version 2 %q; %s",
			mechName[mech], show(callers), c.libName(), show(map[string]string{"": libs[0]})[""], show(map[string]string{"": libs[1]})[""], strings.Join(bad, "; "))
		o.Detail = map[string]interface{}{"mechanism": mechName[mech], "calling_templates": show(callers), "library": c.libName(),
			"library_versions":    []string{show(map[string]string{"": libs[0]})[""], show(map[string]string{"": libs[1]})[""]},
			"expected_by_version": want, "context": ctx(), "mismatches": detail}
	}
	return o
}

// ---------------------------------------------------------------------------------------------
// kPartial

// how an includer supplies the macro that the partial calls
const (
	pDefine = iota // defined at top level of the includer
	pFrom          // {% from 'libX' import f %}
	pAlias         // {% from "libX" import f as h %}
	pMulti         // {% from 'libX' import g as g2, f as h %}
	pImport        // {% import 'libX' as m %}
	nSupplies
)

var supplyName = [...]string{"define", "from", "alias", "multi", "import"}

// the call the partial (and the includer) writes, by way of supplying
func supplyCall(p int, name string) string {
	switch p {
	case pAlias, pMulti:
		return "h"
	case pImport:
		return "m." + name
	}
	return name
}

// supplyPairs: every pair of ways of supplying for which the partial's call reads the same
func supplyPairs() [][2]int {
	var ps [][2]int
	for a := 0; a < nSupplies; a++ {
		for b := 0; b < nSupplies; b++ {
			if supplyCall(a, "f") == supplyCall(b, "f") {
				ps = append(ps, [2]int{a, b})
			}
		}
	}
	return ps
}

var partialSites = map[int]bool{sTop: true, sLoop: true, sIf: true, sBlock: true}

func partKey(c *kase, ch int, pair [2]int) string {
	return "part:" + supplyName[pair[0]] + ">" + supplyName[pair[1]] + ":" + changeName[ch] + "|" + c.key()
}

func partialInSpace(c *kase, pair [2]int) bool {
	if !partialSites[c.Site] || c.Body == bRelInc || builtinName(c.Name) {
		return false
	}
	if c.Use != uPrint && (c.Argc == 0 || (c.Use != uSet2 && c.Use != uSetLoop && c.Use != uTwo)) {
		return false
	}
	return true
}

// partialProgram: includers pageA (first version of the macro) and pageB (second version), each
// calling the macro itself and then including the shared partial row, which makes the same call
func partialProgram(vers [2]*kase, pair [2]int) (tpls map[string]string, pages [2]string) {
	c := vers[0]
	fn := supplyCall(pair[0], c.Name)
	use := c.useSrc(rDirect, fn+"("+c.argList()+")", fn+"("+c.altArgList()+")")
	row := use
	if c.Pad == 2 {
		row = padding + row
	}
	tpls = map[string]string{"row": row}
	for x := 0; x < 2; x++ {
		page, lib := "page"+"AB"[x:x+1], "lib"+"AB"[x:x+1]
		defs := vers[x].defs()
		var supply string
		switch pair[x] {
		case pDefine:
			supply = defs
		case pFrom:
			supply = "{% from '" + lib + "' import " + c.Name + " %}"
		case pAlias:
			supply = "{% from \"" + lib + "\" import " + c.Name + " as h %}"
		case pMulti:
			supply = "{% from '" + lib + "' import g as g2, " + c.Name + " as h %}"
		case pImport:
			supply = "{% import '" + lib + "' as m %}"
		}
		if pair[x] != pDefine {
			if c.Pad == 1 {
				defs = padding + defs
			}
			tpls[lib] = defs
		} else if c.Pad == 1 {
			supply = padding + supply
		}
		inner := use + "{% include 'row' %}"
		var main string
		switch c.Site {
		case sTop:
			main = supply + inner
		case sLoop:
			main = supply + "{% for i in xs %}" + inner + ";{% endfor %}"
		case sIf:
			main = supply + "{% if t %}" + inner + "{% else %}no{% endif %}"
		case sBlock:
			main = supply + "<{% block k %}" + inner + "{% endblock %}>"
		}
		tpls[page] = main + after
		pages[x] = page
	}
	return tpls, pages
}

func partialExpected(c *kase) string {
	out := c.callOutput()
	switch c.Use {
	case uSet2:
		out = out + "|" + out
	case uSetLoop:
		out = out + out
	case uTwo:
		out = out + c.callOutputWith(true) + out
	}
	out = out + out // the includer's own call, then the same call from inside the partial
	switch c.Site {
	case sLoop:
		out = out + ";" + out + ";"
	case sBlock:
		out = "<" + out + ">"
	}
	return out + "|OUT0||"
}

func checkPartial(c kase, ch int, pair [2]int) *vlib.Outcome {
	c2, _ := c.changed(ch)
	vers := [2]*kase{&c, &c2}
	want := [2]string{partialExpected(&c), partialExpected(&c2)}
	_, pat1 := c.bind()
	_, pat2 := c2.bind()
	class := fmt.Sprintf("part|%s>%s|%s|%s>%s|%s|%s", supplyName[pair[0]], supplyName[pair[1]], changeName[ch], pat1, pat2, bodyName[c.Body], siteName[c.Site])
	if c.Use != uPrint {
		class += "|" + useName[c.Use]
	}
	o := &vlib.Outcome{
		Nontrivial: want[0] != want[1] && c.N+c2.N+c.Argc > 0,
		Class:      class,
		Counters:   map[string]int64{},
	}
	tpls, pages := partialProgram(vers, pair)
	var bad []string
	var detail []interface{}
	for first := 0; first < 2; first++ {
		label := fmt.Sprintf("%s first", pages[first])
		o.Counters["engines"]++
		e, errText := newEngine(tpls)
		if errText != "" {
			bad = append(bad, errText)
			break
		}
		var hist []string
		for i := 0; i < 2*rounds; i++ {
			x := (first + i) % 2
			o.Counters["renders"]++
			if i > 0 {
				o.Counters["renders_on_used_engine"]++
			}
			got, rerr := render(e, pages[x])
			obs := fmt.Sprintf("%q", got)
			if rerr != "" {
				obs = "error: " + rerr
			}
			if rerr != "" || got != want[x] {
				if len(bad) < 4 {
					bad = append(bad, fmt.Sprintf("engine %q, after renders %v: %s gives %s, want %q", label, hist, pages[x], obs, want[x]))
				}
				if len(detail) < 12 {
					detail = append(detail, map[string]interface{}{"engine": label, "rendered_before_on_this_engine": append([]string{}, hist...),
						"rendered": pages[x], "observed": obs, "expected": want[x]})
				}
			}
			hist = append(hist, pages[x])
		}
	}
	if len(bad) > 0 {
		o.Violation = fmt.Sprintf("the partial's call must render the macro its current includer supplies, as the includer's own call does; templates %v; %s", show(tpls), strings.Join(bad, "; "))
		o.Detail = map[string]interface{}{"templates": show(tpls), "expected": map[string]string{pages[0]: want[0], pages[1]: want[1]}, "context": ctx(), "mismatches": detail}
	}
	return o
}

// ---------------------------------------------------------------------------------------------

// runVersions emits the cases of a kReplace / kPartial family that are built on base case c
func runVersions(t *vlib.T, f *family, c kase, seen map[string]struct{}) {
	own := func(k string) bool {
		if !t.Owns(k) {
			return false
		}
		if _, dup := seen[k]; dup {
			return false
		}
		seen[k] = struct{}{}
		return true
	}
	for _, ch := range f.changes {
		if _, ok := c.changed(ch); !ok {
			continue
		}
		ch := ch
		switch f.kind {
		case kReplace:
			for _, mech := range f.mechs {
				mech := mech
				k := replKey(&c, ch, mech)
				if !own(k) {
					continue
				}
				c2, _ := c.changed(ch)
				if _, _, _, ok := replaceProgram(&c, &c2); !ok {
					continue
				}
				t.Case(k, func() *vlib.Outcome { return checkReplace(c, ch, mech) })
			}
		case kPartial:
			for _, pair := range supplyPairs() {
				pair := pair
				if !partialInSpace(&c, pair) {
					continue
				}
				k := partKey(&c, ch, pair)
				if !own(k) {
					continue
				}
				t.Case(k, func() *vlib.Outcome { return checkPartial(c, ch, pair) })
			}
		}
	}
}
