# sourced by run.sh before the main build: free-running -race variant of the C02 scenarios
"$VERIF/.build/vgen" -repo "$REPO" -out "$B/ov-c02race" -conf "$VERIF/checks/c02/overlay.race.conf" -shim "$VERIF/shim" || exit 2
if "$GO" build "${MODFLAG[@]}" -race -tags racefree -overlay "$B/ov-c02race/overlay.json" -o "$B/c02race" ./checks/c02 2> "$B/c02race.buildlog"; then
  export C02_RACE_BIN="$B/c02race"
else
  echo "[C02] note: -race build of the free-running supplement failed; it is skipped" >&2
  export C02_RACE_BIN=""
fi
