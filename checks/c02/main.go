//go:build !racefree

// C02 — concurrent use of one engine is safe and equals serial use.
//
// Stateless model checking of the implementation: 2–3 logical threads run real twig calls on one
// shared engine under a cooperative scheduler that owns every sync.Pool / Mutex / RWMutex step and
// every access to a plain field of Engine, Environment, Template and the loaders (hooks injected at
// build time). All interleavings with at most k preemptions are explored depth-first. On every
// complete interleaving: each call's result must be the result of some serial order of the calls
// (all merges are executed serially as the reference), no happens-before data race on a watched
// field, no deadlock, no lock misuse, no panic, and no cached template may share an object with a pool.
package main

import (
	"encoding/json"
	"fmt"
	"os"
	"os/exec"
	"path/filepath"
	"sort"
	"strconv"
	"strings"
	"unsafe"

	"github.com/semihalev/twig"
	"github.com/semihalev/twig/vsync"

	"verif/lib/twx"
	"verif/lib/vlib"
)

// ---- one execution under the scheduler

type execOut struct {
	x    *vsync.Exec
	res  string
	viol string
}

func runOnce(sc scenario, mode string, prefix []int, hot map[string]bool) execOut {
	vsync.DropAll()
	w := sc.setup(mode)
	x := vsync.NewExec(prefix)
	x.HotFields = hot
	res := make([][]string, len(sc.threads))
	for i := range sc.threads {
		i := i
		x.Go(func() {
			for _, c := range sc.threads[i] {
				res[i] = append(res[i], guard(c, w))
			}
		})
	}
	x.Run()
	vsync.Cur = nil
	out := execOut{x: x, res: fmt.Sprint(res)}
	switch {
	case x.Diverged != "":
		out.viol = "" // handled by caller
	case x.Deadlock:
		out.viol = "deadlock: no thread enabled while some are unfinished"
	case x.Livelock:
		out.viol = "livelock: step horizon exceeded"
	case len(x.LockMisuse) > 0:
		out.viol = "lock misuse: " + x.LockMisuse[0]
	case len(x.Races) > 0:
		out.viol = "data race: " + x.Races[0]
	}
	if out.viol == "" {
		// no cached template may share an object with a pool
		pooled := map[unsafe.Pointer]bool{}
		vsync.EachPooled(func(o interface{}) {
			if p := twx.PointerOf(o); p != nil {
				pooled[p] = true
			}
		})
		for n, t := range twx.CachedTemplates(w.e) {
			_, ptrs := twx.DeepHash(t)
			for p := range ptrs {
				if pooled[p] {
					out.viol = fmt.Sprintf("an object reachable from cached template %q is inside a pool", n)
				}
			}
		}
	}
	return out
}

func sched(x *vsync.Exec) []int {
	var s []int
	for _, c := range x.Choices {
		s = append(s, c.C)
	}
	return s
}

// explore: preemption-bounded DFS over thread choices.
func explore(sc scenario, mode string, k int, capExec int64, progress func()) *vlib.Outcome {
	o := &vlib.Outcome{Nontrivial: true, Counters: map[string]int64{}}
	serial := serialResults(sc, mode)
	for r := range serial {
		if strings.Contains(r, "ERR ") && !strings.Contains(sc.name, "RegisterString") {
			// vacuity guard: a scenario whose calls fail even serially explores nothing useful
			o.Counters["scenarios_failing_serially"]++
			break
		}
	}
	hot := map[string]bool{}
	outcomes := map[string]bool{}
	var capped bool
	var execs, nodes, steps int64
	written := map[string]bool{}
	var dfs func(prefix []int)
	dfs = func(prefix []int) {
		if o.Violation != "" || capped {
			return
		}
		if execs >= capExec {
			capped = true
			return
		}
		r := runOnce(sc, mode, prefix, hot)
		execs++
		if execs%500 == 0 {
			progress() // heartbeat: one case explores up to millions of schedules
		}
		steps += int64(r.x.Steps)
		nodes += int64(len(r.x.Choices) - len(prefix) + 1)
		for f := range r.x.WrittenFields {
			written[f] = true
		}
		if r.x.Diverged != "" {
			o.Counters["replay_divergences"]++
			return
		}
		outcomes[r.res] = true
		viol := r.viol
		if viol == "" && !serial[r.res] {
			var ss []string
			for s := range serial {
				ss = append(ss, s)
			}
			sort.Strings(ss)
			viol = fmt.Sprintf("results %s equal no serial order of the calls (serial results: %s)", r.res, strings.Join(ss, " | "))
		}
		if viol != "" {
			// replay proof: the same schedule must reproduce the same observation
			r2 := runOnce(sc, mode, sched(r.x), hot)
			if r2.res != r.res || (r2.viol == "") != (r.viol == "") {
				o.Counters["unreproducible"]++
				return
			}
			o.Violation = fmt.Sprintf("%s [%s] k<=%d schedule %v: %s", sc.name, mode, k, sched(r.x), viol)
			d, _ := json.Marshal(map[string]interface{}{"scenario": sc.name, "mode": mode, "schedule": sched(r.x), "results": r.res})
			o.Detail = json.RawMessage(d)
			return
		}
		pre := 0
		for i, c := range r.x.Choices {
			if i >= len(prefix) {
				cost := pre
				if c.CurEnabled {
					cost++
				}
				if cost <= k {
					for alt := 1; alt < c.N; alt++ {
						np := make([]int, i+1)
						for j := 0; j < i; j++ {
							np[j] = r.x.Choices[j].C
						}
						np[i] = alt
						dfs(np)
					}
				}
			}
			if c.C != 0 && c.CurEnabled {
				pre++
			}
		}
	}
	// Reads of a field are scheduling points only if the field is written while threads run
	// ("hot"); the set is learned to a fixpoint: a pre-pass on the default schedule, then the full
	// search is repeated whenever it discovers a further written field.
	pre := runOnce(sc, mode, nil, hot)
	for f := range pre.x.WrittenFields {
		hot[f] = true
	}
	for {
		execs, nodes, steps, capped = 0, 0, 0, false
		dfs(nil)
		grew := false
		for f := range written {
			if !hot[f] {
				hot[f] = true
				grew = true
			}
		}
		if !grew || o.Violation != "" {
			break
		}
		o.Counters["hot_field_restarts"]++
	}
	if os.Getenv("C02_DEBUG") != "" {
		fmt.Fprintf(os.Stderr, "DEBUG %s [%s] k=%d execs=%d steps=%d outcomes=%v\n", sc.name, mode, k, execs, steps, outcomes)
	}
	o.Counters["executions"] += execs
	o.Counters["choice_tree_nodes"] += nodes
	o.Counters["scheduling_steps"] += steps
	o.Counters["serial_orders_executed"] += int64(len(serial))
	if capped {
		o.Counters["scenarios_capped"]++
	}
	o.Class = fmt.Sprintf("%d-outcomes", len(outcomes))
	return o
}

func main() {
	vlib.Main(vlib.Spec{
		ID:    "C02",
		Level: "model_checking",
		Rule: "every interleaving with at most k preemptions of 2-3 logical threads (1-2 real twig calls each) on one shared engine, per scenario and cache mode; " +
			"scheduling points at every Pool/Mutex/RWMutex operation and at accesses to plain fields of Engine/Environment/Template/loaders that are written while threads run; all scenarios are non-trivial (threads share the engine and at least one pool or field)",
		Assumptions: []string{
			"sequentially consistent memory; atomics are not interleaved; more than k preemptions / more than 3 threads not explored",
			"data races are detected on the watched plain fields (vector clocks over modelled lock and pool operations); pooled objects are covered semantically through the serial-equivalence oracle",
			"sync.Pool answers are LIFO in this check (other answers are explored by C01)",
		},
		QuickDeadline:    200,
		ThoroughDeadline: 1800,
		Run:              run,
		Extra: func(tier string, cov map[string]interface{}) {
			cov["states"] = cov["choice_tree_nodes"]
			cov["transitions"] = cov["scheduling_steps"]
			cov["traces_validated_against_impl"] = cov["executions"]
		},
	})
}

func run(t *vlib.T) {
	var err error
	tmpDir, err = os.MkdirTemp(vlib.Scratch(), "c02-fs-") // under the run's scratch dir: removed by the parent even if this worker is killed
	if err != nil {
		panic(err)
	}
	defer os.RemoveAll(tmpDir)
	os.WriteFile(filepath.Join(tmpDir, "x.twig"), []byte("X!{{ x }}"), 0o644)
	os.WriteFile(filepath.Join(tmpDir, "y.twig"), []byte("Y!{{ x }}{% include 'x.twig' %}"), 0o644)

	resolutionCases(t)
	freeRunningRaceCases(t)

	defK, capExec := 3, int64(400000)
	if t.Thorough() {
		defK, capExec = 4, 6000000
	}
	// bound iteration: everything with 0 preemptions, then 1, ... so the first counterexample is minimal
	for k := 0; k <= defK; k++ {
		for _, sc := range scenarios() {
			maxK := defK
			if !t.Thorough() && sc.quickK > 0 {
				maxK = sc.quickK
			}
			if t.Thorough() && sc.thoroughK > 0 {
				maxK = sc.thoroughK
			}
			if k > maxK || (sc.raceOnly && k > 0) {
				continue
			}
			for _, mode := range sc.modes {
				sc, mode, k := sc, mode, k
				t.Case(fmt.Sprintf("k%d/%s/%s", k, sc.name, mode), func() *vlib.Outcome {
					return explore(sc, mode, k, capExec, t.Progress)
				})
			}
		}
	}
}

// resolutionCases: the property's last clause, checked sequentially — a name written relative to a
// template resolves against the directory of the template it is written in, also when that text is
// executed on behalf of another template (overriding block, imported macro) and whatever was
// rendered before on the same engine.
func resolutionCases(t *vlib.T) {
	tpl := map[string]string{
		"layouts/base": "B[{% block k %}{% include './part' %}{% endblock %}]",
		"layouts/part": "layouts-part",
		"pages/part":   "pages-part",
		"pages/child":  "{% extends '../layouts/base' %}{% block k %}{% include './part' %}{% endblock %}",
		"pages/keep":   "{% extends '../layouts/base' %}",
		"pages/m":      "{% macro mm() %}{% include './part' %}{% endmacro %}",
		"pages/usem":   "{% import './m' as l %}{{ l.mm() }}",
		"other/part":   "other-part",
		"other/use":    "{% import '../pages/m' as l %}{{ l.mm() }}",
		"other/from":   "{% from '../pages/m' import mm %}{{ mm() }}",
		"other/inc":    "O[{% include '../pages/inc2' %}]",
		"pages/inc2":   "{% include './part' %}",
		"pages/sub/x":  "{% include '../part' %}+{% include './y' %}",
		"pages/sub/y":  "y",
		"other/deep":   "{% include '../pages/sub/x' %}",
		"pages/child2": "{% extends '../layouts/base' %}{% block k %}C({{ parent() }})[{% include './part' %}]{% endblock %}",
		"deep/grand":   "{% extends '../pages/child2' %}{% block k %}G({{ parent() }})[{% include './part' %}]{% endblock %}",
		"deep/part":    "deep-part",
		"deep/keep":    "{% extends '../pages/child2' %}",
		"pages/m2":     "{% macro a() %}<{{ _self.b() }}>{% endmacro %}{% macro b() %}{% include './part' %}{% endmacro %}",
		"other/use2":   "{% import '../pages/m2' as l %}{{ l.a() }}|{% include './part' %}",
		"other/loopm":  "{% from '../pages/m' import mm %}{% for i in [1, 2] %}{{ mm() }}{% include './part' %};{% endfor %}",
	}
	type rc struct {
		name, want string
		kf, quirk  string
	}
	cases := []rc{
		{"layouts/base", "B[layouts-part]", "", ""},
		{"pages/keep", "B[layouts-part]", "", ""},
		{"pages/usem", "pages-part", "", ""},
		{"other/inc", "O[pages-part]", "", ""},
		{"other/deep", "pages-part+y", "", ""},
		{"pages/child", "B[pages-part]", "KF-C02-1", "B[layouts-part]"},
		{"other/use", "pages-part", "KF-C02-2", "other-part"},
		{"other/from", "pages-part", "KF-C02-2", "other-part"},
		{"pages/child2", "B[C(layouts-part)[pages-part]]", "", ""},
		{"deep/grand", "B[G(C(layouts-part)[pages-part])[deep-part]]", "", ""},
		{"deep/keep", "B[C(layouts-part)[pages-part]]", "", ""},
		{"other/use2", "<pages-part>|other-part", "", ""},
		{"other/loopm", "pages-partother-part;pages-partother-part;", "", ""},
	}
	// every ordered pair (first render, second render) on one engine: earlier renders must not
	// influence how a later one resolves its names
	for _, first := range append([]rc{{name: ""}}, cases...) {
		for _, c := range cases {
			first, c := first, c
			t.Case(fmt.Sprintf("resolve/after[%s]/%s", first.name, c.name), func() *vlib.Outcome {
				e := twig.New()
				e.RegisterLoader(twig.NewArrayLoader(tpl))
				if first.name != "" {
					e.Render(first.name, nil)
				}
				got, err := e.Render(c.name, nil)
				if err != nil {
					got = "ERR " + firstLine(err.Error())
				}
				o := &vlib.Outcome{Nontrivial: true, Class: "resolve:" + got}
				if got != c.want {
					o.Violation = fmt.Sprintf("render %q (after %q): got %q, want %q (relative names resolve against the template they are written in)", c.name, first.name, got, c.want)
					if c.kf != "" && got == c.quirk {
						o.Known = c.kf
					}
				}
				return o
			})
		}
	}
}

// freeRunningRaceCases: supplementary sampling pass (labelled as such in the evidence, not part of
// the coverage claim). The cooperative scheduler only sees hooked operations, so accesses that are
// not on the watch list are checked by Go's race detector on real goroutines instead.
func freeRunningRaceCases(t *vlib.T) {
	bin := os.Getenv("C02_RACE_BIN")
	if bin == "" {
		t.Note("free-running -race supplement unavailable (race build failed or not requested)")
		return
	}
	iters := "60"
	if t.Thorough() {
		iters = "1500"
	}
	for i, sc := range scenarios() {
		for _, mode := range sc.modes {
			i, sc, mode := i, sc, mode
			t.Case(fmt.Sprintf("free-running-race/%s/%s", sc.name, mode), func() *vlib.Outcome {
				o := &vlib.Outcome{Nontrivial: true, Class: "free-running", Counters: map[string]int64{}}
				iters := iters
				if sc.raceIters != "" {
					iters = sc.raceIters
					if t.Thorough() {
						iters = sc.raceItersT
					}
				}
				cmd := exec.Command(bin, fmt.Sprint(i), mode, iters)
				cmd.Env = append(os.Environ(), "GORACE=halt_on_error=1 exitcode=66", "GOMAXPROCS=4")
				out, err := cmd.CombinedOutput()
				n, _ := strconv.Atoi(iters)
				o.Counters["free_running_race_runs"] = int64(n)
				if err != nil {
					msg := string(out)
					if len(msg) > 2500 {
						msg = msg[:2500]
					}
					o.Violation = fmt.Sprintf("%s [%s] free-running with -race (%s iterations): %v\n%s", sc.name, mode, iters, err, msg)
				}
				return o
			})
		}
	}
}
