// C02 — concurrent use of one engine is safe and equals serial use.
//
// Stateless model checking of the implementation: 2–3 logical threads run real twig calls on one
// shared engine under a cooperative scheduler that owns every sync.Pool / Mutex / RWMutex step and
// every access to a plain field of Engine, Environment, Template and the loaders (hooks injected at
// build time). All interleavings with at most k preemptions are explored depth-first. On every
// complete interleaving: each call's result must be the result of some serial order of the calls
// (all merges are executed serially as the reference), no happens-before data race on a watched
// field, no deadlock, no lock misuse, no panic, and no cached template may share an object with a pool.
package main

import (
	"encoding/json"
	"fmt"
	"os"
	"path/filepath"
	"sort"
	"strings"
	"unsafe"

	"github.com/semihalev/twig"
	"github.com/semihalev/twig/vsync"

	"verif/lib/twx"
	"verif/lib/vlib"
)

type world struct {
	e *twig.Engine
}

type call func(w *world) string

type scenario struct {
	name    string
	setup   func(mode string) *world
	threads [][]call
	modes   []string
	// maxK caps the preemption bound for this scenario per tier (0 = tier default)
	quickK, thoroughK int
}

var tmpDir string

var arrayTemplates = map[string]string{
	"plain":        "P:{{ x }}{% for i in xs %}{{ i }}{% endfor %}",
	"leaf":         "L{{ x }}",
	"inc":          "I[{% include 'leaf' %}|{% include 'leaf' with {'x': 'w'} %}|{% include 'leaf' only %}]",
	"base":         "<{% block k %}K0{{ x }}{% endblock %}>",
	"child":        "{% extends 'base' %}{% block k %}C{{ x }}({{ parent() }}){% endblock %}",
	"lib":          "{% macro m(p) %}[{{ p }}]{% endmacro %}",
	"use":          "{% import 'lib' as l %}{{ l.m(x) }}{% from 'lib' import m %}{{ m(x) }}",
	"attr":         "{{ o.A }}{{ o.B }}",
	"set":          "{% set s = x %}{% for i in xs %}{% set s = s ~ i %}{% endfor %}{{ s }}",
	"a/main":       "MA[{% include './part' %}]",
	"a/part":       "a-part",
	"b/main":       "MB[{% include './part' %}]",
	"b/part":       "b-part",
	"a/sub/page":   "{% extends '../base' %}{% block c %}A-{% import './m' as mm %}{{ mm.f(x) }}{% endblock %}",
	"a/base":       "BA<{% block c %}{% endblock %}>",
	"a/sub/m":      "{% macro f(p) %}am{{ p }}{% endmacro %}",
	"b/sub/page":   "{% extends '../base' %}{% block c %}B-{% import './m' as mm %}{{ mm.f(x) }}{% endblock %}",
	"b/base":       "BB<{% block c %}{% endblock %}>",
	"b/sub/m":      "{% macro f(p) %}bm{{ p }}{% endmacro %}",
	"old":          "OLD{{ x }}",
}

type TS struct{ A, B string }

func ctxFor(x interface{}) map[string]interface{} {
	return map[string]interface{}{"x": x, "xs": []interface{}{x, x}, "o": TS{"a" + fmt.Sprint(x), "b"}}
}

func newEngine(mode string, warm []string, fs bool) *world {
	e := twig.New()
	if fs {
		e.RegisterLoader(twig.NewFileSystemLoader([]string{tmpDir}))
	} else {
		e.RegisterLoader(twig.NewArrayLoader(arrayTemplates))
	}
	switch mode {
	case "cache-off":
		e.SetCache(false)
	case "auto-reload":
		e.SetAutoReload(true)
	}
	for _, n := range warm {
		e.Load(n)
	}
	return &world{e: e}
}

func rc(name string, x interface{}) call {
	return func(w *world) string {
		out, err := w.e.Render(name, ctxFor(x))
		if err != nil {
			return "ERR " + firstLine(err.Error())
		}
		return out
	}
}

func rto(name string, x interface{}) call {
	return func(w *world) string {
		var sb strings.Builder
		if err := w.e.RenderTo(&sb, name, ctxFor(x)); err != nil {
			return "ERR " + firstLine(err.Error())
		}
		return sb.String()
	}
}

func ld(name string) call {
	return func(w *world) string {
		t, err := w.e.Load(name)
		if err != nil {
			return "ERR " + firstLine(err.Error())
		}
		out, err := t.Render(ctxFor(7))
		if err != nil {
			return "ERR " + firstLine(err.Error())
		}
		return "loaded:" + out
	}
}

func reg(name, src string) call {
	return func(w *world) string {
		if err := w.e.RegisterString(name, src); err != nil {
			return "ERR " + firstLine(err.Error())
		}
		return "registered"
	}
}

func parse(src string, x interface{}) call {
	return func(w *world) string {
		t, err := w.e.ParseTemplate(src)
		if err != nil {
			return "ERR " + firstLine(err.Error())
		}
		out, err := t.Render(ctxFor(x))
		if err != nil {
			return "ERR " + firstLine(err.Error())
		}
		return out
	}
}

func firstLine(s string) string {
	if i := strings.IndexByte(s, '\n'); i >= 0 {
		s = s[:i]
	}
	if len(s) > 80 {
		s = s[:80]
	}
	return s
}

var allModes = []string{"cache-on", "cache-off", "auto-reload"}

func scenarios() []scenario {
	warmAll := func(names ...string) func(string) *world {
		return func(mode string) *world { return newEngine(mode, names, false) }
	}
	cold := func(mode string) *world { return newEngine(mode, nil, false) }
	fsCold := func(mode string) *world { return newEngine(mode, nil, true) }
	return []scenario{
		{name: "S1 RegisterString || ParseTemplate (pooled tokenizer hand-off)", setup: cold, modes: []string{"cache-on"},
			threads: [][]call{{reg("n1", "A:{{ x }}{% if x %}y{% endif %}"), rc("n1", 1)}, {parse("B{% for i in xs %}{{ i }}{% endfor %}", 2)}}},
		{name: "S1b ParseTemplate || ParseTemplate", setup: cold, modes: []string{"cache-on"},
			threads: [][]call{{parse("A:{{ x }}{% if x %}y{% endif %}", 1)}, {parse("B{% for i in xs %}{{ i }}{% endfor %}", 2)}}},
		{name: "S2 relative includes in two directories", setup: warmAll("a/main", "b/main", "a/part", "b/part"), modes: allModes,
			threads: [][]call{{rc("a/main", 1)}, {rc("b/main", 2)}}},
		{name: "S2b relative extends+import in two directories", setup: warmAll("a/sub/page", "b/sub/page", "a/base", "b/base", "a/sub/m", "b/sub/m"), modes: []string{"cache-on", "auto-reload"},
			threads: [][]call{{rc("a/sub/page", 1)}, {rc("b/sub/page", 2)}}, quickK: 2, thoroughK: 3},
		{name: "S3 first loads of two names through FileSystemLoader", setup: fsCold, modes: allModes,
			threads: [][]call{{rc("x.twig", 1)}, {rc("y.twig", 2)}}},
		{name: "S3b first loads of the same name through FileSystemLoader", setup: fsCold, modes: []string{"cache-on", "auto-reload"},
			threads: [][]call{{rc("x.twig", 1)}, {rc("x.twig", 2)}}},
		{name: "S3c Load || Load of uncached names (ArrayLoader)", setup: cold, modes: allModes,
			threads: [][]call{{ld("leaf")}, {ld("plain")}}},
		{name: "S4a one cached template, plain", setup: warmAll("plain"), modes: allModes,
			threads: [][]call{{rc("plain", 1)}, {rto("plain", 2)}}},
		{name: "S4b one cached template, include with/only", setup: warmAll("inc", "leaf"), modes: []string{"cache-on", "auto-reload"},
			threads: [][]call{{rc("inc", 1)}, {rc("inc", 2)}}, quickK: 2, thoroughK: 3},
		{name: "S4c one cached template, extends + parent()", setup: warmAll("child", "base"), modes: []string{"cache-on", "cache-off"},
			threads: [][]call{{rc("child", 1)}, {rc("child", 2)}}, quickK: 2, thoroughK: 3},
		{name: "S4d one cached template, import + macro", setup: warmAll("use", "lib"), modes: []string{"cache-on"},
			threads: [][]call{{rc("use", 1)}, {rc("use", 2)}}, quickK: 2, thoroughK: 3},
		{name: "S4e one cached template, for + set", setup: warmAll("set"), modes: []string{"cache-on"},
			threads: [][]call{{rc("set", 1)}, {rc("set", 2)}}},
		{name: "S5 Render(n) || RegisterString(n, new)", setup: func(mode string) *world {
			w := newEngine(mode, nil, false)
			w.e.RegisterString("n", "OLD{{ x }}")
			return w
		}, modes: []string{"cache-on", "auto-reload"},
			threads: [][]call{{rc("n", 1)}, {reg("n", "NEW{{ x }}{% if x %}!{% endif %}")}}},
		{name: "S5b Load(n) || RegisterString(n, new) of a loader template", setup: warmAll("old"), modes: []string{"cache-on", "auto-reload"},
			threads: [][]call{{ld("old")}, {reg("old", "NEW{{ x }}")}}},
		{name: "S5c Render || RegisterString of another name", setup: warmAll("plain"), modes: []string{"cache-on"},
			threads: [][]call{{rc("plain", 1)}, {reg("fresh", "F{{ x }}{% if x %}y{% endif %}"), rc("fresh", 3)}}},
		{name: "S6 Render || Render || ParseTemplate", setup: warmAll("plain", "leaf"), modes: []string{"cache-on"},
			threads: [][]call{{rc("plain", 1)}, {rc("leaf", 2)}, {parse("Z{{ x }}", 3)}}, quickK: 2, thoroughK: 3},
		{name: "S7 struct attribute lookups from two threads", setup: warmAll("attr"), modes: []string{"cache-on"},
			threads: [][]call{{rc("attr", 1)}, {rc("attr", 2)}}},
	}
}

// ---- serial reference: every merge of the threads' call lists, executed one call after another

func merges(lens []int) [][]int {
	var out [][]int
	pos := make([]int, len(lens))
	var rec func(cur []int)
	rec = func(cur []int) {
		done := true
		for t := range lens {
			if pos[t] < lens[t] {
				done = false
				pos[t]++
				rec(append(cur, t))
				pos[t]--
			}
		}
		if done {
			out = append(out, append([]int{}, cur...))
		}
	}
	rec(nil)
	return out
}

func guard(c call, w *world) (res string) {
	defer func() {
		if r := recover(); r != nil {
			res = fmt.Sprintf("PANIC: %v", r)
		}
	}()
	return c(w)
}

func serialResults(sc scenario, mode string) map[string]bool {
	lens := make([]int, len(sc.threads))
	for i, th := range sc.threads {
		lens[i] = len(th)
	}
	set := map[string]bool{}
	for _, order := range merges(lens) {
		vsync.DropAll()
		w := sc.setup(mode)
		res := make([][]string, len(sc.threads))
		pos := make([]int, len(sc.threads))
		for _, t := range order {
			res[t] = append(res[t], guard(sc.threads[t][pos[t]], w))
			pos[t]++
		}
		set[fmt.Sprint(res)] = true
	}
	return set
}

// ---- one execution under the scheduler

type execOut struct {
	x    *vsync.Exec
	res  string
	viol string
}

func runOnce(sc scenario, mode string, prefix []int, hot map[string]bool) execOut {
	vsync.DropAll()
	w := sc.setup(mode)
	x := vsync.NewExec(prefix)
	x.HotFields = hot
	res := make([][]string, len(sc.threads))
	for i := range sc.threads {
		i := i
		x.Go(func() {
			for _, c := range sc.threads[i] {
				res[i] = append(res[i], guard(c, w))
			}
		})
	}
	x.Run()
	vsync.Cur = nil
	out := execOut{x: x, res: fmt.Sprint(res)}
	switch {
	case x.Diverged != "":
		out.viol = "" // handled by caller
	case x.Deadlock:
		out.viol = "deadlock: no thread enabled while some are unfinished"
	case x.Livelock:
		out.viol = "livelock: step horizon exceeded"
	case len(x.LockMisuse) > 0:
		out.viol = "lock misuse: " + x.LockMisuse[0]
	case len(x.Races) > 0:
		out.viol = "data race: " + x.Races[0]
	}
	if out.viol == "" {
		// no cached template may share an object with a pool
		pooled := map[unsafe.Pointer]bool{}
		vsync.EachPooled(func(o interface{}) {
			if p := twx.PointerOf(o); p != nil {
				pooled[p] = true
			}
		})
		for n, t := range twx.CachedTemplates(w.e) {
			_, ptrs := twx.DeepHash(t)
			for p := range ptrs {
				if pooled[p] {
					out.viol = fmt.Sprintf("an object reachable from cached template %q is inside a pool", n)
				}
			}
		}
	}
	return out
}

func sched(x *vsync.Exec) []int {
	var s []int
	for _, c := range x.Choices {
		s = append(s, c.C)
	}
	return s
}

// explore: preemption-bounded DFS over thread choices.
func explore(sc scenario, mode string, k int, capExec int64) *vlib.Outcome {
	o := &vlib.Outcome{Nontrivial: true, Counters: map[string]int64{}}
	serial := serialResults(sc, mode)
	hot := map[string]bool{}
	outcomes := map[string]bool{}
	var capped bool
	var execs, nodes, steps int64
	written := map[string]bool{}
	var dfs func(prefix []int)
	dfs = func(prefix []int) {
		if o.Violation != "" || capped {
			return
		}
		if execs >= capExec {
			capped = true
			return
		}
		r := runOnce(sc, mode, prefix, hot)
		execs++
		steps += int64(r.x.Steps)
		nodes += int64(len(r.x.Choices) - len(prefix) + 1)
		for f := range r.x.WrittenFields {
			written[f] = true
		}
		if r.x.Diverged != "" {
			o.Counters["replay_divergences"]++
			return
		}
		outcomes[r.res] = true
		viol := r.viol
		if viol == "" && !serial[r.res] {
			var ss []string
			for s := range serial {
				ss = append(ss, s)
			}
			sort.Strings(ss)
			viol = fmt.Sprintf("results %s equal no serial order of the calls (serial results: %s)", r.res, strings.Join(ss, " | "))
		}
		if viol != "" {
			// replay proof: the same schedule must reproduce the same observation
			r2 := runOnce(sc, mode, sched(r.x), hot)
			if r2.res != r.res || (r2.viol == "") != (r.viol == "") {
				o.Counters["unreproducible"]++
				return
			}
			o.Violation = fmt.Sprintf("%s [%s] k<=%d schedule %v: %s", sc.name, mode, k, sched(r.x), viol)
			d, _ := json.Marshal(map[string]interface{}{"scenario": sc.name, "mode": mode, "schedule": sched(r.x), "results": r.res})
			o.Detail = json.RawMessage(d)
			return
		}
		pre := 0
		for i, c := range r.x.Choices {
			if i >= len(prefix) {
				cost := pre
				if c.CurEnabled {
					cost++
				}
				if cost <= k {
					for alt := 1; alt < c.N; alt++ {
						np := make([]int, i+1)
						for j := 0; j < i; j++ {
							np[j] = r.x.Choices[j].C
						}
						np[i] = alt
						dfs(np)
					}
				}
			}
			if c.C != 0 && c.CurEnabled {
				pre++
			}
		}
	}
	// Reads of a field are scheduling points only if the field is written while threads run
	// ("hot"); the set is learned to a fixpoint: a pre-pass on the default schedule, then the full
	// search is repeated whenever it discovers a further written field.
	pre := runOnce(sc, mode, nil, hot)
	for f := range pre.x.WrittenFields {
		hot[f] = true
	}
	for {
		execs, nodes, steps, capped = 0, 0, 0, false
		dfs(nil)
		grew := false
		for f := range written {
			if !hot[f] {
				hot[f] = true
				grew = true
			}
		}
		if !grew || o.Violation != "" {
			break
		}
		o.Counters["hot_field_restarts"]++
	}
	o.Counters["executions"] += execs
	o.Counters["choice_tree_nodes"] += nodes
	o.Counters["scheduling_steps"] += steps
	o.Counters["serial_orders_executed"] += int64(len(serial))
	if capped {
		o.Counters["scenarios_capped"]++
	}
	o.Class = fmt.Sprintf("%d-outcomes", len(outcomes))
	return o
}

func main() {
	vlib.Main(vlib.Spec{
		ID:    "C02",
		Level: "model_checking",
		Rule: "every interleaving with at most k preemptions of 2-3 logical threads (1-2 real twig calls each) on one shared engine, per scenario and cache mode; " +
			"scheduling points at every Pool/Mutex/RWMutex operation and at accesses to plain fields of Engine/Environment/Template/loaders that are written while threads run; all scenarios are non-trivial (threads share the engine and at least one pool or field)",
		Assumptions: []string{
			"sequentially consistent memory; atomics are not interleaved; more than k preemptions / more than 3 threads not explored",
			"data races are detected on the watched plain fields (vector clocks over modelled lock and pool operations); pooled objects are covered semantically through the serial-equivalence oracle",
			"sync.Pool answers are LIFO in this check (other answers are explored by C01)",
		},
		QuickDeadline:    200,
		ThoroughDeadline: 1800,
		Run:              run,
		Extra: func(tier string, cov map[string]interface{}) {
			cov["states"] = cov["choice_tree_nodes"]
			cov["transitions"] = cov["scheduling_steps"]
			cov["traces_validated_against_impl"] = cov["executions"]
		},
	})
}

func run(t *vlib.T) {
	var err error
	tmpDir, err = os.MkdirTemp("", "c02-fs-")
	if err != nil {
		panic(err)
	}
	defer os.RemoveAll(tmpDir)
	os.WriteFile(filepath.Join(tmpDir, "x.twig"), []byte("X!{{ x }}"), 0o644)
	os.WriteFile(filepath.Join(tmpDir, "y.twig"), []byte("Y!{{ x }}{% include 'x.twig' %}"), 0o644)

	resolutionCases(t)

	defK, capExec := 3, int64(400000)
	if t.Thorough() {
		defK, capExec = 4, 6000000
	}
	// bound iteration: everything with 0 preemptions, then 1, ... so the first counterexample is minimal
	for k := 0; k <= defK; k++ {
		for _, sc := range scenarios() {
			maxK := defK
			if !t.Thorough() && sc.quickK > 0 {
				maxK = sc.quickK
			}
			if t.Thorough() && sc.thoroughK > 0 {
				maxK = sc.thoroughK
			}
			if k > maxK {
				continue
			}
			for _, mode := range sc.modes {
				sc, mode, k := sc, mode, k
				t.Case(fmt.Sprintf("k%d/%s/%s", k, sc.name, mode), func() *vlib.Outcome {
					return explore(sc, mode, k, capExec)
				})
			}
		}
	}
}

// resolutionCases: the property's last clause, checked sequentially — a name written relative to a
// template resolves against the directory of the template it is written in, also when that text is
// executed on behalf of another template (overriding block, imported macro) and whatever was
// rendered before on the same engine.
func resolutionCases(t *vlib.T) {
	tpl := map[string]string{
		"layouts/base":  "B[{% block k %}{% include './part' %}{% endblock %}]",
		"layouts/part":  "layouts-part",
		"pages/part":    "pages-part",
		"pages/child":   "{% extends '../layouts/base' %}{% block k %}{% include './part' %}{% endblock %}",
		"pages/keep":    "{% extends '../layouts/base' %}",
		"pages/m":       "{% macro mm() %}{% include './part' %}{% endmacro %}",
		"pages/usem":    "{% import './m' as l %}{{ l.mm() }}",
		"other/part":    "other-part",
		"other/use":     "{% import '../pages/m' as l %}{{ l.mm() }}",
		"other/from":    "{% from '../pages/m' import mm %}{{ mm() }}",
		"other/inc":     "O[{% include '../pages/inc2' %}]",
		"pages/inc2":    "{% include './part' %}",
		"pages/sub/x":   "{% include '../part' %}+{% include './y' %}",
		"pages/sub/y":   "y",
		"other/deep":    "{% include '../pages/sub/x' %}",
		"pages/child2":  "{% extends '../layouts/base' %}{% block k %}C({{ parent() }})[{% include './part' %}]{% endblock %}",
		"deep/grand":    "{% extends '../pages/child2' %}{% block k %}G({{ parent() }})[{% include './part' %}]{% endblock %}",
		"deep/part":     "deep-part",
		"deep/keep":     "{% extends '../pages/child2' %}",
		"pages/m2":      "{% macro a() %}<{{ _self.b() }}>{% endmacro %}{% macro b() %}{% include './part' %}{% endmacro %}",
		"other/use2":    "{% import '../pages/m2' as l %}{{ l.a() }}|{% include './part' %}",
		"other/loopm":   "{% from '../pages/m' import mm %}{% for i in [1, 2] %}{{ mm() }}{% include './part' %};{% endfor %}",
	}
	type rc struct {
		name, want string
		kf, quirk  string
	}
	cases := []rc{
		{"layouts/base", "B[layouts-part]", "", ""},
		{"pages/keep", "B[layouts-part]", "", ""},
		{"pages/usem", "pages-part", "", ""},
		{"other/inc", "O[pages-part]", "", ""},
		{"other/deep", "pages-part+y", "", ""},
		{"pages/child", "B[pages-part]", "KF-C02-1", "B[layouts-part]"},
		{"other/use", "pages-part", "KF-C02-2", "other-part"},
		{"other/from", "pages-part", "KF-C02-2", "other-part"},
		{"pages/child2", "B[C(layouts-part)[pages-part]]", "", ""},
		{"deep/grand", "B[G(C(layouts-part)[pages-part])[deep-part]]", "", ""},
		{"deep/keep", "B[C(layouts-part)[pages-part]]", "", ""},
		{"other/use2", "<pages-part>|other-part", "", ""},
		{"other/loopm", "pages-partother-part;pages-partother-part;", "", ""},
	}
	// every ordered pair (first render, second render) on one engine: earlier renders must not
	// influence how a later one resolves its names
	for _, first := range append([]rc{{name: ""}}, cases...) {
		for _, c := range cases {
			first, c := first, c
			t.Case(fmt.Sprintf("resolve/after[%s]/%s", first.name, c.name), func() *vlib.Outcome {
				e := twig.New()
				e.RegisterLoader(twig.NewArrayLoader(tpl))
				if first.name != "" {
					e.Render(first.name, nil)
				}
				got, err := e.Render(c.name, nil)
				if err != nil {
					got = "ERR " + firstLine(err.Error())
				}
				o := &vlib.Outcome{Nontrivial: true, Class: "resolve:" + got}
				if got != c.want {
					o.Violation = fmt.Sprintf("render %q (after %q): got %q, want %q (relative names resolve against the template they are written in)", c.name, first.name, got, c.want)
					if c.kf != "" && got == c.quirk {
						o.Known = c.kf
					}
				}
				return o
			})
		}
	}
}
