//go:build racefree

// Free-running supplement of C02 (sampling, NOT part of the coverage claim): the same scenario
// bodies on real goroutines with the real package sync, built with -race. The race detector halts
// the process on the first report (GORACE=halt_on_error=1 exitcode=66).
//
// usage: c02race <scenario-index> <mode> <iterations>
package main

import (
	"fmt"
	"os"
	"path/filepath"
	"strconv"

	"github.com/semihalev/twig/vsync"
)

func main() {
	idx, _ := strconv.Atoi(os.Args[1])
	mode := os.Args[2]
	iters, _ := strconv.Atoi(os.Args[3])
	var err error
	tmpDir, err = os.MkdirTemp(os.Getenv("VLIB_SCRATCH"), "c02race-") // removed with the run's scratch dir
	if err != nil {
		panic(err)
	}
	defer os.RemoveAll(tmpDir)
	os.WriteFile(filepath.Join(tmpDir, "x.twig"), []byte("X!{{ x }}"), 0o644)
	os.WriteFile(filepath.Join(tmpDir, "y.twig"), []byte("Y!{{ x }}{% include 'x.twig' %}"), 0o644)
	sc := scenarios()[idx]
	serial := serialResults(sc, mode)
	for it := 0; it < iters; it++ {
		w := sc.setup(mode)
		x := vsync.NewExec(nil)
		res := make([][]string, len(sc.threads))
		for i := range sc.threads {
			i := i
			x.Go(func() {
				for _, c := range sc.threads[i] {
					res[i] = append(res[i], guard(c, w))
				}
			})
		}
		x.Run()
		if r := fmt.Sprint(res); !serial[r] {
			fmt.Printf("NONSERIAL %s\n", r)
			os.Exit(3)
		}
	}
	fmt.Println("ok")
}
