// Scenario definitions shared by the explorer build (main.go) and the free-running -race build
// (race_main.go).
package main

import (
	"fmt"
	"os"
	"path/filepath"
	"reflect"
	"strings"
	"time"

	"github.com/semihalev/twig"
	"github.com/semihalev/twig/vsync"
)

type world struct {
	e *twig.Engine
	// fresh: a struct type nobody in this process has looked an attribute up on yet (S7b)
	fresh func(x interface{}) interface{}
	// seed: distinguishes the identifiers of this world from those of every earlier one (S1e)
	seed int
}

var freshCounter int

// freshStruct builds a new struct type {P, Q string; X<n> int} per call of the setup
func freshStruct() func(x interface{}) interface{} {
	freshCounter++
	st := reflect.StructOf([]reflect.StructField{
		{Name: "P", Type: reflect.TypeOf("")},
		{Name: "Q", Type: reflect.TypeOf("")},
		{Name: fmt.Sprintf("X%d", freshCounter), Type: reflect.TypeOf(0)},
	})
	return func(x interface{}) interface{} {
		v := reflect.New(st).Elem()
		v.Field(0).SetString("p" + fmt.Sprint(x))
		v.Field(1).SetString("q")
		return v.Interface()
	}
}

type call func(w *world) string

type scenario struct {
	name    string
	setup   func(mode string) *world
	threads [][]call
	modes   []string
	// maxK caps the preemption bound for this scenario per tier (0 = tier default)
	quickK, thoroughK int
	// raceOnly: run by the free-running pass (and serially, k = 0) only — the interleaving space is
	// far too large for the explorer; raceIters overrides the number of free-running iterations
	raceOnly              bool
	raceIters, raceItersT string
}

var tmpDir string

var arrayTemplates = map[string]string{
	"plain":      "P:{{ x }}{% for i in xs %}{{ i }}{% endfor %}",
	"leaf":       "L{{ x }}",
	"inc":        "I[{% include 'leaf' %}|{% include 'leaf' with {'x': 'w'} %}|{% include 'leaf' only %}]",
	"base":       "<{% block k %}K0{{ x }}{% endblock %}>",
	"child":      "{% extends 'base' %}{% block k %}C{{ x }}({{ parent() }}){% endblock %}",
	"lib":        "{% macro m(p) %}[{{ p }}]{% endmacro %}",
	"use":        "{% import 'lib' as l %}{{ l.m(x) }}{% from 'lib' import m %}{{ m(x) }}",
	"attr":       "{{ o.A }}{{ o.B }}",
	"set":        "{% set s = x %}{% for i in xs %}{% set s = s ~ i %}{% endfor %}{{ s }}",
	"a/main":     "MA[{% include './part' %}]",
	"a/part":     "a-part",
	"b/main":     "MB[{% include './part' %}]",
	"b/part":     "b-part",
	"a/sub/page": "{% extends '../base' %}{% block c %}A-{% import './m' as mm %}{{ mm.f(x) }}{% endblock %}",
	"a/base":     "BA<{% block c %}{% endblock %}>",
	"a/sub/m":    "{% macro f(p) %}am{{ p }}{% endmacro %}",
	"b/sub/page": "{% extends '../base' %}{% block c %}B-{% import './m' as mm %}{{ mm.f(x) }}{% endblock %}",
	"b/base":     "BB<{% block c %}{% endblock %}>",
	"b/sub/m":    "{% macro f(p) %}bm{{ p }}{% endmacro %}",
	"old":        "OLD{{ x }}",
	"wide":       "W{{ x }}-aaaaaaaaaaaaaaaa-{{ x }}-bbbbbbbbbbbbbbbbbbbbbbbb-{% for i in xs %}<{{ i }}>{% endfor %}",
	"wide2":      "V{{ x }}-cccccccccccccccccccccccccccccccc-{{ x }}{% if x %}-dddddddd{% endif %}",
	"fargs":      "{{ xs|join(sep) }}|{{ missing|default(fb) }}|{% for v in xs|slice(0, n) %}{{ v }}{% endfor %}|{{ (x ~ sep)|replace('-', by) }}",
	"attr2":      "{{ o.P }}{{ o.Q }}{{ o.M }}",
	"mat1":       "{% if w matches '/^al/' %}Y{% else %}N{% endif %}{{ w matches '/ce$/' ? 'y' : 'n' }}{{ x }}",
	"mat2":       "{% if w matches '/^bo/' %}Y{% else %}N{% endif %}{{ w matches '/xx$/i' ? 'y' : 'n' }}{{ x }}",
	"mrg":        "{{ base|merge([tag])|join(',') }}|{{ base|merge([tag, x])|length }}|{{ base|length }}",
}

// sharedBase: one caller-owned list (cap > len) that both threads' contexts hold
var sharedBase = append(make([]interface{}, 0, 8), "x", "y")

type TS struct{ A, B string }

// TS2: looked up for the first time inside the concurrent phase (S7b)
type TS2 struct{ P, Q string }

func (TS2) M() string { return "m" }

func rcs(name string, x interface{}) call {
	return func(w *world) string {
		var o interface{} = TS2{"p" + fmt.Sprint(x), "q"}
		if w.fresh != nil {
			o = w.fresh(x)
		}
		out, err := w.e.Render(name, map[string]interface{}{"o": o})
		if err != nil {
			return "ERR " + firstLine(err.Error())
		}
		return out
	}
}

func ctxFor(x interface{}) map[string]interface{} {
	return map[string]interface{}{"x": x, "xs": []interface{}{x, x}, "o": TS{"a" + fmt.Sprint(x), "b"}}
}

func newEngine(mode string, warm []string, fs bool) *world {
	e := twig.New()
	if fs {
		e.RegisterLoader(twig.NewFileSystemLoader([]string{tmpDir}))
	} else {
		e.RegisterLoader(twig.NewArrayLoader(arrayTemplates))
	}
	switch mode {
	case "cache-off":
		e.SetCache(false)
	case "auto-reload":
		e.SetAutoReload(true)
	}
	for _, n := range warm {
		e.Load(n)
	}
	return &world{e: e}
}

func rc(name string, x interface{}) call {
	return func(w *world) string {
		out, err := w.e.Render(name, ctxFor(x))
		if err != nil {
			return "ERR " + firstLine(err.Error())
		}
		return out
	}
}

func rto(name string, x interface{}) call {
	return func(w *world) string {
		var sb strings.Builder
		if err := w.e.RenderTo(&sb, name, ctxFor(x)); err != nil {
			return "ERR " + firstLine(err.Error())
		}
		return sb.String()
	}
}

// yieldWriter is a plain io.Writer (no WriteString) that lets other threads run in the middle of a
// Write, before it has copied the bytes it was handed — what a slow or blocking writer does.
type yieldWriter struct{ buf []byte }

func (w *yieldWriter) Write(p []byte) (int, error) {
	vsync.Yield()
	w.buf = append(w.buf, p...)
	vsync.Yield()
	return len(p), nil
}

func rtoYield(name string, x interface{}) call {
	return func(w *world) string {
		yw := &yieldWriter{}
		if err := w.e.RenderTo(yw, name, ctxFor(x)); err != nil {
			return "ERR " + firstLine(err.Error())
		}
		return string(yw.buf)
	}
}

// rcx renders with extra context entries (arguments of filters differ per thread)
func rcx(name string, x interface{}, extra map[string]interface{}) call {
	return func(w *world) string {
		c := ctxFor(x)
		for k, v := range extra {
			c[k] = v
		}
		out, err := w.e.Render(name, c)
		if err != nil {
			return "ERR " + firstLine(err.Error())
		}
		return out
	}
}

func ld(name string) call {
	return func(w *world) string {
		t, err := w.e.Load(name)
		if err != nil {
			return "ERR " + firstLine(err.Error())
		}
		out, err := t.Render(ctxFor(7))
		if err != nil {
			return "ERR " + firstLine(err.Error())
		}
		return "loaded:" + out
	}
}

func reg(name, src string) call {
	return func(w *world) string {
		if err := w.e.RegisterString(name, src); err != nil {
			return "ERR " + firstLine(err.Error())
		}
		return "registered"
	}
}

func parse(src string, x interface{}) call {
	return func(w *world) string {
		t, err := w.e.ParseTemplate(src)
		if err != nil {
			return "ERR " + firstLine(err.Error())
		}
		out, err := t.Render(ctxFor(x))
		if err != nil {
			return "ERR " + firstLine(err.Error())
		}
		return out
	}
}

// bigTemplate: about 3 KB of text with n print tags and a few block tags, every line marked with tag
func bigTemplate(tag string, n int) string {
	var sb strings.Builder
	for i := 0; i < n; i++ {
		sb.WriteString("<li class=\"" + tag + "-row-" + fmt.Sprint(i) + "-padding-padding-padding-padding\">" + tag + "{{ x }}{% if x %}+{% endif %}</li>\n")
	}
	return sb.String()
}

// parseNames parses (and renders) a template of more than 4096 bytes that consists of n print tags with
// identifiers no earlier parse in this process has seen: the process-wide identifier tables grow
// while several parses run
func parseNames(thread, n int) call {
	return func(w *world) string {
		var sb strings.Builder
		for j := 0; j < n; j++ {
			fmt.Fprintf(&sb, "{{ nm%d_%d_%d }}.", w.seed, thread, j)
		}
		t, err := w.e.ParseTemplate(sb.String())
		if err != nil {
			return "ERR " + firstLine(err.Error())
		}
		out, err := t.Render(map[string]interface{}{})
		if err != nil {
			return "ERR " + firstLine(err.Error())
		}
		return fmt.Sprintf("len=%d dots=%d", len(out), strings.Count(out, "."))
	}
}

// parseDigest parses and renders src and reports a short digest of the output (marker letters seen,
// length) instead of 3 KB of text
func parseDigest(src string, x interface{}) call {
	return func(w *world) string {
		t, err := w.e.ParseTemplate(src)
		if err != nil {
			return "ERR " + firstLine(err.Error())
		}
		out, err := t.Render(ctxFor(x))
		if err != nil {
			return "ERR " + firstLine(err.Error())
		}
		seen := ""
		for _, m := range []string{"W", "A", "B"} {
			if strings.Contains(out, "\">"+m) {
				seen += m
			}
		}
		return fmt.Sprintf("len=%d markers=%s x=%d", len(out), seen, strings.Count(out, fmt.Sprint(x)+"+"))
	}
}

func firstLine(s string) string {
	if i := strings.IndexByte(s, '\n'); i >= 0 {
		s = s[:i]
	}
	if len(s) > 80 {
		s = s[:80]
	}
	return s
}

var allModes = []string{"cache-on", "cache-off", "auto-reload"}

func scenarios() []scenario {
	warmAll := func(names ...string) func(string) *world {
		return func(mode string) *world { return newEngine(mode, names, false) }
	}
	cold := func(mode string) *world { return newEngine(mode, nil, false) }
	fsCold := func(mode string) *world { return newEngine(mode, nil, true) }
	// a template that is cached and whose file has changed (newer timestamp) before the concurrent
	// phase starts: every serial order serves the new source to every call
	fsChanged := func(mode string) *world {
		p := filepath.Join(tmpDir, "r.twig")
		t0 := time.Unix(1700000000, 0)
		os.WriteFile(p, []byte("R-OLD{{ x }}"), 0o644)
		os.Chtimes(p, t0, t0)
		w := newEngine(mode, []string{"r.twig"}, true)
		os.WriteFile(p, []byte("R-NEW{{ x }}{% if x %}!{% endif %}"), 0o644)
		os.Chtimes(p, t0.Add(10*time.Second), t0.Add(10*time.Second))
		return w
	}
	return []scenario{
		{name: "S1 RegisterString || ParseTemplate (pooled tokenizer hand-off)", setup: cold, modes: []string{"cache-on"},
			threads: [][]call{{reg("n1", "A:{{ x }}{% if x %}y{% endif %}"), rc("n1", 1)}, {parse("B{% for i in xs %}{{ i }}{% endfor %}", 2)}}},
		{name: "S1b ParseTemplate || ParseTemplate", setup: cold, modes: []string{"cache-on"},
			threads: [][]call{{parse("A:{{ x }}{% if x %}y{% endif %}", 1)}, {parse("B{% for i in xs %}{{ i }}{% endfor %}", 2)}}},
		{name: "S1c ParseTemplate || ParseTemplate of 3 KB templates after a warm-up parse (tokenizer buffers have to grow)", setup: func(mode string) *world {
			w := newEngine(mode, nil, false)
			if t, err := w.e.ParseTemplate(bigTemplate("W", 30)); err == nil {
				t.Render(ctxFor(0))
			}
			return w
		}, modes: []string{"cache-on"}, quickK: 1, thoroughK: 2,
			threads: [][]call{{parseDigest(bigTemplate("A", 34), 1)}, {parseDigest(bigTemplate("B", 38), 2)}}},
		{name: "S1e four parses of 7 KB templates made of identifiers never seen before (process-wide identifier tables grow)", setup: func(mode string) *world {
			w := newEngine(mode, nil, false)
			freshCounter++
			w.seed = freshCounter
			return w
		}, modes: []string{"cache-on"}, raceOnly: true, raceIters: "300", raceItersT: "500",
			threads: [][]call{{parseNames(0, 500)}, {parseNames(1, 500)}, {parseNames(2, 500)}, {parseNames(3, 500)}}},
		{name: "S2 relative includes in two directories", setup: warmAll("a/main", "b/main", "a/part", "b/part"), modes: allModes,
			threads: [][]call{{rc("a/main", 1)}, {rc("b/main", 2)}}},
		{name: "S2b relative extends+import in two directories", setup: warmAll("a/sub/page", "b/sub/page", "a/base", "b/base", "a/sub/m", "b/sub/m"), modes: []string{"cache-on", "auto-reload"},
			threads: [][]call{{rc("a/sub/page", 1)}, {rc("b/sub/page", 2)}}, quickK: 2, thoroughK: 3},
		{name: "S3 first loads of two names through FileSystemLoader", setup: fsCold, modes: allModes,
			threads: [][]call{{rc("x.twig", 1)}, {rc("y.twig", 2)}}},
		{name: "S3b first loads of the same name through FileSystemLoader", setup: fsCold, modes: []string{"cache-on", "auto-reload"},
			threads: [][]call{{rc("x.twig", 1)}, {rc("x.twig", 2)}}},
		{name: "S3d Render || Render of a cached template whose file changed before both calls", setup: fsChanged, modes: []string{"auto-reload", "cache-off"},
			threads: [][]call{{rc("r.twig", 1)}, {rc("r.twig", 2)}}, quickK: 2, thoroughK: 3},
		{name: "S3e Render || Load || Render of a cached template whose file changed before the calls", setup: fsChanged, modes: []string{"auto-reload"},
			threads: [][]call{{rc("r.twig", 1)}, {ld("r.twig")}, {rc("r.twig", 3)}}, quickK: 1, thoroughK: 2},
		{name: "S3c Load || Load of uncached names (ArrayLoader)", setup: cold, modes: allModes,
			threads: [][]call{{ld("leaf")}, {ld("plain")}}},
		{name: "S4a one cached template, plain", setup: warmAll("plain"), modes: allModes,
			threads: [][]call{{rc("plain", 1)}, {rto("plain", 2)}}},
		{name: "S4b one cached template, include with/only", setup: warmAll("inc", "leaf"), modes: []string{"cache-on", "auto-reload"},
			threads: [][]call{{rc("inc", 1)}, {rc("inc", 2)}}, quickK: 2, thoroughK: 3},
		{name: "S4c one cached template, extends + parent()", setup: warmAll("child", "base"), modes: []string{"cache-on", "cache-off"},
			threads: [][]call{{rc("child", 1)}, {rc("child", 2)}}, quickK: 2, thoroughK: 3},
		{name: "S4d one cached template, import + macro", setup: warmAll("use", "lib"), modes: []string{"cache-on"},
			threads: [][]call{{rc("use", 1)}, {rc("use", 2)}}, quickK: 2, thoroughK: 3},
		{name: "S4e one cached template, for + set", setup: warmAll("set"), modes: []string{"cache-on"},
			threads: [][]call{{rc("set", 1)}, {rc("set", 2)}}},
		{name: "S4f RenderTo into slow plain writers (no WriteString) of two templates", setup: warmAll("wide", "wide2"), modes: []string{"cache-on"},
			threads: [][]call{{rtoYield("wide", 1)}, {rtoYield("wide2", 2)}}, quickK: 2, thoroughK: 3},
		{name: "S4g one cached template, filter arguments that differ per render", setup: warmAll("fargs"), modes: []string{"cache-on"},
			threads: [][]call{
				{rcx("fargs", 1, map[string]interface{}{"sep": "-", "fb": "one", "n": 1, "by": "+"})},
				{rcx("fargs", 2, map[string]interface{}{"sep": "/", "fb": "two", "n": 2, "by": "*"})}}, quickK: 2, thoroughK: 3},
		{name: "S4h two cached templates whose operators and filters take different constant arguments (patterns)", setup: warmAll("mat1", "mat2"), modes: []string{"cache-on"},
			threads: [][]call{
				{rcx("mat1", 1, map[string]interface{}{"w": "alice"}), rcx("mat1", 1, map[string]interface{}{"w": "bob"})},
				{rcx("mat2", 2, map[string]interface{}{"w": "alice"}), rcx("mat2", 2, map[string]interface{}{"w": "bob"})}}, quickK: 1, thoroughK: 2},
		{name: "S4i one cached template, two contexts that share one list with spare capacity", setup: warmAll("mrg"), modes: []string{"cache-on"},
			threads: [][]call{
				{rcx("mrg", 1, map[string]interface{}{"base": sharedBase, "tag": "A"})},
				{rcx("mrg", 2, map[string]interface{}{"base": sharedBase, "tag": "B"})}}, quickK: 2, thoroughK: 3},
		{name: "S7b first struct attribute lookups of a type from two threads (cold attribute cache)", setup: func(mode string) *world {
			w := newEngine(mode, []string{"attr2"}, false)
			w.fresh = freshStruct()
			return w
		}, modes: []string{"cache-on"},
			threads: [][]call{{rcs("attr2", 1)}, {rcs("attr2", 2)}}},
		{name: "S5 Render(n) || RegisterString(n, new)", setup: func(mode string) *world {
			w := newEngine(mode, nil, false)
			w.e.RegisterString("n", "OLD{{ x }}")
			return w
		}, modes: []string{"cache-on", "auto-reload"},
			threads: [][]call{{rc("n", 1)}, {reg("n", "NEW{{ x }}{% if x %}!{% endif %}")}}},
		{name: "S5b Load(n) || RegisterString(n, new) of a loader template", setup: warmAll("old"), modes: []string{"cache-on", "auto-reload"},
			threads: [][]call{{ld("old")}, {reg("old", "NEW{{ x }}")}}},
		{name: "S5c Render || RegisterString of another name", setup: warmAll("plain"), modes: []string{"cache-on"},
			threads: [][]call{{rc("plain", 1)}, {reg("fresh", "F{{ x }}{% if x %}y{% endif %}"), rc("fresh", 3)}}},
		{name: "S6 Render || Render || ParseTemplate", setup: warmAll("plain", "leaf"), modes: []string{"cache-on"},
			threads: [][]call{{rc("plain", 1)}, {rc("leaf", 2)}, {parse("Z{{ x }}", 3)}}, quickK: 2, thoroughK: 3},
		{name: "S7 struct attribute lookups from two threads", setup: warmAll("attr"), modes: []string{"cache-on"},
			threads: [][]call{{rc("attr", 1)}, {rc("attr", 2)}}},
	}
}

// ---- serial reference: every merge of the threads' call lists, executed one call after another

func merges(lens []int) [][]int {
	var out [][]int
	pos := make([]int, len(lens))
	var rec func(cur []int)
	rec = func(cur []int) {
		done := true
		for t := range lens {
			if pos[t] < lens[t] {
				done = false
				pos[t]++
				rec(append(cur, t))
				pos[t]--
			}
		}
		if done {
			out = append(out, append([]int{}, cur...))
		}
	}
	rec(nil)
	return out
}

func guard(c call, w *world) (res string) {
	defer func() {
		if r := recover(); r != nil {
			res = fmt.Sprintf("PANIC: %v", r)
		}
	}()
	return c(w)
}

func serialResults(sc scenario, mode string) map[string]bool {
	lens := make([]int, len(sc.threads))
	for i, th := range sc.threads {
		lens[i] = len(th)
	}
	set := map[string]bool{}
	for _, order := range merges(lens) {
		vsync.DropAll()
		w := sc.setup(mode)
		res := make([][]string, len(sc.threads))
		pos := make([]int, len(sc.threads))
		for _, t := range order {
			res[t] = append(res[t], guard(sc.threads[t][pos[t]], w))
			pos[t]++
		}
		set[fmt.Sprint(res)] = true
	}
	return set
}
