package main

import (
	"fmt"
	"math"

	"verif/lib/vlib"
)

// Family A: branch selection over every value class.

type emptyStruct struct{}
type fieldStruct struct{ A int }

type atom struct {
	id     string      // stable name used in case keys
	lit    string      // literal spelling; "" = context value
	val    interface{} // context value (when lit == "")
	truthy bool        // from the statement: falsy = false, 0, "", null, empty list, empty map
}

var atomList []atom

func atoms() []atom {
	if atomList != nil {
		return atomList
	}
	negZero := math.Copysign(0, -1)
	a := []atom{
		// context values
		{"false", "", false, false}, {"true", "", true, true},
		{"int0", "", 0, false}, {"int1", "", 1, true}, {"int-1", "", -1, true},
		{"f0", "", 0.0, false}, {"f-0", "", negZero, false}, {"f0.5", "", 0.5, true}, {"f-2", "", -2.0, true},
		{"s", "", "", false}, {"s0", "", "0", true}, {"sa", "", "a", true}, {"ssp", "", " ", true}, {"sfalse", "", "false", true}, {"s0.0", "", "0.0", true},
		{"nil", "", nil, false},
		{"l", "", []interface{}{}, false}, {"l0", "", []interface{}{0}, true}, {"lnil", "", []interface{}{nil}, true}, {"lnilslice", "", []interface{}(nil), false},
		{"m", "", map[string]interface{}{}, false}, {"ma", "", map[string]interface{}{"a": 0}, true}, {"mnil", "", map[string]interface{}(nil), false},
		{"ints", "", []int{}, false}, {"ints0", "", []int{0}, true}, {"intsnil", "", []int(nil), false},
		{"strs", "", []string{}, false}, {"strs1", "", []string{""}, true},
		{"bools1", "", []bool{false}, true},
		{"msi", "", map[string]int{}, false}, {"msi1", "", map[string]int{"a": 0}, true},
		{"mis", "", map[int]string{}, false}, {"mis1", "", map[int]string{0: ""}, true},
		{"arr0", "", [0]int{}, false}, {"arr1", "", [1]int{0}, true},
		{"i8", "", int8(0), false}, {"i16", "", int16(0), false}, {"i32", "", int32(0), false}, {"i64", "", int64(0), false},
		{"u", "", uint(0), false}, {"u8", "", uint8(0), false}, {"u16", "", uint16(0), false}, {"u32", "", uint32(0), false}, {"u64", "", uint64(0), false},
		{"f32", "", float32(0), false},
		{"i8x", "", int8(-3), true}, {"i64x", "", int64(2), true}, {"u8x", "", uint8(3), true}, {"u64x", "", uint64(1) << 63, true}, {"f32x", "", float32(1.5), true},
		{"struct", "", emptyStruct{}, true}, {"struct1", "", fieldStruct{0}, true},
		// literals
		{"Lfalse", "false", nil, false}, {"Ltrue", "true", nil, true},
		{"L0", "0", nil, false}, {"L1", "1", nil, true}, {"L-1", "-1", nil, true},
		{"L0.0", "0.0", nil, false}, {"L0.5", "0.5", nil, true},
		{"Ls", "''", nil, false}, {"Lsd", `""`, nil, false}, {"Ls0", "'0'", nil, true}, {"Lsa", "'a'", nil, true}, {"Lssp", "' '", nil, true},
		{"Lnull", "null", nil, false},
		{"Ll", "[]", nil, false}, {"Ll0", "[0]", nil, true}, {"Llnull", "[null]", nil, true},
		{"Lm", "{}", nil, false}, {"Lma", "{'a': 0}", nil, true},
	}
	atomList = a
	return a
}

func nCtxAtoms() int {
	n := 0
	for _, a := range atoms() {
		if a.lit == "" {
			n++
		}
	}
	return n
}

// representative subset for 3-condition chains in the quick tier
var repIDs = map[string]bool{"false": true, "true": true, "int0": true, "f0": true, "s": true, "s0": true, "nil": true, "l": true, "m": true,
	"ints": true, "i64": true, "u8": true, "L0": true, "Ll0": true}

var branchText = []string{"A", "B", "C", "D", "G", "H"}

// chainSrc prints  [{% if c0 %}A{% elseif c1 %}B{% else %}E{% endif %}] ; the body of alternative
// number emptyAt (len(as) = the else branch) is left empty, -1 = none.
func chainSrc(as []atom, hasElse bool, emptyAt int) (string, map[string]interface{}) {
	ctx := map[string]interface{}{}
	s := "["
	for i, a := range as {
		c := a.lit
		if c == "" {
			c = "c" + itoa(i)
			ctx[c] = a.val
		}
		if i == 0 {
			s += "{% if " + c + " %}"
		} else {
			s += "{% elseif " + c + " %}"
		}
		if i != emptyAt {
			s += branchText[i]
		}
	}
	if hasElse {
		s += "{% else %}"
		if emptyAt != len(as) {
			s += "E"
		}
	}
	s += "{% endif %}]"
	return s, ctx
}

func chainWant(as []atom, hasElse bool, emptyAt int) (string, string) {
	for i, a := range as {
		if a.truthy {
			if i == emptyAt {
				return "[]", "branch" + itoa(i) + "(empty)"
			}
			return "[" + branchText[i] + "]", "branch" + itoa(i)
		}
	}
	if hasElse {
		if emptyAt == len(as) {
			return "[]", "else(empty)"
		}
		return "[E]", "else"
	}
	return "[]", "nothing"
}

func runA(t *vlib.T) {
	all := atoms()
	var reps []atom
	for _, a := range all {
		if repIDs[a.id] {
			reps = append(reps, a)
		}
	}
	third := reps
	if t.Thorough() {
		third = all
	}
	emit := func(as []atom) {
		for _, hasElse := range []bool{false, true} {
			// chains of three conditions are generated with all bodies non-empty only
			lo, hi := -1, len(as)
			if !hasElse {
				hi = len(as) - 1
			}
			if len(as) > 2 {
				hi = -1
			}
			for emptyAt := lo; emptyAt <= hi; emptyAt++ {
				key := "A/"
				for _, a := range as {
					key += a.id + ","
				}
				if hasElse {
					key += "/else"
				}
				if emptyAt >= 0 {
					key += "/empty" + itoa(emptyAt)
				}
				as, hasElse, emptyAt := append([]atom{}, as...), hasElse, emptyAt
				t.Case(key, func() *vlib.Outcome {
					src, ctx := chainSrc(as, hasElse, emptyAt)
					got, _ := render(src, ctx)
					want, cls := chainWant(as, hasElse, emptyAt)
					return verdict("A", src, ctx, got, want, len(as) > 1 || hasElse, fmt.Sprintf("A:%d:%s", len(as), cls))
				})
			}
		}
	}
	for _, a := range all {
		emit([]atom{a})
	}
	// the same one-condition chains with the context values supplied as engine globals (AddGlobal)
	// and an empty render context: where the value is looked up must not change the branch
	for _, a := range all {
		a := a
		for _, hasElse := range []bool{false, true} {
			hasElse := hasElse
			key := "A/glob/" + a.id
			if hasElse {
				key += "/else"
			}
			t.Case(key, func() *vlib.Outcome {
				src, globals := chainSrc([]atom{a}, hasElse, -1)
				if len(globals) == 0 { // a literal: nothing to move
					return &vlib.Outcome{Class: "A:glob:literal"}
				}
				got := hRender(globals, map[string]interface{}{}, nil, src)
				want, cls := chainWant([]atom{a}, hasElse, -1)
				return hVerdict("A", src, nil, globals, map[string]interface{}{}, got, want, hasElse, "A:glob:"+cls)
			})
		}
	}
	for _, a := range all {
		for _, b := range all {
			emit([]atom{a, b})
		}
	}
	// long chains: every truth vector of 4..6 conditions over one falsy and one truthy atom
	byID := map[string]atom{}
	for _, a := range all {
		byID[a.id] = a
	}
	for n := 4; n <= 6; n++ {
		for bits := 0; bits < 1<<n; bits++ {
			as := make([]atom, n)
			for i := range as {
				if bits>>i&1 == 1 {
					as[i] = byID["s0"]
				} else {
					as[i] = byID["f0"]
				}
			}
			emit(as)
		}
	}
	for _, a := range third {
		for _, b := range third {
			for _, c := range third {
				if t.Stopped() {
					return
				}
				emit([]atom{a, b, c})
			}
		}
	}
}
