package main

import (
	"fmt"
	"reflect"
	"strings"

	"verif/lib/vlib"
)

// Family B: one for loop over every sequence of the bound, all counters at every position.

type seqSpec struct {
	id    string                 // stable id for the case key
	kind  string                 // coarse class: list / typed / array / literal / string / range / empty / noniterable
	expr  string                 // source of the sequence expression
	ctx   map[string]interface{} // context values the expression needs
	elems []string               // printed form of every element, in sequence order (from the statement)
}

const bBody = "[{{ loop.index }},{{ loop.index0 }},{{ loop.revindex }},{{ loop.revindex0 }}," +
	"{% if loop.first %}F{% else %}f{% endif %}{% if loop.last %}L{% else %}l{% endif %},{{ loop.length }}"

// what one iteration must print: position i (0-based) of n
func bIter(i, n int) string {
	f, l := "f", "l"
	if i == 0 {
		f = "F"
	}
	if i == n-1 {
		l = "L"
	}
	return fmt.Sprintf("[%d,%d,%d,%d,%s%s,%d", i+1, i, n-i, n-i-1, f, l, n)
}

func bBoundsDoc(th bool) string {
	ll, sl, lo, hi, st := bBounds(th)
	return fmt.Sprintf("lists of length 0..%d as []interface{} of ints / of strings / mixed with null, []int, []string, [N]int and as list literals; strings of length 0..%d over {a, é, 日, 😀} "+
		"as context value and as literal; range(a,b) and range(a,b,s) for a,b in [%d,%d], |s| <= %d with sign(s)=sign(b-a) or a=b, arguments as literals and as context integers; "+
		"empty and non-iterable values (null, empty map, 5, 1.5, true) for the else branch; each x {value, key+value header} x {no else, else} x {top level, inside a two-pass outer loop, over a variable assigned by set, with an empty body, and (non-empty lists) through |reverse}", ll, sl, lo, hi, st)
}

func bBounds(th bool) (listLen, strLen, lo, hi, maxStep int) {
	if th {
		return 12, 5, -4, 6, 4
	}
	return 6, 3, -2, 3, 3
}

func allSeqs(th bool) []seqSpec {
	listLen, strLen, lo, hi, maxStep := bBounds(th)
	var out []seqSpec
	// lists
	for n := 0; n <= listLen; n++ {
		ints := make([]int, n)
		strs := make([]string, n)
		uI := make([]interface{}, n)
		uS := make([]interface{}, n)
		uM := make([]interface{}, n)
		pI := make([]string, n)
		pS := make([]string, n)
		pM := make([]string, n)
		litI := make([]string, n)
		litS := make([]string, n)
		for i := 0; i < n; i++ {
			ints[i] = 10 * (i + 1)
			strs[i] = "s" + itoa(i)
			uI[i], uS[i] = ints[i], strs[i]
			pI[i], pS[i] = itoa(ints[i]), strs[i]
			litI[i], litS[i] = itoa(ints[i]), "'"+strs[i]+"'"
			switch i % 3 {
			case 0:
				uM[i], pM[i] = nil, ""
			case 1:
				uM[i], pM[i] = 0, "0"
			default:
				uM[i], pM[i] = "", ""
			}
		}
		arr := reflect.New(reflect.ArrayOf(n, reflect.TypeOf(0))).Elem()
		for i := 0; i < n; i++ {
			arr.Index(i).SetInt(int64(ints[i]))
		}
		kindOf := func(k string) string {
			if n == 0 {
				return "empty"
			}
			return k
		}
		out = append(out,
			seqSpec{"ui" + itoa(n), kindOf("list"), "xs", map[string]interface{}{"xs": uI}, pI},
			seqSpec{"us" + itoa(n), kindOf("list"), "xs", map[string]interface{}{"xs": uS}, pS},
			seqSpec{"um" + itoa(n), kindOf("list"), "xs", map[string]interface{}{"xs": uM}, pM},
			seqSpec{"ti" + itoa(n), kindOf("typed"), "xs", map[string]interface{}{"xs": ints}, pI},
			seqSpec{"ts" + itoa(n), kindOf("typed"), "xs", map[string]interface{}{"xs": strs}, pS},
			seqSpec{"ar" + itoa(n), kindOf("array"), "xs", map[string]interface{}{"xs": arr.Interface()}, pI},
			seqSpec{"li" + itoa(n), kindOf("literal"), "[" + strings.Join(litI, ", ") + "]", nil, pI},
			seqSpec{"ls" + itoa(n), kindOf("literal"), "[" + strings.Join(litS, ", ") + "]", nil, pS},
		)
	}
	// strings over a multi-byte alphabet (1-, 2-, 3- and 4-byte characters)
	alpha := []string{"a", "é", "日", "😀"}
	var strsOf func(n int) [][]string
	strsOf = func(n int) [][]string {
		if n == 0 {
			return [][]string{{}}
		}
		var r [][]string
		for _, p := range strsOf(n - 1) {
			for _, c := range alpha {
				r = append(r, append(append([]string{}, p...), c))
			}
		}
		return r
	}
	for n := 0; n <= strLen; n++ {
		for _, chars := range strsOf(n) {
			s := strings.Join(chars, "")
			k := "string"
			if n == 0 {
				k = "empty"
			}
			out = append(out,
				seqSpec{"sv:" + s, k, "str", map[string]interface{}{"str": s}, chars},
				seqSpec{"sl:" + s, k, "'" + s + "'", nil, chars})
		}
	}
	// ranges
	steps := []int{0} // 0 = step omitted
	for s := 1; s <= maxStep; s++ {
		steps = append(steps, s, -s)
	}
	for a := lo; a <= hi; a++ {
		for b := lo; b <= hi; b++ {
			for _, s := range steps {
				eff := s
				if s == 0 {
					eff = 1
				}
				// the statement fixes the meaning only when the step points from a towards b
				if !(a == b || (b > a && eff > 0) || (b < a && eff < 0)) {
					continue
				}
				var el []string
				for x := a; (eff > 0 && x <= b) || (eff < 0 && x >= b); x += eff {
					el = append(el, itoa(x))
				}
				args, vargs := itoa(a)+", "+itoa(b), "lo, hi"
				ctx := map[string]interface{}{"lo": a, "hi": b}
				if s != 0 {
					args += ", " + itoa(s)
					vargs += ", st"
					ctx["st"] = s
				}
				id := fmt.Sprintf("%d,%d,%d", a, b, s)
				out = append(out,
					seqSpec{"rl:" + id, "range", "range(" + args + ")", nil, el},
					seqSpec{"rv:" + id, "range", "range(" + vargs + ")", ctx, el})
			}
		}
	}
	// nothing to iterate
	for _, e := range []struct {
		id string
		v  interface{}
		k  string
	}{{"nil", nil, "empty"}, {"emap", map[string]interface{}{}, "empty"}, {"emapt", map[string]int{}, "empty"}, {"nilslice", []interface{}(nil), "empty"},
		{"int5", 5, "noniterable"}, {"f1.5", 1.5, "noniterable"}, {"true", true, "noniterable"}} {
		out = append(out, seqSpec{"e:" + e.id, e.k, "xs", map[string]interface{}{"xs": e.v}, nil})
	}
	out = append(out, seqSpec{"e:null", "empty", "null", nil, nil})
	return out
}

func bCase(q seqSpec, withKey, withElse bool, wrap int) (src string, ctx map[string]interface{}, want string) {
	ctx = map[string]interface{}{}
	for k, v := range q.ctx {
		ctx[k] = v
	}
	expr := q.expr
	pre := ""
	if wrap == 2 {
		pre = "{% set sq = " + expr + " %}"
		expr = "sq"
	}
	elems := q.elems
	if wrap == 4 { // the sequence goes through a filter (ForNode has a separate path for that); reverse itself is C19's business
		expr += "|reverse"
		elems = make([]string, len(q.elems))
		for i, e := range q.elems {
			elems[len(elems)-1-i] = e
		}
	}
	hdr, body := "v", bBody+":{{ v }}]"
	if withKey {
		hdr, body = "k, v", bBody+":{{ k }}={{ v }}]"
	}
	if wrap == 3 { // empty body
		body = ""
	}
	loop := "{% for " + hdr + " in " + expr + " %}" + body
	if withElse {
		loop += "{% else %}EMPTY"
	}
	loop += "{% endfor %}"
	n := len(q.elems)
	w := ""
	for i, e := range elems {
		w += bIter(i, n) + ":"
		if withKey {
			w += itoa(i) + "="
		}
		w += e + "]"
	}
	if wrap == 3 {
		w = ""
	}
	if n == 0 && withElse {
		w = "EMPTY"
	}
	switch wrap {
	case 0, 2, 3, 4:
		return pre + "<" + loop + ">", ctx, "<" + w + ">"
	default:
		// inside an outer loop of two passes; the outer loop prints its own counters before and after
		outerP := "(" + bBody + ":{{ o }}])"
		src = "{% for o in ['p', 'q'] %}" + outerP + loop + outerP + "{% endfor %}"
		for i, o := range []string{"p", "q"} {
			p := "(" + bIter(i, 2) + ":" + o + "])"
			want += p + w + p
		}
		return src, ctx, want
	}
}

func runB(t *vlib.T) {
	for _, q := range allSeqs(t.Thorough()) {
		q := q
		for _, withKey := range []bool{false, true} {
			for _, withElse := range []bool{false, true} {
				for wrap := 0; wrap < 5; wrap++ {
					if wrap == 3 && withKey {
						continue
					}
					if wrap == 4 && !(q.kind == "list" || q.kind == "typed" || q.kind == "literal") {
						continue
					}
					withKey, withElse, wrap := withKey, withElse, wrap
					key := fmt.Sprintf("B/%s/k%v/e%v/w%d", q.id, withKey, withElse, wrap)
					t.Case(key, func() *vlib.Outcome {
						src, ctx, want := bCase(q, withKey, withElse, wrap)
						got, _ := render(src, ctx)
						n := len(q.elems)
						lb := "0"
						switch {
						case n == 1:
							lb = "1"
						case n == 2:
							lb = "2"
						case n > 2:
							lb = "3+"
						}
						cls := fmt.Sprintf("B:%s:len%s:else%v:w%d", q.kind, lb, withElse, wrap)
						return verdict("B", src, ctx, got, want, n >= 2 || (n == 0 && withElse), cls)
					})
				}
			}
		}
	}
}
