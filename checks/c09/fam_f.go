package main

import (
	"fmt"
	"strings"

	"github.com/semihalev/twig"

	"verif/lib/vlib"
)

// Family F: RE-ENTRANCY — one for-loop node of a parsed template is active several times at once.
//
// The statement: "loop.index, index0, revindex, revindex0, first, last and length consistent with the
// element's position, nested loops keeping their own counters". A loop that is entered again while
// one of its iterations is still being rendered (the template includes itself from its for body, a
// macro calls itself from its for body, a function called from the body renders the template again)
// is a nested loop in the dynamic sense: every ACTIVATION has its own counters, and the outer
// activation must find its own counters, key and value again when the inner one has finished.
//
// Mechanisms (how the body reaches the next level):
//
//	inc   {% include '<tpl>' with {'d': d + 1, <lists of the next level>} %}
//	inco  the same with `only`
//	mac   {{ _self.<macro>(<lists of the next level>, d + 1) }} inside {% macro <macro>(…, d) %}
//	fn    {{ again(…, d) }} — a registered function that calls Engine.Render for <tpl> on the same
//	      engine and goroutine and returns the output: two renders of one cached template alive at
//	      once, with a fixed interleaving
//
// alt = false: <tpl>/<macro> is the one being rendered (the SAME for node is re-entered);
// alt = true:  two textually identical templates / macros call each other, so with depth guard 1 the
// body only runs ANOTHER loop node (the control of the family), with guard >= 2 the first node is
// re-entered with the other node's activation in between.
//
// Data shapes:
//
//	L  "levels": up to three lists of strings xs, ys, zs of every length of the bound; level l loops
//	   over list l mod (number of lists) — the next level gets the lists rotated — and the recursion is
//	   cut by a depth guard {% if d < D %}. All activations at one level have the same length, the
//	   levels differ.
//	T  "tree": every tree of nested lists inside a (branching, height) bound; the loop runs over the
//	   children (key,value header, the key is printed) and recurses into each child; empty list = leaf.
//	   Sibling activations have different lengths.
//
// Every loop body prints all seven loop.* members plus d and key/value BEFORE and AFTER the part that
// recurses. Variants of that part: `when` = which iterations recurse (all / first / last / all but
// first / all but last), `twice` = two recursive calls with a counter probe between them, `nest`
// (shape L) = the call sits in an inner loop over ['s', 't'] that prints its own counters before and
// after it (two loop nodes re-entered, one inside the other). With and without a for-else (the else
// branch prints only d: loop.* is not determined there).
//
// Each case renders three times: on a fresh engine; then, on the same engine (cached template, same
// nodes), a decoy context with other lengths; then the first context again. All three are compared.

type fCase struct {
	shape byte   // 'L' or 'T'
	mech  string // inc, inco, mac, fn
	alt   bool
	D     int   // depth guard (shape L)
	lens  []int // lengths of xs, ys[, zs] (shape L)
	tree  *fTree
	key   bool // key,value header (shape L; shape T always has one)
	els   bool
	when  int
	twice bool
	nest  bool
}

type fTree struct{ kids []*fTree }

func (t *fTree) String() string {
	var sb strings.Builder
	sb.WriteByte('[')
	for _, k := range t.kids {
		sb.WriteString(k.String())
	}
	sb.WriteByte(']')
	return sb.String()
}

func (t *fTree) value() interface{} {
	r := make([]interface{}, len(t.kids))
	for i, k := range t.kids {
		r[i] = k.value()
	}
	return r
}

func (t *fTree) height() int {
	h := 0
	for _, k := range t.kids {
		if x := k.height() + 1; x > h {
			h = x
		}
	}
	return h
}

// fTrees: every tree with at most b children per node and height <= h, simplest first.
func fTrees(b, h int) []*fTree {
	if h == 0 {
		return []*fTree{{}}
	}
	sub := fTrees(b, h-1)
	out := []*fTree{{}}
	prev := [][]*fTree{nil}
	for n := 1; n <= b; n++ {
		var cur [][]*fTree
		for _, p := range prev {
			for _, s := range sub {
				cur = append(cur, append(append([]*fTree{}, p...), s))
			}
		}
		for _, c := range cur {
			out = append(out, &fTree{kids: c})
		}
		prev = cur
	}
	return out
}

var fMechs = []string{"inc", "inco", "mac", "fn"}

const fWhens = 5

// bounds: (max list length for guard D) per tier; tree bounds as (branching, height, all variants?)
func fLenBound(th bool, D int) int {
	if !th {
		return 3
	}
	if D == 3 {
		return 3
	}
	return 4
}

func fGuards(th bool) []int {
	if th {
		return []int{1, 2, 3}
	}
	return []int{1, 2}
}

type fTreeBound struct {
	b, h int
	full bool // all variants, or only when = all, no second call
}

func fTreeBounds(th bool) []fTreeBound {
	if th {
		return []fTreeBound{{2, 3, true}, {4, 2, true}, {2, 4, false}}
	}
	return []fTreeBound{{2, 3, true}, {3, 2, true}}
}

func fBoundsDoc(th bool) string {
	var tb []string
	for _, b := range fTreeBounds(th) {
		v := "all variants"
		if !b.full {
			v = "every iteration recursing once"
		}
		tb = append(tb, fmt.Sprintf("branching <= %d and height <= %d (%s)", b.b, b.h, v))
	}
	var lb []string
	for _, D := range fGuards(th) {
		lb = append(lb, fmt.Sprintf("depth guard %d with lengths 0..%d", D, fLenBound(th, D)))
	}
	return "re-entrant loops: the same for node active up to guard+1 times at once through {include, include only, recursive macro via _self, a registered function that renders the template again}, " +
		"directly or through a second identical template/macro (guard 1 of that form = control: another loop node); shape L: per-level lists of every length, " + strings.Join(lb, ", ") +
		"; shape T: every tree of nested lists with " + strings.Join(tb, ", ") + "; x {value, key+value header (L)} x {no else, else} x {every / first / last / all but first / all but last iteration recurses} " +
		"x {one call, two calls with a probe between, (L) call inside an inner two-pass loop}; three renders per case (fresh engine, decoy lengths on the same engine, first context again)"
}

func bstr(b bool) string {
	if b {
		return "1"
	}
	return "0"
}

func (c *fCase) caseKey() string {
	v := "e" + bstr(c.els) + "w" + itoa(c.when) + "t" + bstr(c.twice) + "n" + bstr(c.nest)
	if c.shape == 'T' {
		return "F/T/" + c.mech + "/" + c.tree.String() + "/" + v
	}
	var ls []string
	for _, l := range c.lens {
		ls = append(ls, itoa(l))
	}
	return "F/L/" + c.mech + "/alt" + bstr(c.alt) + "/D" + itoa(c.D) + "/" + strings.Join(ls, ",") + "/k" + bstr(c.key) + v
}

func fAllCases(th bool, emit func(c *fCase)) {
	forms := [][2]bool{{false, false}, {true, false}, {false, true}} // (twice, nest)
	// shape L
	for _, D := range fGuards(th) {
		nl := D + 1
		if nl > 3 {
			nl = 3
		}
		mx := fLenBound(th, D)
		var lensAll [][]int
		var rec func(p []int)
		rec = func(p []int) {
			if len(p) == nl {
				lensAll = append(lensAll, append([]int{}, p...))
				return
			}
			for l := 0; l <= mx; l++ {
				rec(append(p, l))
			}
		}
		rec(nil)
		for _, lens := range lensAll {
			for _, mech := range fMechs {
				for _, alt := range []bool{false, true} {
					for _, key := range []bool{false, true} {
						for _, els := range []bool{false, true} {
							for when := 0; when < fWhens; when++ {
								for _, f := range forms {
									emit(&fCase{shape: 'L', mech: mech, alt: alt, D: D, lens: lens, key: key, els: els, when: when, twice: f[0], nest: f[1]})
								}
							}
						}
					}
				}
			}
		}
	}
	// shape T
	seen := map[string]bool{}
	for _, tb := range fTreeBounds(th) {
		for _, tr := range fTrees(tb.b, tb.h) {
			id := tr.String()
			if seen[id] {
				continue
			}
			seen[id] = true
			for _, mech := range fMechs {
				for _, els := range []bool{false, true} {
					for when := 0; when < fWhens; when++ {
						for _, twice := range []bool{false, true} {
							if !tb.full && (when != 0 || twice) {
								continue
							}
							emit(&fCase{shape: 'T', mech: mech, tree: tr, key: true, els: els, when: when, twice: twice})
						}
					}
				}
			}
		}
	}
}

// ---- printer

var fProbe = bBody[1:] // the seven counters, booleans through if/else (no operator trusted)

var fListNames = []string{"xs", "ys", "zs"}

func (c *fCase) nl() int { return len(c.lens) }

// names of the two templates / macros; with alt they call each other, without alt "self" calls itself
func (c *fCase) target(self int) string {
	names := []string{"self", "other"}
	if c.alt {
		return names[1-self]
	}
	return names[self]
}

// loopSrc: the loop of template / macro number `self`
func (c *fCase) loopSrc(self int) string {
	tgt := c.target(self)
	var call, hdr, kv, seq string
	if c.shape == 'L' {
		seq = "xs"
		hdr, kv = "v", "{{ v }}"
		if c.key {
			hdr, kv = "k, v", "{{ k }}={{ v }}"
		}
		nl := c.nl()
		var with, args []string
		for i := 0; i < nl; i++ {
			with = append(with, "'"+fListNames[i]+"': "+fListNames[(i+1)%nl])
			args = append(args, fListNames[(i+1)%nl])
		}
		switch c.mech {
		case "inc", "inco":
			call = "{% include '" + tgt + "' with {'d': d + 1, " + strings.Join(with, ", ") + "}"
			if c.mech == "inco" {
				call += " only"
			}
			call += " %}"
		case "mac":
			call = "{{ _self." + tgt + "(" + strings.Join(args, ", ") + ", d + 1) }}"
		case "fn":
			call = "{{ again(d) }}"
		}
		call = "{% if d < " + itoa(c.D) + " %}" + call + "{% endif %}"
	} else {
		seq = "ns"
		hdr, kv = "k, n", "{{ k }}"
		switch c.mech {
		case "inc":
			call = "{% include '" + tgt + "' with {'d': d + 1, 'ns': n} %}"
		case "inco":
			call = "{% include '" + tgt + "' with {'d': d + 1, 'ns': n} only %}"
		case "mac":
			call = "{{ _self." + tgt + "(n, d + 1) }}"
		case "fn":
			call = "{{ again(d, n) }}"
		}
	}
	switch c.when {
	case 1:
		call = "{% if loop.first %}" + call + "{% endif %}"
	case 2:
		call = "{% if loop.last %}" + call + "{% endif %}"
	case 3:
		call = "{% if loop.first %}{% else %}" + call + "{% endif %}"
	case 4:
		call = "{% if loop.last %}{% else %}" + call + "{% endif %}"
	}
	inner := call
	if c.twice {
		inner = call + "|" + fProbe + "|" + call
	}
	if c.nest {
		inner = "{% for w in ['s', 't'] %}#" + fProbe + ":{{ w }}#" + call + "~" + fProbe + ":{{ w }}~{% endfor %}"
	}
	s := "{% for " + hdr + " in " + seq + " %}[" + fProbe + ":{{ d }}:" + kv + "]" + inner + "(" + fProbe + ":{{ d }}:" + kv + ")"
	if c.els {
		s += "{% else %}E{{ d }}"
	}
	return s + "{% endfor %}"
}

// templates returns name -> source and the name to render
func (c *fCase) templates() (map[string]string, string) {
	n := 1
	if c.alt {
		n = 2
	}
	names := []string{"self", "other"}
	if c.mech == "mac" {
		params := "ns, d"
		args := "ns, 0"
		if c.shape == 'L' {
			params = strings.Join(fListNames[:c.nl()], ", ") + ", d"
			args = strings.Join(fListNames[:c.nl()], ", ") + ", 0"
		}
		src := ""
		for i := 0; i < n; i++ {
			src += "{% macro " + names[i] + "(" + params + ") %}" + c.loopSrc(i) + "{% endmacro %}"
		}
		return map[string]string{"self": src + "{{ _self.self(" + args + ") }}"}, "self"
	}
	m := map[string]string{}
	for i := 0; i < n; i++ {
		m[names[i]] = c.loopSrc(i)
	}
	return m, "self"
}

// ---- data

type fData struct {
	lists [][]string // shape L
	tree  *fTree     // shape T
}

func fListsOf(lens []int) [][]string {
	r := make([][]string, len(lens))
	for j, n := range lens {
		for i := 0; i < n; i++ {
			r[j] = append(r[j], string(rune('a'+j))+itoa(i))
		}
	}
	return r
}

func fIface(ss []string) []interface{} {
	r := make([]interface{}, len(ss))
	for i, s := range ss {
		r[i] = s
	}
	return r
}

// context of the render at level `level`
func (c *fCase) ctxAt(d fData, level int, node *fTree) map[string]interface{} {
	ctx := map[string]interface{}{"d": level}
	if c.shape == 'T' {
		ctx["ns"] = node.value()
		return ctx
	}
	nl := len(d.lists)
	for i := 0; i < nl; i++ {
		ctx[fListNames[i]] = fIface(d.lists[(i+level)%nl])
	}
	return ctx
}

// ---- reference: every activation has its own counters

type fModel struct {
	c      *fCase
	d      fData
	out    strings.Builder
	reent  int // loop bodies entered below another running loop body
	deep   int // deepest level whose body was entered
	bodies int
}

func (m *fModel) recurses(i, n int) bool {
	switch m.c.when {
	case 1:
		return i == 0
	case 2:
		return i == n-1
	case 3:
		return i != 0
	case 4:
		return i != n-1
	}
	return true
}

func (m *fModel) walk(level int, node *fTree) {
	c := m.c
	var elems []string
	var kids []*fTree
	n := 0
	if c.shape == 'L' {
		elems = m.d.lists[level%len(m.d.lists)]
		n = len(elems)
	} else {
		kids = node.kids
		n = len(kids)
	}
	if n == 0 {
		if c.els {
			m.out.WriteString("E" + itoa(level))
		}
		return
	}
	for i := 0; i < n; i++ {
		m.bodies++
		if level > 0 {
			m.reent++
		}
		if level > m.deep {
			m.deep = level
		}
		p := bIter(i, n)[1:]
		kv := itoa(i)
		if c.shape == 'L' {
			kv = elems[i]
			if c.key {
				kv = itoa(i) + "=" + elems[i]
			}
		}
		call := func(ci, cn int) { // ci, cn: position in the loop directly around the call
			if !m.recurses(ci, cn) {
				return
			}
			if c.shape == 'L' {
				if level < c.D {
					m.walk(level+1, nil)
				}
			} else {
				m.walk(level+1, kids[i])
			}
		}
		m.out.WriteString("[" + p + ":" + itoa(level) + ":" + kv + "]")
		switch {
		case c.nest:
			for j, w := range []string{"s", "t"} {
				q := bIter(j, 2)[1:]
				m.out.WriteString("#" + q + ":" + w + "#")
				call(j, 2)
				m.out.WriteString("~" + q + ":" + w + "~")
			}
		case c.twice:
			call(i, n)
			m.out.WriteString("|" + p + "|")
			call(i, n)
		default:
			call(i, n)
		}
		m.out.WriteString("(" + p + ":" + itoa(level) + ":" + kv + ")")
	}
}

func (c *fCase) model(d fData) *fModel {
	m := &fModel{c: c, d: d}
	m.walk(0, d.tree)
	return m
}

// ---- running a case

var fDecoyTree = &fTree{kids: []*fTree{{kids: []*fTree{{}}}, {}, {kids: []*fTree{{}, {}}}}}

func fCaseRun(c *fCase) *vlib.Outcome {
	tpls, main := c.templates()
	real := fData{tree: c.tree}
	decoy := fData{tree: fDecoyTree}
	if c.shape == 'L' {
		real.lists = fListsOf(c.lens)
		dl := make([]int, len(c.lens))
		for i, l := range c.lens {
			dl[i] = (l + 1) % 4
		}
		decoy.lists = fListsOf(dl)
	}

	e := twig.New()
	cur := real // the data of the render in progress (mechanism fn)
	var fnErr error
	if c.mech == "fn" {
		e.AddFunction("again", func(args ...interface{}) (interface{}, error) {
			// again(d) / again(d, n): render the next level on this engine, now, and return its output
			d, ok := args[0].(int)
			if !ok {
				fnErr = fmt.Errorf("again: d arrived as %T", args[0])
				return "", nil
			}
			name := "self"
			if c.alt && d%2 == 0 {
				name = "other"
			}
			var ctx map[string]interface{}
			if c.shape == 'T' {
				ctx = map[string]interface{}{"d": d + 1, "ns": args[1]}
			} else {
				ctx = c.ctxAt(cur, d+1, nil)
			}
			out, err := e.Render(name, ctx)
			if err != nil {
				fnErr = err
			}
			return out, nil
		})
	}
	srcDoc := ""
	for _, n := range []string{"self", "other"} {
		if s, ok := tpls[n]; ok {
			if err := e.RegisterString(n, s); err != nil {
				o := &vlib.Outcome{Nontrivial: true, Class: "F:parse-error"}
				o.Violation = fmt.Sprintf("template %q is rejected: %v", s, err)
				o.Detail = detail{Family: "F", Template: s, Got: "PARSE-ERROR: " + err.Error()}
				return o
			}
			srcDoc += "{# " + n + " #}" + s
		}
	}

	var first *fModel
	o := &vlib.Outcome{Counters: map[string]int64{"renders": 3}}
	for step, d := range []fData{real, decoy, real} {
		m := c.model(d)
		if step == 0 {
			first = m
		}
		cur = d
		ctx := c.ctxAt(d, 0, d.tree)
		got, err := e.Render(main, ctx)
		if err != nil {
			got = "RENDER-ERROR: " + err.Error() + fmt.Sprintf(" (partial output %q)", got)
		} else if fnErr != nil {
			got = "RENDER-ERROR inside again(): " + fnErr.Error()
		}
		if want := m.out.String(); got != want && o.Violation == "" {
			stepName := []string{"first render on a fresh engine", "second render on the same engine (decoy lengths)", "third render on the same engine (first context again)"}[step]
			o.Violation = fmt.Sprintf("re-entrant loop, %s: templates %s with context %v: rendered %q, the statement requires %q (every activation of a loop has its own counters)",
				stepName, srcDoc, ctxLits(ctx), got, want)
			o.Detail = detail{Family: "F", Template: srcDoc, Context: ctxLits(ctx), Got: got, Want: want,
				Extra: map[string]interface{}{"render": stepName, "mechanism": c.mech, "case": c.caseKey()}}
		}
	}
	form := "one"
	if c.twice {
		form = "twice"
	}
	if c.nest {
		form = "nest"
	}
	o.Nontrivial = first.reent > 0
	o.Class = fmt.Sprintf("F:%c:%s:alt%v:deep%d:%s", c.shape, c.mech, c.alt, first.deep, form)
	return o
}

func runF(t *vlib.T) {
	n := 0
	fAllCases(t.Thorough(), func(c *fCase) {
		if t.Stopped() {
			return
		}
		n++
		if n%4096 == 0 {
			t.Progress()
		}
		t.Case(c.caseKey(), func() *vlib.Outcome { return fCaseRun(c) })
	})
}

func fCount(th bool) int {
	n := 0
	fAllCases(th, func(*fCase) { n++ })
	return n
}
