package main

import (
	"fmt"
	"strings"

	"verif/lib/vlib"
)

// Family K (round 7): the POSITION of a sequence-valued expression. The sequence of a for header
// is written as a filtered expression `<base>|<chain>`, where the base alone may have nothing to
// iterate (null, an undefined name, [], {}, '') while the filtered VALUE has (default([...]),
// default('ab'), merge([...])), or keeps what it had (sort, reverse, slice).
//
// Oracle (differential, no hand-written value, no filter semantics assumed): the loop
//
//	{% for x in <base>|<chain> %}body{% else %}E{% endfor %}
//
// must render exactly as the loop over a variable that was assigned the same expression first
//
//	{% set s = <base>|<chain> %}{% for x in s %}body{% else %}E{% endfor %}
//
// ("renders its body once per element ... and its else branch exactly when there is nothing to
// iterate" speaks about the sequence VALUE; family B already compares `for x in s` after a set with
// the reference model). What the filters yield is the business of other properties: when the twin
// itself does not render (filter rejects the base) the case is a don't-care.

type kBase struct {
	id, expr string
	empty    bool
}

var kBases = []kBase{
	{"null", "null", true},
	{"undef", "nosuch", true},
	{"cnil", "cn", true},
	{"elist", "[]", true},
	{"emap", "{}", true},
	{"estr", "''", true},
	{"celist", "cel", true},
	{"cemap", "cem", true},
	{"cestr", "ces", true},
	{"ctnil", "ctn", true}, // typed nil slice
	{"l1", "[7]", false},
	{"l2", "['a', 'b']", false},
	{"l3", "[3, 1, 2]", false},
	{"cl3", "cl", false},
	{"str", "'hé'", false},
}

var kFilters = []struct{ id, f string }{
	{"dl3", "default([1, 2, 3])"},
	{"dl1", "default(['z'])"},
	{"ds", "default('aé')"},
	{"de", "default([])"},
	{"dv", "default(cl)"},
	{"m2", "merge([4, 5])"},
	{"me", "merge([])"},
	{"sort", "sort"},
	{"rev", "reverse"},
	{"sl02", "slice(0, 2)"},
	{"sl1", "slice(1)"},
}

func kContext() map[string]interface{} {
	return map[string]interface{}{
		"cn":  nil,
		"cel": []interface{}{},
		"cem": map[string]interface{}{},
		"ces": "",
		"ctn": []int(nil),
		"cl":  []interface{}{30, 10, 20},
	}
}

func kMaxChain(th bool) int {
	if th {
		return 3
	}
	return 2
}

func kBoundsDoc(th bool) string {
	return fmt.Sprintf("%d bases (null, undefined name, nil / empty list / empty map / empty string as literal and as context value, typed nil slice, lists of 1..3 elements, a 2-character string) x every chain of 1..%d filters over %d filters "+
		"(default to a list / string / empty list / variable, merge, sort, reverse, slice) in the for header x {value, key+value header} x {else, no else} x {top level, inside a two-pass outer loop}, each against the same loop over a variable assigned the expression by set",
		len(kBases), kMaxChain(th), len(kFilters))
}

func runK(t *vlib.T) {
	th := t.Thorough()
	type chain struct{ id, src string }
	var chains []chain
	var rec func(id, src string, n int)
	rec = func(id, src string, n int) {
		if n > 0 {
			chains = append(chains, chain{id, src})
		}
		if n == kMaxChain(th) {
			return
		}
		for _, f := range kFilters {
			nid := f.id
			if id != "" {
				nid = id + "." + f.id
			}
			rec(nid, src+"|"+f.f, n+1)
		}
	}
	rec("", "", 0)
	// simplest first: by chain length
	for l := 1; l <= kMaxChain(th); l++ {
		for _, c := range chains {
			if strings.Count(c.src, "|") != l {
				continue
			}
			for _, b := range kBases {
				for _, hdr := range []string{"v", "kv"} {
					for _, els := range []string{"e", "n"} {
						for _, place := range []string{"top", "in"} {
							b, c, hdr, els, place := b, c, hdr, els, place
							key := "K/" + b.id + "/" + c.id + "/" + hdr + "/" + els + "/" + place
							t.Case(key, func() *vlib.Outcome {
								return kCase(b, c.src, hdr, els, place)
							})
						}
					}
				}
			}
		}
	}
}

func kCase(b kBase, chain, hdr, els, place string) *vlib.Outcome {
	expr := b.expr + chain
	head, tail := "x", ",{{ x }}]"
	if hdr == "kv" {
		head, tail = "k, x", ",{{ k }}={{ x }}]"
	}
	elsePart := ""
	if els == "e" {
		elsePart = "{% else %}EMPTY"
	}
	loop := func(seq string) string {
		return "{% for " + head + " in " + seq + " %}" + bBody + tail + elsePart + "{% endfor %}"
	}
	direct := loop(expr)
	twin := "{% set s = " + expr + " %}" + loop("s")
	if place == "in" {
		wrap := func(s string) string {
			return "{% for o in ['p', 'q'] %}<{{ o }}{{ loop.index }}:" + s + ">{% endfor %}"
		}
		direct, twin = wrap(direct), wrap(twin)
	}
	direct, twin = "A"+direct+"Z", "A"+twin+"Z"
	ctx := kContext()
	want, perr := render(twin, ctx)
	if perr || strings.HasPrefix(want, "RENDER-ERROR: ") {
		// the filter chain does not accept this base: not a question of control flow
		return &vlib.Outcome{Nontrivial: false, Class: "K:twin-rejected", Counters: map[string]int64{"renders": 1}}
	}
	got, _ := render(direct, kContext())
	obs := "iter"
	if !strings.Contains(want, "[") {
		obs = "nothing"
	}
	bc := "nonempty"
	if b.empty {
		bc = "empty"
	}
	o := verdict("K", direct, ctx, got, want, b.empty || obs == "nothing", "K:base-"+bc+":"+obs+":"+hdr+":"+place)
	o.Counters["renders"] = 2
	if o.Violation == "" {
		// reference model of the for statement on the shape alone (no filter semantics needed): the
		// loop printed either its else branch / nothing, or n >= 1 iterations whose seven counters are
		// those of positions 0..n-1 of a sequence of length n
		if why := kShape(got, els, place); why != "" {
			o.Violation = fmt.Sprintf("template %q with context %v rendered %q: %s", direct, ctxLits(ctx), got, why)
			o.Detail = detail{Family: "K", Template: direct, Context: ctxLits(ctx), Got: got, Want: "(shape) " + why}
		}
		return o
	}
	if o.Violation != "" {
		o.Violation = fmt.Sprintf("for over a filtered expression renders differently from the same loop over a variable assigned that expression (%q): %s", twin, o.Violation)
	}
	return o
}

// kShape checks one rendered K program against the statement's for semantics without knowing the
// element values: "" when the output is a possible rendering, else the reason it is not.
func kShape(out, els, place string) string {
	if !strings.HasPrefix(out, "A") || !strings.HasSuffix(out, "Z") {
		return "text around the loop is missing"
	}
	out = out[1 : len(out)-1]
	var inners []string
	if place == "in" {
		for i, o := range []string{"p", "q"} {
			pre := "<" + o + itoa(i+1) + ":"
			if !strings.HasPrefix(out, pre) {
				return "pass " + itoa(i+1) + " of the outer loop does not start with " + pre
			}
			out = out[len(pre):]
			j := strings.Index(out, ">")
			if j < 0 {
				return "pass of the outer loop is not closed"
			}
			inners = append(inners, out[:j])
			out = out[j+1:]
		}
		if out != "" {
			return "text after the second pass of the outer loop: " + out
		}
		if inners[0] != inners[1] {
			return "the two passes of the outer loop render the inner loop differently"
		}
	} else {
		inners = []string{out}
	}
	in := inners[0]
	if in == "" {
		if els == "e" {
			return "neither the body nor the else branch was rendered"
		}
		return ""
	}
	if in == "EMPTY" {
		if els == "e" {
			return ""
		}
		return "an else branch the program does not have"
	}
	if !strings.HasSuffix(in, "]") {
		return "the output does not end with an iteration (body and else branch both rendered?)"
	}
	its := strings.Split(in[:len(in)-1], "]")
	for i, it := range its {
		if !strings.HasPrefix(it, bIter(i, len(its))+",") {
			return fmt.Sprintf("iteration %d of %d printed %q, its counters must be %q", i+1, len(its), it+"]", bIter(i, len(its)))
		}
	}
	return ""
}
