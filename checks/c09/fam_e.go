package main

import (
	"fmt"
	"strings"

	"verif/lib/vlib"
)

// Family E: the first assignment of a new variable (one the context does not define) happens below
// a chain of enclosing constructs, on a path that is always executed; the variable is read right
// after the assignment, after every enclosing construct closes, and — inside loop bodies — at the
// start of every later iteration. The statement: "visible to everything rendered after it in the
// same template, including later iterations".
//
// wrappers: T  {% if 1 %} X {% endif %}
//           L  {% if 0 %}no{% else %} X {% endif %}
//           I  {% if 0 %}no{% elseif 1 %} X {% else %}no{% endif %}
//           F  {% for v<d> in ['p', 'q', 'r'] %} later-iteration read; X {% endfor %}
//           N  {% for v<d> in [] %}no{% else %} X {% endfor %}
// assigned value: 's' ~ the values of all enclosing F loops (so it differs between iterations)

const eWrappers = "TLIFN"

func eMaxDepth(th bool) int {
	if th {
		return 5
	}
	return 4
}

var eElems = []string{"p", "q", "r"}

type eMachine struct {
	n    string
	vals []string
	out  strings.Builder
}

// eBuild returns the source of body(i) and runs the reference on it
func eSrc(chain string, i, d int, vars []string) string {
	read := "({{ n }})"
	if i == len(chain) {
		e := "'s'"
		for _, v := range vars {
			e += " ~ " + v
		}
		return "{% set n = " + e + " %}" + read
	}
	var s string
	switch chain[i] {
	case 'T':
		s = "{% if 1 %}" + eSrc(chain, i+1, d, vars) + "{% endif %}"
	case 'L':
		s = "{% if 0 %}no{% else %}" + eSrc(chain, i+1, d, vars) + "{% endif %}"
	case 'I':
		s = "{% if 0 %}no{% elseif 1 %}" + eSrc(chain, i+1, d, vars) + "{% else %}no{% endif %}"
	case 'F':
		v := "v" + itoa(d+1)
		s = "{% for " + v + " in ['p', 'q', 'r'] %}{% if loop.first %}{% else %}<{{ n }}>{% endif %}" +
			eSrc(chain, i+1, d+1, append(append([]string{}, vars...), v)) + "{% endfor %}"
	case 'N':
		s = "{% for v" + itoa(d+1) + " in [] %}no{% else %}" + eSrc(chain, i+1, d, vars) + "{% endfor %}"
	}
	return s + read
}

func (m *eMachine) run(chain string, i int) {
	if i == len(chain) {
		m.n = "s" + strings.Join(m.vals, "")
		m.out.WriteString("(" + m.n + ")")
		return
	}
	switch chain[i] {
	case 'T', 'L', 'I', 'N':
		m.run(chain, i+1)
	case 'F':
		for k, e := range eElems {
			if k > 0 {
				m.out.WriteString("<" + m.n + ">")
			}
			m.vals = append(m.vals, e)
			m.run(chain, i+1)
			m.vals = m.vals[:len(m.vals)-1]
		}
	}
	m.out.WriteString("(" + m.n + ")")
}

func runE(t *vlib.T) {
	for depth := 1; depth <= eMaxDepth(t.Thorough()); depth++ {
		var rec func(chain string)
		rec = func(chain string) {
			if len(chain) < depth {
				for _, w := range eWrappers {
					rec(chain + string(w))
				}
				return
			}
			t.Case("E/"+chain, func() *vlib.Outcome {
				src := eSrc(chain, 0, 0, nil)
				m := &eMachine{}
				m.run(chain, 0)
				ctx := map[string]interface{}{}
				got, _ := render(src, ctx)
				loops := strings.Count(chain, "F")
				return verdict("E", src, ctx, got, m.out.String(), true, fmt.Sprintf("E:depth%d:loops%d", len(chain), loops))
			})
			// round 4: the "new" variable is not in the context but is an engine global (never read
			// before the assignment, so its old value must not appear anywhere)
			t.Case("E/g/"+chain, func() *vlib.Outcome {
				src := eSrc(chain, 0, 0, nil)
				m := &eMachine{}
				m.run(chain, 0)
				globals := map[string]interface{}{"n": "GLOBAL"}
				ctx := map[string]interface{}{}
				got := hRender(globals, ctx, nil, src)
				loops := strings.Count(chain, "F")
				return hVerdict("E", src, nil, globals, ctx, got, m.out.String(), true, fmt.Sprintf("E:g:depth%d:loops%d", len(chain), loops))
			})
		}
		rec("")
	}
}
