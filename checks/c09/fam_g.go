package main

import (
	"fmt"
	"strings"

	"github.com/semihalev/twig"

	"verif/lib/vlib"
)

// Family G: BODY LAYOUTS of one loop — where the reads of loop.* stand relative to other statements.
//
// In families B, C and F every loop body starts by printing the counters. The statement says the
// counters are consistent with the element's position in EVERY iteration, whatever else the body
// does and wherever in the body they are read. Added after the seeded change C09-F (a parse-time
// analysis "does the body read loop?" that stops at the first top-level set and then skips the
// bookkeeping) was missed.
//
// A layout is a list of tokens:
//
//	s     {% set acc = acc ~ v %}           (with a key,value header: acc ~ k ~ v)
//	d     {% do cnt = cnt + 1 %}            (the assignment form of do)
//	x     {% do cnt %}                      (plain do; thorough tier only)
//	R     [<read of loop.* in the case's read form>]
//	T{…}  {% if 1 %}…{% endif %}            E{…}  {% if 0 %}{% else %}…{% endif %}
//
// Every layout of the token bound is generated, so set / do statements (which never mention loop)
// stand before, between and after the reads, at the top level of the body and inside an if, and the
// only read may sit inside an if. The read form — one per case, used for every R — says WHERE in a
// statement the read sits: all seven counters, each counter alone, the condition of an if, a ?:, the
// value of a set, the header of an inner loop (range(loop.index, loop.length), a list literal), the
// `with` value of an include (with and without only), the argument of a macro call.
//
// acc and cnt are printed after endfor: every set / do of every iteration must have taken effect.

type gTok struct {
	kind byte // 's', 'd', 'x', 'R', 'T', 'E'
	sub  []gTok
}

func gEnc(sb *strings.Builder, l []gTok) {
	for _, t := range l {
		sb.WriteByte(t.kind)
		if t.kind == 'T' || t.kind == 'E' {
			sb.WriteByte('{')
			gEnc(sb, t.sub)
			sb.WriteByte('}')
		}
	}
}

// gLayouts: every layout of exactly n tokens (a wrapper counts as one token plus its content, which
// is never empty) with if-nesting <= depth over the given leaves.
func gLayouts(n, depth int, leaves string, memo map[[2]int][][]gTok) [][]gTok {
	if n == 0 {
		return [][]gTok{nil}
	}
	k := [2]int{n, depth}
	if r, ok := memo[k]; ok {
		return r
	}
	var r [][]gTok
	for first := 1; first <= n; first++ {
		var items []gTok
		if first == 1 {
			for i := 0; i < len(leaves); i++ {
				items = append(items, gTok{kind: leaves[i]})
			}
		} else if depth > 0 {
			for _, w := range []byte{'T', 'E'} {
				for _, sub := range gLayouts(first-1, depth-1, leaves, memo) {
					items = append(items, gTok{kind: w, sub: sub})
				}
			}
		}
		rest := gLayouts(n-first, depth, leaves, memo)
		for _, it := range items {
			for _, tl := range rest {
				l := make([]gTok, 0, 1+len(tl))
				l = append(append(l, it), tl...)
				r = append(r, l)
			}
		}
	}
	memo[k] = r
	return r
}

// gShape: reads / other statements in the layout, and whether a set or do stands before the first read
// (at the top level of the body, or only nested in an if).
type gShape struct {
	reads, others     int
	topBefore, before bool // a top-level / any set-or-do precedes the first read in document order
	nestedRead        bool // some read sits inside an if
}

func gShapeOf(l []gTok) gShape {
	var s gShape
	var walk func(l []gTok, depth int)
	walk = func(l []gTok, depth int) {
		for _, t := range l {
			switch t.kind {
			case 'R':
				s.reads++
				if depth > 0 {
					s.nestedRead = true
				}
			case 'T', 'E':
				walk(t.sub, depth+1)
			default:
				s.others++
				if s.reads == 0 {
					s.before = true
					if depth == 0 {
						s.topBefore = true
					}
				}
			}
		}
	}
	walk(l, 0)
	return s
}

// ---- read forms

type gForm struct {
	id   string
	src  string
	want func(i, n int) string
}

func fl(c bool, t, f string) string {
	if c {
		return t
	}
	return f
}

var gForms = []gForm{
	{"all", bBody[1:], func(i, n int) string { return bIter(i, n)[1:] }},
	{"index", "{{ loop.index }}", func(i, n int) string { return itoa(i + 1) }},
	{"index0", "{{ loop.index0 }}", func(i, n int) string { return itoa(i) }},
	{"revindex", "{{ loop.revindex }}", func(i, n int) string { return itoa(n - i) }},
	{"revindex0", "{{ loop.revindex0 }}", func(i, n int) string { return itoa(n - i - 1) }},
	{"first", "{% if loop.first %}F{% else %}f{% endif %}", func(i, n int) string { return fl(i == 0, "F", "f") }},
	{"last", "{% if loop.last %}L{% else %}l{% endif %}", func(i, n int) string { return fl(i == n-1, "L", "l") }},
	{"length", "{{ loop.length }}", func(i, n int) string { return itoa(n) }},
	{"forrange", "{% for w in range(loop.index, loop.length) %}{{ w }},{% endfor %}", func(i, n int) string {
		s := ""
		for w := i + 1; w <= n; w++ {
			s += itoa(w) + ","
		}
		return s
	}},
	{"forlist", "{% for w in [loop.index0, loop.revindex0] %}{{ w }},{% endfor %}", func(i, n int) string { return itoa(i) + "," + itoa(n-i-1) + "," }},
	{"incwith", "{% include 'part' with {'i': loop.index, 'n': loop.length} %}", func(i, n int) string { return "<" + itoa(i+1) + "/" + itoa(n) + ">" }},
	{"incwithonly", "{% include 'part' with {'i': loop.index, 'n': loop.length} only %}", func(i, n int) string { return "<" + itoa(i+1) + "/" + itoa(n) + ">" }},
	{"macroarg", "{{ _self.show(loop.revindex, loop.last) }}", func(i, n int) string { return "<" + itoa(n-i) + fl(i == n-1, "L", "l") + ">" }},
	{"ternary", "{{ loop.first ? 'F' : 'f' }}", func(i, n int) string { return fl(i == 0, "F", "f") }},
	{"setvalue", "{% set z = loop.index %}{{ z }}", func(i, n int) string { return itoa(i + 1) }},
}

const gPartSrc = "<{{ i }}/{{ n }}>"
const gMacroSrc = "{% macro show(i, l) %}<{{ i }}{% if l %}L{% else %}l{% endif %}>{% endmacro %}"

// ---- sequences

type gSeq struct {
	id, kind, expr string
	ctx            map[string]interface{}
	elems          []string
}

func gSeqs(th bool) []gSeq {
	qs := []gSeq{
		{"xs3", "list", "xs", map[string]interface{}{"xs": []interface{}{"p", "q", "r"}}, []string{"p", "q", "r"}},
		{"str2", "string", "str", map[string]interface{}{"str": "hé"}, []string{"h", "é"}},
		{"rng3", "range", "range(3, 1, -1)", nil, []string{"3", "2", "1"}},
		{"lit1", "literal", "['o']", nil, []string{"o"}},
	}
	if th {
		qs = append(qs,
			gSeq{"ti2", "typed", "ys", map[string]interface{}{"ys": []int{10, 20}}, []string{"10", "20"}},
			gSeq{"ar4", "array", "ar", map[string]interface{}{"ar": [4]string{"a", "b", "c", "d"}}, []string{"a", "b", "c", "d"}},
			gSeq{"sl3", "string", "'a日😀'", nil, []string{"a", "日", "😀"}},
			gSeq{"rv5", "range", "range(lo, hi)", map[string]interface{}{"lo": -2, "hi": 2}, []string{"-2", "-1", "0", "1", "2"}},
		)
	}
	return qs
}

// wraps: 0 top level; 1 top level, key,value header; 2 inside an outer two-pass loop that prints its
// own counters before and after; 3 inside an outer two-pass loop whose own body is `set, inner loop,
// counters` (the outer loop's only read stands after a top-level set and after the inner loop)
const gWraps = 4

// bounds: one entry per layout size (number of tokens)
type gBound struct {
	tokens, depth int
	leaves        string
}

func gBounds(th bool) []gBound {
	if th {
		return []gBound{{1, 2, "sdxR"}, {2, 2, "sdxR"}, {3, 2, "sdxR"}, {4, 2, "sdxR"}, {5, 2, "sdR"}}
	}
	return []gBound{{1, 1, "sdR"}, {2, 1, "sdR"}, {3, 1, "sdR"}, {4, 1, "sdR"}}
}

func gBoundsDoc(th bool) string {
	var fs, qs, bs []string
	for _, f := range gForms {
		fs = append(fs, f.id)
	}
	for _, q := range gSeqs(th) {
		qs = append(qs, q.expr)
	}
	for _, b := range gBounds(th) {
		bs = append(bs, fmt.Sprintf("%d tokens over {%s} with if-nesting <= %d", b.tokens, b.leaves, b.depth))
	}
	return "body layouts of one loop: every list of tokens (s = set acc = acc ~ v, d = do cnt = cnt + 1, x = do cnt, R = read of loop.*, plus if 1 {...} and if 0 else {...} around a non-empty sub-list, counted as one token) of " +
		strings.Join(bs, "; ") + ", so set/do statements that do not mention loop stand before, between and after the reads, at the top level of the body and inside an if; x read form {" + strings.Join(fs, ", ") +
		"} (where in a statement the read sits; layouts without a read once) x sequences {" + strings.Join(qs, ", ") +
		"} x {top level, key+value header, inside an outer loop printing its counters around it, inside an outer loop whose body is set / inner loop / counters}; acc and cnt printed after endfor"
}

// ---- printer and reference

func gBodySrc(sb *strings.Builder, l []gTok, f *gForm, key bool) {
	for _, t := range l {
		switch t.kind {
		case 's':
			if key {
				sb.WriteString("{% set acc = acc ~ k ~ v %}")
			} else {
				sb.WriteString("{% set acc = acc ~ v %}")
			}
		case 'd':
			sb.WriteString("{% do cnt = cnt + 1 %}")
		case 'x':
			sb.WriteString("{% do cnt %}")
		case 'R':
			sb.WriteString("[" + f.src + "]")
		case 'T':
			sb.WriteString("{% if 1 %}")
			gBodySrc(sb, t.sub, f, key)
			sb.WriteString("{% endif %}")
		case 'E':
			sb.WriteString("{% if 0 %}{% else %}")
			gBodySrc(sb, t.sub, f, key)
			sb.WriteString("{% endif %}")
		}
	}
}

type gState struct {
	acc string
	cnt int
	out strings.Builder
}

func (st *gState) body(l []gTok, f *gForm, key bool, i, n int, elem string) {
	for _, t := range l {
		switch t.kind {
		case 's':
			if key {
				st.acc += itoa(i)
			}
			st.acc += elem
		case 'd':
			st.cnt++
		case 'R':
			st.out.WriteString("[" + f.want(i, n) + "]")
		case 'T', 'E':
			st.body(t.sub, f, key, i, n, elem)
		}
	}
}

func gCase(q gSeq, wrap int, f *gForm, l []gTok) (src string, ctx map[string]interface{}, want string) {
	ctx = map[string]interface{}{"acc": "", "cnt": 0}
	for k, v := range q.ctx {
		ctx[k] = v
	}
	key := wrap == 1
	var sb strings.Builder
	if f.id == "macroarg" {
		sb.WriteString(gMacroSrc)
	}
	hdr := "v"
	if key {
		hdr = "k, v"
	}
	var body strings.Builder
	gBodySrc(&body, l, f, key)
	loop := "<{% for " + hdr + " in " + q.expr + " %}" + body.String() + "{% endfor %}>"
	outerP := "(" + bBody + ":{{ o }}])"
	switch wrap {
	case 0, 1:
		sb.WriteString(loop)
	case 2:
		sb.WriteString("{% for o in ['p', 'q'] %}" + outerP + loop + outerP + "{% endfor %}")
	case 3:
		sb.WriteString("{% for o in ['p', 'q'] %}{% set acc = acc ~ o %}" + loop + outerP + "{% endfor %}")
	}
	sb.WriteString("|{{ acc }}|{{ cnt }}")

	st := &gState{}
	inner := func() {
		st.out.WriteByte('<')
		for i, e := range q.elems {
			st.body(l, f, key, i, len(q.elems), e)
		}
		st.out.WriteByte('>')
	}
	switch wrap {
	case 0, 1:
		inner()
	default:
		for i, o := range []string{"p", "q"} {
			p := "(" + bIter(i, 2) + ":" + o + "])"
			if wrap == 2 {
				st.out.WriteString(p)
			} else {
				st.acc += o
			}
			inner()
			st.out.WriteString(p)
		}
	}
	st.out.WriteString("|" + st.acc + "|" + itoa(st.cnt))
	return sb.String(), ctx, st.out.String()
}

func gRender(src string, ctx map[string]interface{}) string {
	e := twig.New()
	if err := e.RegisterString("part", gPartSrc); err != nil {
		return "PARSE-ERROR (part): " + err.Error()
	}
	if err := e.RegisterString("t", src); err != nil {
		return "PARSE-ERROR: " + err.Error()
	}
	res, err := e.Render("t", ctx)
	if err != nil {
		return "RENDER-ERROR: " + err.Error() + " (partial output " + fmt.Sprintf("%q", res) + ")"
	}
	return res
}

// gAll enumerates the family in a fixed order, simplest layouts first.
func gAll(th bool, emit func(key string, q gSeq, wrap int, f *gForm, l []gTok, sh gShape)) {
	memos := map[string]map[[2]int][][]gTok{}
	seqs := gSeqs(th)
	for _, b := range gBounds(th) {
		memo := memos[b.leaves]
		if memo == nil {
			memo = map[[2]int][][]gTok{}
			memos[b.leaves] = memo
		}
		for _, l := range gLayouts(b.tokens, b.depth, b.leaves, memo) {
			sh := gShapeOf(l)
			var eb strings.Builder
			gEnc(&eb, l)
			enc := eb.String()
			for fi := range gForms {
				if sh.reads == 0 && fi > 0 { // the read form does not appear in the program
					break
				}
				f := &gForms[fi]
				for _, q := range seqs {
					for wrap := 0; wrap < gWraps; wrap++ {
						emit("G/"+q.id+"/w"+itoa(wrap)+"/"+f.id+"/"+enc, q, wrap, f, l, sh)
					}
				}
			}
		}
	}
}

func runG(t *vlib.T) {
	n := 0
	gAll(t.Thorough(), func(key string, q gSeq, wrap int, f *gForm, l []gTok, sh gShape) {
		if t.Stopped() {
			return
		}
		n++
		if n%4096 == 0 {
			t.Progress()
		}
		t.Case(key, func() *vlib.Outcome {
			src, ctx, want := gCase(q, wrap, f, l)
			got := gRender(src, ctx)
			pos := "noread"
			switch {
			case sh.reads == 0:
			case sh.topBefore:
				pos = "topset-first"
			case sh.before:
				pos = "nestedset-first"
			default:
				pos = "read-first"
			}
			cls := fmt.Sprintf("G:%s:%s:nested%v", f.id, pos, sh.nestedRead)
			return verdict("G", src, ctx, got, want, sh.reads > 0 && sh.others > 0, cls)
		})
	})
}

func gCount(th bool) int {
	n := 0
	gAll(th, func(string, gSeq, int, *gForm, []gTok, gShape) { n++ })
	return n
}
