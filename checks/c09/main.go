// C09 — if, for and set have their defined control-flow meaning.
//
// Bounded-exhaustive enumeration of nine families of programs, each rendered on a fresh engine of
// the real implementation and compared with a small reference interpreter transcribed from the
// property statement:
//
//	A  if / elseif / else chains whose conditions are every value class (context values of every
//	   Go type the statement names, and their literal spellings)            -> fam_a.go
//	B  one for loop over every sequence inside the bound (lists of every length and element type,
//	   strings over a multi-byte alphabet, ranges over a grid of start/end/step), printing all seven
//	   loop.* members plus key and value at every position                   -> fam_b.go
//	C  every statement tree up to a size bound over {set, if/elseif/else, for/else}, with a probe of
//	   all observable state (loop.*, every enclosing loop's key/value, the set variables) at the
//	   start of every body and after every statement                         -> fam_c.go
//	D  every chain of assignments up to a length bound, in the set form and in the
//	   `do name = expr` form                                                 -> fam_d.go
//	E  a first assignment to a new variable below every chain of enclosing constructs up to a
//	   depth bound, read after every enclosing construct closes and by later iterations -> fam_e.go
//	F  re-entrant loops: the same for node active several times at once (a template including
//	   itself from its for body, a macro calling itself through _self, a function rendering the
//	   template again), all seven counters printed before and after the inner activation -> fam_f.go
//	G  body layouts of one loop: every list of set / do statements (not mentioning loop), reads of
//	   loop.* and ifs around them up to a token bound — reads before, between and after the other
//	   statements, at the top level and nested — times where in a statement the read sits -> fam_g.go
//
//	H  assignments under an outer definition of the same name: chains of set / do assignments of
//	   null, undefined, 0, '', false, [], a string and copies to x / y, and loops whose value or key
//	   variable is x over lists with null elements, while x / y are also engine globals, context
//	   variables, caller variables of a macro, macro parameters or include-with values; probed by
//	   if / is null / is defined / print / a copying set after every statement and in later
//	   iterations                                                            -> fam_h.go
//
//	K  the for-header sequence as a filtered expression base|chain whose base may be empty while the
//	   filtered value is not, against the same loop over a variable assigned by set -> fam_k.go
//
//	I  one for loop over lists whose Go element type is an interface but which are not []interface{}
//	   (named list type, slice of a named interface, [N]interface{}, []fmt.Stringer, []error), in the
//	   placements of family B and as elements of an outer list; also as if conditions  -> fam_i.go
//
// Family C is printed a second time with loop.* read only at the end of every loop-context body
// (keys CL/…, and CD/… with the sets in the do form)                       -> fam_c.go
package main

import (
	"fmt"
	"io"
	"os"
	"strings"

	"github.com/semihalev/twig"

	"verif/lib/vlib"
)

// render runs one template on a fresh engine through the exported API only.
func render(src string, ctx map[string]interface{}) (out string, parseErr bool) {
	e := twig.New()
	if err := e.RegisterString("t", src); err != nil {
		return "PARSE-ERROR: " + err.Error(), true
	}
	res, err := e.Render("t", ctx)
	if err != nil {
		return "RENDER-ERROR: " + err.Error() + " (partial output " + fmt.Sprintf("%q", res) + ")", false
	}
	return res, false
}

type detail struct {
	Family   string                 `json:"family"`
	Template string                 `json:"template"`
	Context  map[string]string      `json:"context_go_literals,omitempty"`
	Got      string                 `json:"got"`
	Want     string                 `json:"want"`
	Extra    map[string]interface{} `json:"extra,omitempty"`
}

func ctxLits(ctx map[string]interface{}) map[string]string {
	m := map[string]string{}
	for k, v := range ctx {
		m[k] = fmt.Sprintf("%#v", v)
	}
	return m
}

// verdict compares and builds the outcome.
func verdict(fam, src string, ctx map[string]interface{}, got, want string, nontrivial bool, class string) *vlib.Outcome {
	o := &vlib.Outcome{Nontrivial: nontrivial, Class: class, Counters: map[string]int64{"renders": 1}}
	if got != want {
		o.Violation = fmt.Sprintf("template %q with context %v: rendered %q, the statement requires %q", src, ctxLits(ctx), got, want)
		o.Detail = detail{Family: fam, Template: src, Context: ctxLits(ctx), Got: got, Want: want}
	}
	return o
}

func main() {
	if os.Getenv("C09_RENDER") != "" { // development aid: render stdin with the family C/D context
		b, _ := io.ReadAll(os.Stdin)
		ctx := cContext()
		ctx["c"] = "-"
		out, _ := render(strings.TrimRight(string(b), "\n"), ctx)
		fmt.Println(out)
		return
	}
	if os.Getenv("C09_COUNT") != "" {
		cCount(os.Getenv("C09_COUNT") == "thorough")
		return
	}
	vlib.Main(vlib.Spec{
		ID:    "C09",
		Level: "exploration",
		Rule: "every program of ten generated families inside the stated bounds is rendered on a fresh engine and compared with a reference interpreter " +
			"written from the property statement: (A) if/elseif/else chains over every value class as context value and as literal; (B) one for loop " +
			"(value or key,value header, with/without else, top level / inside an outer loop / over a variable assigned by set) over every list, string " +
			"and range of the bound, printing index, index0, revindex, revindex0, first, last, length, key and value at every position; (C) every statement " +
			"tree over {set, if, if/else, if/elseif[/else], for, for/else} up to the size bound with a full state probe at the start of every body and after every " +
			"statement, and the same trees of the smaller layers once more with loop.* printed only after the last statement of every body inside a loop (sets as set and as do name = expr), so that sets, ifs and inner loops precede the reads; (D) every chain of assignments up to the length bound as `set` and as `do name = expr`; (E) a variable first assigned below every chain of " +
			"taken if / else / elseif branches, loop bodies and for-else branches up to the depth bound, read after each enclosing construct and in later iterations; " +
			"(F) re-entrant loops: a loop body that reaches its own for node again (include of the same template, include ... only, recursive macro via _self, a registered function that renders the template again; directly or through a second identical template/macro) " +
			"over per-level lists of every length with a depth guard and over every tree of nested lists of the bound, printing all seven counters, key and value before and after the inner activation, three renders per case on one engine; " +
			"(G) body layouts of one loop: every list of tokens up to the bound over {set acc = acc ~ v, do cnt = cnt + 1, read of loop.*, if 1 {...}, if 0 else {...}} x the place of the read in its statement " +
			"(all seven counters, one counter, if condition, ?:, set value, inner loop header, include-with value, macro argument) x sequence x placement, the set variables printed after endfor; " +
			"(H) assignments under an outer definition of the same name: every chain of assignments up to the length bound over {null, a null context value, an undefined name, none, 0, '', false, [], 'w', x = y, y = x, y = null, y = 'v'} as set and as do, and (HL) one loop with x as value / key variable over every list of the bound with null elements and `y = x` in its body, " +
			"x where the body stands (template, block, macro body, macro body after caller sets, macro parameters, include, include only, include with) x (H) plain / taken if / taken else / second pass of a three-pass loop x what else defines x, y, z (nothing, engine globals, context variables, both) x how the variable is observed (if, is null, is defined, print, copy by set, all), every determined variable probed before the chain, after every statement, after the enclosing construct and in every later iteration; " +
			"(I) one for loop over lists carried by Go slices / arrays whose element type is an interface but which are not []interface{} (a named list type, a slice of a named empty interface, [N]interface{}, []fmt.Stringer, []error, nil slices of these; every length of the bound) in the placements of (B) and as the elements of an outer list walked by an outer loop, all seven counters, key and value at every position, else exactly when empty, and the same lists as if conditions; " +
			"(K) the for-header sequence written as a filtered expression base|chain (base: null, undefined, empty list / map / string, small lists; chain: default, merge, sort, reverse, slice up to the chain bound) must render exactly as the same loop over a variable assigned base|chain by set. " +
			"Non-trivial = A: the chain has at least two " +
			"alternatives (elseif or else); B and I: the sequence has at least two elements, or is empty with an else branch (I as an element of an outer list / as an if condition: always); C: the reference execution enters a " +
			"loop body or selects among at least two branches; D: a later assignment or print reads an earlier assignment; E: always (every read follows the assignment across a construct boundary); " +
			"F: a loop body is entered while an iteration of a loop of an outer level is still being rendered; G: the body has at least one read of loop.* and at least one set/do; K: the base alone has nothing to iterate, or the filtered value has nothing to iterate; H/HL: a name the program assigns is also defined outside the body (global, context variable, caller set, macro parameter, include-with value)",
		Assumptions: []string{
			"bounds: see coverage.bounds; programs larger than the size bound, lists longer than the length bound and ranges outside the grid are not explored",
			"not demanded (statement silent): loop.* and loop variables after endfor and inside a for-else branch; range() whose step sign contradicts end-start, one-argument range; " +
				"undefined variables as conditions; maps as sequences (except the empty map, which has nothing to iterate); pointers and NaN as conditions; pointers to slices / arrays as sequences; combining characters / invalid UTF-8 in strings",
			"printing of integers and strings, the ~ operator on them, + on integers and the ?: used by the family-C probe are trusted (property C08)",
			"family F trusts include ... with {...} [only], macro parameters, _self.macro(...) calls and function calls to hand the stated values to the next level (properties about includes/macros/functions); integer d + 1 and d < N (C08); family G trusts the same for its include-with / macro-argument read forms and range(i, n) with i <= n for its inner-loop-header form",
			"a `do name = expr` that the parser rejects is a don't-care; one that is accepted must assign like set",
			"family H trusts Engine.AddGlobal and the render context to define the names before the first assignment (a context variable wins over a global of the same name), macro parameters and include ... with {...} to hand over the stated values, `is null` / `is defined` as tests, and a block of a non-extending template to render in place; it reads `x is defined` after an assignment of null (or a loop binding to a null element) as true — an assigned variable is a defined one; " +
				"the value of an undefined name (nosuch, none) is only taken to be null-or-empty (falsy, prints nothing), its is-null test is not compared; a variable of the caller inside a macro / included template before its first assignment there is not probed",
		},
		QuickDeadline:    150,
		ThoroughDeadline: 840,
		Run: func(t *vlib.T) {
			// development aid for attributing a detection: C09_FAMILIES=G,CL runs only those families
			// (never set by run.sh; unset = everything)
			only := os.Getenv("C09_FAMILIES")
			on := func(f string) bool {
				if only == "" {
					return true
				}
				for _, x := range strings.Split(only, ",") {
					if x == f {
						return true
					}
				}
				return false
			}
			for _, fam := range []struct {
				id  string
				run func(*vlib.T)
			}{{"A", runA}, {"B", runB}, {"I", runI}, {"K", runK}, {"G", runG}, {"D", runD}, {"E", runE}, {"H", runH}, {"HL", runHL}, {"F", runF}, {"CL", runCLate}, {"C", runC}} {
				if on(fam.id) {
					fam.run(t)
				}
			}
		},
		Extra: func(tier string, cov map[string]interface{}) {
			cov["bounds"] = boundsDoc(tier)
		},
	})
}

func boundsDoc(tier string) map[string]interface{} {
	th := tier == "thorough"
	return map[string]interface{}{
		"A": fmt.Sprintf("%d condition atoms (%d context values, %d literals); chains of 1 and 2 conditions over all atoms, of 3 conditions over %s; each with and without else",
			len(atoms()), nCtxAtoms(), len(atoms())-nCtxAtoms(), map[bool]string{false: "a 14-atom representative subset", true: "all atoms"}[th]) + "; the 1-condition chains also with the context values supplied as engine globals",
		"B": bBoundsDoc(th),
		"C": cBoundsDoc(th) + " Plus the " + cLateBoundsDoc(th) + ".",
		"G": gBoundsDoc(th),
		"I": iBoundsDoc(th),
		"K": kBoundsDoc(th),
		"E": fmt.Sprintf("every chain of 1..%d enclosing constructs from {if (taken), if/else (else taken), if/elseif (elseif taken), for over 3 elements, for over nothing with else} around the first assignment of a new variable, which is defined nowhere else or is also an engine global", eMaxDepth(th)),
		"F": fBoundsDoc(th),
		"H": hBoundsDoc(th),
		"D": fmt.Sprintf("assignment chains of length <= %d over %d assignment statements, set form and do form, the three variables starting as context variables / as engine globals / as both (globals holding decoys)", dMaxLen(th), len(dAlphabet)),
	}
}

func itoa(i int) string { return fmt.Sprintf("%d", i) }

func join(ss []string) string { return strings.Join(ss, "") }
