package main

import (
	"fmt"
	"sort"
	"strings"

	"github.com/semihalev/twig"

	"verif/lib/vlib"
)

// Family H: ASSIGNMENTS UNDER AN OUTER DEFINITION OF THE SAME NAME — null above all.
//
// In families A–G every variable a program assigns lives in exactly one place (the render context of
// a fresh engine), and the values assigned are never null. The statement says "a set makes the
// assigned value visible to everything rendered after it" and "a for loop renders its body ... with
// the value (and key) variable bound" for every value — also when the value is null (or another falsy
// value) and the same name can ALSO be resolved somewhere else: an engine global (AddGlobal), a
// context variable, a variable of the caller of a macro, a macro parameter, a variable handed to an
// included template. Then the assigned value, not the outer one, is what later code must see.
// Added after the seeded change C09-G (SetVariable(name, nil) removes the entry, so the outer
// definition shows through) was missed.
//
// H  — chains of assignments to x / y over the value classes {null, a null context value, an
//      undefined name, 0, '', false, [], 'w', copy of the other variable}, set form and do form,
//      with a probe of every determinate variable before the chain and after every statement;
// HL — one loop whose value (or key) variable is x over every list of the bound over
//      {null, 'a', 0[, '']}, with `y = x` inside the body.
//
// Dimensions shared by both:
//   layer  n  nothing else defines the names       g  engine globals x='G' y='H' z='Z'
//          c  context variables x='C' y='D' z='E'  b  both (the context wins before the assignment)
//   outer  top   the template itself                blk   inside {% block b %} of the template
//          mac   body of a macro called via _self   macs  the same, the caller has set x, y, z before
//          macp  the same, x and y are PARAMETERS   inc   body of an included template
//          inco  include ... only                   incw  include ... with {'x': 'W', 'y': 'V'}
//   inner  (H only) plain / inside a taken if / inside a taken else / inside the second iteration
//          of a three-pass loop that probes at the start and end of every iteration (later
//          iterations must see the assignment) — each followed by a probe after the construct
//   probe  how the variable is observed: if / is null / is defined / printed / copied by a set and
//          the copy tested / if + is null + is defined
//
// What the statement does not determine is not probed: a name that nothing defined yet (undefined
// variables as conditions are excluded, see NOTES) and, inside a macro or an included template, a
// name before its first assignment there (whether the caller's variables are visible is not this
// property's subject) — such a variable is OPEN: left out of the probes, and chains that read it are
// not generated. The value of an undefined name (nosuch, none) is only taken to be "null or the empty
// string": falsy, prints nothing, is defined once assigned; its is-null test is not compared.

type hVal struct {
	kind byte // 'o' open, 'n' null, 'u' value of an undefined name, 's' string, 'i' integer, 'f' false, 'l' empty list
	s    string
	n    int
}

var (
	hOpen  = hVal{kind: 'o'}
	hNull  = hVal{kind: 'n'}
	hUndef = hVal{kind: 'u'}
)

func hStr(s string) hVal { return hVal{kind: 's', s: s} }
func hInt(n int) hVal    { return hVal{kind: 'i', n: n} }

func (v hVal) truthy() bool {
	switch v.kind {
	case 's':
		return v.s != ""
	case 'i':
		return v.n != 0
	}
	return false
}

// printing false and a list is not this property's subject
func (v hVal) printable() bool { return v.kind != 'f' && v.kind != 'l' }

func (v hVal) print() string {
	switch v.kind {
	case 's':
		return v.s
	case 'i':
		return itoa(v.n)
	}
	return ""
}

// ---- dimensions

var (
	hOuters = []string{"top", "blk", "mac", "macs", "macp", "inc", "inco", "incw"}
	hInners = []string{"plain", "ift", "ife", "for"}
	hLayers = []string{"n", "g", "c", "b"}
	hProbes = []string{"all", "if", "null", "def", "print", "copy"}
	hForms  = []string{"set", "do"}
)

type hStmt struct {
	id, target, expr string
	read             string // the variable whose value is copied ("" = a constant)
	val              hVal
	ctxNull          bool // nv: a context variable holding nil; only the template itself is sure to see it
}

var hAlphabet = []hStmt{
	{id: "x=null", target: "x", expr: "null", val: hNull},
	{id: "x=nv", target: "x", expr: "nv", val: hNull, ctxNull: true},
	{id: "x=nosuch", target: "x", expr: "nosuch", val: hUndef},
	{id: "x=none", target: "x", expr: "none", val: hUndef},
	{id: "x=0", target: "x", expr: "0", val: hInt(0)},
	{id: "x=''", target: "x", expr: "''", val: hStr("")},
	{id: "x=false", target: "x", expr: "false", val: hVal{kind: 'f'}},
	{id: "x=[]", target: "x", expr: "[]", val: hVal{kind: 'l'}},
	{id: "x='w'", target: "x", expr: "'w'", val: hStr("w")},
	{id: "x=y", target: "x", expr: "y", read: "y"},
	{id: "y=x", target: "y", expr: "x", read: "x"},
	{id: "y=null", target: "y", expr: "null", val: hNull},
	{id: "y='v'", target: "y", expr: "'v'", val: hStr("v")},
}

func hMaxLen(th bool) int {
	if th {
		return 3
	}
	return 2
}

// hInit: what the statement (plus the trusted hand-over mechanisms) determines about x, y, z at the
// start of the body.
func hInit(outer, layer string) [3]hVal {
	switch outer {
	case "top", "blk":
		switch layer {
		case "g":
			return [3]hVal{hStr("G"), hStr("H"), hStr("Z")}
		case "c", "b":
			return [3]hVal{hStr("C"), hStr("D"), hStr("E")}
		}
	case "macp":
		return [3]hVal{hStr("P"), hStr("Q"), hOpen}
	case "incw":
		return [3]hVal{hStr("W"), hStr("V"), hOpen}
	}
	return [3]hVal{hOpen, hOpen, hOpen}
}

func hEnv(layer string) (globals, ctx map[string]interface{}) {
	globals = map[string]interface{}{}
	ctx = map[string]interface{}{"nv": nil}
	if layer == "g" || layer == "b" {
		globals["x"], globals["y"], globals["z"] = "G", "H", "Z"
	}
	if layer == "c" || layer == "b" {
		ctx["x"], ctx["y"], ctx["z"] = "C", "D", "E"
	}
	return
}

// hWrap puts the body where the outer placement says.
func hWrap(outer, body string, items bool) (main string, extra map[string]string) {
	switch outer {
	case "top":
		return "<" + body + ">", nil
	case "blk":
		return "<{% block b %}" + body + "{% endblock %}>", nil
	case "mac":
		return "{% macro m(p) %}" + body + "{% endmacro %}<{{ _self.m(1) }}>", nil
	case "macs":
		return "{% macro m(p) %}" + body + "{% endmacro %}{% set x = 'S' %}{% set y = 'S' %}{% set z = 'S' %}<{{ _self.m(1) }}>", nil
	case "macp":
		if items {
			return "{% macro m(x, y, items) %}" + body + "{% endmacro %}<{{ _self.m('P', 'Q', items) }}>", nil
		}
		return "{% macro m(x, y) %}" + body + "{% endmacro %}<{{ _self.m('P', 'Q') }}>", nil
	case "inc":
		return "<{% include 'part' %}>", map[string]string{"part": body}
	case "inco":
		return "<{% include 'part' only %}>", map[string]string{"part": body}
	case "incw":
		if items {
			return "<{% include 'part' with {'x': 'W', 'y': 'V', 'items': items} %}>", map[string]string{"part": body}
		}
		return "<{% include 'part' with {'x': 'W', 'y': 'V'} %}>", map[string]string{"part": body}
	}
	panic("outer " + outer)
}

// ---- program builder + reference (one pass produces the source and the required output)

type hProg struct {
	probe string
	form  string
	st    [3]hVal // x, y, z
	emit  bool    // false: only decide whether the case is inside the generated space
	bad   bool
	src   strings.Builder
	want  strings.Builder
}

func (p *hProg) get(name string) hVal    { return p.st[name[0]-'x'] }
func (p *hProg) set(name string, v hVal) { p.st[name[0]-'x'] = v }

// det: the probed variables (x, y) whose value is determined here
func (p *hProg) det() string {
	vars := ""
	for i, n := range []string{"x", "y"} {
		if p.st[i].kind != 'o' {
			vars += n
		}
	}
	return vars
}

func hIf(cond, t, f string) string {
	return "{% if " + cond + " %}" + t + "{% else %}" + f + "{% endif %}"
}

func (p *hProg) probeSrc(vars string) {
	if !p.emit {
		return
	}
	p.src.WriteByte('[')
	for i := 0; i < len(vars); i++ {
		v := vars[i : i+1]
		p.src.WriteString(v + ":")
		switch p.probe {
		case "if":
			p.src.WriteString(hIf(v, "T", "F"))
		case "null":
			p.src.WriteString(hIf(v+" is null", "N", "n"))
		case "def":
			p.src.WriteString(hIf(v+" is defined", "D", "d"))
		case "print":
			p.src.WriteString("({{ " + v + " }})")
		case "copy":
			p.src.WriteString("{% set z = " + v + " %}" + hIf("z", "T", "F") + hIf("z is null", "N", "n") + hIf("z is defined", "D", "d"))
		case "all":
			p.src.WriteString(hIf(v, "T", "F") + hIf(v+" is null", "N", "n") + hIf(v+" is defined", "D", "d"))
		}
		p.src.WriteByte(';')
	}
	p.src.WriteByte(']')
}

func hTFN(val hVal, which string) string {
	s := ""
	for _, c := range which {
		switch c {
		case 'T':
			s += fl(val.truthy(), "T", "F")
		case 'N':
			switch val.kind {
			case 'n':
				s += "N"
			case 'u':
				s += "?" // null or the empty string: not compared
			default:
				s += "n"
			}
		case 'D':
			s += "D"
		}
	}
	return s
}

func (p *hProg) probeExec(vars string) {
	p.want.WriteByte('[')
	for i := 0; i < len(vars); i++ {
		v := vars[i : i+1]
		val := p.get(v)
		p.want.WriteString(v + ":")
		switch p.probe {
		case "if":
			p.want.WriteString(hTFN(val, "T"))
		case "null":
			p.want.WriteString(hTFN(val, "N"))
		case "def":
			p.want.WriteString(hTFN(val, "D"))
		case "print":
			if !val.printable() {
				p.bad = true
			}
			p.want.WriteString("(" + val.print() + ")")
		case "copy":
			p.set("z", val)
			p.want.WriteString(hTFN(val, "TND"))
		case "all":
			p.want.WriteString(hTFN(val, "TND"))
		}
		p.want.WriteByte(';')
	}
	p.want.WriteByte(']')
}

func (p *hProg) point(vars string) {
	p.probeSrc(vars)
	p.probeExec(vars)
}

func (p *hProg) assign(target, expr string, v hVal) {
	if p.emit {
		p.src.WriteString("{% " + p.form + " " + target + " = " + expr + " %}")
	}
	p.set(target, v)
}

// chain: every statement followed by a probe of everything determined then
func (p *hProg) chain(outer string, chain []int) {
	for _, i := range chain {
		s := &hAlphabet[i]
		v := s.val
		if s.read != "" {
			v = p.get(s.read)
			if v.kind == 'o' {
				p.bad = true // reads a value the statement does not determine
				return
			}
		}
		if s.ctxNull && outer != "top" && outer != "blk" {
			v = hUndef // null if the caller's context is visible there, undefined if not
		}
		p.assign(s.target, s.expr, v)
		p.point(p.det())
	}
}

func (p *hProg) w(s string) {
	if p.emit {
		p.src.WriteString(s)
	}
}

func (p *hProg) body(outer, inner string, chain []int) {
	pre := p.det()
	switch inner {
	case "plain":
		p.point(pre)
		p.chain(outer, chain)
	case "ift", "ife":
		p.w(map[string]string{"ift": "{% if 1 %}", "ife": "{% if 0 %}{% else %}"}[inner])
		p.point(pre)
		p.chain(outer, chain)
		p.w("{% endif %}")
		p.point(p.det())
	case "for":
		// iteration 1: probe, probe; iteration 2: probe, the chain, probe; iteration 3: probe, probe
		p.w("{% for i in [0, 1, 0] %}")
		p.probeSrc(pre)
		p.w("{% if i %}")
		p.probeExec(pre)
		p.probeExec(pre)
		p.probeExec(pre)
		p.chain(outer, chain)
		p.w("{% endif %}")
		p.probeSrc(pre)
		p.w("{% endfor %}")
		p.probeExec(pre)
		p.probeExec(pre)
		p.probeExec(pre)
		p.point(p.det())
	}
}

type hCase struct {
	outer, inner, layer, form, probe string
	chain                            []int
}

func (c *hCase) key() string {
	k := "H/" + c.outer + "/" + c.inner + "/" + c.layer + "/" + c.form + "/" + c.probe + "/"
	for _, i := range c.chain {
		k += hAlphabet[i].id + ";"
	}
	return k
}

func hRun(c *hCase, emit bool) *hProg {
	p := &hProg{probe: c.probe, form: c.form, st: hInit(c.outer, c.layer), emit: emit}
	p.body(c.outer, c.inner, c.chain)
	return p
}

// outerDefined: something outside the body defines the assigned names
func hOuterDefined(outer, layer string) bool {
	return layer != "n" || outer == "macs" || outer == "macp" || outer == "incw"
}

func hAll(th bool, emit func(c *hCase)) {
	for l := 1; l <= hMaxLen(th); l++ {
		var rec func(chain []int)
		rec = func(chain []int) {
			if len(chain) < l {
				for i := range hAlphabet {
					rec(append(chain, i))
				}
				return
			}
			for _, outer := range hOuters {
				for _, inner := range hInners {
					for _, layer := range hLayers {
						for _, form := range hForms {
							for _, probe := range hProbes {
								c := &hCase{outer, inner, layer, form, probe, chain}
								if hRun(c, false).bad {
									continue
								}
								emit(c)
							}
						}
					}
				}
			}
		}
		rec(nil)
	}
}

// ---- HL: the loop variable is the shadowing assignment

type hlElem struct {
	lit string
	val interface{}
	ref hVal
}

var hlElems = []hlElem{{"null", nil, hNull}, {"'a'", "a", hStr("a")}, {"0", 0, hInt(0)}, {"''", "", hStr("")}}

func hlBounds(th bool) (maxLen, nElems int) {
	if th {
		return 4, 4
	}
	return 3, 3
}

var hlHdrs = []string{"v", "kv", "key"}

type hlCase struct {
	outer, layer, hdr, rep, form, probe string
	seq                                 []int
}

func (c *hlCase) key() string {
	k := "HL/" + c.outer + "/" + c.layer + "/" + c.hdr + "/" + c.rep + "/" + c.form + "/" + c.probe + "/"
	for _, i := range c.seq {
		k += itoa(i)
	}
	return k
}

func hlBuild(c *hlCase) (main string, extra map[string]string, globals, ctx map[string]interface{}, want string) {
	globals, ctx = hEnv(c.layer)
	p := &hProg{probe: c.probe, form: c.form, st: hInit(c.outer, c.layer), emit: true}
	seqExpr := "items"
	if c.rep == "lit" {
		var lits []string
		for _, i := range c.seq {
			lits = append(lits, hlElems[i].lit)
		}
		seqExpr = "[" + strings.Join(lits, ", ") + "]"
	} else {
		items := make([]interface{}, len(c.seq))
		for k, i := range c.seq {
			items[k] = hlElems[i].val
		}
		ctx["items"] = items
	}
	hdr := map[string]string{"v": "x", "kv": "k, x", "key": "x, w"}[c.hdr]
	p.w("{% for " + hdr + " in " + seqExpr + " %}")
	p.probeSrc("x")
	p.w("{% " + c.form + " y = x %}")
	p.probeSrc("xy")
	p.w("{% endfor %}")
	for k, i := range c.seq {
		v := hlElems[i].ref
		if c.hdr == "key" {
			v = hInt(k)
		}
		p.set("x", v)
		p.probeExec("x")
		p.set("y", v)
		p.probeExec("xy")
	}
	main, extra = hWrap(c.outer, p.src.String(), c.rep == "ctx")
	return main, extra, globals, ctx, "<" + p.want.String() + ">"
}

func hlAll(th bool, emit func(c *hlCase)) {
	maxLen, nEl := hlBounds(th)
	for l := 1; l <= maxLen; l++ {
		var rec func(seq []int)
		rec = func(seq []int) {
			if len(seq) < l {
				for i := 0; i < nEl; i++ {
					rec(append(seq, i))
				}
				return
			}
			for _, outer := range hOuters {
				for _, rep := range []string{"lit", "ctx"} {
					if rep == "ctx" && outer != "top" && outer != "blk" && outer != "macp" && outer != "incw" {
						continue // the list reaches the body only where it is handed over explicitly
					}
					for _, layer := range hLayers {
						for _, hdr := range hlHdrs {
							for _, form := range hForms {
								for _, probe := range hProbes {
									emit(&hlCase{outer, layer, hdr, rep, form, probe, seq})
								}
							}
						}
					}
				}
			}
		}
		rec(nil)
	}
}

// ---- rendering and verdict

func hRender(globals, ctx map[string]interface{}, extra map[string]string, src string) string {
	e := twig.New()
	names := make([]string, 0, len(globals))
	for k := range globals {
		names = append(names, k)
	}
	sort.Strings(names)
	for _, k := range names {
		e.AddGlobal(k, globals[k])
	}
	if part, ok := extra["part"]; ok {
		if err := e.RegisterString("part", part); err != nil {
			return "PARSE-ERROR (part): " + err.Error()
		}
	}
	if err := e.RegisterString("t", src); err != nil {
		return "PARSE-ERROR: " + err.Error()
	}
	res, err := e.Render("t", ctx)
	if err != nil {
		return "RENDER-ERROR: " + err.Error() + " (partial output " + fmt.Sprintf("%q", res) + ")"
	}
	return res
}

// hMatch: '?' in want stands for one character that is not compared
func hMatch(got, want string) bool {
	if len(got) != len(want) {
		return false
	}
	for i := 0; i < len(want); i++ {
		if want[i] != '?' && want[i] != got[i] {
			return false
		}
	}
	return true
}

func hVerdict(fam, src string, extra map[string]string, globals, ctx map[string]interface{}, got, want string, nontrivial bool, class string) *vlib.Outcome {
	o := &vlib.Outcome{Nontrivial: nontrivial, Class: class, Counters: map[string]int64{"renders": 1}}
	if !hMatch(got, want) {
		o.Violation = fmt.Sprintf("template %q (included part %q) with engine globals %v and context %v: rendered %q, the statement requires %q ('?' = not compared)",
			src, extra["part"], ctxLits(globals), ctxLits(ctx), got, want)
		o.Detail = detail{Family: fam, Template: src, Context: ctxLits(ctx), Got: got, Want: want,
			Extra: map[string]interface{}{"engine_globals": ctxLits(globals), "included_part": extra["part"]}}
	}
	return o
}

func hHasNull(chain []int) string {
	for _, i := range chain {
		switch hAlphabet[i].val.kind {
		case 'n', 'u':
			if hAlphabet[i].read == "" {
				return "nullish"
			}
		}
	}
	return "nonnull"
}

func hTick(t *vlib.T) func() bool {
	n := 0
	return func() bool {
		if t.Stopped() {
			return false
		}
		n++
		if n%4096 == 0 {
			t.Progress()
		}
		return true
	}
}

func runH(t *vlib.T) {
	tick := hTick(t)
	hAll(t.Thorough(), func(c *hCase) {
		if !tick() {
			return
		}
		t.Case(c.key(), func() *vlib.Outcome {
			p := hRun(c, true)
			main, extra := hWrap(c.outer, p.src.String(), false)
			globals, ctx := hEnv(c.layer)
			got := hRender(globals, ctx, extra, main)
			cls := "H:" + c.outer + ":" + c.layer + ":" + hHasNull(c.chain)
			return hVerdict("H", main, extra, globals, ctx, got, "<"+p.want.String()+">", hOuterDefined(c.outer, c.layer), cls)
		})
	})
}

func runHL(t *vlib.T) {
	tick := hTick(t)
	hlAll(t.Thorough(), func(c *hlCase) {
		if !tick() {
			return
		}
		t.Case(c.key(), func() *vlib.Outcome {
			main, extra, globals, ctx, want := hlBuild(c)
			got := hRender(globals, ctx, extra, main)
			hasNull := "nonnull"
			for _, i := range c.seq {
				if i == 0 && c.hdr != "key" {
					hasNull = "nullelem"
				}
			}
			cls := "HL:" + c.outer + ":" + c.layer + ":" + c.hdr + ":" + hasNull
			return hVerdict("HL", main, extra, globals, ctx, got, want, hOuterDefined(c.outer, c.layer), cls)
		})
	})
}

func hCount(th bool) (nh, nhl int) {
	hAll(th, func(*hCase) { nh++ })
	hlAll(th, func(*hlCase) { nhl++ })
	return
}

func hBoundsDoc(th bool) string {
	var ids []string
	for _, s := range hAlphabet {
		ids = append(ids, s.id)
	}
	ml, ne := hlBounds(th)
	return fmt.Sprintf("assignments under an outer definition of the same name: (H) every chain of 1..%d assignments over {%s} as set and as do, a probe of every determined variable before the chain and after every statement, "+
		"x outer placement {template, block, macro body, macro body with caller-set variables, macro body with x/y as parameters, included template, include only, include with x/y} x inner placement {plain, taken if, taken else, second iteration of a three-pass loop probing at the start and end of every iteration} "+
		"x layer {no outer definition, engine globals, context variables, both} x probe {if, is null, is defined, printed, copied by set, all}; (HL) one loop with x as value / value with key / key variable over every list of length 1..%d over the first %d of {null, 'a', 0, ''} "+
		"(literal, and as a context list where it can be handed over), `y = x` in the body, same outer placements, layers and probes; chains that read a variable the statement does not determine, and printing of false / [], are not generated",
		hMaxLen(th), strings.Join(ids, ", "), ml, ne)
}
