package main

import (
	"fmt"
	"strconv"
	"strings"

	"verif/lib/vlib"
)

// Family C: every statement tree up to a size bound.
//
// Statements: set (4 variants), if c / if c else / if c elseif c' [else], for [k,] v in q [else].
// Size of a tree = number of statements in it. Loop nesting <= 3. Loop variables are named after
// the nesting depth (v1,k1 / v2,k2 / v3,k3) and are never assigned by set, so nothing generated
// depends on what a loop variable holds after endfor. A probe of everything the statement
// determines is printed at the start of every body and after every statement of it:
//
//	inside a loop body:      [index,index0,revindex,revindex0,F|f L|l,length; k1=v1; ...; a; b]
//	elsewhere:               (k1=v1; ...; a; b)      — no loop.*: top level and for-else bodies
//
// The context defines a = 0 and b = "" so both are always defined.

type gctx struct {
	d      int  // number of enclosing loops whose variables are bound here
	loopOK bool // loop.* is determined here (inside a loop body, not inside a for-else)
}

type node struct {
	kind    byte // 's' set, 'i' if, 'f' for
	sv      int  // set variant
	conds   []int
	bodies  [][]*node // if: one per condition; for: bodies[0]
	hasElse bool
	els     []*node
	seq     int
	key     bool
}

// ---- alphabets

// conditions: 0 a, 1 b, 2 v<d>, 3 loop.first, 4 loop.last, 5 loop.index0, 6 loop.revindex0
func condSrc(c, d int) string {
	switch c {
	case 0:
		return "a"
	case 1:
		return "b"
	case 2:
		return "v" + itoa(d)
	case 3:
		return "loop.first"
	case 4:
		return "loop.last"
	case 5:
		return "loop.index0"
	}
	return "loop.revindex0"
}

// sets: 0 a = a + 1; 1 b = b ~ (innermost value | 'x'); 2 a = loop.index; 3 b = b ~ a
func setSrc(v, d int, doForm bool) string {
	if doForm { // the assignment form of do: {% do name = expr %}
		return "{% do " + strings.TrimPrefix(setSrc(v, d, false), "{% set ")
	}
	switch v {
	case 0:
		return "{% set a = a + 1 %}"
	case 1:
		if d == 0 {
			return "{% set b = b ~ 'x' %}"
		}
		return "{% set b = b ~ v" + itoa(d) + " %}"
	case 2:
		return "{% set a = loop.index %}"
	}
	return "{% set b = b ~ a %}"
}

// sequences: 0 xs = ['p', 0, 'q'] (context), 1 'hé' (literal), 2 range(0, 1), 3 es = [] (context),
// 4 b (the string built by set), 5 nl = null (context), 6 ys = []int{5} (context), 7 range(3, 1, -2)
var seqSrcs = []string{"xs", "'hé'", "range(0, 1)", "es", "b", "nl", "ys", "range(3, 1, -2)"}

func cContext() map[string]interface{} {
	return map[string]interface{}{"a": 0, "b": "", "xs": []interface{}{"p", 0, "q"}, "es": []interface{}{}, "nl": nil, "ys": []int{5}}
}

type alphabet struct {
	name               string
	setsTop, setsLoop  []int
	setsElse           []int // in a for-else below a loop (d > 0, loop.* not determined)
	condTop, condLoop  []int
	condElse           []int
	elifPairs          int // elseif chains use the first elifPairs conditions of the context's list for each of the two positions
	seqs               []int
	keyForms, elseFors bool
	maxLoopDepth       int
}

var (
	alphaFull = alphabet{"full", []int{0, 1, 3}, []int{0, 1, 2, 3}, []int{0, 1, 3}, []int{0, 1}, []int{3, 4, 5, 2, 0, 6}, []int{2, 0, 1}, 3,
		[]int{0, 1, 2, 3, 4, 5, 6, 7}, true, true, 3}
	alphaMid = alphabet{"mid", []int{0, 1}, []int{0, 1, 2}, []int{0, 1}, []int{0, 1}, []int{3, 4, 5, 2}, []int{2, 0}, 2,
		[]int{0, 1, 2, 3, 4}, true, true, 3}
	alphaLow = alphabet{"low", []int{0, 1}, []int{1, 2}, []int{1}, []int{0}, []int{3, 4, 2}, []int{2}, 1,
		[]int{0, 1, 3, 4}, false, true, 3}
	alphaSmall = alphabet{"small", []int{1}, []int{1, 2}, []int{1}, []int{0}, []int{4, 2}, []int{2}, 0,
		[]int{0, 1, 4}, false, true, 3}
	alphaSmall2 = alphabet{"small2", []int{1}, []int{1, 2}, []int{1}, []int{0}, []int{4, 2}, []int{2}, 0,
		[]int{0, 4}, false, true, 3}
	alphaTiny = alphabet{"tiny", []int{1}, []int{1, 2}, []int{1}, []int{0}, []int{4}, []int{2}, 0,
		[]int{0, 4}, false, false, 3}
)

type cLayer struct {
	al   alphabet
	size int
}

// layers: (alphabet, exact size) pairs, simplest first
func cLayers(th bool) []cLayer {
	if th {
		return []cLayer{{alphaFull, 1}, {alphaFull, 2}, {alphaFull, 3}, {alphaLow, 4}, {alphaSmall2, 5}, {alphaTiny, 6}}
	}
	return []cLayer{{alphaFull, 1}, {alphaFull, 2}, {alphaMid, 3}, {alphaSmall, 4}}
}

func cBoundsDoc(th bool) string {
	var p []string
	for _, l := range cLayers(th) {
		p = append(p, fmt.Sprintf("all trees of exactly %d statements over alphabet %q", l.size, l.al.name))
	}
	return strings.Join(p, "; ") + ". Alphabets: full = sets {a=a+1, b=b~value, a=loop.index, b=b~a}, conditions {loop.first, loop.last, loop.index0, loop.revindex0, value, a, b}, " +
		"sequences {['p',0,'q'], 'hé', range(0,1), [], the string b built by set, null, []int{5}, range(3,1,-2)}, value and key,value headers, for with and without else, elseif chains; " +
		"mid/small/tiny = shrinking subsets of it (see fam_c.go). Loop nesting <= 3."
}

// ---- generator (memoised per alphabet, context and size)

type gen struct {
	al    alphabet
	stmts map[string][]*node
	bods  map[string][][]*node
}

func newGen(al alphabet) *gen {
	return &gen{al: al, stmts: map[string][]*node{}, bods: map[string][][]*node{}}
}

func (g *gen) sets(c gctx) []int {
	switch {
	case c.loopOK:
		return g.al.setsLoop
	case c.d > 0:
		return g.al.setsElse
	}
	return g.al.setsTop
}

func (g *gen) conds(c gctx) []int {
	switch {
	case c.loopOK:
		return g.al.condLoop
	case c.d > 0:
		return g.al.condElse
	}
	return g.al.condTop
}

func ckey(c gctx, n int) string { return fmt.Sprintf("%d/%v/%d", c.d, c.loopOK, n) }

// bodies returns every statement list of total size exactly n.
func (g *gen) bodies(c gctx, n int) [][]*node {
	if n == 0 {
		return [][]*node{nil}
	}
	k := ckey(c, n)
	if r, ok := g.bods[k]; ok {
		return r
	}
	var r [][]*node
	for first := 1; first <= n; first++ {
		rest := g.bodies(c, n-first)
		for _, s := range g.stmtsOf(c, first) {
			for _, tl := range rest {
				b := make([]*node, 0, 1+len(tl))
				b = append(append(b, s), tl...)
				r = append(r, b)
			}
		}
	}
	g.bods[k] = r
	return r
}

// stmtsOf returns every single statement of size exactly n.
func (g *gen) stmtsOf(c gctx, n int) []*node {
	k := ckey(c, n)
	if r, ok := g.stmts[k]; ok {
		return r
	}
	var r []*node
	if n == 1 {
		for _, v := range g.sets(c) {
			r = append(r, &node{kind: 's', sv: v})
		}
	}
	inner := n - 1
	cs := g.conds(c)
	// if c
	for _, cd := range cs {
		for _, b := range g.bodies(c, inner) {
			r = append(r, &node{kind: 'i', conds: []int{cd}, bodies: [][]*node{b}})
		}
	}
	// if c else
	for _, cd := range cs {
		for i := 0; i <= inner; i++ {
			for _, b := range g.bodies(c, i) {
				for _, e := range g.bodies(c, inner-i) {
					r = append(r, &node{kind: 'i', conds: []int{cd}, bodies: [][]*node{b}, hasElse: true, els: e})
				}
			}
		}
	}
	// if c elseif c' [else]
	np := g.al.elifPairs
	if np > len(cs) {
		np = len(cs)
	}
	for _, c1 := range cs[:np] {
		for _, c2 := range cs[:np] {
			for i := 0; i <= inner; i++ {
				for j := 0; i+j <= inner; j++ {
					for _, b1 := range g.bodies(c, i) {
						for _, b2 := range g.bodies(c, j) {
							if i+j == inner {
								r = append(r, &node{kind: 'i', conds: []int{c1, c2}, bodies: [][]*node{b1, b2}})
							}
							for _, e := range g.bodies(c, inner-i-j) {
								r = append(r, &node{kind: 'i', conds: []int{c1, c2}, bodies: [][]*node{b1, b2}, hasElse: true, els: e})
							}
						}
					}
				}
			}
		}
	}
	// for
	if c.d < g.al.maxLoopDepth {
		bc := gctx{c.d + 1, true}
		ec := gctx{c.d, false}
		keys := []bool{false}
		if g.al.keyForms {
			keys = []bool{false, true}
		}
		for _, q := range g.al.seqs {
			for _, ky := range keys {
				for _, b := range g.bodies(bc, inner) {
					r = append(r, &node{kind: 'f', seq: q, key: ky, bodies: [][]*node{b}})
				}
				if g.al.elseFors {
					for i := 0; i <= inner; i++ {
						for _, b := range g.bodies(bc, i) {
							for _, e := range g.bodies(ec, inner-i) {
								r = append(r, &node{kind: 'f', seq: q, key: ky, bodies: [][]*node{b}, hasElse: true, els: e})
							}
						}
					}
				}
			}
		}
	}
	g.stmts[k] = r
	return r
}

// ---- compact encoding (case key)

func encBody(sb *strings.Builder, b []*node) {
	for _, s := range b {
		switch s.kind {
		case 's':
			sb.WriteByte('s')
			sb.WriteByte(byte('0' + s.sv))
		case 'i':
			sb.WriteByte('i')
			for i, c := range s.conds {
				sb.WriteByte(byte('0' + c))
				sb.WriteByte('{')
				encBody(sb, s.bodies[i])
				sb.WriteByte('}')
			}
			if s.hasElse {
				sb.WriteString("e{")
				encBody(sb, s.els)
				sb.WriteByte('}')
			}
		case 'f':
			sb.WriteByte('f')
			sb.WriteByte(byte('0' + s.seq))
			if s.key {
				sb.WriteByte('k')
			}
			sb.WriteByte('{')
			encBody(sb, s.bodies[0])
			sb.WriteByte('}')
			if s.hasElse {
				sb.WriteString("e{")
				encBody(sb, s.els)
				sb.WriteByte('}')
			}
		}
	}
}

// ---- printer

const loopProbe = "{{ loop.index }},{{ loop.index0 }},{{ loop.revindex }},{{ loop.revindex0 }},{{ loop.first ? 'F' : 'f' }}{{ loop.last ? 'L' : 'l' }},{{ loop.length }};"

func probeSrc(keys []bool, loopOK bool) string {
	var sb strings.Builder
	if loopOK {
		sb.WriteString("[" + loopProbe)
	} else {
		sb.WriteString("(")
	}
	for i, k := range keys {
		d := itoa(i + 1)
		if k {
			sb.WriteString("{{ k" + d + " }}=")
		}
		sb.WriteString("{{ v" + d + " }};")
	}
	sb.WriteString("{{ a }};{{ b }}")
	if loopOK {
		sb.WriteString("]")
	} else {
		sb.WriteString(")")
	}
	return sb.String()
}

// mode: cModeAll — the full probe at the start of every body and after every statement of it;
// cModeLate / cModeLateDo — inside loop bodies the loop.* part of the probe is printed only at the END
// of each body (after its last statement; at the start only if the body is empty), every other probe
// there prints just the loop variables and a, b: sets (cModeLateDo: in the do form) and ifs stand
// before the body's reads of loop.*.
const (
	cModeAll = iota
	cModeLate
	cModeLateDo
)

func printBody(sb *strings.Builder, b []*node, keys []bool, loopOK bool, mode int) {
	full := probeSrc(keys, loopOK)
	plain := full
	if mode != cModeAll && loopOK {
		plain = probeSrc(keys, false)
	}
	at := func(done int) string { // probe after `done` statements of the body
		if done == len(b) {
			return full
		}
		return plain
	}
	sb.WriteString(at(0))
	d := len(keys)
	for j, s := range b {
		switch s.kind {
		case 's':
			sb.WriteString(setSrc(s.sv, d, mode == cModeLateDo))
		case 'i':
			for i, c := range s.conds {
				if i == 0 {
					sb.WriteString("{% if " + condSrc(c, d) + " %}")
				} else {
					sb.WriteString("{% elseif " + condSrc(c, d) + " %}")
				}
				printBody(sb, s.bodies[i], keys, loopOK, mode)
			}
			if s.hasElse {
				sb.WriteString("{% else %}")
				printBody(sb, s.els, keys, loopOK, mode)
			}
			sb.WriteString("{% endif %}")
		case 'f':
			nd := itoa(d + 1)
			if s.key {
				sb.WriteString("{% for k" + nd + ", v" + nd + " in " + seqSrcs[s.seq] + " %}")
			} else {
				sb.WriteString("{% for v" + nd + " in " + seqSrcs[s.seq] + " %}")
			}
			printBody(sb, s.bodies[0], append(append([]bool{}, keys...), s.key), true, mode)
			if s.hasElse {
				sb.WriteString("{% else %}")
				printBody(sb, s.els, keys, false, mode)
			}
			sb.WriteString("{% endfor %}")
		}
		sb.WriteString(at(j + 1))
	}
}

// ---- reference interpreter (from the statement)

type mval struct {
	isInt bool
	i     int
	s     string
}

func (v mval) String() string {
	if v.isInt {
		return strconv.Itoa(v.i)
	}
	return v.s
}
func (v mval) truthy() bool {
	if v.isInt {
		return v.i != 0
	}
	return v.s != ""
}

type frame struct {
	i, n   int
	val    mval
	hasKey bool
}

type machine struct {
	a      int
	b      string
	loops  []frame
	out    strings.Builder
	iters  int // loop bodies entered
	picks  int // selections among >= 2 alternatives
	elses  int // for-else branches rendered
	depth  int // deepest loop nesting reached
	budget int
	mode   int // cModeAll / cModeLate / cModeLateDo: which probes print loop.*
}

func (m *machine) probe(loopOK bool) {
	if loopOK {
		f := m.loops[len(m.loops)-1]
		fl := "f"
		if f.i == 0 {
			fl = "F"
		}
		ll := "l"
		if f.i == f.n-1 {
			ll = "L"
		}
		fmt.Fprintf(&m.out, "[%d,%d,%d,%d,%s%s,%d;", f.i+1, f.i, f.n-f.i, f.n-f.i-1, fl, ll, f.n)
	} else {
		m.out.WriteByte('(')
	}
	for _, f := range m.loops {
		if f.hasKey {
			m.out.WriteString(strconv.Itoa(f.i) + "=")
		}
		m.out.WriteString(f.val.String() + ";")
	}
	m.out.WriteString(strconv.Itoa(m.a) + ";" + m.b)
	if loopOK {
		m.out.WriteByte(']')
	} else {
		m.out.WriteByte(')')
	}
}

func (m *machine) cond(c int) bool {
	top := func() frame { return m.loops[len(m.loops)-1] }
	switch c {
	case 0:
		return m.a != 0
	case 1:
		return m.b != ""
	case 2:
		return top().val.truthy()
	case 3:
		return top().i == 0
	case 4:
		return top().i == top().n-1
	case 5:
		return top().i != 0
	}
	return top().n-top().i-1 != 0
}

func (m *machine) seq(q int) []mval {
	I := func(i int) mval { return mval{isInt: true, i: i} }
	S := func(s string) mval { return mval{s: s} }
	switch q {
	case 0:
		return []mval{S("p"), I(0), S("q")}
	case 1:
		return []mval{S("h"), S("é")}
	case 2:
		return []mval{I(0), I(1)}
	case 4:
		var r []mval
		for _, ch := range m.b { // characters, not bytes
			r = append(r, S(string(ch)))
		}
		return r
	case 6:
		return []mval{I(5)}
	case 7:
		return []mval{I(3), I(1)}
	}
	return nil // 3: empty list, 5: null
}

func (m *machine) run(b []*node, loopOK bool) {
	m.probe(loopOK && (m.mode == cModeAll || len(b) == 0))
	for j, s := range b {
		if m.out.Len() > m.budget {
			return
		}
		switch s.kind {
		case 's':
			switch s.sv {
			case 0:
				m.a = m.a + 1
			case 1:
				if len(m.loops) == 0 {
					m.b += "x"
				} else {
					m.b += m.loops[len(m.loops)-1].val.String()
				}
			case 2:
				m.a = m.loops[len(m.loops)-1].i + 1
			case 3:
				m.b += strconv.Itoa(m.a)
			}
		case 'i':
			if len(s.conds) > 1 || s.hasElse {
				m.picks++
			}
			taken := false
			for i, c := range s.conds {
				if m.cond(c) {
					m.run(s.bodies[i], loopOK)
					taken = true
					break
				}
			}
			if !taken && s.hasElse {
				m.run(s.els, loopOK)
			}
		case 'f':
			els := m.seq(s.seq) // the sequence is the value of the expression when the loop starts
			if len(els) == 0 {
				if s.hasElse {
					m.elses++
					m.run(s.els, false)
				}
			} else {
				m.loops = append(m.loops, frame{n: len(els), hasKey: s.key})
				if len(m.loops) > m.depth {
					m.depth = len(m.loops)
				}
				for i, e := range els {
					if m.out.Len() > m.budget {
						break
					}
					f := &m.loops[len(m.loops)-1]
					f.i, f.val = i, e
					m.iters++
					m.run(s.bodies[0], true)
				}
				m.loops = m.loops[:len(m.loops)-1]
			}
		}
		m.probe(loopOK && (m.mode == cModeAll || j == len(b)-1))
	}
}

const cOutputBudget = 200_000 // bytes of expected output; larger programs are skipped and counted (string b doubling in nested loops over b)

func runC(t *vlib.T) {
	for _, l := range cLayers(t.Thorough()) {
		g := newGen(l.al)
		top := gctx{0, false}
		// stream the top level so that only sub-bodies are memoised
		for first := 1; first <= l.size; first++ {
			rest := g.bodies(top, l.size-first)
			for _, s := range g.stmtsOf(top, first) {
				for _, tl := range rest {
					if t.Stopped() {
						return
					}
					body := append([]*node{s}, tl...)
					var kb strings.Builder
					kb.WriteString("C/")
					kb.WriteString(l.al.name)
					kb.WriteByte('/')
					kb.WriteString(itoa(l.size))
					kb.WriteByte('/')
					encBody(&kb, body)
					size := l.size
					t.Case(kb.String(), func() *vlib.Outcome { return cCase(body, size, cModeAll) })
				}
			}
		}
	}
}

// ---- late-probe layers: the same trees, loop.* read only at the end of every loop-context body

var cModeTag = map[int]string{cModeLate: "L", cModeLateDo: "D"}

type cLateLayer struct {
	al    alphabet
	size  int
	modes []int
}

func cLateLayers(th bool) []cLateLayer {
	both := []int{cModeLate, cModeLateDo}
	late := []int{cModeLate}
	if th {
		return []cLateLayer{{alphaFull, 1, both}, {alphaFull, 2, both}, {alphaFull, 3, late}, {alphaLow, 3, []int{cModeLateDo}}, {alphaLow, 4, late}}
	}
	return []cLateLayer{{alphaFull, 1, both}, {alphaFull, 2, both}, {alphaLow, 3, both}, {alphaTiny, 4, late}}
}

// hasLoopBody: some for statement of the tree has a non-empty body (otherwise the late modes print
// the same program as cModeAll, up to the form of the sets)
func hasLoopBody(b []*node) bool {
	for _, s := range b {
		switch s.kind {
		case 'i':
			for _, x := range s.bodies {
				if hasLoopBody(x) {
					return true
				}
			}
			if hasLoopBody(s.els) {
				return true
			}
		case 'f':
			if len(s.bodies[0]) > 0 || hasLoopBody(s.els) {
				return true
			}
		}
	}
	return false
}

func cLateEach(th bool, stopped func() bool, emit func(key string, body []*node, size, mode int)) {
	for _, l := range cLateLayers(th) {
		g := newGen(l.al)
		top := gctx{0, false}
		for first := 1; first <= l.size; first++ {
			rest := g.bodies(top, l.size-first)
			for _, s := range g.stmtsOf(top, first) {
				for _, tl := range rest {
					if stopped != nil && stopped() {
						return
					}
					body := append([]*node{s}, tl...)
					if !hasLoopBody(body) {
						continue
					}
					var kb strings.Builder
					encBody(&kb, body)
					for _, mode := range l.modes {
						emit("C"+cModeTag[mode]+"/"+l.al.name+"/"+itoa(l.size)+"/"+kb.String(), body, l.size, mode)
					}
				}
			}
		}
	}
}

func runCLate(t *vlib.T) {
	cLateEach(t.Thorough(), t.Stopped, func(key string, body []*node, size, mode int) {
		t.Case(key, func() *vlib.Outcome { return cCase(body, size, mode) })
	})
}

func cLateBoundsDoc(th bool) string {
	var p []string
	for _, l := range cLateLayers(th) {
		m := "set form"
		if len(l.modes) == 2 {
			m = "set form and do form"
		} else if l.modes[0] == cModeLateDo {
			m = "do form"
		}
		p = append(p, fmt.Sprintf("%s/%d (%s)", l.al.name, l.size, m))
	}
	return "late-probe variant (inside loop bodies loop.* is printed only after the last statement of each body, so sets, ifs and inner loops stand before the reads): every tree with a non-empty loop body of the layers " + strings.Join(p, ", ")
}

// cCount reports the number of trees per layer (development aid: C09_COUNT=1).
func cCount(th bool) {
	na := len(atoms())
	third := na
	if !th {
		third = len(repIDs)
	}
	fmt.Printf("A: %d atoms; 1-chains %d (+ %d with the values as engine globals), 2-chains %d, 3-chains %d, long chains %d\n", na, 5*na, 2*na, 7*na*na, 2*third*third*third, 2*(16+32+64))
	nb := 0
	seqs := allSeqs(th)
	for _, q := range seqs {
		nb += 14
		if q.kind == "list" || q.kind == "typed" || q.kind == "literal" {
			nb += 4
		}
	}
	fmt.Printf("B: %d sequences, %d cases\n", len(seqs), nb)
	fmt.Printf("I: %d sequences\n", len(iSeqs(th)))
	nd, p := 0, 1
	for l := 1; l <= dMaxLen(th); l++ {
		p *= len(dAlphabet)
		nd += 2 * p * 3 // x layers {context, globals, both}
	}
	ne, p := 0, 1
	for l := 1; l <= eMaxDepth(th); l++ {
		p *= len(eWrappers)
		ne += p * 2 // x {new variable, also an engine global}
	}
	fmt.Printf("D: %d cases; E: %d cases; F: %d cases\n", nd, ne, fCount(th))
	nh, nhl := hCount(th)
	fmt.Printf("H: %d cases; HL: %d cases\n", nh, nhl)
	for _, l := range cLayers(th) {
		g := newGen(l.al)
		top := gctx{0, false}
		n := 0
		for first := 1; first <= l.size; first++ {
			n += len(g.stmtsOf(top, first)) * len(g.bodies(top, l.size-first))
		}
		fmt.Printf("layer %s size %d: %d trees\n", l.al.name, l.size, n)
	}
	late := map[string]int{}
	var order []string
	cLateEach(th, nil, func(key string, body []*node, size, mode int) {
		k := key[:strings.LastIndex(key, "/")]
		if late[k] == 0 {
			order = append(order, k)
		}
		late[k]++
	})
	for _, k := range order {
		fmt.Printf("late layer %s: %d cases\n", k, late[k])
	}
	fmt.Printf("G: %d cases\n", gCount(th))
}

func cCase(body []*node, size int, mode int) *vlib.Outcome {
	var sb strings.Builder
	printBody(&sb, body, nil, false, mode)
	src := sb.String()
	m := &machine{budget: cOutputBudget, mode: mode}
	m.run(body, false)
	if m.out.Len() > cOutputBudget {
		return &vlib.Outcome{Class: "C:skipped-output-too-large", Counters: map[string]int64{"skipped_output_over_budget": 1}}
	}
	ctx := cContext()
	got, parseErr := render(src, ctx)
	if parseErr && mode == cModeLateDo { // a `do name = expr` the parser rejects is a don't-care (see family D)
		return &vlib.Outcome{Class: "C:do:rejected-by-parser", Counters: map[string]int64{"renders": 1}}
	}
	it := "0"
	switch {
	case m.iters > 8:
		it = "9+"
	case m.iters > 2:
		it = "3-8"
	case m.iters > 0:
		it = "1-2"
	}
	cls := fmt.Sprintf("C:n%d:depth%d:iters%s:forelse%v:pick%v", size, m.depth, it, m.elses > 0, m.picks > 0)
	if mode != cModeAll {
		cls = "C" + cModeTag[mode] + cls[1:]
	}
	return verdict("C", src, ctx, got, m.out.String(), m.iters > 0 || m.picks > 0, cls)
}
