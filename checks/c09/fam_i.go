package main

import (
	"fmt"
	"reflect"

	"verif/lib/vlib"
)

// Family I: one for loop over lists whose Go ELEMENT TYPE is an interface but which are not the
// unnamed []interface{} — a named list type, a slice of a named empty interface, an array of
// interface{}, []fmt.Stringer, []error — as context value, inside an outer loop, through a set
// variable, with an empty body, and as the elements of an outer list that an outer loop walks.
// The statement speaks of "lists of any length"; which Go type carries the list is not its
// business, so the loop must behave exactly as over []interface{} (the control representation).
// Added in round 5 after the seeded change C09-I was missed: families B..H hand the loop only
// []interface{}, slices/arrays of scalars and list literals.

type iRows []interface{} // a list type of the application; the elements are already interface values
type iElem interface{}   // a named empty interface: []iElem is not []interface{}
type iPair [2]interface{}

type iName string // element of []fmt.Stringer; String() equals the underlying string, so it prints alike whichever way it is printed

func (n iName) String() string { return string(n) }

type iErr string // element of []error

func (e iErr) Error() string { return string(e) }

var (
	iAnyType      = reflect.TypeOf((*interface{})(nil)).Elem()
	iStringerType = reflect.TypeOf((*fmt.Stringer)(nil)).Elem()
	iErrorType    = reflect.TypeOf((*error)(nil)).Elem()
)

func iMaxLen(th bool) int {
	if th {
		return 9
	}
	return 4
}

func iBoundsDoc(th bool) string {
	return fmt.Sprintf("lists of length 0..%d whose element type is an interface: []interface{} (control), a named `type Rows []interface{}`, []Elem with `type Elem interface{}`, [N]interface{}, "+
		"[]fmt.Stringer, []error (elements ints / strings / null, 0, '' mixed; for the last two strings / null mixed), a named [2]interface{} and nil slices of these types; each x {value, key+value header} x {no else, else} x "+
		"{top level, inside a two-pass outer loop, over a variable assigned by set, with an empty body} and as the three elements (lengths n, 0, 2) of an outer list that is a []interface{}, a typed slice of the list type or a list of the same representation, walked by an outer loop that prints its counters before and after; plus the list as an if condition (empty = falsy)", iMaxLen(th))
}

var iReps = []struct {
	id       string
	contents []string
}{
	{"any", []string{"i", "s", "m"}},
	{"rows", []string{"i", "s", "m"}},
	{"elem", []string{"i", "s", "m"}},
	{"arr", []string{"i", "s", "m"}},
	{"str", []string{"s", "m"}},
	{"err", []string{"s", "m"}},
}

// iElems gives element i of a list with the given content: the Go value and its printed form.
func iElemOf(content string, i int) (interface{}, string) {
	switch content {
	case "i":
		return 10 * (i + 1), itoa(10 * (i + 1))
	case "s":
		return "s" + itoa(i), "s" + itoa(i)
	default: // "m": null, 0, "" in turn
		switch i % 3 {
		case 0:
			return nil, ""
		case 1:
			return 0, "0"
		default:
			return "", ""
		}
	}
}

// iList builds the list of n elements in representation rep.
func iList(rep, content string, n int) (interface{}, []string) {
	printed := make([]string, n)
	vals := make([]interface{}, n)
	for i := 0; i < n; i++ {
		vals[i], printed[i] = iElemOf(content, i)
	}
	switch rep {
	case "any":
		return vals, printed
	case "rows":
		return iRows(vals), printed
	case "elem":
		l := make([]iElem, n)
		for i, v := range vals {
			l[i] = v
		}
		return l, printed
	case "arr":
		a := reflect.New(reflect.ArrayOf(n, iAnyType)).Elem()
		for i, v := range vals {
			if v != nil {
				a.Index(i).Set(reflect.ValueOf(v))
			}
		}
		return a.Interface(), printed
	case "pair":
		var p iPair
		copy(p[:], vals)
		return p, printed
	case "str":
		l := make([]fmt.Stringer, n)
		for i := range l {
			if content == "m" && i%2 == 0 { // a nil interface element is a null element
				printed[i] = ""
				continue
			}
			l[i], printed[i] = iName("s"+itoa(i)), "s"+itoa(i)
		}
		return l, printed
	case "err":
		l := make([]error, n)
		for i := range l {
			if content == "m" && i%2 == 0 {
				printed[i] = ""
				continue
			}
			l[i], printed[i] = iErr("e"+itoa(i)), "e"+itoa(i)
		}
		return l, printed
	}
	panic("iList: " + rep)
}

type iSeq struct {
	seqSpec
	rep, content string
	n            int
}

func iSeqs(th bool) []iSeq {
	var out []iSeq
	kind := func(rep string, n int) string {
		if n == 0 {
			return "empty-" + rep
		}
		return rep
	}
	for n := 0; n <= iMaxLen(th); n++ { // simplest first: by length
		for _, r := range iReps {
			for _, c := range r.contents {
				v, p := iList(r.id, c, n)
				out = append(out, iSeq{seqSpec{r.id + "-" + c + itoa(n), kind(r.id, n), "xs", map[string]interface{}{"xs": v}, p}, r.id, c, n})
			}
		}
		if n == 2 {
			for _, c := range []string{"i", "s", "m"} {
				v, p := iList("pair", c, 2)
				out = append(out, iSeq{seqSpec{"pair-" + c + "2", "pair", "xs", map[string]interface{}{"xs": v}, p}, "pair", c, 2})
			}
		}
	}
	for _, e := range []struct {
		id string
		v  interface{}
	}{{"nilrows", iRows(nil)}, {"nilelem", []iElem(nil)}, {"nilstr", []fmt.Stringer(nil)}, {"nilerr", []error(nil)}} {
		out = append(out, iSeq{seqSpec{e.id, "empty-nil", "xs", map[string]interface{}{"xs": e.v}, nil}, e.id, "", 0})
	}
	return out
}

// iOuter builds the outer list holding the three inner lists, or nil when that outer kind does not
// exist for the representation.
//
//	u  []interface{}
//	t  a typed slice whose element type is the list type ([]Rows, [][]Elem, [][]fmt.Stringer, [][]interface{} …)
//	r  a list of the same representation as the inner ones (Rows of Rows, []Elem of []Elem, [3]interface{} of arrays)
func iOuter(kind, rep string, inner []interface{}) interface{} {
	switch kind {
	case "u":
		return append([]interface{}{}, inner...)
	case "t":
		if rep == "arr" { // arrays of different lengths have different types
			return nil
		}
		s := reflect.MakeSlice(reflect.SliceOf(reflect.TypeOf(inner[0])), len(inner), len(inner))
		for i, v := range inner {
			s.Index(i).Set(reflect.ValueOf(v))
		}
		return s.Interface()
	case "r":
		switch rep {
		case "rows":
			return iRows(append([]interface{}{}, inner...))
		case "elem":
			l := make([]iElem, len(inner))
			for i, v := range inner {
				l[i] = v
			}
			return l
		case "arr":
			a := reflect.New(reflect.ArrayOf(len(inner), iAnyType)).Elem()
			for i, v := range inner {
				a.Index(i).Set(reflect.ValueOf(v))
			}
			return a.Interface()
		}
		return nil
	}
	panic("iOuter: " + kind)
}

// iNested: `gs` holds three lists of one representation (lengths n, 0, 2); the outer loop prints its
// own counters before and after the inner loop over its element.
func iNested(rep, content string, n int, outer string, withKey, withElse bool) (src string, ctx map[string]interface{}, want string, ok bool) {
	lens := []int{n, 0, 2}
	inner := make([]interface{}, len(lens))
	printed := make([][]string, len(lens))
	for i, l := range lens {
		inner[i], printed[i] = iList(rep, content, l)
	}
	gs := iOuter(outer, rep, inner)
	if gs == nil {
		return "", nil, "", false
	}
	hdr, body := "v", bBody+":{{ v }}]"
	if withKey {
		hdr, body = "k, v", bBody+":{{ k }}={{ v }}]"
	}
	loop := "{% for " + hdr + " in g %}" + body
	if withElse {
		loop += "{% else %}EMPTY"
	}
	loop += "{% endfor %}"
	outerP := "(" + bBody + "])"
	src = "{% for g in gs %}" + outerP + loop + outerP + "{% endfor %}"
	for i := range lens {
		p := "(" + bIter(i, len(lens)) + "])"
		w := ""
		for j, e := range printed[i] {
			w += bIter(j, lens[i]) + ":"
			if withKey {
				w += itoa(j) + "="
			}
			w += e + "]"
		}
		if lens[i] == 0 && withElse {
			w = "EMPTY"
		}
		want += p + w + p
	}
	return src, map[string]interface{}{"gs": gs}, want, true
}

func iLenBucket(n int) string {
	switch {
	case n <= 2:
		return itoa(n)
	}
	return "3+"
}

func runI(t *vlib.T) {
	th := t.Thorough()
	seqs := iSeqs(th)
	// (1) the list as the sequence of one loop, placements of family B
	for _, q := range seqs {
		q := q
		for _, withKey := range []bool{false, true} {
			for _, withElse := range []bool{false, true} {
				for wrap := 0; wrap < 4; wrap++ {
					if wrap == 3 && withKey {
						continue
					}
					withKey, withElse, wrap := withKey, withElse, wrap
					t.Case(fmt.Sprintf("I/%s/k%v/e%v/w%d", q.id, withKey, withElse, wrap), func() *vlib.Outcome {
						src, ctx, want := bCase(q.seqSpec, withKey, withElse, wrap)
						got, _ := render(src, ctx)
						cls := fmt.Sprintf("I:%s:len%s:else%v:w%d", q.kind, iLenBucket(q.n), withElse, wrap)
						return verdict("I", src, ctx, got, want, q.n >= 2 || (q.n == 0 && withElse), cls)
					})
				}
			}
		}
	}
	// (2) the lists as elements of an outer list
	for n := 0; n <= iMaxLen(th); n++ {
		for _, r := range iReps {
			for _, c := range r.contents {
				for _, outer := range []string{"u", "t", "r"} {
					for _, withKey := range []bool{false, true} {
						for _, withElse := range []bool{false, true} {
							n, rep, c, outer, withKey, withElse := n, r.id, c, outer, withKey, withElse
							if rep == "any" && outer == "r" { // the same value as outer kind u
								continue
							}
							if (outer == "t" && rep == "arr") || (outer == "r" && (rep == "str" || rep == "err")) {
								continue // no such outer list
							}
							t.Case(fmt.Sprintf("I/nest/%s-%s%d/%s/k%v/e%v", rep, c, n, outer, withKey, withElse), func() *vlib.Outcome {
								src, ctx, want, ok := iNested(rep, c, n, outer, withKey, withElse)
								if !ok {
									panic("I/nest: outer list not constructible")
								}
								got, _ := render(src, ctx)
								cls := fmt.Sprintf("I:nest:%s:%s:len%s:else%v", rep, outer, iLenBucket(n), withElse)
								return verdict("I", src, ctx, got, want, true, cls)
							})
						}
					}
				}
			}
		}
	}
	// (3) the list as an if condition: an empty list is falsy, a non-empty one truthy
	for _, q := range seqs {
		q := q
		t.Case("I/if/"+q.id, func() *vlib.Outcome {
			src := "[{% if xs %}T{% else %}F{% endif %}]"
			want := "[F]"
			if q.n > 0 {
				want = "[T]"
			}
			got, _ := render(src, q.ctx)
			return verdict("I", src, q.ctx, got, want, true, fmt.Sprintf("I:if:%s:%v", q.kind, q.n > 0))
		})
	}
}
