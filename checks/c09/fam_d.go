package main

import (
	"fmt"
	"strings"

	"verif/lib/vlib"
)

// Family D: chains of assignments. Three variables: a (always an integer), b (always a string),
// c (a copy of either). After every assignment all three are printed, so a later assignment that
// fails to see an earlier one, or an assignment that disturbs another variable, shows.

type dState struct {
	a int
	b string
	c string // printed form
}

type dStmt struct {
	id, target, expr string
	reads            string // variables read
	apply            func(s *dState)
}

var dAlphabet = []dStmt{
	{"a=1", "a", "1", "", func(s *dState) { s.a = 1 }},
	{"a=a+1", "a", "a + 1", "a", func(s *dState) { s.a = s.a + 1 }},
	{"a=a+a", "a", "a + a", "a", func(s *dState) { s.a = s.a + s.a }},
	{"b='x'", "b", "'x'", "", func(s *dState) { s.b = "x" }},
	{"b=b~'y'", "b", "b ~ 'y'", "b", func(s *dState) { s.b = s.b + "y" }},
	{"b=b~a", "b", "b ~ a", "ab", func(s *dState) { s.b = s.b + itoa(s.a) }},
	{"c=a", "c", "a", "a", func(s *dState) { s.c = itoa(s.a) }},
	{"c=b", "c", "b", "b", func(s *dState) { s.c = s.b }},
	{"b=b~c", "b", "b ~ c", "bc", func(s *dState) { s.b = s.b + s.c }},
}

func dMaxLen(th bool) int {
	if th {
		return 5
	}
	return 3
}

const dPrint = "{{ a }}|{{ b }}|{{ c }};"

func dCase(seq []int, form string) (src, want string, dependent bool) {
	st := &dState{a: 0, b: "", c: "-"}
	var sb, wb strings.Builder
	written := ""
	for _, i := range seq {
		d := dAlphabet[i]
		sb.WriteString("{% " + form + " " + d.target + " = " + d.expr + " %}" + dPrint)
		d.apply(st)
		fmt.Fprintf(&wb, "%d|%s|%s;", st.a, st.b, st.c)
		if strings.ContainsAny(d.reads, written) && written != "" {
			dependent = true
		}
		written += d.target
	}
	return sb.String(), wb.String(), dependent
}

func runD(t *vlib.T) {
	// simplest first: all chains of length 1, then 2, ...
	for l := 1; l <= dMaxLen(t.Thorough()); l++ {
		var rec func(seq []int)
		rec = func(seq []int) {
			if t.Stopped() {
				return
			}
			if len(seq) < l {
				for i := range dAlphabet {
					rec(append(seq, i))
				}
				return
			}
			for _, form := range []string{"set", "do"} {
				form := form
				s := append([]int{}, seq...)
				key := "D/" + form + "/"
				for _, i := range s {
					key += dAlphabet[i].id + ";"
				}
				t.Case(key, func() *vlib.Outcome {
					src, want, dep := dCase(s, form)
					ctx := map[string]interface{}{"a": 0, "b": "", "c": "-"}
					got, parseErr := render(src, ctx)
					if form == "do" && parseErr {
						// the do-assignment form is not demanded; a parser that rejects it is fine
						return &vlib.Outcome{Class: "D:do:rejected-by-parser"}
					}
					return verdict("D", src, ctx, got, want, dep, fmt.Sprintf("D:%s:len%d:dep%v", form, len(s), dep))
				})
				// round 4: the three variables start as engine globals (layer g: AddGlobal, empty context)
				// or exist in both places (layer b: globals hold decoys, the context the start values)
				for _, layer := range []string{"g", "b"} {
					layer := layer
					t.Case("D/"+layer+key[1:], func() *vlib.Outcome {
						src, want, dep := dCase(s, form)
						globals := map[string]interface{}{"a": 0, "b": "", "c": "-"}
						ctx := map[string]interface{}{}
						if layer == "b" {
							ctx = globals
							globals = map[string]interface{}{"a": 70, "b": "G", "c": "H"}
						}
						got := hRender(globals, ctx, nil, src)
						if form == "do" && strings.HasPrefix(got, "PARSE-ERROR") {
							return &vlib.Outcome{Class: "D:do:rejected-by-parser"}
						}
						return hVerdict("D", src, nil, globals, ctx, got, want, dep, fmt.Sprintf("D:%s:%s:len%d:dep%v", layer, form, len(s), dep))
					})
				}
			}
		}
		rec(nil)
	}
}
