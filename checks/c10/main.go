// C10 — template inheritance is block substitution along the extends chain.
//
// Bounded-exhaustive enumeration of extends chains (1–4 templates) × assignments of block
// definitions {absent, text, empty, parent() once, parent() twice, parent() inside if/for} to every
// level and block × base layouts (flat, in for, in if, nested, after set, block standing inside an
// override) × ways of writing the parent name × text outside blocks × contexts × template size
// (below / above the 4096-byte tokenizer switch) × position of the {% extends %} tag among the
// top-level items of every extending template (first / behind the first block definition / last).
// Further groups of families: repeated renders and includes (multi.go), chains through directories
// with relative parent names (paths.go), partials with a layout chain included under variables that
// shadow the page's (shadow.go).
// Every program is printed from a small AST of the
// check's own, rendered by the real engine (fresh engine per case, exported API only) and compared
// with an evaluator of the same AST that is transcribed from the property statement.
package main

import (
	"fmt"
	"runtime/debug"
	"sort"
	"strings"

	"github.com/semihalev/twig"

	"verif/lib/vlib"
)

// ---------------------------------------------------------------------------------------------
// AST shared by the printer (template source) and the reference evaluator

const (
	kText   = iota // literal text s
	kVar           // {{ s }}
	kParent        // {{ parent() }}
	kBlock         // {% block s %}body{% endblock %}
	kFor           // {% for val in s %}body{% endfor %}   (val defaults to i)
	kIf            // {% if s %}body{% else %}els{% endif %}
	kSet           // {% set s = 'val' %}
	kInc           // {% include s<val> %}   (s: name expression as printed, val: optional " with {…}" clause)
)

type item struct {
	kind int
	s    string
	val  string
	body []item
	els  []item
	with []withVar // kInc: the variables of a `with {…}` clause (shadow.go)
	only bool      // kInc: … followed by `only`
}

func text(s string) item              { return item{kind: kText, s: s} }
func pvar(s string) item              { return item{kind: kVar, s: s} }
func parent() item                    { return item{kind: kParent} }
func block(n string, b ...item) item  { return item{kind: kBlock, s: n, body: b} }
func forIn(xs string, b ...item) item { return item{kind: kFor, s: xs, val: "i", body: b} }
func forK(xs string, b ...item) item  { return item{kind: kFor, s: xs, val: "k", body: b} }
func ifc(c string, b, e []item) item  { return item{kind: kIf, s: c, body: b, els: e} }
func set(n, v string) item            { return item{kind: kSet, s: n, val: v} }
func seq(xs ...item) []item           { return xs }
func inc(expr, clause string) item    { return item{kind: kInc, s: expr, val: clause} }

func printItems(b *strings.Builder, its []item) {
	for _, it := range its {
		switch it.kind {
		case kText:
			b.WriteString(it.s)
		case kVar:
			b.WriteString("{{ " + it.s + " }}")
		case kParent:
			b.WriteString("{{ parent() }}")
		case kBlock:
			b.WriteString("{% block " + it.s + " %}")
			printItems(b, it.body)
			b.WriteString("{% endblock %}")
		case kFor:
			b.WriteString("{% for " + it.val + " in " + it.s + " %}")
			printItems(b, it.body)
			b.WriteString("{% endfor %}")
		case kIf:
			b.WriteString("{% if " + it.s + " %}")
			printItems(b, it.body)
			if it.els != nil {
				b.WriteString("{% else %}")
				printItems(b, it.els)
			}
			b.WriteString("{% endif %}")
		case kSet:
			b.WriteString("{% set " + it.s + " = '" + it.val + "' %}")
		case kInc:
			b.WriteString("{% include " + it.s + it.val + withClause(it.with, it.only) + " %}")
		}
	}
}

// a template of the chain: optional extends (printed by the case), then items
type tpl struct {
	pre   []item // text that always stands before the extends tag (children only)
	items []item // the other top-level items
	extAt int    // the extends tag is written in front of items[extAt] (len(items): at the very end)
}

// ---------------------------------------------------------------------------------------------
// reference evaluator (C10 statement; DESIGN.md Appendix A "Inheritance")
//
//   definitions of a block = the top-level block definitions of the children, most-derived first,
//   then the body written where the block stands; the first one is rendered (even if empty);
//   parent() renders the next one with the same variables; child text outside blocks renders nothing.

type frame struct {
	chain [][]item
	depth int
}

type model struct {
	over map[string][][]item // overriding definitions per block, most-derived first
	out  strings.Builder
	// features observed (for Nontrivial / Class)
	substituted  bool // a block with at least one override was rendered
	maxDepth     int  // deepest definition index reached through parent()
	emptySel     bool // an empty definition was rendered (as the winner or through parent())
	defViaPar    bool // the body where the block stands was reached through parent()
	skipped      bool // a rendered chain skips a level that does not define the block
	defBeforeExt bool // some block definition stands in front of the extends tag of its template
	blocksRun    int
	parentCalls  int
	bad          string
	// programs of several chains (multi.go): the named templates, and what includes did
	prog          map[string]*tdef
	includes      int    // included templates rendered
	inclExtending int    // … of which extend a parent
	path          string // the chain that the rendered template resolved to
	ignoreWith    bool   // shadow.go: evaluate includes as if they had no with-clause
}

func truthy(v interface{}) bool {
	switch x := v.(type) {
	case nil:
		return false
	case bool:
		return x
	case string:
		return x != ""
	case []interface{}:
		return len(x) > 0
	}
	return true
}

func (m *model) eval(its []item, vars map[string]interface{}, cur *frame) {
	for _, it := range its {
		switch it.kind {
		case kText:
			m.out.WriteString(it.s)
		case kVar:
			if v, ok := vars[it.s]; ok && v != nil {
				m.out.WriteString(fmt.Sprint(v))
			}
		case kSet:
			vars[it.s] = it.val
		case kFor:
			xs, _ := vars[it.s].([]interface{})
			// the loop variable is only read inside the loop body by generated programs (its value
			// after endfor is not fixed by any statement), so the model may simply restore it
			old, had := vars[it.val]
			for _, x := range xs {
				vars[it.val] = x
				m.eval(it.body, vars, cur)
			}
			if had {
				vars[it.val] = old
			} else {
				delete(vars, it.val)
			}
		case kIf:
			if truthy(vars[it.s]) {
				m.eval(it.body, vars, cur)
			} else {
				m.eval(it.els, vars, cur)
			}
		case kBlock:
			ov := m.over[it.s]
			chain := make([][]item, 0, len(ov)+1)
			chain = append(chain, ov...)
			chain = append(chain, it.body)
			m.blocksRun++
			if len(ov) > 0 {
				m.substituted = true
			}
			if len(chain[0]) == 0 {
				m.emptySel = true
			}
			m.eval(chain[0], vars, &frame{chain, 0})
		case kInc:
			// an included template is rendered along its own extends chain, with the same variables;
			// the block definitions of the including chain are neither seen nor changed by it
			saved := m.over
			m.includes++
			m.renderTemplate(incName(it.s, vars), m.includeVars(it, vars), true)
			m.over = saved
		case kParent:
			if cur == nil || cur.depth+1 >= len(cur.chain) {
				m.bad = "generator bug: parent() without a next definition"
				return
			}
			d := cur.depth + 1
			m.parentCalls++
			if d > m.maxDepth {
				m.maxDepth = d
			}
			if len(cur.chain[d]) == 0 {
				m.emptySel = true
			}
			if d == len(cur.chain)-1 && d > 0 {
				m.defViaPar = true
			}
			m.eval(cur.chain[d], vars, &frame{cur.chain, d})
		}
	}
}

// ---------------------------------------------------------------------------------------------
// the case space

// choices for (level, block)
const (
	cAbsent = iota
	cText
	cEmpty
	cPar1
	cPar2
	cParCtl // parent() inside if / for of the overriding body
	nChoices
)

var choiceName = [...]string{"-", "T", "E", "P", "PP", "PC"}

var blockNames = [3]string{"a", "b", "in"}

// layouts of the base template
const (
	lFlat = iota
	lFor
	lIf
	lNested
	lSet
	lHosted    // block `in` stands inside the level-1 override of `a` (after its text and parent() calls), not in the base
	lHostedPre // the same, but `in` stands before the text and the parent() calls of that override
	nLayouts
)

var layoutName = [...]string{"flat", "for", "if", "nested", "set", "hosted", "hostedpre"}

// ways to write the parent name
const (
	nfSingle      = iota // 't0'
	nfDouble             // "t0"
	nfVar                // n0            (context variable)
	nfTernary            // sel ? 't0' : 'nope'
	nfTernary2           // nsel ? 'nope' : 't0'
	nfVarConcat          // n0 ~ ''
	nfParenConcat        // ('t' ~ '0')
	nfConcat             // 't' ~ '0'      (open finding KF-C10-1)
	nNameForms
)

var nameFormName = [...]string{"sq", "dq", "var", "tern", "tern2", "varcat", "parencat", "cat"}

var ctxNames = []string{"c0", "c1", "c2"}

// position of the {% extends %} tag among the top-level items of an extending template
const (
	xFirst = iota // in front of every block definition (the usual way of writing it)
	xMid          // right behind the first block definition of the template (between two definitions when it has several)
	xLast         // behind everything else
	nExtPos
)

var extPosName = [...]string{"f", "m", "l"}

func ctxOf(i int) map[string]interface{} {
	c := map[string]interface{}{
		"n0": "t0", "n1": "t1", "n2": "t2", "n3": "t3", "n4": "t4", "n5": "t5",
		"sel": true, "nsel": false, "one": []interface{}{"x"},
	}
	switch i {
	case 0:
		c["v"] = "V"
		c["xs"] = []interface{}{1, 2}
		c["t"] = true
		c["f"] = false
	case 1:
		c["v"] = "W w"
		c["xs"] = []interface{}{"p"}
		c["t"] = false
		c["f"] = true
	case 2:
		// v, xs, t, f undefined: nothing to iterate, conditions false
	}
	return c
}

const maxLevels = 6

type kase struct {
	Fam      string
	Layout   int
	L        int               // number of templates in the chain (t0 … t{L-1}); t{L-1} is rendered
	Ch       [maxLevels][3]int // Ch[level][block] for level 1…L-1
	NameForm int
	Junk     int // 0 none, 1 text outside blocks, 2 text + prints + control structures outside blocks
	Ctx      int
	Pad      int            // 0 none, 1 every template above 4096 bytes (comment), 2 only the rendered one
	Ext      [maxLevels]int // Ext[level]: where the extends tag of template t{level} stands (xFirst/xMid/xLast), level 1…L-1
}

func (c *kase) key() string {
	var b strings.Builder
	fmt.Fprintf(&b, "%s|L%d|", layoutName[c.Layout], c.L)
	for bi := 0; bi < 3; bi++ {
		if bi > 0 {
			b.WriteByte(';')
		}
		b.WriteString(blockNames[bi] + "=")
		for l := 1; l < c.L; l++ {
			if l > 1 {
				b.WriteByte(',')
			}
			b.WriteString(choiceName[c.Ch[l][bi]])
		}
	}
	fmt.Fprintf(&b, "|%s|j%d|%s|p%d", nameFormName[c.NameForm], c.Junk, ctxNames[c.Ctx], c.Pad)
	if c.extMoved() {
		// (cases with every extends tag in front keep the key they had before this dimension existed)
		b.WriteString("|x")
		for l := 1; l < c.L; l++ {
			b.WriteString(extPosName[c.Ext[l]])
		}
	}
	return b.String()
}

// body of the definition of block bn at level l
func defBody(bn string, l int, ch int) []item {
	return defBodyTagged(strings.ToUpper(bn[:1])+fmt.Sprint(l), bn, ch)
}

func defBodyTagged(tag string, bn string, ch int) []item {
	switch ch {
	case cText:
		if bn == "b" {
			return seq(text(tag), pvar("v")) // b may stand after a loop: it never reads the loop variable
		}
		return seq(text(tag), pvar("v"), pvar("i"))
	case cEmpty:
		return nil
	case cPar1:
		return seq(text(tag+"("), parent(), text(")"))
	case cPar2:
		return seq(text(tag+"("), parent(), text("+"), parent(), text(")"), pvar("v"))
	case cParCtl:
		return seq(text(tag+"("), ifc("sel", seq(parent()), seq(text("!"))), ifc("nsel", seq(parent()), nil),
			forK("one", text("/"), parent()), text(")"))
	}
	return nil
}

func baseTemplate(layout int) []item {
	a0 := seq(text("A0"), pvar("v"), pvar("i"))
	b0 := seq(text("B0"), pvar("v"))
	i0 := seq(text("I0"), pvar("v"), pvar("i"))
	switch layout {
	case lFlat:
		return seq(text("["), block("a", a0...), text("|"), block("b", b0...), text("]"), pvar("v"))
	case lFor:
		return seq(text("["), forIn("xs", block("a", a0...), text(",")), text("|"), block("b", b0...), text("]"))
	case lIf:
		return seq(text("["), ifc("t", seq(block("a", a0...)), seq(text("no-a"))), text("|"),
			ifc("f", seq(block("b", b0...)), nil), text("]"))
	case lNested:
		inner := append(seq(text("A0<")), block("in", i0...), text(">"), pvar("v"))
		return seq(text("["), block("a", inner...), text("|"), forIn("xs", block("b", b0...)), text("]"))
	case lSet:
		return seq(text("pre"), pvar("v"), set("v", "S"), text("["), block("a", a0...), text("|"), block("b", b0...), text("]"), pvar("v"))
	case lHosted, lHostedPre:
		return seq(text("["), block("a", a0...), text("|"), block("b", b0...), text("]"))
	}
	return nil
}

// valid reports whether the choice vector is inside the space of the layout
func (c *kase) valid() bool {
	if c.hosted() {
		// `in` stands in the level-1 definition of `a`: that definition must exist and have a body,
		// and level 1 does not also define `in` at top level (a block stands in exactly one place)
		if c.L < 2 {
			return false
		}
		if a := c.Ch[1][0]; a == cAbsent || a == cEmpty {
			return false
		}
		if c.Ch[1][2] != cAbsent {
			return false
		}
	}
	return true
}

func (c *kase) extMoved() bool {
	for l := 1; l < c.L; l++ {
		if c.Ext[l] != xFirst {
			return true
		}
	}
	return false
}

func (c *kase) hosted() bool { return c.Layout == lHosted || c.Layout == lHostedPre }

func (c *kase) templates() []tpl {
	ts := make([]tpl, c.L)
	ts[0].items = baseTemplate(c.Layout)
	for l := 1; l < c.L; l++ {
		ts[l] = c.levelTpl(l, c.Ch[l], false)
	}
	return ts
}

// levelTpl builds the extending template of level l with the block choices ch. alt: the twin of that
// level used by the families of multi.go (same shape, every literal marked with '*').
func (c *kase) levelTpl(l int, ch3 [3]int, alt bool) tpl {
	mark := ""
	if alt {
		mark = "*"
	}
	var t tpl
	if c.Junk >= 1 {
		t.pre = seq(text(fmt.Sprintf("pre%d%s ", l, mark)))
	}
	if c.Junk >= 2 {
		t.pre = append(t.pre, pvar("v"))
	}
	for bi, bn := range blockNames {
		ch := ch3[bi]
		if c.Junk >= 1 {
			t.items = append(t.items, text(fmt.Sprintf(" junk%d%s%s ", l, bn, mark)))
		}
		if c.Junk >= 2 && bi == 1 {
			t.items = append(t.items, pvar("v"), ifc("sel", seq(text("J")), seq(text("K"))), forK("one", text("F"), pvar("k")))
		}
		if ch == cAbsent {
			continue
		}
		body := defBody(bn, l, ch)
		if alt {
			body = defBodyTagged(strings.ToLower(bn[:1])+fmt.Sprint(l)+"*", bn, ch)
		}
		if l == 1 && bi == 0 {
			host := seq(text("<"+mark), block("in", text("I1"+mark), pvar("v")), text(">"))
			if c.Layout == lHosted {
				body = append(body, host...)
			} else if c.Layout == lHostedPre {
				body = append(host, body...)
			}
		}
		t.items = append(t.items, block(bn, body...))
	}
	if c.Junk >= 1 {
		t.items = append(t.items, text(fmt.Sprintf(" post%d%s", l, mark)))
	}
	switch c.Ext[l] {
	case xFirst:
		t.extAt = 0
	case xLast:
		t.extAt = len(t.items)
	case xMid:
		// right behind the first block definition; a template without definitions: in the middle of its items
		t.extAt = len(t.items) / 2
		for i, it := range t.items {
			if it.kind == kBlock {
				t.extAt = i + 1
				break
			}
		}
	}
	return t
}

func parentExpr(form int, lvl int) string {
	name := fmt.Sprintf("t%d", lvl)
	switch form {
	case nfSingle:
		return "'" + name + "'"
	case nfDouble:
		return "\"" + name + "\""
	case nfVar:
		return fmt.Sprintf("n%d", lvl)
	case nfTernary:
		return "sel ? '" + name + "' : 'nope'"
	case nfTernary2:
		return "nsel ? 'nope' : '" + name + "'"
	case nfVarConcat:
		return fmt.Sprintf("n%d ~ ''", lvl)
	case nfParenConcat:
		return fmt.Sprintf("('t' ~ '%d')", lvl)
	case nfConcat:
		return fmt.Sprintf("'t' ~ '%d'", lvl)
	}
	return ""
}

var padding = "{#" + strings.Repeat("padding-", 520) + "#}"

func (c *kase) sources(ts []tpl) map[string]string {
	src := map[string]string{}
	for l := range ts {
		var b strings.Builder
		if c.Pad == 1 || (c.Pad == 2 && l == c.L-1) {
			b.WriteString(padding)
		}
		if l > 0 {
			printItems(&b, ts[l].pre)
			printItems(&b, ts[l].items[:ts[l].extAt])
			b.WriteString("{% extends " + parentExpr(c.NameForm, l-1) + " %}")
			printItems(&b, ts[l].items[ts[l].extAt:])
		} else {
			printItems(&b, ts[l].items)
		}
		src[fmt.Sprintf("t%d", l)] = b.String()
	}
	return src
}

func (c *kase) expected(ts []tpl) *model {
	m := &model{over: map[string][][]item{}}
	for l := c.L - 1; l >= 1; l-- {
		// a block definition of a template counts wherever it stands relative to the extends tag
		for i, it := range ts[l].items {
			if it.kind == kBlock {
				m.over[it.s] = append(m.over[it.s], it.body)
				if i < ts[l].extAt {
					m.defBeforeExt = true
				}
			}
		}
	}
	// skipped level: some block that has a definition above and below an absent level
	for bi := range blockNames {
		seenAbove := false
		for l := c.L - 1; l >= 1; l-- {
			if c.Ch[l][bi] != cAbsent {
				seenAbove = true
			} else if seenAbove {
				m.skipped = true
			}
		}
	}
	m.eval(ts[0].items, ctxOf(c.Ctx), nil)
	return m
}

// ---------------------------------------------------------------------------------------------
// running a case on twig

func runTwig(src map[string]string, main string, ctx map[string]interface{}) (out string, errText string) {
	e := twig.New()
	names := make([]string, 0, len(src))
	for n := range src {
		names = append(names, n)
	}
	sort.Strings(names)
	for _, n := range names {
		if err := e.RegisterString(n, src[n]); err != nil {
			return "", "register " + n + ": " + err.Error()
		}
	}
	o, err := e.Render(main, ctx)
	if err != nil {
		return "", "render: " + err.Error()
	}
	return o, ""
}

func check(c kase) *vlib.Outcome {
	ts := c.templates()
	src := c.sources(ts)
	m := c.expected(ts)
	if m.bad != "" {
		return &vlib.Outcome{Violation: m.bad}
	}
	want := m.out.String()
	main := fmt.Sprintf("t%d", c.L-1)
	got, errText := runTwig(src, main, ctxOf(c.Ctx))

	cls := fmt.Sprintf("%s/L%d/d%d", layoutName[c.Layout], c.L, m.maxDepth)
	if m.emptySel {
		cls += "e"
	}
	if m.defViaPar {
		cls += "b"
	}
	if m.skipped {
		cls += "s"
	}
	if c.NameForm >= nfVar {
		cls += "/dyn"
	}
	if c.Pad > 0 {
		cls += "/pad"
	}
	if c.extMoved() {
		// which positions other than "first" occur, and whether a definition really stands in front of a tag
		var mid, last bool
		for l := 1; l < c.L; l++ {
			mid = mid || c.Ext[l] == xMid
			last = last || c.Ext[l] == xLast
		}
		cls += "/x"
		if mid {
			cls += "m"
		}
		if last {
			cls += "l"
		}
		if m.defBeforeExt {
			cls += "B"
		}
	}
	o := &vlib.Outcome{
		Nontrivial: c.L >= 2 && m.substituted,
		Class:      cls,
		Counters:   map[string]int64{"renders": 1, "blocks_rendered_in_model": int64(m.blocksRun), "parent_calls_in_model": int64(m.parentCalls)},
	}
	if c.extMoved() {
		o.Counters["extends_tag_not_first"] = 1
		if m.defBeforeExt {
			o.Counters["block_definition_before_extends_tag"] = 1
		}
	}
	if errText == "" && got == want {
		return o
	}
	show := make(map[string]string, len(src))
	for n, s := range src {
		show[n] = strings.Replace(s, padding, "{#…4162 bytes of padding…#}", 1)
	}
	obs := fmt.Sprintf("%q", got)
	if errText != "" {
		obs = "error: " + errText
	}
	o.Violation = fmt.Sprintf("render %s of %v with context %s: got %s, want %q", main, show, ctxNames[c.Ctx], obs, want)
	o.Detail = map[string]interface{}{"templates": show, "render": main, "context": ctxOf(c.Ctx), "expected": want, "observed": obs}

	// KF-C10-1 (open): a parent-name expression that begins and ends with a quote character
	// ('t' ~ '0') is taken for one string literal by the tokenizer's template-path shortcut.
	// Predicate: the case writes the parent name that way and has an extends tag.
	// Quirk: the render fails because a template named after the raw expression text is not found.
	if c.NameForm == nfConcat && c.L >= 2 && errText != "" &&
		strings.Contains(errText, "not found") && strings.Contains(errText, fmt.Sprintf("t' ~ '%d", c.L-2)) {
		o.Known = "KF-C10-1"
	}
	return o
}

// ---------------------------------------------------------------------------------------------
// enumeration (fixed order, simplest first); every family is a full product inside its bounds

type family struct {
	name      string
	maxL      int
	blocks    []int  // indices of the blocks whose choices are enumerated
	choices   []int  // choices each of them takes per level
	fixed     [3]int // choice of the blocks that are not enumerated, at every level
	layouts   []int
	nameForms []int
	junks     []int
	ctxs      []int
	pads      []int
	extPos    []int // positions of the extends tag, enumerated independently for every level (nil: always first)
}

func ints(n int) []int {
	r := make([]int, n)
	for i := range r {
		r[i] = i
	}
	return r
}

func families(thorough bool) []family {
	all5 := []int{cAbsent, cText, cEmpty, cPar1, cPar2}
	all6 := ints(nChoices)
	lite4 := []int{cAbsent, cText, cEmpty, cPar1}
	layouts := ints(nLayouts)
	sq := []int{nfSingle}
	xpos := ints(nExtPos)
	noCat := []int{nfSingle, nfDouble, nfVar, nfTernary, nfTernary2, nfVarConcat, nfParenConcat} // 't' ~ '0' is KF-C10-1
	if !thorough {
		return []family{
			// chain logic, block a alone, chains of up to 5 templates
			{name: "A1", maxL: 5, blocks: []int{0}, choices: all6, layouts: layouts, nameForms: sq, junks: []int{1}, ctxs: []int{0, 1, 2}, pads: []int{0}},
			// a × b and a × in: chains of up to 3 templates in every context (6 choices), of 4 templates in context c0 (5 choices)
			{name: "A2b", maxL: 3, blocks: []int{0, 1}, choices: all6, layouts: layouts, nameForms: sq, junks: []int{1}, ctxs: []int{0, 1, 2}, pads: []int{0}},
			{name: "A2i", maxL: 3, blocks: []int{0, 2}, choices: all6, layouts: layouts, nameForms: sq, junks: []int{1}, ctxs: []int{0, 1, 2}, pads: []int{0}},
			{name: "A2b4", maxL: 4, blocks: []int{0, 1}, choices: all5, layouts: layouts, nameForms: sq, junks: []int{1}, ctxs: []int{0}, pads: []int{0}},
			{name: "A2i4", maxL: 4, blocks: []int{0, 2}, choices: all5, layouts: layouts, nameForms: sq, junks: []int{1}, ctxs: []int{0}, pads: []int{0}},
			// all three blocks, chains of up to 3 templates
			{name: "B3", maxL: 3, blocks: []int{0, 1, 2}, choices: all5, layouts: layouts, nameForms: sq, junks: []int{0}, ctxs: []int{0}, pads: []int{0}},
			// presentation: name forms × text outside blocks × contexts × padding, block a varies
			{name: "C", maxL: 4, blocks: []int{0}, choices: all5, fixed: [3]int{0, cPar1, cText}, layouts: layouts, nameForms: ints(nNameForms), junks: []int{0, 1, 2}, ctxs: []int{0, 1, 2}, pads: []int{0, 1}},
			// padded templates (other tokenizer), a × in
			{name: "D", maxL: 3, blocks: []int{0, 2}, choices: all5, fixed: [3]int{0, cPar2, 0}, layouts: layouts, nameForms: []int{nfSingle, nfVar, nfTernary}, junks: []int{2}, ctxs: []int{0}, pads: []int{1}},
			// position of the extends tag (first / behind the first block definition / last), independently at every level:
			// block a over all 6 choices × 7 name forms × text outside blocks × padding (b = P, in = T fixed) …
			{name: "E1", maxL: 3, blocks: []int{0}, choices: all6, fixed: [3]int{0, cPar1, cText}, layouts: layouts, nameForms: noCat, junks: []int{0, 1, 2}, ctxs: []int{0}, pads: []int{0, 1}, extPos: xpos},
			// … and a × b, a × in with a static and a dynamic parent name
			{name: "E2b", maxL: 3, blocks: []int{0, 1}, choices: all5, layouts: layouts, nameForms: []int{nfSingle, nfVar}, junks: []int{0}, ctxs: []int{0}, pads: []int{0}, extPos: xpos},
			{name: "E2i", maxL: 3, blocks: []int{0, 2}, choices: all5, layouts: layouts, nameForms: []int{nfSingle, nfVar}, junks: []int{0}, ctxs: []int{0}, pads: []int{0}, extPos: xpos},
		}
	}
	return []family{
		{name: "A1", maxL: 6, blocks: []int{0}, choices: all6, layouts: layouts, nameForms: sq, junks: []int{1}, ctxs: []int{0, 1, 2}, pads: []int{0}},
		{name: "A2b", maxL: 4, blocks: []int{0, 1}, choices: all6, layouts: layouts, nameForms: sq, junks: []int{1}, ctxs: []int{0, 1, 2}, pads: []int{0}},
		{name: "A2i", maxL: 4, blocks: []int{0, 2}, choices: all6, layouts: layouts, nameForms: sq, junks: []int{1}, ctxs: []int{0, 1, 2}, pads: []int{0}},
		{name: "B3", maxL: 3, blocks: []int{0, 1, 2}, choices: all6, layouts: layouts, nameForms: sq, junks: []int{0}, ctxs: []int{0}, pads: []int{0}},
		{name: "C", maxL: 4, blocks: []int{0}, choices: all6, fixed: [3]int{0, cPar1, cText}, layouts: layouts, nameForms: ints(nNameForms), junks: []int{0, 1, 2}, ctxs: []int{0, 1, 2}, pads: []int{0, 1, 2}},
		{name: "D", maxL: 4, blocks: []int{0, 2}, choices: all5, fixed: [3]int{0, cPar2, 0}, layouts: layouts, nameForms: []int{nfSingle, nfVar, nfTernary}, junks: []int{2}, ctxs: []int{0}, pads: []int{1, 2}},
		{name: "A2b5", maxL: 5, blocks: []int{0, 1}, choices: lite4, layouts: layouts, nameForms: sq, junks: []int{0}, ctxs: []int{0}, pads: []int{0}},
		{name: "A2i5", maxL: 5, blocks: []int{0, 2}, choices: lite4, layouts: layouts, nameForms: sq, junks: []int{0}, ctxs: []int{0}, pads: []int{0}},
		{name: "B4", maxL: 4, blocks: []int{0, 1, 2}, choices: lite4, layouts: layouts, nameForms: []int{nfVar}, junks: []int{0}, ctxs: []int{0}, pads: []int{0}},
		// position of the extends tag, independently at every level (see the quick tier)
		{name: "E1", maxL: 4, blocks: []int{0}, choices: all6, fixed: [3]int{0, cPar1, cText}, layouts: layouts, nameForms: noCat, junks: []int{0, 2}, ctxs: []int{0}, pads: []int{0, 1}, extPos: xpos},
		{name: "E2b", maxL: 3, blocks: []int{0, 1}, choices: all6, layouts: layouts, nameForms: []int{nfSingle, nfVar}, junks: []int{0}, ctxs: []int{0, 1, 2}, pads: []int{0}, extPos: xpos},
		{name: "E2i", maxL: 3, blocks: []int{0, 2}, choices: all6, layouts: layouts, nameForms: []int{nfSingle, nfVar}, junks: []int{0}, ctxs: []int{0, 1, 2}, pads: []int{0}, extPos: xpos},
		{name: "E2b4", maxL: 4, blocks: []int{0, 1}, choices: lite4, layouts: layouts, nameForms: []int{nfSingle}, junks: []int{0}, ctxs: []int{0}, pads: []int{0}, extPos: xpos},
		{name: "E2i4", maxL: 4, blocks: []int{0, 2}, choices: lite4, layouts: layouts, nameForms: []int{nfVar}, junks: []int{0}, ctxs: []int{0}, pads: []int{0}, extPos: xpos},
	}
}

func (f *family) each(emit func(kase)) {
	for L := 1; L <= f.maxL; L++ {
		slots := (L - 1) * len(f.blocks)
		n := 1
		for i := 0; i < slots; i++ {
			n *= len(f.choices)
		}
		for _, lay := range f.layouts {
			for code := 0; code < n; code++ {
				var c kase
				c.Fam, c.Layout, c.L = f.name, lay, L
				for l := 1; l < L; l++ {
					c.Ch[l] = f.fixed
				}
				x := code
				for l := 1; l < L; l++ {
					for _, bi := range f.blocks {
						c.Ch[l][bi] = f.choices[x%len(f.choices)]
						x /= len(f.choices)
					}
				}
				if c.hosted() && L >= 2 {
					// the fixed part must respect the layout's constraint as well
					if c.Ch[1][2] != cAbsent && !contains(f.blocks, 2) {
						c.Ch[1][2] = cAbsent
					}
				}
				if !c.valid() {
					continue
				}
				extPos := f.extPos
				if len(extPos) == 0 {
					extPos = []int{xFirst}
				}
				nx := 1
				for l := 1; l < L; l++ {
					nx *= len(extPos)
				}
				for _, nf := range f.nameForms {
					if L == 1 && nf != f.nameForms[0] {
						continue // no extends tag: the name form does not occur
					}
					for _, j := range f.junks {
						if L == 1 && j != f.junks[0] {
							continue
						}
						for _, cx := range f.ctxs {
							for _, p := range f.pads {
								if L == 1 && p == 2 {
									continue
								}
								for xc := 0; xc < nx; xc++ {
									y := xc
									for l := 1; l < L; l++ {
										c.Ext[l] = extPos[y%len(extPos)]
										y /= len(extPos)
									}
									c.NameForm, c.Junk, c.Ctx, c.Pad = nf, j, cx, p
									emit(c)
								}
							}
						}
					}
				}
			}
		}
	}
}

func contains(xs []int, v int) bool {
	for _, x := range xs {
		if x == v {
			return true
		}
	}
	return false
}

func run(t *vlib.T) {
	seen := map[string]struct{}{}
	for _, f := range families(t.Thorough()) {
		f := f
		f.each(func(c kase) {
			if t.Stopped() {
				return
			}
			k := c.key()
			if !t.Owns(k) {
				return
			}
			if _, dup := seen[k]; dup {
				return
			}
			seen[k] = struct{}{}
			t.Case(k, func() *vlib.Outcome { return check(c) })
		})
	}
	// chains through directories with relative parent names (paths.go); partials with a layout chain
	// included under variables that shadow the page's (shadow.go)
	runPaths(t, seen)
	runShadow(t, seen)
	// programs of several chains on one engine: repeated renders with other contexts, included children (multi.go)
	runMulti(t, seen)
}

func main() {
	// a runaway recursion in the engine under test should end the worker quickly (default limit: 1 GB of stack)
	debug.SetMaxStack(96 << 20)
	vlib.Main(vlib.Spec{
		ID:    "C10",
		Level: "exploration",
		Rule:  "every extends chain of 1–4 templates × every assignment of {absent, text, empty, parent(), parent() twice, parent() in if/for} to (level, block) × 7 base layouts × 8 ways of writing the parent name × text outside blocks × 3 contexts × padding across the 4096-byte tokenizer switch × position of the extends tag in every extending template (in front of / between / behind its block definitions), as a union of full products (families, see NOTES.md); rendered on a fresh engine and compared with an evaluator of the same AST transcribed from the statement. Families R: the same chains with a twin template beside every level and a parent name that chooses between the two (10 ways of writing it: conditionals, variables, concatenations; independently at every level), registered once on one engine and rendered three times with contexts that select different parents (x, y, x for every ordered pair of 3–4 contexts; every triple in the thorough tier) — every render must equal the model for its own context. Families I: a page (plain with blocks of its own, or the top of an extends chain of its own; block names a, b, in collide with the widget's) that includes one to three children of one layout (7 patterns of a child and its sibling; literal includes, a loop, includes with a with-clause) between its blocks, inside a default body or inside an overriding definition — every included child must render what it renders on its own and the page's blocks what they render without the includes. Families P: the templates of the chain live in directories and every hop writes the parent name relative to the writing template, independently one of '../base.twig', the same target by its full name, './base.twig' (in a base.twig: './layout.twig'), './inc/base.twig', '../alt/base.twig', '../../base.twig' or a plain name at the root (every combination on chains of 2–3, up/full/down on chains of 4, the SAME name at every hop on chains of up to 5–6; 3–8 ways of writing the name, static and dynamic) — several hops of one chain write the same text and mean different files. Families W: a partial with a layout chain of 2–3 (thorough 4) templates is included under an enclosing context — with-variables that shadow a variable, an assigned variable or the loop variable of the including page, the loop source and conditions of the layout, a loop variable without with-clause, an include inside an overriding block of the page's own chain, an include inside an included template, with … only — and must render exactly like the same page including the partial with its inheritance resolved by hand (base layout with every block replaced by the winning definition, every parent() by the next one; rendered by the engine as well). Non-trivial: the chain has at least two templates and at least one block that is rendered has an overriding definition (I: … and an included template that extends a parent is really rendered; P: … and at least one hop is relative; W: … and the output depends on the shadowing value and the hand-resolved twin shows it)",
		Assumptions: []string{
			"child templates define blocks at top level only and a block name stands in exactly one place of the chain (the statement does not say which definition a re-nested block contributes)",
			"parent() is only printed ({{ parent() }}), bodies do not assign variables, text outside blocks contains no set",
			"longer chains, more than three block names and other body shapes are outside the bound",
			"families I: the included templates do not assign variables (layout `set` is left out there) and never read the loop variable of the including page; include … only is not generated there",
			"families P: a name that begins with ./ or ../ means the file found from the directory of the template that writes it (statement C02 spells this rule out); every template a hop names exists, no hop leaves the root, no two templates of a chain are the same file",
			"families W: which variables an include hands to the included template is not judged (C11): the verdict compares the engine's render of the extending partial with the engine's render of the hand-resolved partial at the same place; the evaluator only tells whether the shadowing value reached the output",
		},
		QuickDeadline: 150, ThoroughDeadline: 840,
		Run: run,
		Extra: func(tier string, cov map[string]interface{}) {
			var fs []string
			for _, f := range families(tier == "thorough") {
				var bl, chs []string
				for _, b := range f.blocks {
					bl = append(bl, blockNames[b])
				}
				for _, c := range f.choices {
					chs = append(chs, choiceName[c])
				}
				fs = append(fs, fmt.Sprintf("%s: chains<=%d templates, blocks %s over {%s}, %d layouts, %d name forms, %d junk variants, %d contexts, %d padding variants, %d positions of the extends tag per level",
					f.name, f.maxL, strings.Join(bl, "+"), strings.Join(chs, ","), len(f.layouts), len(f.nameForms), len(f.junks), len(f.ctxs), len(f.pads), max(1, len(f.extPos))))
			}
			for _, f := range iFamilies(tier == "thorough") {
				var bl, chs []string
				for _, b := range f.blocks {
					bl = append(bl, blockNames[b])
				}
				for _, c := range f.choices {
					chs = append(chs, choiceName[c])
				}
				sib := "rotation of the child's choices"
				if f.bA != nil {
					sib = fmt.Sprintf("%d choices for block a", len(f.bA))
				}
				fs = append(fs, fmt.Sprintf("%s (includes): widget chains of 2..%d templates, blocks %s over {%s}, sibling: %s, %d layouts, %d name forms, %d junk variants, %d contexts, %d padding variants, %d page shapes, %d include patterns, %d include styles",
					f.name, f.maxL, strings.Join(bl, "+"), strings.Join(chs, ","), sib, len(f.layouts), len(f.nameForms), len(f.junks), len(f.ctxs), len(f.pads), len(f.shapes), len(f.pats), len(f.styles)))
			}
			for _, f := range pFamilies(tier == "thorough") {
				var bl, chs, hs, fms []string
				for _, b := range f.blocks {
					bl = append(bl, blockNames[b])
				}
				for _, c := range f.choices {
					chs = append(chs, choiceName[c])
				}
				for _, h := range f.hops {
					hs = append(hs, hopName[h])
				}
				for _, x := range f.forms {
					fms = append(fms, pformName[x])
				}
				fs = append(fs, fmt.Sprintf("%s (directories, relative parent names): chains of %d..%d templates, every hop over {%s}, blocks %s over {%s}, %d layouts, name written as {%s}, %d junk variants, %d contexts, %d padding variants",
					f.name, f.minL, f.maxL, strings.Join(hs, ","), strings.Join(bl, "+"), strings.Join(chs, ","), len(f.layouts), strings.Join(fms, ","), len(f.junks), len(f.ctxs), len(f.pads)))
			}
			for _, f := range wFamilies(tier == "thorough") {
				var bl, chs, scs []string
				for _, b := range f.blocks {
					bl = append(bl, blockNames[b])
				}
				for _, c := range f.choices {
					chs = append(chs, choiceName[c])
				}
				for _, x := range f.scens {
					scs = append(scs, wscenName[x])
				}
				fs = append(fs, fmt.Sprintf("%s (partial with a layout chain included under shadowing variables): chains of 2..%d templates, blocks %s over {%s}, %d layouts, %d name forms, %d junk variants, %d contexts, scenarios {%s}, %d positions of the extends tag per level",
					f.name, f.maxL, strings.Join(bl, "+"), strings.Join(chs, ","), len(f.layouts), len(f.nameForms), len(f.junks), len(f.ctxs), strings.Join(scs, ","), max(1, len(f.extPos))))
			}
			for _, f := range rFamilies(tier == "thorough") {
				var bl, chs, sets []string
				for _, b := range f.blocks {
					bl = append(bl, blockNames[b])
				}
				for _, c := range f.choices {
					chs = append(chs, choiceName[c])
				}
				for _, set := range f.formSets {
					var ns []string
					for _, x := range set {
						ns = append(ns, rformName[x])
					}
					sets = append(sets, "{"+strings.Join(ns, ",")+"}")
				}
				seqs := "(x,y,x) for every ordered pair of contexts"
				if f.triples {
					seqs = "every triple of contexts"
				}
				fs = append(fs, fmt.Sprintf("%s (repeated renders on one engine): chains of 2..%d templates, blocks %s over {%s}, %d layouts, parent-name forms per level over %s, junk %d, %d padding variants, render sequences: %s (3 contexts for chains of 2, 4 for longer ones)",
					f.name, f.maxL, strings.Join(bl, "+"), strings.Join(chs, ","), len(f.layouts), strings.Join(sets, " "), f.junk, len(f.pads), seqs))
			}
			cov["families"] = fs
		},
	})
}
