// C10, family W — an extending template rendered under an ENCLOSING context: a partial with a layout
// chain of its own is included with `with {…}` variables that shadow variables (and loop variables)
// of the including page. "Rendering a template that extends a parent gives the parent's output with
// every block replaced …" and "parent() yields … with the same variables" hold for the variables the
// partial is rendered with: the layout's text, the overriding bodies and the bodies reached through
// parent() must all see what the partial itself sees.
//
// Deciding oracle: the metamorphic twin the statement names — the same page including the partial
// with its inheritance resolved by hand (the base layout with every block replaced by the winning
// definition and every parent() by the next definition, as template source without extends, block
// or parent()). Both pages are rendered by the engine, so what an include passes on is not judged
// here (that is C11's subject); the evaluator is run as well and tells whether the shadowing was
// really exercised (non-trivial) — a disagreement between evaluator and twin is counted, not reported.
package main

import (
	"fmt"
	"strings"

	"verif/lib/vlib"
)

// one variable of a with-clause: 'lit', or the page's variable `from`, or from ~ 'suffix'
type withVar struct {
	name   string
	lit    string
	from   string
	suffix string
}

func withClause(ws []withVar, only bool) string {
	if ws == nil {
		return ""
	}
	var parts []string
	for _, w := range ws {
		v := "'" + w.lit + "'"
		if w.from != "" {
			v = w.from
			if w.suffix != "" {
				v += " ~ '" + w.suffix + "'"
			}
		}
		parts = append(parts, "'"+w.name+"': "+v)
	}
	s := " with {" + strings.Join(parts, ", ") + "}"
	if only {
		s += " only"
	}
	return s
}

// the variables an include renders its template with
func (m *model) includeVars(it item, vars map[string]interface{}) map[string]interface{} {
	if it.with == nil || m.ignoreWith {
		return vars
	}
	nv := map[string]interface{}{}
	if !it.only {
		for k, v := range vars {
			nv[k] = v
		}
	}
	for _, w := range it.with {
		switch {
		case w.from == "":
			nv[w.name] = w.lit
		case w.suffix == "":
			nv[w.name] = vars[w.from]
		default:
			s := ""
			if v := vars[w.from]; v != nil {
				s = fmt.Sprint(v)
			}
			nv[w.name] = s + w.suffix
		}
	}
	return nv
}

func incWith(expr string, only bool, ws ...withVar) item {
	return item{kind: kInc, s: expr, with: ws, only: only}
}

// ---------------------------------------------------------------------------------------------
// inheritance resolved by hand: the items of the base with every block replaced by its winning
// definition and every parent() by the next definition (no block, no parent() left)

func flattenItems(its []item, over map[string][][]item, cur *frame) []item {
	var out []item
	for _, it := range its {
		switch it.kind {
		case kBlock:
			chain := append(append([][]item{}, over[it.s]...), it.body)
			out = append(out, flattenItems(chain[0], over, &frame{chain, 0})...)
		case kParent:
			d := cur.depth + 1
			out = append(out, flattenItems(cur.chain[d], over, &frame{cur.chain, d})...)
		case kFor, kIf:
			it.body = flattenItems(it.body, over, cur)
			if it.els != nil {
				it.els = append([]item{}, flattenItems(it.els, over, cur)...)
			}
			out = append(out, it)
		default:
			out = append(out, it)
		}
	}
	return out
}

// flatten follows the chain of template `name` under vars (as renderTemplate does) and returns the
// hand-resolved items
func flatten(prog map[string]*tdef, name string, vars map[string]interface{}) ([]item, bool) {
	d := prog[name]
	over := map[string][][]item{}
	for hops := 0; d != nil && d.ext != ""; hops++ {
		if hops > 2*maxLevels {
			return nil, false
		}
		for _, it := range d.t.items {
			if it.kind == kBlock {
				over[it.s] = append(over[it.s], it.body)
			}
		}
		d = prog[d.parent(vars)]
	}
	if d == nil {
		return nil, false
	}
	return flattenItems(d.t.items, over, nil), true
}

// ---------------------------------------------------------------------------------------------
// scenarios: how the enclosing context arises and what the with-clause shadows

const (
	wsVar      = iota // {{ v }}:{% include W with {'v': 'Q'} %}:{{ v }}                     a variable of the page
	wsVarI            // … with {'v': 'Q', 'i': 'J'}                                           … and a variable only the partial reads
	wsLoop            // {% for i in ws %}({{ i }}){% include W with {'i': i ~ '!', 'v': v ~ '+'} %}{% endfor %}   the page's loop variable
	wsLoopSame        // {% for v in ws %}{{ v }}{% include W with {'v': v ~ '!'} %}{% endfor %}  loop variable of the same name
	wsLoopVar         // {% for v in ws %}{% include W %}{% endfor %}                           no with: the loop variable shadows the page's v
	wsSource          // … with {'xs': ys, 't': f, 'f': t, 'v': 'Q'}                            loop source and conditions of the layout
	wsSet             // {% set v = 'S' %}{{ v }}{% include W with {'v': 'Q'} %}{{ v }}          a variable the page assigned
	wsOverride        // pg extends pl; the include stands in pg's overriding definition of block a
	wsNested          // page includes mid with {'v': 'M'}; mid includes W with {'v': v ~ 'q'}   two enclosing contexts
	wsOnly            // … with {'v': 'Q'} only                                                 (static parent names only)
	nWScen
)

var wscenName = [...]string{"v", "vi", "loop", "loopsame", "loopvar", "src", "set", "ovr", "nest", "only"}

type wcase struct {
	K    kase // the partial's chain t0 … t{L-1} (Layout, L, Ch, NameForm, Junk, Ctx, Ext)
	Scen int
}

func (c *wcase) key() string {
	k := &c.K
	s := fmt.Sprintf("W|%s|L%d|%s|%s|j%d|%s|%s", layoutName[k.Layout], k.L, k.chKey(), nameFormName[k.NameForm], k.Junk, ctxNames[k.Ctx], wscenName[c.Scen])
	if k.extMoved() {
		s += "|x"
		for l := 1; l < k.L; l++ {
			s += extPosName[k.Ext[l]]
		}
	}
	return s
}

func (c *wcase) ctx() map[string]interface{} {
	m := ctxOf(c.K.Ctx)
	m["ws"] = []interface{}{"a", "b"}
	m["ys"] = []interface{}{"m", "n", "o"}
	return m
}

func lit(name, v string) withVar          { return withVar{name: name, lit: v} }
func from(name, v, suffix string) withVar { return withVar{name: name, from: v, suffix: suffix} }

// pages builds the including templates of the scenario around the partial named w; sfx is appended
// to the names of the templates that (directly or not) include it. Returns the entry point.
func (c *wcase) pages(w, sfx string) (entry string, ds []*tdef) {
	W := "'" + w + "'"
	fuel := pvar("fuel()")
	static := func(n string) func(map[string]interface{}) string {
		return func(map[string]interface{}) string { return n }
	}
	page := func(its ...item) (string, []*tdef) {
		return "page" + sfx, []*tdef{{name: "page" + sfx, t: tpl{items: its}}}
	}
	switch c.Scen {
	case wsVar:
		return page(text("P["), pvar("v"), text(":"), fuel, incWith(W, false, lit("v", "Q")), text(":"), pvar("v"), text("]"))
	case wsVarI:
		return page(text("P["), pvar("v"), text(":"), fuel, incWith(W, false, lit("v", "Q"), lit("i", "J")), text(":"), pvar("v"), text("]"))
	case wsLoop:
		return page(text("P["), item{kind: kFor, s: "ws", val: "i", body: seq(text("("), pvar("i"), text(")"), fuel,
			incWith(W, false, from("i", "i", "!"), from("v", "v", "+")), text(";"))}, pvar("v"), text("]"))
	case wsLoopSame:
		return page(text("P["), item{kind: kFor, s: "ws", val: "v", body: seq(pvar("v"), text(":"), fuel,
			incWith(W, false, from("v", "v", "!")), text(";"))}, text("]"))
	case wsLoopVar:
		return page(text("P["), pvar("v"), item{kind: kFor, s: "ws", val: "v", body: seq(fuel, inc(W, ""), text(";"))}, text("]"))
	case wsSource:
		return page(text("P["), pvar("v"), text(":"), fuel,
			incWith(W, false, from("xs", "ys", ""), from("t", "f", ""), from("f", "t", ""), lit("v", "Q")), text(":"), pvar("v"), text("]"))
	case wsSet:
		return page(text("P["), set("v", "S"), pvar("v"), text(":"), fuel, incWith(W, false, lit("v", "Q")), text(":"), pvar("v"), text("]"))
	case wsOnly:
		return page(text("P["), pvar("v"), text(":"), fuel, incWith(W, true, lit("v", "Q")), text(":"), pvar("v"), text("]"))
	case wsNested:
		e, ds := page(text("P["), pvar("v"), text(":"), fuel, incWith("'mid"+sfx+"'", false, lit("v", "M")), text(":"), pvar("v"), text("]"))
		ds = append(ds, &tdef{name: "mid" + sfx, t: tpl{items: seq(text("M<"), pvar("v"), text(":"), fuel,
			incWith(W, false, from("v", "v", "q")), text(">"), pvar("v"))}})
		return e, ds
	case wsOverride:
		pl := seq(text("L("), block("a", text("la"), pvar("v")), text(")"), block("b", text("lb")), pvar("v"))
		pg := tpl{items: seq(block("a", text("pa("), parent(), text("):"), fuel, incWith(W, false, lit("v", "Q")), text(";"), pvar("v")))}
		return "pg" + sfx, []*tdef{{name: "pl" + sfx, t: tpl{items: pl}}, {name: "pg" + sfx, ext: "'pl" + sfx + "'", parent: static("pl" + sfx), t: pg}}
	}
	return "", nil
}

func checkW(c wcase) *vlib.Outcome {
	k := &c.K
	static := func(n string) func(map[string]interface{}) string {
		return func(map[string]interface{}) string { return n }
	}
	// the partial and its layout chain
	ds := []*tdef{{name: "t0", t: tpl{items: baseTemplate(k.Layout)}}}
	for l := 1; l < k.L; l++ {
		ds = append(ds, &tdef{name: fmt.Sprintf("t%d", l), ext: parentExpr(k.NameForm, l-1), parent: static(fmt.Sprintf("t%d", l-1)),
			t: k.levelTpl(l, k.Ch[l], false)})
	}
	top := fmt.Sprintf("t%d", k.L-1)
	// … and the same partial with the inheritance resolved by hand
	flat, ok := flatten(registry(ds), top, c.ctx())
	if !ok {
		return &vlib.Outcome{Violation: "generator bug: the partial's chain does not resolve"}
	}
	ds = append(ds, &tdef{name: "wflat", t: tpl{items: flat}})
	entry, pages := c.pages(top, "")
	entryFlat, pagesFlat := c.pages("wflat", "_flat")
	ds = append(ds, pages...)
	ds = append(ds, pagesFlat...)
	reg := registry(ds)

	m := &model{prog: reg}
	m.renderTemplate(entry, c.ctx(), false)
	if m.bad != "" {
		return &vlib.Outcome{Violation: m.bad}
	}
	want := m.out.String()
	mf := &model{prog: reg}
	mf.renderTemplate(entryFlat, c.ctx(), false)
	if mf.bad != "" || mf.out.String() != want {
		return &vlib.Outcome{Violation: fmt.Sprintf("generator bug: the evaluator renders the hand-resolved partial differently: %q / %q %s", want, mf.out.String(), mf.bad)}
	}
	// does the shadowing matter? the same page with the with-clauses ignored
	plain := &model{prog: reg, ignoreWith: true}
	plain.renderTemplate(entry, c.ctx(), false)
	shadowSeen := plain.out.String() != want
	if c.Scen == wsLoopVar {
		// no with-clause: the partial under the page's own v and under the first value of the loop variable
		alone, looped := &model{prog: reg}, &model{prog: reg}
		alone.renderTemplate(top, c.ctx(), false)
		lv := c.ctx()
		lv["v"] = "a"
		looped.renderTemplate(top, lv, false)
		shadowSeen = alone.out.String() != looped.out.String()
	}

	outs, errs := runSteps(ds, []step{
		{entry: entry, ctx: c.ctx, label: entry},
		{entry: entryFlat, ctx: c.ctx, label: entryFlat},
	})

	cls := fmt.Sprintf("W/%s/L%d/%s/n%d/d%d", layoutName[k.Layout], k.L, wscenName[c.Scen], m.includes, m.maxDepth)
	if m.emptySel {
		cls += "e"
	}
	if m.defViaPar {
		cls += "b"
	}
	if k.NameForm >= nfVar {
		cls += "/dyn"
	}
	if !shadowSeen {
		cls += "/noshadow"
	}
	o := &vlib.Outcome{Class: cls, Counters: map[string]int64{"renders": 2, "shadow_cases": 1,
		"included_extending_templates_rendered_in_model": int64(m.inclExtending),
		"blocks_rendered_in_model":                       int64(m.blocksRun), "parent_calls_in_model": int64(m.parentCalls)}}
	twinOK := errs[1] == "" && outs[1] == want
	if !twinOK {
		// what the include hands to a template without inheritance is not this property's subject
		o.Counters["shadow_cases_twin_differs_from_evaluator"] = 1
		o.Class += "/twin≠model"
	}
	// the partial that extends a parent is really rendered, some rendered block has an override, the
	// output depends on the shadowing value, and the hand-resolved twin shows that value
	o.Nontrivial = m.inclExtending > 0 && m.substituted && shadowSeen && twinOK
	if shadowSeen && twinOK {
		o.Counters["shadow_cases_output_depends_on_the_shadowing_value"] = 1
	}
	if errs[1] != "" && errs[0] != "" {
		o.Class += "/both-fail"
		return o
	}
	if errs[0] == "" && errs[1] == "" && outs[0] == outs[1] {
		return o
	}
	obs, twin := fmt.Sprintf("%q", outs[0]), fmt.Sprintf("%q", outs[1])
	if errs[0] != "" {
		obs = "error: " + errs[0]
	}
	if errs[1] != "" {
		twin = "error: " + errs[1]
	}
	show := showSources(ds)
	o.Violation = fmt.Sprintf("one engine, templates %v, context %s + ws, ys: render %s gave %s, but %s (the same page including the partial with its inheritance resolved by hand, `wflat`) gave %s (evaluator: %q)",
		show, ctxNames[k.Ctx], entry, obs, entryFlat, twin, want)
	o.Detail = map[string]interface{}{"templates": show, "render": entry, "twin": entryFlat, "context": c.ctx(),
		"observed": obs, "observed_twin": twin, "evaluator": want}
	return o
}

type wfamily struct {
	name      string
	maxL      int
	blocks    []int
	choices   []int
	fixed     [3]int
	layouts   []int
	nameForms []int
	junks     []int
	ctxs      []int
	scens     []int
	extPos    []int
}

func (f *wfamily) each(emit func(wcase)) {
	for L := 2; L <= f.maxL; L++ {
		slots := (L - 1) * len(f.blocks)
		n := 1
		for i := 0; i < slots; i++ {
			n *= len(f.choices)
		}
		extPos := f.extPos
		if len(extPos) == 0 {
			extPos = []int{xFirst}
		}
		nx := 1
		for l := 1; l < L; l++ {
			nx *= len(extPos)
		}
		for _, lay := range f.layouts {
			for code := 0; code < n; code++ {
				var c wcase
				c.K.Fam, c.K.Layout, c.K.L = f.name, lay, L
				for l := 1; l < L; l++ {
					c.K.Ch[l] = f.fixed
				}
				x := code
				for l := 1; l < L; l++ {
					for _, bi := range f.blocks {
						c.K.Ch[l][bi] = f.choices[x%len(f.choices)]
						x /= len(f.choices)
					}
				}
				if c.K.hosted() && c.K.Ch[1][2] != cAbsent && !contains(f.blocks, 2) {
					c.K.Ch[1][2] = cAbsent
				}
				if !c.K.valid() {
					continue
				}
				for _, nf := range f.nameForms {
					for _, j := range f.junks {
						for _, cx := range f.ctxs {
							for xc := 0; xc < nx; xc++ {
								y := xc
								for l := 1; l < L; l++ {
									c.K.Ext[l] = extPos[y%len(extPos)]
									y /= len(extPos)
								}
								for _, sc := range f.scens {
									if sc == wsOnly && nf != nfSingle && nf != nfDouble {
										continue // under `only` the variables a dynamic parent name reads are gone
									}
									c.K.NameForm, c.K.Junk, c.K.Ctx, c.Scen = nf, j, cx, sc
									emit(c)
								}
							}
						}
					}
				}
			}
		}
	}
}

func wFamilies(thorough bool) []wfamily {
	all5 := []int{cAbsent, cText, cEmpty, cPar1, cPar2}
	all6 := ints(nChoices)
	lite4 := []int{cAbsent, cText, cEmpty, cPar1}
	// layout `set` is left out as in the families I (an assignment made by an included template)
	layouts := []int{lFlat, lFor, lIf, lNested, lHosted, lHostedPre}
	scens := ints(nWScen)
	bp := [3]int{0, cPar1, cText}
	if !thorough {
		return []wfamily{
			{name: "W1", maxL: 3, blocks: []int{0}, choices: all6, fixed: bp, layouts: layouts, nameForms: []int{nfSingle, nfVar, nfTernary}, junks: []int{0}, ctxs: []int{0, 1}, scens: scens},
			{name: "W2", maxL: 2, blocks: []int{0, 1}, choices: all5, layouts: layouts, nameForms: []int{nfSingle}, junks: []int{1}, ctxs: []int{0}, scens: scens},
		}
	}
	return []wfamily{
		{name: "W1", maxL: 3, blocks: []int{0}, choices: all6, fixed: bp, layouts: layouts, nameForms: []int{nfSingle, nfVar, nfTernary}, junks: []int{0, 2}, ctxs: []int{0, 1, 2}, scens: scens},
		{name: "W2", maxL: 3, blocks: []int{0, 1}, choices: all5, layouts: layouts, nameForms: []int{nfSingle, nfVar}, junks: []int{1}, ctxs: []int{0, 1}, scens: scens},
		{name: "W3", maxL: 4, blocks: []int{0}, choices: lite4, fixed: bp, layouts: layouts, nameForms: []int{nfSingle, nfVar}, junks: []int{0}, ctxs: []int{0}, scens: scens},
		{name: "W4", maxL: 3, blocks: []int{0}, choices: lite4, fixed: bp, layouts: layouts, nameForms: []int{nfSingle, nfVar}, junks: []int{0}, ctxs: []int{0}, scens: scens, extPos: ints(nExtPos)},
	}
}

func runShadow(t *vlib.T, seen map[string]struct{}) {
	for _, f := range wFamilies(t.Thorough()) {
		f := f
		f.each(func(c wcase) {
			if t.Stopped() {
				return
			}
			k := c.key()
			if !t.Owns(k) {
				return
			}
			if _, dup := seen[k]; dup {
				return
			}
			seen[k] = struct{}{}
			t.Case(k, func() *vlib.Outcome { return checkW(c) })
		})
	}
}
