// C10, programs of several chains on ONE engine (families R and I).
//
// R — repeated renders: one cached chain whose parent names are dynamic (conditionals, variables,
//
//	concatenations, at every level independently) is rendered three times on one engine with
//	contexts that select different parents; every render must equal the model for its own context.
//
// I — extending templates reached through {% include %}: a page (plain, or the top of an extends
//
//	chain of its own whose block names collide with the widget's) includes one, two or three
//	children of one layout (same child twice, two siblings, in a loop); every included child must
//	render what it renders on its own and the blocks of the including chain must be unaffected.
//
// Both use the AST, printer and evaluator of main.go; the evaluator resolves a template by name,
// walks its extends chain under the variables of the render, and gives an include a block table of
// its own.
package main

import (
	"fmt"
	"runtime"
	"runtime/debug"
	"sort"
	"strings"

	"github.com/semihalev/twig"

	"verif/lib/vlib"
)

// tdef is one named template of a program
type tdef struct {
	name   string
	ext    string                                   // parent expression as printed ("" = extends nothing)
	parent func(vars map[string]interface{}) string // the template that expression names under these variables
	t      tpl
	pad    bool
}

func (d *tdef) source() string {
	var b strings.Builder
	if d.pad {
		b.WriteString(padding)
	}
	if d.ext != "" {
		printItems(&b, d.t.pre)
		printItems(&b, d.t.items[:d.t.extAt])
		b.WriteString("{% extends " + d.ext + " %}")
		printItems(&b, d.t.items[d.t.extAt:])
	} else {
		printItems(&b, d.t.items)
	}
	return b.String()
}

func registry(ds []*tdef) map[string]*tdef {
	r := make(map[string]*tdef, len(ds))
	for _, d := range ds {
		r[d.name] = d
	}
	return r
}

// renderTemplate: the statement applied to a named template — its chain is followed under the
// variables of this render; the definitions of a block are the top-level definitions of the templates
// on that chain, most-derived first; the base is evaluated with that table and with no other.
func (m *model) renderTemplate(name string, vars map[string]interface{}, included bool) {
	d := m.prog[name]
	over := map[string][][]item{}
	path := name
	for hops := 0; d != nil && d.ext != ""; hops++ {
		if hops > 2*maxLevels {
			m.bad = "generator bug: extends cycle at " + name
			return
		}
		if hops == 0 && included {
			m.inclExtending++
		}
		for i, it := range d.t.items {
			if it.kind == kBlock {
				over[it.s] = append(over[it.s], it.body)
				if i < d.t.extAt {
					m.defBeforeExt = true
				}
			}
		}
		pn := d.parent(vars)
		path += ">" + pn
		d = m.prog[pn]
	}
	if d == nil {
		m.bad = "generator bug: template not in the program: " + path
		return
	}
	if !included {
		m.path = path
	}
	m.over = over
	m.eval(d.t.items, vars, nil)
}

func incName(expr string, vars map[string]interface{}) string {
	if expr[0] == '\'' || expr[0] == '"' {
		return expr[1 : len(expr)-1]
	}
	s, _ := vars[expr].(string)
	return s
}

// every literal of the twin templates is lower-cased and marked with '*'
func altItems(its []item) []item {
	if its == nil {
		return nil
	}
	out := make([]item, len(its))
	for i, it := range its {
		if it.kind == kText {
			it.s = strings.ToLower(it.s) + "*"
		}
		it.body = altItems(it.body)
		it.els = altItems(it.els)
		out[i] = it
	}
	return out
}

// block choice of the twin of a level: a fixed rotation, so that the twin defines what the level
// omits, omits what it blanks, and so on
var altChoice = [...]int{cAbsent: cText, cText: cPar1, cEmpty: cAbsent, cPar1: cEmpty, cPar2: cText, cParCtl: cPar1}

func (c *kase) altCh(l int) [3]int {
	var r [3]int
	for bi := range r {
		r[bi] = altChoice[c.Ch[l][bi]]
	}
	if c.hosted() && l == 1 {
		// the twin of level 1 hosts block `in` as well: its definition of `a` keeps a body
		r[0], r[2] = c.Ch[1][0], cAbsent
	}
	return r
}

func (c *kase) chKey() string {
	var b strings.Builder
	for bi := 0; bi < 3; bi++ {
		if bi > 0 {
			b.WriteByte(';')
		}
		b.WriteString(blockNames[bi] + "=")
		for l := 1; l < c.L; l++ {
			if l > 1 {
				b.WriteByte(',')
			}
			b.WriteString(choiceName[c.Ch[l][bi]])
		}
	}
	return b.String()
}

// a correct render of a generated page executes at most 3 includes (three children; the page's own
// definitions call parent() at most once). The limit is kept low because under a broken engine the
// definition lists may grow with every nested include, and a body that calls parent() twice then
// costs 2^depth
const fuelLimit = 8

type step struct {
	entry string
	ctx   func() map[string]interface{}
	label string
}

// one engine, every template registered once, the steps rendered one after the other
func runSteps(ds []*tdef, steps []step) (outs []string, errs []string) {
	outs, errs = make([]string, len(steps)), make([]string, len(steps))
	e := twig.New()
	// guard against runaway recursion (under a broken engine an included child may end up including
	// itself; the stack overflow that follows cannot be recovered in Go, and with parent() twice per
	// level the way there is exponential): every include is preceded by {{ fuel() }}, which prints
	// nothing; after fuelLimit calls within one render it ends the rendering goroutine with
	// runtime.Goexit, which no error handling or recover() inside the engine can swallow
	fuel := 0
	e.AddFunction("fuel", func(args ...interface{}) (interface{}, error) {
		fuel++
		if fuel > fuelLimit {
			runtime.Goexit()
		}
		return "", nil
	})
	names := make([]string, 0, len(ds))
	src := map[string]string{}
	for _, d := range ds {
		names = append(names, d.name)
		src[d.name] = d.source()
	}
	sort.Strings(names)
	for _, n := range names {
		if err := e.RegisterString(n, src[n]); err != nil {
			for i := range errs {
				errs[i] = "register " + n + ": " + err.Error()
			}
			return
		}
	}
	for i, s := range steps {
		fuel = 0
		type rres struct {
			out string
			err string
		}
		ch := make(chan rres, 1)
		entry, ctx := s.entry, s.ctx()
		go func() {
			finished := false
			defer func() {
				if finished {
					return
				}
				if p := recover(); p != nil {
					ch <- rres{err: fmt.Sprintf("panic: %v\n%s", p, firstBytes(string(debug.Stack()), 3000))}
					return
				}
				ch <- rres{err: fmt.Sprintf("render aborted: more than %d includes executed in one render (runaway include recursion)", fuelLimit)}
			}()
			o, err := e.Render(entry, ctx)
			finished = true
			if err != nil {
				ch <- rres{err: "render: " + err.Error()}
				return
			}
			ch <- rres{out: o}
		}()
		r := <-ch
		outs[i], errs[i] = r.out, r.err
	}
	return
}

func firstBytes(s string, n int) string {
	if len(s) > n {
		return s[:n]
	}
	return s
}

func showSources(ds []*tdef) map[string]string {
	show := make(map[string]string, len(ds))
	for _, d := range ds {
		show[d.name] = strings.Replace(d.source(), padding, "{#…4162 bytes of padding…#}", 1)
	}
	return show
}

// compares every step with the model of that step; fills Violation/Detail of o
func compareSteps(o *vlib.Outcome, ds []*tdef, steps []step, wants []string) {
	outs, errs := runSteps(ds, steps)
	for i := range steps {
		if errs[i] == "" && outs[i] == wants[i] {
			continue
		}
		obs := fmt.Sprintf("%q", outs[i])
		if errs[i] != "" {
			obs = "error: " + errs[i]
		}
		var hist []string
		for j := 0; j <= i; j++ {
			hist = append(hist, steps[j].label)
		}
		show := showSources(ds)
		o.Violation = fmt.Sprintf("one engine, templates %v, renders %s: render #%d (%s) gave %s, want %q",
			show, strings.Join(hist, " then "), i+1, steps[i].label, obs, wants[i])
		o.Detail = map[string]interface{}{"templates": show, "renders": hist, "failing_render": i + 1,
			"context": steps[i].ctx(), "expected": wants[i], "observed": obs}
		return
	}
}

// =============================================================================================
// R — repeated renders of one cached chain with contexts that select different parents

const (
	rfStatic  = iota // 't0'
	rfTern           // k1 ? 't0' : 's0'
	rfVar            // p1
	rfCat            // q1 ~ '0'
	rfTern2          // nk1 ? 's0' : 't0'
	rfVarCat         // p1 ~ ''
	rfTernVar        // k1 ? n0 : m0
	rfCmp            // w1 > 1 ? 't0' : 's0'
	rfAttr           // rq.k1 ? 't0' : 's0'
	rfTernCat        // k1 ? ('t' ~ '0') : ('s' ~ '0')
	nRForms
)

var rformName = [...]string{"st", "tern", "var", "cat", "tern2", "varcat", "ternvar", "cmp", "attr", "terncat"}

// the parent expression of the templates of level l (they choose between t{l-1} and its twin s{l-1})
func rExpr(form, l int) string {
	p := l - 1
	switch form {
	case rfStatic:
		return fmt.Sprintf("'t%d'", p)
	case rfTern:
		return fmt.Sprintf("k%d ? 't%d' : 's%d'", l, p, p)
	case rfVar:
		return fmt.Sprintf("p%d", l)
	case rfCat:
		return fmt.Sprintf("q%d ~ '%d'", l, p)
	case rfTern2:
		return fmt.Sprintf("nk%d ? 's%d' : 't%d'", l, p, p)
	case rfVarCat:
		return fmt.Sprintf("p%d ~ ''", l)
	case rfTernVar:
		return fmt.Sprintf("k%d ? n%d : m%d", l, p, p)
	case rfCmp:
		return fmt.Sprintf("w%d > 1 ? 't%d' : 's%d'", l, p, p)
	case rfAttr:
		return fmt.Sprintf("rq.k%d ? 't%d' : 's%d'", l, p, p)
	case rfTernCat:
		return fmt.Sprintf("k%d ? ('t' ~ '%d') : ('s' ~ '%d')", l, p, p)
	}
	return ""
}

// what every one of these expressions names: the context carries k<l> and values of p, q, nk, w,
// rq, n, m that are consistent with it (rctx)
func rParent(form, l int) func(map[string]interface{}) string {
	return func(vars map[string]interface{}) string {
		if form == rfStatic || vars[fmt.Sprintf("k%d", l)] == true {
			return fmt.Sprintf("t%d", l-1)
		}
		return fmt.Sprintf("s%d", l-1)
	}
}

// rsel: does context i select the plain parent (true) or the twin (false) at level l
func rsel(i, l int) bool {
	switch i {
	case 0:
		return true
	case 1:
		return false
	case 2:
		return l%2 == 0
	}
	return l%2 == 1
}

var rctxName = [...]string{"r0", "r1", "r2", "r3"}

// contexts of family R: r0 = c0 + every level takes the plain parent; r1 = c1 + every level takes the
// twin; r2 = c2 (v, xs, t, f undefined) + odd levels take the twin; r3 = c0 with another v + even levels take the twin
func rctx(i int) map[string]interface{} {
	c := ctxOf(i % 3)
	if i == 3 {
		c["v"] = "U"
	}
	rq := map[string]interface{}{}
	for l := 1; l < maxLevels; l++ {
		k := rsel(i, l)
		c[fmt.Sprintf("k%d", l)] = k
		c[fmt.Sprintf("nk%d", l)] = !k
		rq[fmt.Sprintf("k%d", l)] = k
		c[fmt.Sprintf("m%d", l-1)] = fmt.Sprintf("s%d", l-1)
		if k {
			c[fmt.Sprintf("p%d", l)] = fmt.Sprintf("t%d", l-1)
			c[fmt.Sprintf("q%d", l)] = "t"
			c[fmt.Sprintf("w%d", l)] = 2
		} else {
			c[fmt.Sprintf("p%d", l)] = fmt.Sprintf("s%d", l-1)
			c[fmt.Sprintf("q%d", l)] = "s"
			c[fmt.Sprintf("w%d", l)] = 1
		}
	}
	c["rq"] = rq
	return c
}

type rcase struct {
	K    kase // Layout, L, Ch, Junk, Pad
	Form [maxLevels]int
	Seq  [3]int
}

func (c *rcase) key() string {
	var b strings.Builder
	fmt.Fprintf(&b, "R|%s|L%d|%s|f", layoutName[c.K.Layout], c.K.L, c.K.chKey())
	for l := 1; l < c.K.L; l++ {
		if l > 1 {
			b.WriteByte(',')
		}
		b.WriteString(rformName[c.Form[l]])
	}
	fmt.Fprintf(&b, "|j%d|p%d|%s>%s>%s", c.K.Junk, c.K.Pad, rctxName[c.Seq[0]], rctxName[c.Seq[1]], rctxName[c.Seq[2]])
	return b.String()
}

func (c *rcase) program() []*tdef {
	k := &c.K
	pad := k.Pad == 1
	ds := []*tdef{{name: "t0", t: tpl{items: baseTemplate(k.Layout)}, pad: pad}}
	if k.L >= 2 && c.Form[1] != rfStatic {
		ds = append(ds, &tdef{name: "s0", t: tpl{items: altItems(baseTemplate(k.Layout))}, pad: pad})
	}
	for l := 1; l < k.L; l++ {
		ext, par := rExpr(c.Form[l], l), rParent(c.Form[l], l)
		ds = append(ds, &tdef{name: fmt.Sprintf("t%d", l), ext: ext, parent: par, t: k.levelTpl(l, k.Ch[l], false), pad: pad})
		if l+1 < k.L && c.Form[l+1] != rfStatic {
			ds = append(ds, &tdef{name: fmt.Sprintf("s%d", l), ext: ext, parent: par, t: k.levelTpl(l, k.altCh(l), true), pad: pad})
		}
	}
	return ds
}

func checkR(c rcase) *vlib.Outcome {
	ds := c.program()
	reg := registry(ds)
	top := fmt.Sprintf("t%d", c.K.L-1)
	var steps []step
	var wants, paths []string
	o := &vlib.Outcome{Counters: map[string]int64{"renders": 3, "repeat_cases": 1}}
	maxDepth, subst := 0, false
	var flags string
	for _, ci := range c.Seq {
		ci := ci
		m := &model{prog: reg}
		m.renderTemplate(top, rctx(ci), false)
		if m.bad != "" {
			return &vlib.Outcome{Violation: m.bad}
		}
		steps = append(steps, step{entry: top, ctx: func() map[string]interface{} { return rctx(ci) }, label: top + " with " + rctxName[ci]})
		wants = append(wants, m.out.String())
		paths = append(paths, m.path)
		if m.maxDepth > maxDepth {
			maxDepth = m.maxDepth
		}
		subst = subst || m.substituted
		if m.emptySel && !strings.Contains(flags, "e") {
			flags += "e"
		}
		if m.defViaPar && !strings.Contains(flags, "b") {
			flags += "b"
		}
		o.Counters["blocks_rendered_in_model"] += int64(m.blocksRun)
		o.Counters["parent_calls_in_model"] += int64(m.parentCalls)
	}
	differ := paths[0] != paths[1]
	// which levels take the twin, per render (e.g. "10" = level 1 twin, level 2 plain)
	sig := func(p string) string {
		parts := strings.Split(p, ">")[1:]
		s := ""
		for _, x := range parts {
			if x[0] == 's' {
				s += "1"
			} else {
				s += "0"
			}
		}
		return s
	}
	dyn := 0
	for l := 1; l < c.K.L; l++ {
		if c.Form[l] != rfStatic {
			dyn++
		}
	}
	o.Class = fmt.Sprintf("R/%s/L%d/dyn%d/%s>%s/d%d%s", layoutName[c.K.Layout], c.K.L, dyn, sig(paths[0]), sig(paths[1]), maxDepth, flags)
	if c.K.Pad > 0 {
		o.Class += "/pad"
	}
	o.Nontrivial = c.K.L >= 2 && subst
	if differ {
		o.Counters["repeat_cases_consecutive_renders_with_different_parents"] = 1
	}
	compareSteps(o, ds, steps, wants)
	return o
}

// the render sequences: (x, y, x) for every ordered pair x ≠ y of the contexts — or every triple
func rSeqs(nctx int, all bool) [][3]int {
	var r [][3]int
	for x := 0; x < nctx; x++ {
		for y := 0; y < nctx; y++ {
			if all {
				for z := 0; z < nctx; z++ {
					r = append(r, [3]int{x, y, z})
				}
			} else if x != y {
				r = append(r, [3]int{x, y, x})
			}
		}
	}
	return r
}

type rfamily struct {
	name     string
	maxL     int
	blocks   []int
	choices  []int
	fixed    [3]int
	layouts  []int
	formSets [][]int // for every set: the forms of the levels vary independently over it
	junk     int
	pads     []int
	triples  bool // every triple of contexts instead of (x, y, x)
}

func (f *rfamily) each(emit func(rcase)) {
	for L := 2; L <= f.maxL; L++ {
		slots := (L - 1) * len(f.blocks)
		n := 1
		for i := 0; i < slots; i++ {
			n *= len(f.choices)
		}
		nctx := 3
		if L >= 3 {
			nctx = 4 // four combinations of (level 1, level 2) twin / plain
		}
		seqs := rSeqs(nctx, f.triples)
		for _, lay := range f.layouts {
			for code := 0; code < n; code++ {
				var c rcase
				c.K.Fam, c.K.Layout, c.K.L, c.K.Junk = f.name, lay, L, f.junk
				for l := 1; l < L; l++ {
					c.K.Ch[l] = f.fixed
				}
				x := code
				for l := 1; l < L; l++ {
					for _, bi := range f.blocks {
						c.K.Ch[l][bi] = f.choices[x%len(f.choices)]
						x /= len(f.choices)
					}
				}
				if c.K.hosted() && c.K.Ch[1][2] != cAbsent && !contains(f.blocks, 2) {
					c.K.Ch[1][2] = cAbsent
				}
				if !c.K.valid() {
					continue
				}
				for _, fs := range f.formSets {
					nf := 1
					for l := 1; l < L; l++ {
						nf *= len(fs)
					}
					for fc := 0; fc < nf; fc++ {
						y := fc
						for l := 1; l < L; l++ {
							c.Form[l] = fs[y%len(fs)]
							y /= len(fs)
						}
						for _, p := range f.pads {
							c.K.Pad = p
							for _, s := range seqs {
								c.Seq = s
								emit(c)
							}
						}
					}
				}
			}
		}
	}
}

// =============================================================================================
// I — extending templates reached through includes

// the children that are included: A = t{L-1} (the top of the widget chain), B = s{L-1} (its sibling:
// extends the same parent, other block definitions)
var incPatterns = [...]string{"A", "AA", "AB", "BA", "ABA", "BAB", "AAB"}

const (
	isLiteral = iota // {% include 't1' %}{% include 's1' %}…
	isLoop           // {% for kid in kids %}{% include kid %}{% endfor %}
	isWith           // {% include 't1' with {'zz': 'q'} %}…
	nIncStyles
)

var incStyleName = [...]string{"lit", "loop", "with"}

// page shapes
const (
	pmPlain = iota // the page `pl` (blocks a, b, in of its own, no extends) is rendered
	pmChain        // `pg` extends `pl` and is rendered
)
const (
	ipOutside  = iota // the includes stand in pl between its blocks
	ipDefault         // … inside the default body of pl's block b
	ipOverride        // … inside pg's overriding definition of a
)
const (
	poAbsent = iota
	poText
	poParent
)

var poName = [...]string{"-", "T", "P"}
var ipName = [...]string{"out", "dflt", "ovr"}

type pshape struct{ Mode, Pos, Pa, Pb int }

func pageShapes() []pshape {
	r := []pshape{{pmPlain, ipOutside, 0, 0}, {pmPlain, ipDefault, 0, 0}}
	for _, pos := range []int{ipOutside, ipDefault, ipOverride} {
		for pa := poAbsent; pa <= poParent; pa++ {
			for pb := poAbsent; pb <= poParent; pb++ {
				if pos == ipOverride && pa == poAbsent {
					continue
				}
				r = append(r, pshape{pmChain, pos, pa, pb})
			}
		}
	}
	return r
}

type icase struct {
	K     kase   // the widget chain t0 … t{L-1} (Layout, L, Ch, NameForm, Junk, Ctx, Pad)
	B     [3]int // block choices of the sibling s{L-1}
	P     pshape
	Pat   int
	Style int
}

func (c *icase) key() string {
	k := &c.K
	return fmt.Sprintf("I|%s|L%d|%s|B=%s,%s,%s|%s|j%d|%s|p%d|pg%d%s:%s%s|%s|%s", layoutName[k.Layout], k.L, k.chKey(),
		choiceName[c.B[0]], choiceName[c.B[1]], choiceName[c.B[2]], nameFormName[k.NameForm], k.Junk, ctxNames[k.Ctx], k.Pad,
		c.P.Mode, ipName[c.P.Pos], poName[c.P.Pa], poName[c.P.Pb], incPatterns[c.Pat], incStyleName[c.Style])
}

func (c *icase) kidNames() []string {
	var r []string
	for _, ch := range incPatterns[c.Pat] {
		if ch == 'A' {
			r = append(r, fmt.Sprintf("t%d", c.K.L-1))
		} else {
			r = append(r, fmt.Sprintf("s%d", c.K.L-1))
		}
	}
	return r
}

func (c *icase) usesB() bool { return strings.Contains(incPatterns[c.Pat], "B") }

func (c *icase) incItems() []item {
	var r []item
	switch c.Style {
	case isLoop:
		return seq(item{kind: kFor, s: "kids", val: "kid", body: seq(pvar("fuel()"), inc("kid", ""), text(";"))})
	case isLiteral:
		for _, n := range c.kidNames() {
			r = append(r, pvar("fuel()"), inc("'"+n+"'", ""), text(";"))
		}
	case isWith:
		for _, n := range c.kidNames() {
			r = append(r, pvar("fuel()"), inc("'"+n+"'", " with {'zz': 'q'}"), text(";"))
		}
	}
	return r
}

func (c *icase) ctx() map[string]interface{} {
	m := ctxOf(c.K.Ctx)
	var kids []interface{}
	for _, n := range c.kidNames() {
		kids = append(kids, n)
	}
	m["kids"] = kids
	return m
}

func (c *icase) program() []*tdef {
	k := &c.K
	pad := k.Pad == 1
	static := func(n string) func(map[string]interface{}) string {
		return func(map[string]interface{}) string { return n }
	}
	// the widget chain and the sibling of its top
	ds := []*tdef{{name: "t0", t: tpl{items: baseTemplate(k.Layout)}, pad: pad}}
	for l := 1; l < k.L; l++ {
		ds = append(ds, &tdef{name: fmt.Sprintf("t%d", l), ext: parentExpr(k.NameForm, l-1), parent: static(fmt.Sprintf("t%d", l-1)),
			t: k.levelTpl(l, k.Ch[l], false), pad: pad})
	}
	if c.usesB() {
		l := k.L - 1
		ds = append(ds, &tdef{name: fmt.Sprintf("s%d", l), ext: parentExpr(k.NameForm, l-1), parent: static(fmt.Sprintf("t%d", l-1)),
			t: k.levelTpl(l, c.B, true), pad: pad})
	}
	// the page: block names a, b, in collide with the widget's
	incs := c.incItems()
	var pl []item
	pl = append(pl, text("L("), block("a", text("la"), pvar("v")), text(")"))
	if c.P.Pos == ipOutside {
		pl = append(pl, incs...)
	}
	bBody := seq(text("lb"))
	if c.P.Pos == ipDefault {
		bBody = append(bBody, text(":"))
		bBody = append(bBody, incs...)
	}
	pl = append(pl, block("b", bBody...), text("("), block("in", text("li"), pvar("v")), text(")"), pvar("v"))
	ds = append(ds, &tdef{name: "pl", t: tpl{items: pl}})
	if c.P.Mode == pmChain {
		var pg tpl
		pg.pre = seq(text("pgpre "))
		var a []item
		switch c.P.Pa {
		case poText:
			a = seq(text("pa"), pvar("v"))
		case poParent:
			a = seq(text("pa("), parent(), text(")"))
		}
		if c.P.Pos == ipOverride {
			a = append(a, text(":"))
			a = append(a, incs...)
		}
		if c.P.Pa != poAbsent {
			pg.items = append(pg.items, block("a", a...))
		}
		pg.items = append(pg.items, text(" pgmid "))
		switch c.P.Pb {
		case poText:
			pg.items = append(pg.items, block("b", text("pb"), pvar("v")))
		case poParent:
			pg.items = append(pg.items, block("b", text("pb("), parent(), text(")")))
		}
		ds = append(ds, &tdef{name: "pg", ext: "'pl'", parent: static("pl"), t: pg})
	}
	return ds
}

func (c *icase) valid() bool {
	k := &c.K
	if !k.valid() {
		return false
	}
	if k.hosted() && k.L == 2 && c.usesB() {
		// the sibling stands at level 1: it hosts block `in` as well
		if c.B[0] == cAbsent || c.B[0] == cEmpty || c.B[2] != cAbsent {
			return false
		}
	}
	return true
}

func checkI(c icase) *vlib.Outcome {
	ds := c.program()
	entry := "pl"
	if c.P.Mode == pmChain {
		entry = "pg"
	}
	m := &model{prog: registry(ds)}
	m.renderTemplate(entry, c.ctx(), false)
	if m.bad != "" {
		return &vlib.Outcome{Violation: m.bad}
	}
	cls := fmt.Sprintf("I/%s/L%d/pg%d%s/%s/n%d/d%d", layoutName[c.K.Layout], c.K.L, c.P.Mode, ipName[c.P.Pos], incStyleName[c.Style], m.includes, m.maxDepth)
	if m.emptySel {
		cls += "e"
	}
	if m.defViaPar {
		cls += "b"
	}
	if c.K.NameForm >= nfVar {
		cls += "/dyn"
	}
	o := &vlib.Outcome{
		// the page really renders an included template that extends a parent, and some block that is rendered has an overriding definition
		Nontrivial: m.inclExtending > 0 && m.substituted,
		Class:      cls,
		Counters: map[string]int64{"renders": 1, "include_cases": 1, "included_extending_templates_rendered_in_model": int64(m.inclExtending),
			"blocks_rendered_in_model": int64(m.blocksRun), "parent_calls_in_model": int64(m.parentCalls)},
	}
	compareSteps(o, ds, []step{{entry: entry, ctx: c.ctx, label: entry + " with " + ctxNames[c.K.Ctx] + " + kids"}}, []string{m.out.String()})
	return o
}

type ifamily struct {
	name      string
	maxL      int // widget chains of 2 … maxL templates
	blocks    []int
	choices   []int
	fixed     [3]int
	bA        []int // choices of the sibling for block a (nil: the rotation of A's choice); its other blocks: rotation of A's
	layouts   []int
	nameForms []int
	junks     []int
	ctxs      []int
	pads      []int
	shapes    []pshape
	pats      []int
	styles    []int
}

func (f *ifamily) each(emit func(icase)) {
	for L := 2; L <= f.maxL; L++ {
		slots := (L - 1) * len(f.blocks)
		n := 1
		for i := 0; i < slots; i++ {
			n *= len(f.choices)
		}
		for _, lay := range f.layouts {
			for code := 0; code < n; code++ {
				var c icase
				c.K.Fam, c.K.Layout, c.K.L = f.name, lay, L
				for l := 1; l < L; l++ {
					c.K.Ch[l] = f.fixed
				}
				x := code
				for l := 1; l < L; l++ {
					for _, bi := range f.blocks {
						c.K.Ch[l][bi] = f.choices[x%len(f.choices)]
						x /= len(f.choices)
					}
				}
				if c.K.hosted() && c.K.Ch[1][2] != cAbsent && !contains(f.blocks, 2) {
					c.K.Ch[1][2] = cAbsent
				}
				if !c.K.valid() {
					continue
				}
				bAs := f.bA
				if bAs == nil {
					bAs = []int{-1}
				}
				for _, ba := range bAs {
					c.B = c.K.altCh(L - 1)
					if ba >= 0 {
						c.B[0] = ba
					}
					for _, nf := range f.nameForms {
						for _, j := range f.junks {
							for _, cx := range f.ctxs {
								for _, p := range f.pads {
									c.K.NameForm, c.K.Junk, c.K.Ctx, c.K.Pad = nf, j, cx, p
									for _, sh := range f.shapes {
										for _, pat := range f.pats {
											for _, st := range f.styles {
												e := c
												e.P, e.Pat, e.Style = sh, pat, st
												if !e.valid() {
													continue
												}
												if !e.usesB() {
													e.B = [3]int{} // no sibling in the program: one key for all of them
												}
												emit(e)
											}
										}
									}
								}
							}
						}
					}
				}
			}
		}
	}
}

// =============================================================================================

func rFamilies(thorough bool) []rfamily {
	all5 := []int{cAbsent, cText, cEmpty, cPar1, cPar2}
	all6 := ints(nChoices)
	lite4 := []int{cAbsent, cText, cEmpty, cPar1}
	layouts := ints(nLayouts)
	core := [][]int{{rfStatic, rfTern, rfVar, rfCat}}
	var single [][]int // one dynamic form, at every subset of the levels
	for f := rfTern; f < nRForms; f++ {
		single = append(single, []int{rfStatic, f})
	}
	bp := [3]int{0, cPar1, cText}
	if !thorough {
		return []rfamily{
			{name: "R1", maxL: 3, blocks: []int{0}, choices: all6, fixed: bp, layouts: layouts, formSets: core, junk: 0, pads: []int{0}},
			{name: "R2", maxL: 3, blocks: []int{0}, choices: all5, fixed: bp, layouts: layouts, formSets: single, junk: 1, pads: []int{0}},
		}
	}
	return []rfamily{
		{name: "R1", maxL: 3, blocks: []int{0}, choices: all6, fixed: bp, layouts: layouts, formSets: core, junk: 0, pads: []int{0}, triples: true},
		{name: "R2", maxL: 3, blocks: []int{0}, choices: all6, fixed: bp, layouts: layouts, formSets: single, junk: 1, pads: []int{0, 1}},
		{name: "R3", maxL: 3, blocks: []int{0, 1}, choices: all5, layouts: layouts, formSets: [][]int{{rfStatic, rfTern}, {rfStatic, rfVar}}, junk: 0, pads: []int{0}},
		{name: "R4", maxL: 4, blocks: []int{0}, choices: lite4, fixed: bp, layouts: layouts, formSets: core, junk: 0, pads: []int{0}},
	}
}

func iFamilies(thorough bool) []ifamily {
	all5 := []int{cAbsent, cText, cEmpty, cPar1, cPar2}
	all6 := ints(nChoices)
	lite4 := []int{cAbsent, cText, cEmpty, cPar1}
	// layout `set` assigns a variable in the base: whether an included template's assignment is seen
	// by the including one is not C10's business, so that layout is left out here
	layouts := []int{lFlat, lFor, lIf, lNested, lHosted, lHostedPre}
	shapes := pageShapes()
	sibShapes := []pshape{{pmPlain, ipOutside, 0, 0}, {pmPlain, ipDefault, 0, 0}, {pmChain, ipOverride, poParent, poParent}}
	allPats, allStyles := ints(len(incPatterns)), ints(nIncStyles)
	sq := []int{nfSingle}
	if !thorough {
		return []ifamily{
			// siblings: A × B choices, every pattern and include style, three page shapes
			{name: "I1", maxL: 2, blocks: []int{0, 1}, choices: all5, bA: lite4, layouts: layouts, nameForms: sq, junks: []int{1}, ctxs: []int{0}, pads: []int{0},
				shapes: sibShapes, pats: allPats, styles: allStyles},
			// collisions with the page's own chain: every page shape
			{name: "I2", maxL: 2, blocks: []int{0, 1}, choices: all5, layouts: layouts, nameForms: sq, junks: []int{0}, ctxs: []int{0, 1}, pads: []int{0},
				shapes: shapes, pats: []int{0, 2, 4}, styles: []int{isLiteral, isLoop}},
			// widget chains of three templates, static and dynamic parent names
			{name: "I3", maxL: 3, blocks: []int{0}, choices: lite4, fixed: [3]int{0, cPar1, cText}, layouts: layouts, nameForms: []int{nfSingle, nfVar, nfTernary}, junks: []int{0}, ctxs: []int{0}, pads: []int{0},
				shapes: shapes, pats: []int{2, 4}, styles: []int{isLiteral, isLoop}},
		}
	}
	return []ifamily{
		{name: "I1", maxL: 2, blocks: []int{0, 1}, choices: all6, bA: all6, layouts: layouts, nameForms: sq, junks: []int{1}, ctxs: []int{0, 1, 2}, pads: []int{0},
			shapes: sibShapes, pats: allPats, styles: allStyles},
		{name: "I2", maxL: 2, blocks: []int{0, 1}, choices: all6, layouts: layouts, nameForms: []int{nfSingle, nfVar}, junks: []int{0, 2}, ctxs: []int{0, 1, 2}, pads: []int{0, 1},
			shapes: shapes, pats: allPats, styles: []int{isLiteral, isLoop}},
		{name: "I3", maxL: 3, blocks: []int{0}, choices: all5, fixed: [3]int{0, cPar1, cText}, layouts: layouts, nameForms: []int{nfSingle, nfVar, nfTernary}, junks: []int{0}, ctxs: []int{0, 1}, pads: []int{0},
			shapes: shapes, pats: allPats, styles: allStyles},
		{name: "I4", maxL: 3, blocks: []int{0, 1}, choices: lite4, layouts: layouts, nameForms: sq, junks: []int{0}, ctxs: []int{0}, pads: []int{0},
			shapes: shapes, pats: []int{2, 4}, styles: []int{isLiteral, isLoop}},
	}
}

func runMulti(t *vlib.T, seen map[string]struct{}) {
	for _, f := range iFamilies(t.Thorough()) {
		f := f
		f.each(func(c icase) {
			if t.Stopped() {
				return
			}
			k := c.key()
			if !t.Owns(k) {
				return
			}
			if _, dup := seen[k]; dup {
				return
			}
			seen[k] = struct{}{}
			t.Case(k, func() *vlib.Outcome { return checkI(c) })
		})
	}
	for _, f := range rFamilies(t.Thorough()) {
		f := f
		f.each(func(c rcase) {
			if t.Stopped() {
				return
			}
			k := c.key()
			if !t.Owns(k) {
				return
			}
			if _, dup := seen[k]; dup {
				return
			}
			seen[k] = struct{}{}
			t.Case(k, func() *vlib.Outcome { return checkR(c) })
		})
	}
}
