// C10, family P — extends chains whose templates live in DIRECTORIES and write the parent name
// relative to themselves ('../base.twig', './inc/base.twig', …), so that several hops of one chain
// write the SAME name and mean different files.
//
// Every hop of the chain is one of: `u` '../base.twig' · `F` the same target written with its full
// name · `s` './base.twig' (in a base.twig: './layout.twig') · `d` './inc/base.twig' · `x` '../alt/base.twig' · `U` '../../base.twig' ·
// `p` a plain name at the root ('t0'). The rule for what such a name means is the one every loader
// of template sets uses and that statement C02 spells out ("a template name written relative to a
// template resolves against that template"); the subject here is C10's: whatever files the chain
// passes through, the result is block substitution along it.
package main

import (
	"fmt"
	"path"
	"strings"

	"verif/lib/vlib"
)

const (
	hUp    = iota // '../base.twig'
	hFull         // the target of hUp, written with its full name ('s/d1/base.twig')
	hSame         // './base.twig' ('./layout.twig' when the writing template is the base.twig of its directory)
	hDown         // './inc/base.twig'
	hSide         // '../alt/base.twig'
	hUp2          // '../../base.twig'
	hPlain        // 't<l>' — a plain name at the root
	nHops
)

var hopName = [...]string{"u", "F", "s", "d", "x", "U", "p"}

// ways of writing the (relative) parent name w of level l
const (
	pfSq         = iota // 'w'
	pfVar               // pn<l>                       (context variable)
	pfTern              // sel ? 'w' : 'nope'
	pfDq                // "w"
	pfTern2             // nsel ? 'nope' : 'w'
	pfVarCat            // pn<l> ~ ''
	pfSplit             // '../' ~ 'base.twig'         (cut behind the last slash)
	pfParenSplit        // ('../' ~ 'base.twig')
	nPForms
)

var pformName = [...]string{"sq", "var", "tern", "dq", "tern2", "varcat", "split", "parensplit"}

func pExpr(form, l int, w string) string {
	cut := strings.LastIndexByte(w, '/') + 1
	if cut == 0 {
		cut = 1
	}
	switch form {
	case pfSq:
		return "'" + w + "'"
	case pfDq:
		return "\"" + w + "\""
	case pfVar:
		return fmt.Sprintf("pn%d", l)
	case pfTern:
		return "sel ? '" + w + "' : 'nope'"
	case pfTern2:
		return "nsel ? 'nope' : '" + w + "'"
	case pfVarCat:
		return fmt.Sprintf("pn%d ~ ''", l)
	case pfSplit:
		return "'" + w[:cut] + "' ~ '" + w[cut:] + "'"
	case pfParenSplit:
		return "('" + w[:cut] + "' ~ '" + w[cut:] + "')"
	}
	return ""
}

type pcase struct {
	K    kase           // Layout, L, Ch, Junk, Ctx, Pad
	Hop  [maxLevels]int // Hop[l]: how template l names template l-1
	Form int
}

func (c *pcase) hopKey() string {
	var b strings.Builder
	for l := c.K.L - 1; l >= 1; l-- { // in the order the render passes them
		b.WriteString(hopName[c.Hop[l]])
	}
	return b.String()
}

func (c *pcase) key() string {
	k := &c.K
	return fmt.Sprintf("P|%s|L%d|%s|h%s|%s|j%d|%s|p%d", layoutName[k.Layout], k.L, k.chKey(), c.hopKey(), pformName[c.Form], k.Junk, ctxNames[k.Ctx], k.Pad)
}

func joinName(dir []string, file string) string {
	if len(dir) == 0 {
		return file
	}
	return strings.Join(dir, "/") + "/" + file
}

// place puts the templates of the chain into directories: names[l] is the full name of template l,
// written[l] what template l writes after `extends` (l ≥ 1). ok is false when the hops do not
// describe a chain (a hop would leave the root, or two templates would be the same file).
func (c *pcase) place() (names, written []string, ok bool) {
	L := c.K.L
	// depth of the rendered template: deep enough for every hop in front of the first plain name
	d, minD := 0, 0
	for l := L - 1; l >= 1 && c.Hop[l] != hPlain; l-- {
		switch c.Hop[l] {
		case hUp, hFull:
			d--
		case hUp2:
			d -= 2
		case hSide:
			if d-1 < minD {
				minD = d - 1
			}
		case hDown:
			d++
		}
		if d < minD {
			minD = d
		}
	}
	dir := []string{"s"}
	for i := 1; i < 1-minD; i++ {
		dir = append(dir, fmt.Sprintf("d%d", i))
	}
	names, written = make([]string, L), make([]string, L)
	names[L-1] = joinName(dir, "post.twig")
	if L == 1 {
		names[0] = joinName(dir, "base.twig")
	}
	for l := L - 1; l >= 1; l-- {
		up := 0
		switch c.Hop[l] {
		case hUp, hFull, hSide:
			up = 1
		case hUp2:
			up = 2
		}
		if len(dir) < up {
			return nil, nil, false
		}
		dir = append([]string{}, dir[:len(dir)-up]...)
		file := "base.twig"
		switch c.Hop[l] {
		case hUp:
			written[l] = "../base.twig"
		case hUp2:
			written[l] = "../../base.twig"
		case hSame:
			// './base.twig', unless the writing template is itself the base.twig of this directory
			if strings.HasSuffix(names[l], "base.twig") {
				file = "layout.twig"
			}
			written[l] = "./" + file
		case hDown:
			dir = append(dir, "inc")
			written[l] = "./inc/base.twig"
		case hSide:
			dir = append(dir, "alt")
			written[l] = "../alt/base.twig"
		case hPlain:
			dir = nil
			file = fmt.Sprintf("t%d", l-1)
			written[l] = file
		}
		names[l-1] = joinName(dir, file)
		if c.Hop[l] == hFull {
			written[l] = names[l-1]
		}
	}
	for i := range names {
		for j := 0; j < i; j++ {
			if names[i] == names[j] {
				return nil, nil, false
			}
		}
	}
	return names, written, true
}

// what a name written in template cur means: a name that begins with ./ or ../ is relative to the
// directory of the template that writes it
func resolveName(cur, w string) string {
	if strings.HasPrefix(w, "./") || strings.HasPrefix(w, "../") {
		return path.Join(path.Dir(cur), w)
	}
	return w
}

func (c *pcase) ctx(written []string) map[string]interface{} {
	m := ctxOf(c.K.Ctx)
	for l := 1; l < c.K.L; l++ {
		m[fmt.Sprintf("pn%d", l)] = written[l]
	}
	return m
}

func checkP(c pcase) *vlib.Outcome {
	k := &c.K
	names, written, ok := c.place()
	if !ok {
		return &vlib.Outcome{Violation: "generator bug: case outside the space: " + c.key()}
	}
	pad := k.Pad == 1
	ds := []*tdef{{name: names[0], t: tpl{items: baseTemplate(k.Layout)}, pad: pad}}
	relative, repeated := 0, false
	for l := 1; l < k.L; l++ {
		target := resolveName(names[l], written[l])
		if target != names[l-1] {
			return &vlib.Outcome{Violation: fmt.Sprintf("generator bug: %q written in %q means %q, not %q", written[l], names[l], target, names[l-1])}
		}
		if target != written[l] {
			relative++
		}
		for j := 1; j < l; j++ {
			if written[j] == written[l] {
				repeated = true // the same name written at two hops; place() made sure they are different files
			}
		}
		ds = append(ds, &tdef{name: names[l], ext: pExpr(c.Form, l, written[l]),
			parent: func(map[string]interface{}) string { return target }, t: k.levelTpl(l, k.Ch[l], false), pad: pad || (k.Pad == 2 && l == k.L-1)})
	}
	top := names[k.L-1]
	m := &model{prog: registry(ds)}
	m.renderTemplate(top, c.ctx(written), false)
	if m.bad != "" {
		return &vlib.Outcome{Violation: m.bad}
	}
	cls := fmt.Sprintf("P/%s/L%d/h%s/d%d", layoutName[k.Layout], k.L, c.hopKey(), m.maxDepth)
	if m.emptySel {
		cls += "e"
	}
	if m.defViaPar {
		cls += "b"
	}
	if c.Form != pfSq && c.Form != pfDq {
		cls += "/dyn"
	}
	if k.Pad > 0 {
		cls += "/pad"
	}
	o := &vlib.Outcome{
		// … and at least one hop of the chain is written relative to the template that writes it
		Nontrivial: k.L >= 2 && m.substituted && relative > 0,
		Class:      cls,
		Counters: map[string]int64{"renders": 1, "directory_cases": 1, "relative_parent_names_followed_in_model": int64(relative),
			"blocks_rendered_in_model": int64(m.blocksRun), "parent_calls_in_model": int64(m.parentCalls)},
	}
	if repeated {
		o.Counters["directory_cases_same_relative_name_at_several_hops"] = 1
	}
	compareSteps(o, ds, []step{{entry: top, ctx: func() map[string]interface{} { return c.ctx(written) }, label: top + " with " + ctxNames[k.Ctx]}}, []string{m.out.String()})
	return o
}

type pfamily struct {
	name    string
	minL    int
	maxL    int
	blocks  []int
	choices []int
	fixed   [3]int
	layouts []int
	hops    []int // every hop of the chain varies independently over these
	forms   []int
	junks   []int
	ctxs    []int
	pads    []int
}

func (f *pfamily) each(emit func(pcase)) {
	for L := f.minL; L <= f.maxL; L++ {
		slots := (L - 1) * len(f.blocks)
		n, nh := 1, 1
		for i := 0; i < slots; i++ {
			n *= len(f.choices)
		}
		for l := 1; l < L; l++ {
			nh *= len(f.hops)
		}
		for hc := 0; hc < nh; hc++ {
			var c pcase
			c.K.Fam, c.K.L = f.name, L
			y := hc
			for l := L - 1; l >= 1; l-- {
				c.Hop[l] = f.hops[y%len(f.hops)]
				y /= len(f.hops)
			}
			if _, _, ok := c.place(); !ok {
				continue
			}
			for _, lay := range f.layouts {
				c.K.Layout = lay
				for code := 0; code < n; code++ {
					for l := 1; l < L; l++ {
						c.K.Ch[l] = f.fixed
					}
					x := code
					for l := 1; l < L; l++ {
						for _, bi := range f.blocks {
							c.K.Ch[l][bi] = f.choices[x%len(f.choices)]
							x /= len(f.choices)
						}
					}
					if c.K.hosted() && c.K.Ch[1][2] != cAbsent && !contains(f.blocks, 2) {
						c.K.Ch[1][2] = cAbsent
					}
					if !c.K.valid() {
						continue
					}
					for _, fm := range f.forms {
						for _, j := range f.junks {
							for _, cx := range f.ctxs {
								for _, p := range f.pads {
									c.Form, c.K.Junk, c.K.Ctx, c.K.Pad = fm, j, cx, p
									emit(c)
								}
							}
						}
					}
				}
			}
		}
	}
}

func pFamilies(thorough bool) []pfamily {
	all5 := []int{cAbsent, cText, cEmpty, cPar1, cPar2}
	all6 := ints(nChoices)
	lite3 := []int{cAbsent, cText, cPar1}
	lite4 := []int{cAbsent, cText, cEmpty, cPar1}
	layouts := ints(nLayouts)
	allHops := ints(nHops)
	bp := [3]int{0, cPar1, cText}
	if !thorough {
		return []pfamily{
			// every combination of the 7 kinds of hop on chains of 2–3 templates
			{name: "P1", minL: 2, maxL: 3, blocks: []int{0}, choices: all5, fixed: bp, layouts: layouts, hops: allHops,
				forms: []int{pfSq, pfVar, pfTern}, junks: []int{1}, ctxs: []int{0}, pads: []int{0}},
			// long chains through a directory tree: up, full name, down
			{name: "P2", minL: 4, maxL: 4, blocks: []int{0}, choices: lite3, fixed: bp, layouts: []int{lFlat, lNested, lHostedPre}, hops: []int{hUp, hFull, hDown},
				forms: []int{pfSq, pfVar}, junks: []int{0}, ctxs: []int{0}, pads: []int{0}},
			// the same name at every hop, chains of up to 5 templates, every way of writing it
			{name: "P3", minL: 3, maxL: 5, blocks: []int{0}, choices: lite3, fixed: bp, layouts: []int{lFlat, lFor}, hops: []int{hUp},
				forms: ints(nPForms), junks: []int{0}, ctxs: []int{0}, pads: []int{0}},
			{name: "P3d", minL: 3, maxL: 5, blocks: []int{0}, choices: lite3, fixed: bp, layouts: []int{lFlat, lFor}, hops: []int{hDown},
				forms: ints(nPForms), junks: []int{0}, ctxs: []int{0}, pads: []int{0}},
		}
	}
	return []pfamily{
		{name: "P1", minL: 2, maxL: 3, blocks: []int{0}, choices: all6, fixed: bp, layouts: layouts, hops: allHops,
			forms: ints(nPForms), junks: []int{0, 2}, ctxs: []int{0, 1, 2}, pads: []int{0, 1}},
		{name: "P1b", minL: 2, maxL: 3, blocks: []int{0, 1}, choices: lite4, layouts: layouts, hops: allHops,
			forms: []int{pfSq, pfVar}, junks: []int{0}, ctxs: []int{0}, pads: []int{0}},
		{name: "P2", minL: 4, maxL: 4, blocks: []int{0}, choices: lite4, fixed: bp, layouts: layouts, hops: []int{hUp, hFull, hSame, hDown, hSide},
			forms: []int{pfSq, pfVar}, junks: []int{0}, ctxs: []int{0}, pads: []int{0}},
		{name: "P2l", minL: 5, maxL: 5, blocks: []int{0}, choices: lite3, fixed: bp, layouts: []int{lFlat, lNested, lHostedPre}, hops: []int{hUp, hFull, hDown},
			forms: []int{pfSq, pfVar}, junks: []int{0}, ctxs: []int{0}, pads: []int{0}},
		{name: "P3", minL: 3, maxL: 6, blocks: []int{0}, choices: lite3, fixed: bp, layouts: layouts, hops: []int{hUp},
			forms: ints(nPForms), junks: []int{0}, ctxs: []int{0, 1}, pads: []int{0}},
		{name: "P3d", minL: 3, maxL: 6, blocks: []int{0}, choices: lite3, fixed: bp, layouts: layouts, hops: []int{hDown},
			forms: ints(nPForms), junks: []int{0}, ctxs: []int{0, 1}, pads: []int{0}},
	}
}

func runPaths(t *vlib.T, seen map[string]struct{}) {
	for _, f := range pFamilies(t.Thorough()) {
		f := f
		f.each(func(c pcase) {
			if t.Stopped() {
				return
			}
			k := c.key()
			if !t.Owns(k) {
				return
			}
			if _, dup := seen[k]; dup {
				return
			}
			seen[k] = struct{}{}
			t.Case(k, func() *vlib.Outcome { return checkP(c) })
		})
	}
}
