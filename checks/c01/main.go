// C01 — rendering is repeatable and independent of everything rendered before.
//
// Explicit enumeration of operation histories on live engines (depth-bounded), crossed with the
// explorer-owned answers of every sync.Pool.Get the history performs (deviation-bounded): the real
// twig code runs every history; each render result is compared with what a pristine process
// returns for the same templates+context; after every history a sweep re-renders every template
// twice; after every operation the cached templates' node trees must hash to what they hashed to
// when they were cached, and no object reachable from a cached template may sit in a pool.
package main

import (
	"crypto/sha1"
	"encoding/json"
	"fmt"
	"os"
	"os/exec"
	"path/filepath"
	"sort"
	"strconv"
	"strings"
	"unsafe"

	"github.com/semihalev/twig"
	"github.com/semihalev/twig/vsync"

	"verif/lib/twx"
	"verif/lib/vlib"
)

// UBase / UUser: a promoted field of an exported embedded struct (read through the process-wide
// attribute cache from the second lookup on)
type UBase struct {
	ID   int
	Name string
}
type UUser struct {
	UBase
	Email string
}

func (u UUser) Tag() string   { return "tag:" + u.Name }
func (u *UUser) PTag() string { return "ptag:" + u.Email }

var lib = map[string][2]string{
	"a":     {"A:{{ x }}", "A2:{{ x }}{{ y }}"},
	"b":     {"B{% if x %}1{% else %}0{% endif %}", "B2{% for i in xs %}{{ i }}{% endfor %}"},
	"loop":  {"{% for i in xs %}{{ loop.index }}={{ i }}{% if not loop.last %},{% endif %}{% else %}none{% endfor %}", "L2{% for k, v in {'p': 1} %}{{ k }}{{ v }}{% endfor %}"},
	"inc":   {"I[{% include 'a' %}+{% include 'b' with {'x': 0} %}]", "I2[{% include 'b' only %}]"},
	"base":  {"<{% block k %}K0{{ x }}{% endblock %}|{% block j %}J0{% endblock %}>", "<<{% block k %}k0{% endblock %}>>"},
	"child": {"{% extends 'base' %}{% block k %}K1({{ parent() }}){% endblock %}", "{% extends 'base' %}{% block j %}J1{% endblock %}"},
	"lib":   {"{% macro m(p, q = 'd') %}[{{ p }}{{ q }}]{% endmacro %}", "{% macro m(p) %}({{ p }}){% endmacro %}"},
	"use":   {"{% import 'lib' as l %}{{ l.m(x) }}{% from 'lib' import m %}{{ m(1, 2) }}", "{% from 'lib' import m as n %}{{ n(x) }}"},
	"bad":   {"x{{ 1/0 }}", "y{{ x|nofilter }}"},
	"sb":    {"{% include 'a' sandboxed %}{{ x|upper }}", "{% include 'a' sandboxed %}"},
	"j":     {"{{ xs|json_encode }}{% set q = xs|length %}{{ q }}", "{{ x|json_encode }}"},
	// names that are only defined if something leaks from an earlier render
	"um": {"{{ m(5) }}", "{{ l.m(5) }}"},
	"ub": {"[{{ block('k') }}{{ q }}{{ p }}]", "{% block j %}{{ q }}{% endblock %}"},
	// identifiers that differ only in case (what one parse leaves behind must not rename another's)
	"cs1": {"{{ Title }}/{{ Xs|length }}", "{{ TITLE }}"},
	"cs2": {"{{ title }}/{{ xs|length }}", "{{ tiTle }}{% for I in xs %}{{ I }}{{ i }}{% endfor %}"},
	// twin templates that differ only in a flag / argument of a construct the engine may memoise
	// process-wide (compiled patterns, format strings, split separators)
	"tw1": {"{{ Title matches '/^t1$/i' ? 'y' : 'n' }}|{{ 'a,b;c'|split(',')|length }}|{{ 1234.5|number_format(1, ',', '.') }}|{{ 'x-y'|replace('-', '+') }}", "{{ Title matches '/^T/' ? 'y' : 'n' }}"},
	"tw2": {"{{ Title matches '/^t1$/' ? 'y' : 'n' }}|{{ 'a,b;c'|split(';')|length }}|{{ 1234.5|number_format(1, '.', ',') }}|{{ 'x-y'|replace('-', '*') }}", "{{ Title matches '/^t/' ? 'y' : 'n' }}"},
	// failing renders of every flavour (a failure must leave nothing behind: no half-released context,
	// no residue in a pooled buffer)
	"bimp": {"P{% from 'lib' import nosuch %}Q", "P{% import 'bad' as b %}Q"},
	"bim2": {"P{% import 'bad' as b %}Q{{ b.m(1) }}", "P{% from 'bad' import m %}Q"},
	"binc": {"P{{ x }}{% include 'bad' %}Q", "P{% include 'nosuch' %}Q"},
	"bext": {"{% extends 'bad' %}{% block k %}K{% endblock %}", "{% extends 'nosuch' %}"},
	"bwth": {"P{% include 'a' with {'v': nofn()} %}Q", "P{% include 'a' with {'v': 1 / 0} only %}Q"},
	"bmac": {"P{% import 'lib' as l %}{{ l.m(1/0) }}Q", "{% macro f(p) %}{{ p|nofilter }}{% endmacro %}P{{ f(1) }}"},
	// a partial with its own layout and a sandboxed include, reached through includes and loops
	"incx": {"IX[{% include 'child' %}|{% include 'sb' %}]", "IX2[{% for i in xs %}{% include 'child' with {'x': i} %}{% endfor %}{% include 'child' only %}]"},
	// core names that another engine may redefine; zz* exist only where a configuration registered them
	"flt":  {"{{ 'abc'|upper }}|{{ max(1, 7, 3) }}|{% if 4 is even %}even{% else %}odd{% endif %}|{{ '<b>'|e }}|{{ 'q'|escape }}", "{{ 'x'|lower }}"},
	"fltx": {"{{ 'x'|zzcustom }}", "{{ zzfn() }}"},
	// struct values and pointers: fields, promoted fields, methods
	"st": {"{{ u.Name }}/{{ u.Email }}/{{ u.ID }}/{{ u.Tag }}|{{ pu.Name }}/{{ pu.PTag }}/{{ pu.UBase.ID }}", "{{ pu.Email }}{{ u.UBase.Name }}"},
}

// deps: what a template needs registered besides itself (the pristine oracle registers only these,
// so that its result does not depend on what else the process has parsed)
var deps = map[string][]string{
	"inc": {"a", "b"}, "child": {"base"}, "use": {"lib"}, "sb": {"a"}, "la": {"a"}, "lb": {"base"},
	"bimp": {"lib", "bad"}, "bim2": {"bad"}, "binc": {"bad"}, "bwth": {"a"}, "bext": {"bad"}, "bmac": {"lib"}, "incx": {"child", "sb"},
}
var names = []string{"a", "b", "loop", "inc", "base", "child", "lib", "use", "bad", "sb", "j", "um", "ub", "cs1", "cs2", "tw1", "tw2", "bimp", "bim2", "binc", "bext", "bmac", "bwth", "incx", "flt", "fltx", "st"}

// templates served by an ArrayLoader (re-read when the cache is off)
var loaded = map[string]string{
	"la": "LA:{{ x }}{% include 'a' %}",
	"lb": "{% extends 'base' %}{% block j %}LB{{ y }}{% endblock %}",
}
var loadedNames = []string{"la", "lb"}

var ctxs = []map[string]interface{}{
	{"x": 1, "y": "Y", "xs": []interface{}{1, 2}, "Title": "T1", "title": "t1", "TITLE": "T2", "tiTle": "t3", "Xs": []interface{}{9}, "i": "i!",
		"u": UUser{UBase{7, "alice"}, "a@example.org"}, "pu": &UUser{UBase{8, "bob"}, "b@example.org"}},
	{},
	{"x": "<b>", "xs": []interface{}{}, "y": map[string]interface{}{"k": []interface{}{"n"}}},
}

type op struct {
	Kind string `json:"kind"`
	Eng  int    `json:"eng"`
	Name string `json:"name,omitempty"`
	V    int    `json:"v,omitempty"`
	Ctx  int    `json:"ctx,omitempty"`
}

func (o op) String() string {
	switch o.Kind {
	case "render", "renderto":
		return fmt.Sprintf("%s(e%d,%s,c%d)", o.Kind, o.Eng, o.Name, o.Ctx)
	case "register", "parse":
		return fmt.Sprintf("%s(e%d,%s,v%d)", o.Kind, o.Eng, o.Name, o.V)
	case "renderkept":
		return fmt.Sprintf("renderkept(c%d)", o.Ctx)
	}
	return fmt.Sprintf("%s(e%d)", o.Kind, o.Eng)
}

type engState struct {
	reg     map[string]int
	cacheOn bool
	custom  bool // this engine registered its own filters / functions / tests (addCustom)
}

// addCustom: configuration of ONE engine — redefines core names and adds new ones. Other engines
// must not notice.
func addCustom(e *twig.Engine) {
	e.AddFilter("upper", func(v interface{}, args ...interface{}) (interface{}, error) { return fmt.Sprintf("<%v>", v), nil })
	e.AddFilter("e", func(v interface{}, args ...interface{}) (interface{}, error) { return v, nil })
	e.AddFilter("zzcustom", func(v interface{}, args ...interface{}) (interface{}, error) { return "zz", nil })
	e.AddFunction("max", func(args ...interface{}) (interface{}, error) { return "other-max", nil })
	e.AddFunction("zzfn", func(args ...interface{}) (interface{}, error) { return "zzfn", nil })
	e.AddTest("even", func(v interface{}, args ...interface{}) (bool, error) { return false, nil })
}

func (s *engState) key() string {
	var b strings.Builder
	for _, n := range names {
		fmt.Fprintf(&b, "%d", s.reg[n])
	}
	if s.cacheOn {
		b.WriteString("+")
	} else {
		b.WriteString("-")
	}
	if s.custom {
		b.WriteString("c")
	}
	return b.String()
}

func newEngine(s *engState) *twig.Engine {
	e := twig.New()
	e.EnableSandbox(twig.NewDefaultSecurityPolicy())
	e.RegisterLoader(twig.NewArrayLoader(loaded))
	for _, n := range names {
		e.RegisterString(n, lib[n][s.reg[n]])
	}
	e.SetCache(s.cacheOn)
	if s.custom {
		addCustom(e)
	}
	return e
}

func render(e *twig.Engine, n string, c int, to bool) (res string) {
	defer func() {
		if r := recover(); r != nil {
			res = fmt.Sprintf("PANIC %v", r)
		}
	}()
	if to {
		var sb strings.Builder
		if err := e.RenderTo(&sb, n, ctxs[c]); err != nil {
			return "ERR"
		}
		return sb.String()
	}
	out, err := e.Render(n, ctxs[c])
	if err != nil {
		return "ERR"
	}
	return out
}

var meantToFail = map[string]bool{"bad": true, "um": true, "ub": true, "bimp": true, "bim2": true, "binc": true, "bext": true, "bmac": true, "bwth": true, "fltx": true}

// ---- pristine oracle: a fresh process whose first and only twig activity is the queried render

var expCache = map[string]string{}
var pristineSpawns int64

func expect(s *engState, n string, c int) string {
	key := fmt.Sprintf("%s|%s|%d", s.key(), n, c)
	if v, ok := expCache[key]; ok {
		return v
	}
	// answers are shared between the workers of this run through the run's scratch directory
	var file string
	if dir := vlib.Scratch(); dir != "" {
		file = filepath.Join(dir, fmt.Sprintf("pristine-%x", sha1.Sum([]byte(key))))
		if b, err := os.ReadFile(file); err == nil && len(b) > 0 && b[len(b)-1] == 0 {
			v := string(b[:len(b)-1])
			expCache[key] = v
			return v
		}
	}
	cmd := exec.Command(os.Args[0])
	cmd.Env = append(os.Environ(), "C01_PRISTINE="+key)
	out, err := cmd.Output()
	pristineSpawns++
	if err != nil {
		out = []byte("PRISTINE-PROCESS-FAILED: " + err.Error())
	}
	v := string(out)
	expCache[key] = v
	if file != "" {
		tmp := fmt.Sprintf("%s.%d", file, os.Getpid())
		if os.WriteFile(tmp, append([]byte(v), 0), 0o644) == nil { // trailing NUL = complete
			os.Rename(tmp, file)
		}
	}
	return v
}

func pristineMain(key string) {
	parts := strings.Split(key, "|")
	s := &engState{reg: map[string]int{}}
	for i, n := range names {
		s.reg[n] = int(parts[0][i] - '0')
	}
	s.cacheOn = parts[0][len(names)] == '+'
	s.custom = strings.HasSuffix(parts[0], "c")
	var c int
	fmt.Sscan(parts[2], &c)
	// only the queried template and what it needs: the first twig activity of this process
	e := twig.New()
	e.EnableSandbox(twig.NewDefaultSecurityPolicy())
	e.RegisterLoader(twig.NewArrayLoader(loaded))
	need := map[string]bool{parts[1]: true}
	for changed := true; changed; {
		changed = false
		for n := range need {
			for _, d := range deps[n] {
				if !need[d] {
					need[d] = true
					changed = true
				}
			}
		}
	}
	for _, n := range names {
		if need[n] {
			e.RegisterString(n, lib[n][s.reg[n]])
		}
	}
	e.SetCache(s.cacheOn)
	if s.custom {
		addCustom(e)
	}
	fmt.Print(render(e, parts[1], c, false))
}

// ---- invariants on cached templates

type tracker struct {
	hash map[*twig.Template]uint64
}

func pooledSet() map[unsafe.Pointer]bool {
	m := map[unsafe.Pointer]bool{}
	vsync.EachPooled(func(x interface{}) {
		if p := twx.PointerOf(x); p != nil {
			m[p] = true
		}
	})
	return m
}

// check verifies, for every template in the engines' caches: structure unchanged since first seen,
// and nothing reachable from it is inside a pool.
func (tr *tracker) check(engs []*twig.Engine) string {
	pooled := pooledSet()
	for ei, e := range engs {
		cache := twx.CachedTemplates(e)
		var ns []string
		for n := range cache {
			ns = append(ns, n)
		}
		sort.Strings(ns)
		for _, n := range ns {
			t := cache[n]
			h, ptrs := twx.DeepHash(t)
			if old, ok := tr.hash[t]; ok {
				if old != h {
					return fmt.Sprintf("cached template %q of engine %d was altered after it was cached (structural hash changed)", n, ei)
				}
			} else {
				tr.hash[t] = h
			}
			for p := range ptrs {
				if pooled[p] {
					return fmt.Sprintf("an object reachable from cached template %q of engine %d is inside a pool (recycled while cached)", n, ei)
				}
			}
		}
	}
	return ""
}

// ---- one execution of one history under one vector of pool answers

type execResult struct {
	viol    string
	choices []vsync.Choice
	ops     int
}

func runHistory(seq []op, prefix []int, alts int, sweepCtxs int) execResult {
	vsync.DropAll()
	twx.ResetIdentities()
	st := []*engState{{reg: map[string]int{}, cacheOn: true}, {reg: map[string]int{}, cacheOn: true}}
	x := vsync.NewExec(prefix)
	x.PoolChoices = true
	x.PoolAlts = alts
	// engines are built without deviations (construction is not part of the history)
	engs := []*twig.Engine{newEngine(st[0]), newEngine(st[1])}
	// a handle the caller keeps, also registered under a second name on the other engine: it must
	// keep rendering its own source whatever happens to the name it was loaded under
	kept, _ := engs[0].Load("a")
	if kept != nil {
		engs[1].RegisterTemplate("a_alias", kept)
	}
	// a second handle: a template with includes, registered on the other engine by the history itself
	keptInc, _ := engs[0].Load("inc")
	keptWant := func(c int) string { return expect(&engState{reg: map[string]int{}, cacheOn: true}, "a", c) }
	renderKept := func(c int) string {
		if kept == nil {
			return "NO-HANDLE"
		}
		out, err := kept.Render(ctxs[c])
		if err != nil {
			return "ERR"
		}
		return out
	}
	tr := &tracker{hash: map[*twig.Template]uint64{}}
	viol := tr.check(engs)
	nops := 0
	x.Begin()
	for _, o := range seq {
		if viol != "" {
			break
		}
		nops++
		e, s := engs[o.Eng], st[o.Eng]
		switch o.Kind {
		case "render", "renderto":
			got := render(e, o.Name, o.Ctx, o.Kind == "renderto")
			x.End()
			want := expect(s, o.Name, o.Ctx)
			x.Begin()
			if got != want {
				viol = fmt.Sprintf("%v returned %q, a pristine process returns %q", o, got, want)
			}
		case "renderkept":
			got := renderKept(o.Ctx)
			x.End()
			want := keptWant(o.Ctx)
			x.Begin()
			if got != want {
				viol = fmt.Sprintf("rendering the template handle obtained from Load(\"a\") at the start returned %q, want %q", got, want)
			}
		case "register":
			e.RegisterString(o.Name, lib[o.Name][o.V])
			s.reg[o.Name] = o.V
		case "parse":
			if t, err := e.ParseTemplate(lib[o.Name][o.V]); err == nil {
				t.Render(ctxs[0])
			}
		case "parsefail":
			e.ParseTemplate("{% if %}{{ }")
			e.ParseTemplate("{% for i in %}")
		case "renderfail":
			render(e, "bad", 0, false)
			x.End() // the further failure flavours run with default pool answers (cost)
			render(e, "binc", 0, false)
			render(e, "bext", 0, false)
			render(e, "bwth", 0, false)
			x.Begin()
		case "renderfail2":
			render(e, "bimp", 0, false)
			x.End()
			render(e, "bim2", 0, false)
			render(e, "bmac", 0, false)
			x.Begin()
		case "addcustom":
			addCustom(e)
			s.custom = true
		case "regalias":
			// the OTHER engine registers a template object this engine has cached (what it renders
			// there is left open; this engine's copy must not notice)
			if keptInc != nil {
				e.RegisterTemplate("inc_alias", keptInc)
			}
		case "drop":
			vsync.DropAll()
		case "cacheoff":
			e.SetCache(false)
			s.cacheOn = false
		case "cacheon":
			e.SetCache(true)
			s.cacheOn = true
		case "debug":
			e.SetDebug(true)
			render(e, "a", 0, false)
			e.SetDebug(false)
		}
		x.End()
		if viol == "" {
			viol = tr.check(engs)
			if viol != "" {
				viol = "after " + o.String() + ": " + viol
			}
		}
		x.Begin()
	}
	x.End()
	if x.Diverged != "" {
		return execResult{viol: "", choices: x.Choices, ops: nops}
	}
	// sweep: every template of both engines, twice (once in executions that deviate from the default
	// pool answers: what a deviation hands over shows in the first use), default pool answers
	reps := 2
	if len(prefix) > 0 {
		reps = 1
	}
	for ei := 0; ei < 2 && viol == ""; ei++ {
		all := append(append([]string{}, names...), loadedNames...)
		for _, n := range all {
			for c := 0; c < sweepCtxs && viol == ""; c++ {
				for rep := 0; rep < reps; rep++ {
					got := render(engs[ei], n, c, false)
					nops++
					if want := expect(st[ei], n, c); got != want {
						viol = fmt.Sprintf("sweep: render(e%d,%s,c%d) #%d returned %q, a pristine process returns %q", ei, n, c, rep+1, got, want)
						break
					}
				}
			}
		}
	}
	// the kept handle and its alias on the other engine still render the source they were made from
	for c := 0; c < sweepCtxs && viol == ""; c++ {
		if got, want := renderKept(c), keptWant(c); got != want {
			viol = fmt.Sprintf("sweep: the template handle obtained from Load(\"a\") at the start renders %q, want %q", got, want)
		}
		if kept != nil && viol == "" && st[1].cacheOn {
			if got, want := render(engs[1], "a_alias", c, false), keptWant(c); got != want {
				viol = fmt.Sprintf("sweep: the same template registered as a_alias on engine 1 renders %q, want %q", got, want)
			}
		}
	}
	if viol == "" {
		viol = tr.check(engs)
	}
	return execResult{viol: viol, choices: x.Choices, ops: nops}
}

func alphabet(thorough bool) []op {
	var a []op
	for _, n := range []string{"a", "inc", "child", "use", "sb", "loop"} {
		a = append(a, op{Kind: "render", Name: n})
	}
	a = append(a, op{Kind: "render", Name: "a", Ctx: 1}, op{Kind: "render", Name: "la"}, op{Kind: "renderto", Name: "lb", Ctx: 2})
	a = append(a, op{Kind: "renderkept"}, op{Kind: "render", Name: "cs2"}, op{Kind: "register", Name: "cs1", V: 1}, op{Kind: "render", Eng: 1, Name: "tw2"})
	a = append(a, op{Kind: "renderfail2"}, op{Kind: "render", Name: "incx"}, op{Kind: "addcustom", Eng: 1}, op{Kind: "regalias", Eng: 1})
	a = append(a, op{Kind: "render", Eng: 1, Name: "child"})
	for _, n := range []string{"a", "base", "lib"} {
		a = append(a, op{Kind: "register", Name: n, V: 1})
	}
	a = append(a, op{Kind: "register", Eng: 1, Name: "a", V: 1})
	a = append(a, op{Kind: "parse", Name: "b", V: 1}, op{Kind: "parsefail"}, op{Kind: "renderfail"}, op{Kind: "drop"}, op{Kind: "cacheoff"}, op{Kind: "cacheon"})
	if thorough {
		a = append(a, op{Kind: "debug", Eng: 1}, op{Kind: "register", Name: "child", V: 1}, op{Kind: "render", Name: "j", Ctx: 2})
	}
	return a
}

func main() {
	if k := os.Getenv("C01_PRISTINE"); k != "" {
		pristineMain(k)
		return
	}
	vlib.Main(vlib.Spec{
		ID:    "C01",
		Level: "model_checking",
		Rule: "every operation history over the alphabet up to the stated depth, on two live engines, crossed with every vector of sync.Pool.Get answers " +
			"(newest / oldest / pool-empty) within the stated deviation bound; non-trivial = the history renders a template after at least one earlier operation",
		Assumptions: []string{
			"histories longer than the depth bound, more than two engines and more pool deviations than the bound are not explored",
			"expected values come from a fresh process per (template set, name, context) whose only twig activity is that render",
			"pool answers are explored for Gets performed by the history's own operations; the final sweep uses the default (LIFO) answer",
		},
		QuickDeadline:    150,
		ThoroughDeadline: 1500,
		Run:              run,
		Extra: func(tier string, cov map[string]interface{}) {
			cov["states"] = cov["choice_tree_nodes"]
			cov["transitions"] = cov["operations_executed"]
			cov["traces_validated_against_impl"] = cov["executions"]
			cov["bounds"] = bounds(tier)
		},
	})
}

type bound struct {
	Depth, Dev, Alts int
	Small            bool // use the quick alphabet (deepest thorough bound)
}

func bounds(tier string) []bound {
	// simplest first: short histories with many deviations, then longer ones with fewer
	if tier == "thorough" {
		// sized to complete inside the deadline on 16 cores (≈ 18 k CPU-s): all items at depth 2 with one
		// deviation, two deviations at depth 2 and one at depth 3 with {newest, oldest, empty}, depth 4
		// without deviations over the quick alphabet
		return []bound{{Depth: 1, Dev: 2, Alts: 0}, {Depth: 2, Dev: 1, Alts: 0}, {Depth: 2, Dev: 2, Alts: 3}, {Depth: 3, Dev: 0, Alts: 3}, {Depth: 3, Dev: 1, Alts: 3}, {Depth: 4, Dev: 0, Alts: 3, Small: true}}
	}
	bs := []bound{{Depth: 1, Dev: 2, Alts: 0}, {Depth: 2, Dev: 1, Alts: 3}, {Depth: 3, Dev: 0, Alts: 3}} // two deviations at depth 2: thorough
	if v := os.Getenv("C01_ONLY_BOUND"); v != "" {                                                       // development aid: time one bound
		i, _ := strconv.Atoi(v)
		return bs[i : i+1]
	}
	return bs
}

func run(t *vlib.T) {
	alphaFull, alphaQuick := alphabet(t.Thorough()), alphabet(false)
	sweepCtxs := 2
	if t.Thorough() {
		sweepCtxs = 3
	}
	// vacuity guard: a library template that errors in a pristine process compares "ERR" with "ERR"
	t.Case("selfcheck/pristine-errors", func() *vlib.Outcome {
		out := &vlib.Outcome{Nontrivial: true, Class: "selfcheck", Counters: map[string]int64{}}
		def := &engState{reg: map[string]int{}, cacheOn: true}
		for _, n := range names {
			if !meantToFail[n] && expect(def, n, 0) == "ERR" {
				out.Counters["library_templates_erroring_in_a_pristine_process"]++
			}
		}
		return out
	})
	for _, b := range bounds(t.Tier()) {
		b := b
		alpha := alphaFull
		if b.Small {
			alpha = alphaQuick
		}
		var rec func(seq []op)
		rec = func(seq []op) {
			if t.Stopped() {
				return
			}
			if len(seq) > 0 {
				key := fmt.Sprintf("d%d/dev%d/%v", b.Depth, b.Dev, seq) // (no two bounds of a tier share depth and dev)
				s := append([]op{}, seq...)
				t.Case(key, func() *vlib.Outcome { return explore(s, b, sweepCtxs, t.Progress) })
			}
			if len(seq) == b.Depth {
				return
			}
			cacheOn := [2]bool{true, true}
			for _, o := range seq {
				if o.Kind == "cacheoff" {
					cacheOn[o.Eng] = false
				} else if o.Kind == "cacheon" {
					cacheOn[o.Eng] = true
				}
			}
			for _, o := range alpha {
				// registering while the cache is off is left open by the property (don't-care)
				if o.Kind == "register" && !cacheOn[o.Eng] {
					continue
				}
				rec(append(seq, o))
			}
		}
		rec(nil)
	}
}

// explore runs one history under every vector of pool answers with at most b.Dev deviations.
func explore(seq []op, b bound, sweepCtxs int, progress func()) *vlib.Outcome {
	out := &vlib.Outcome{Counters: map[string]int64{}}
	hasRender := false
	for i, o := range seq {
		if i > 0 && (o.Kind == "render" || o.Kind == "renderto") {
			hasRender = true
		}
	}
	out.Nontrivial = hasRender || len(seq) > 1
	var dfs func(prefix []int, used int)
	dfs = func(prefix []int, used int) {
		if out.Violation != "" {
			return
		}
		r := runHistory(seq, prefix, b.Alts, sweepCtxs)
		out.Counters["executions"]++
		progress()
		out.Counters["operations_executed"] += int64(r.ops)
		out.Counters["choice_tree_nodes"] += int64(len(r.choices)-len(prefix)) + 1
		if r.viol != "" {
			out.Violation = fmt.Sprintf("history %v, pool answers %v: %s", seq, prefix, r.viol)
			d, _ := json.Marshal(map[string]interface{}{"history": seq, "pool_answers": prefix})
			out.Detail = json.RawMessage(d)
			return
		}
		if used >= b.Dev {
			return
		}
		for i := len(prefix); i < len(r.choices); i++ {
			for alt := 1; alt < r.choices[i].N; alt++ {
				np := make([]int, i+1)
				for j := 0; j < i; j++ {
					np[j] = r.choices[j].C
				}
				np[i] = alt
				dfs(np, used+1)
			}
		}
	}
	dfs(nil, 0)
	out.Counters["pristine_process_spawns"] = pristineSpawns
	pristineSpawns = 0
	// class = the model state the history ends in (vacuity guard: many different end states)
	st := [2]*engState{{reg: map[string]int{}, cacheOn: true}, {reg: map[string]int{}, cacheOn: true}}
	for _, o := range seq {
		switch o.Kind {
		case "register":
			st[o.Eng].reg[o.Name] = o.V
		case "cacheoff":
			st[o.Eng].cacheOn = false
		case "cacheon":
			st[o.Eng].cacheOn = true
		case "addcustom":
			st[o.Eng].custom = true
		}
	}
	out.Class = st[0].key() + "/" + st[1].key()
	return out
}
