// Family 10 — INCLUDE-OPTION grammar on engines with a security policy.
//
// `include T` x {nothing, with {literal hash}, with <expression>} x {nothing, only, sandboxed, only sandboxed,
// sandboxed only} x {nothing, ignore missing before the with clause, ignore missing after it} x {existing
// target with one of three bodies, missing target} x {allow-all policy, default policy, no policy}.
// The context is mkContext() plus a map variable `opts`, a typed hash `topts` and `title`, `label`: most
// variables of the context are not keys of the hash that is passed. Forms the parser rejects stay in the
// family: the oracle (snapshot before == after each render, the second render agreeing with the first, and a
// probe render with ANOTHER top-level map sharing the same hashes giving what it gives on fresh data) applies
// whether or not the template is accepted.
package main

import (
	"fmt"

	"github.com/semihalev/twig"

	"verif/lib/vlib"
)

type incSpec struct {
	policy string // "all", "default", "none"
	with   string
}

func mkIncContext() map[string]interface{} {
	c := mkContext()
	c["opts"] = map[string]interface{}{"label": "L", "s": "own", "l": spareAny([]interface{}{2, 1}, 2), "h": map[string]interface{}{"k": 1}}
	c["topts"] = map[string]string{"label": "TL"}
	c["title"] = "T"
	c["label"] = "outer"
	return c
}

var pristineIncSnap string

func pristineInc() string {
	if pristineIncSnap == "" {
		a, b := snapshot(mkIncContext()), snapshot(mkIncContext())
		if a != b {
			panic("harness: two freshly built contexts differ: " + firstDiff(a, b))
		}
		pristineIncSnap = a
	}
	return pristineIncSnap
}

// what follows `with`: nothing, hash literals, context variables and paths holding maps, and values that are no hash
var incWith = []string{"", "{'label': 'lit', 'q': xs}", "{'label': opts.label, 'opts': opts, 'm': m}", "opts", "m", "m.n", "st.M", "pst.M", "attrs", "opts.h", "lm[0]", "topts", "mt", "xs", "i", "nope",
	"opts|merge({'z': 1})", "opts|default({})", "label='kv', q=xs"}

var incModes = []string{"", "only", "sandboxed", "only sandboxed", "sandboxed only"}

var incBodies = []string{
	"[{{ label }}|{{ title }}|{{ s }}|{{ xs|length }}|{{ opts|length }}]",
	"{% set label = 2 %}{% set title = 3 %}{% set fresh = 4 %}{% set opts = 5 %}{% set m = 6 %}{% set k = 7 %}[{{ label }}{{ title }}{{ fresh }}]",
	"{% set opts = opts|default({})|merge({'z': 1}) %}{% set l = l|default([])|merge([9])|sort %}{% for k, v in opts %}{{ k }},{% endfor %}{{ l|join(',') }}",
}

const incProbe = "{% for k, v in opts %}{{ k }},{% endfor %}{{ opts|length }}|{% for k, v in m %}{{ k }},{% endfor %}|{% for k, v in attrs %}{{ k }},{% endfor %}|{{ title }}{{ label }}"

func incPrograms(thorough bool, add func(program)) {
	for _, pol := range []string{"all", "default", "none"} {
		for wi, w := range incWith {
			for _, mode := range incModes {
				for im := 0; im < 3; im++ {
					for target := 0; target <= len(incBodies); target++ {
						name := "'part'"
						others := map[string]string{"probe": incProbe}
						if target == len(incBodies) {
							name = "'absent'"
						} else {
							others["part"] = incBodies[target]
						}
						src := "{% include " + name
						if im == 1 {
							src += " ignore missing"
						}
						if w != "" {
							src += " with " + w
						}
						if im == 2 {
							src += " ignore missing"
						}
						if mode != "" {
							src += " " + mode
						}
						src += " %}/{{ title }}{{ label }}{{ opts|length }}"
						add(program{key: fmt.Sprintf("incopt/%s/w%d/%s/im%d/t%d", pol, wi, mode, im, target), family: "incopt",
							touches: fmt.Sprintf("%s/w%d/%s", pol, wi, mode), main: src, others: others, inc: &incSpec{policy: pol, with: w}})
					}
				}
			}
		}
	}
}

func incEngine(p program) (*twig.Engine, bool, error) {
	e := twig.New()
	switch p.inc.policy {
	case "all":
		e.EnableSandbox(allowAll{})
	case "default":
		e.EnableSandbox(twig.NewDefaultSecurityPolicy())
	}
	for _, n := range sortedKeys(p.others) {
		if err := e.RegisterString(n, p.others[n]); err != nil {
			return nil, false, fmt.Errorf("helper template %q does not parse: %v", n, err)
		}
	}
	accepted := e.RegisterString("t", p.main) == nil
	return e, accepted, nil
}

// incShare is another top-level map that shares the hashes of ctx
func incShare(ctx map[string]interface{}) map[string]interface{} {
	return map[string]interface{}{"opts": ctx["opts"], "m": ctx["m"], "attrs": ctx["attrs"], "title": "other"}
}

func runIncProgram(p program) *vlib.Outcome {
	o := &vlib.Outcome{Counters: map[string]int64{"renders": 4, "programs_" + p.family: 1}}
	e, accepted, herr := incEngine(p)
	if herr != nil {
		o.Violation = "harness: " + herr.Error()
		return o
	}
	tq := fmt.Sprintf("%q (security policy: %s; included template %q)", p.main, p.inc.policy, p.others["part"])
	o.Detail = map[string]interface{}{"template": p.main, "others": p.others, "policy": p.inc.policy}
	ctx, before := mkIncContext(), pristineInc()
	// a template the parser rejected is rendered all the same: the failing render must leave the data alone too
	out1, err1 := e.Render("t", ctx)
	after1 := snapshot(ctx)
	out2, err2 := e.Render("t", ctx)
	after2 := snapshot(ctx)
	res := "ok"
	switch {
	case !accepted:
		res = "rejected"
		o.Counters["not_a_program_"+p.family] = 1
	case err1 != nil:
		res = "error"
	}
	o.Nontrivial = accepted && err1 == nil
	o.Class = p.family + "/" + p.touches + "/" + res
	if after1 != before {
		o.Violation = fmt.Sprintf("template %s modified the caller's data: %s", tq, firstDiff(before, after1))
		return o
	}
	if after2 != before {
		o.Violation = fmt.Sprintf("the second render of template %s modified the caller's data: %s", tq, firstDiff(before, after2))
		return o
	}
	if (err1 == nil) != (err2 == nil) {
		o.Violation = fmt.Sprintf("template %s: two renders with the same data disagree: first error %v, second error %v", tq, err1, err2)
		return o
	}
	if err1 == nil && out1 != out2 {
		o.Violation = fmt.Sprintf("template %s: two renders with the same data give %q and %q", tq, out1, out2)
		return o
	}
	// a render with another top-level map that shares the hashes must give what it gives on fresh data
	got, gerr := e.Render("probe", incShare(ctx))
	e2, _, herr := incEngine(p)
	if herr != nil {
		o.Violation = "harness: " + herr.Error()
		return o
	}
	want, werr := e2.Render("probe", incShare(mkIncContext()))
	if werr != nil {
		o.Violation = "harness: the probe template fails on fresh data: " + werr.Error()
		return o
	}
	if gerr != nil || got != want {
		o.Violation = fmt.Sprintf("after template %s was rendered, a render sharing the caller's hashes gives %q (error %v), on fresh data %q", tq, got, gerr, want)
		return o
	}
	if after3 := snapshot(ctx); after3 != before {
		o.Violation = fmt.Sprintf("after template %s, the probe render modified the caller's data: %s", tq, firstDiff(before, after3))
	}
	return o
}

var _ = vlib.Outcome{}
