// C18, family 8 — structs passed BY POINTER that embed a NIL POINTER to an exported struct.
//
// A field promoted from an embedded pointer that is not set (`Customer{Name; *Addr; *Audit}` with Addr == nil,
// template reads `cust.City`) has nothing to read. Whatever the engine answers (today: an empty value), it must
// not "help" by allocating the embedded struct: the caller handed out a pointer, so the struct is addressable
// and such an allocation lands in the caller's own value — the nil pointer must still be nil afterwards.
// The other families have no embedded pointer at all (S embeds nothing; In / Ip are named fields), so no
// promoted field was ever read, let alone through nil.
//
// Types: Customer{Name; *Addr; *Audit} (two embedded pointers), Account{ID; Contact; *Audit} with
// Contact{Phone; *Geo} (an embedded pointer INSIDE an embedded value), Deep{Label; *Customer} (an embedded
// pointer whose struct embeds pointers again: two levels). The context holds them by pointer with every
// combination of set / unset embedded parts, in typed slices of pointers, typed and untyped maps, fields of
// a pointed-to struct, behind a pointer to a pointer, and — as controls — by value (not addressable).
package main

import (
	"reflect"
	"strings"
)

type Addr struct {
	City string
	Zip  int
	Tags []string
}

type Audit struct {
	Editor string
	Rev    int
}

type Geo struct {
	Lat float64
}

type Contact struct {
	Phone string
	*Geo
}

type Customer struct {
	Name string
	*Addr
	*Audit
}

type Account struct {
	ID int
	Contact
	*Audit
}

type Deep struct {
	Label string
	*Customer
}

type Holder struct {
	C  Customer
	PC *Customer
	A  Account
	PA *Account
	D  Deep
	PD *Deep
}

func embCust(i int) *Customer {
	switch i {
	case 0: // nothing set
		return &Customer{Name: "Ann"}
	case 1: // address set, audit not
		return &Customer{Name: "Bob", Addr: &Addr{City: "Oslo", Zip: 150, Tags: spareStrings([]string{"t2", "t1"}, 1)}}
	default: // audit set, address not
		return &Customer{Name: "Cy", Audit: &Audit{Editor: "ed", Rev: 2}}
	}
}

func embAcct(i int) *Account {
	switch i {
	case 0:
		return &Account{ID: 1, Contact: Contact{Phone: "p0"}}
	case 1:
		return &Account{ID: 2, Contact: Contact{Phone: "p1", Geo: &Geo{Lat: 1.5}}}
	default:
		return &Account{ID: 3, Contact: Contact{Phone: "p2"}, Audit: &Audit{Editor: "ae", Rev: 1}}
	}
}

func embDeep(i int) *Deep {
	switch i {
	case 0: // the embedded customer is set, its own embedded pointers are not
		return &Deep{Label: "d0", Customer: embCust(0)}
	case 1: // nothing set
		return &Deep{Label: "d1"}
	default:
		return &Deep{Label: "d2", Customer: embCust(1)}
	}
}

func mkEmbContext() map[string]interface{} {
	custs := make([]*Customer, 3, 4)
	custs[0], custs[1], custs[2] = embCust(0), embCust(1), embCust(2)
	custs[:4][3] = &Customer{Name: "SENTINEL"}
	pc := embCust(0)
	vcusts := []Customer{*embCust(0), *embCust(1), {Name: "SENTINEL"}}
	pvc := []Customer{*embCust(0), *embCust(2)}
	return map[string]interface{}{
		"cust": embCust(0), "cust1": embCust(1), "cust2": embCust(2),
		"acct": embAcct(0), "acct1": embAcct(1), "acct2": embAcct(2),
		"deep": embDeep(0), "deepnil": embDeep(1), "deep2": embDeep(2),
		"custs": custs, "accts": []*Account{embAcct(0), embAcct(1), embAcct(2)}, "deeps": []*Deep{embDeep(0), embDeep(1), embDeep(2)},
		"page":   map[string]interface{}{"owner": embCust(0), "acct": embAcct(0), "deep": embDeep(0), "list": []interface{}{embCust(0), embCust(1)}},
		"mc":     map[string]*Customer{"k": embCust(0), "j": embCust(1)},
		"ma":     map[string]*Account{"k": embAcct(0)},
		"md":     map[string]*Deep{"k": embDeep(0), "j": embDeep(1)},
		"holder": &Holder{C: *embCust(0), PC: embCust(0), A: *embAcct(0), PA: embAcct(0), D: *embDeep(0), PD: embDeep(1)},
		"ppc":    &pc,
		"ul":     []interface{}{embCust(0), embCust(2)},
		// controls: struct VALUES (what the engine gets out of the interface is not addressable)
		"vcust": *embCust(0), "vacct": *embAcct(0), "vdeep": *embDeep(0),
		"vcusts": vcusts[:2], "pvc": &pvc,
		"vholder": Holder{C: *embCust(0), PC: embCust(0), A: *embAcct(0), PA: embAcct(0), D: *embDeep(1), PD: embDeep(0)},
		"sep":     ",",
	}
}

var embPristine string

func pristineEmb() string {
	if embPristine == "" {
		a, b := snapshot(mkEmbContext()), snapshot(mkEmbContext())
		if a != b {
			panic("harness: two freshly built embedded-pointer contexts differ: " + firstDiff(a, b))
		}
		embPristine = a
	}
	return embPristine
}

// one kind per struct type: the expressions that yield ONE such struct, the containers of them, the fields
type embKind struct {
	name       string
	singles    []string // expressions whose value is one struct (pointer, or value for the controls)
	containers []string // expressions whose elements are such structs
	fields     []string // own, promoted through a value, promoted through one / two pointers, the embedded parts themselves, a missing one
}

var embKinds = []embKind{
	{name: "cust",
		singles:    []string{"cust", "cust1", "cust2", "page.owner", "page['owner']", "mc.k", "mc['j']", "holder.PC", "holder.C", "vholder.PC", "vholder.C", "deep.Customer", "deep2.Customer", "ppc", "vcust"},
		containers: []string{"custs", "mc", "page.list", "ul", "vcusts", "pvc"},
		fields:     []string{"Name", "City", "Zip", "Tags", "Editor", "Rev", "Addr", "Audit", "Nope"}},
	{name: "acct",
		singles:    []string{"acct", "acct1", "acct2", "page.acct", "ma.k", "holder.PA", "holder.A", "vholder.PA", "vacct"},
		containers: []string{"accts", "ma"},
		fields:     []string{"ID", "Phone", "Lat", "Geo", "Contact", "Editor", "Rev", "Audit", "Nope"}},
	{name: "deep",
		singles:    []string{"deep", "deepnil", "deep2", "page.deep", "md.j", "holder.PD", "holder.D", "vholder.D", "vdeep"},
		containers: []string{"deeps", "md"},
		fields:     []string{"Label", "Name", "City", "Zip", "Tags", "Editor", "Customer", "Addr", "Nope"}},
}

// bodies: X the variable (or expression) the struct is bound to, F the field
type embBody struct{ key, src string }

var embBodies = []embBody{
	{"print", "{{ X.F }}"},
	{"test", "{% if X.F %}y{% else %}n{% endif %}"},
	{"defined", "{{ X.F is defined ? 'y' : 'n' }}"},
	{"default", "{{ X.F|default('unknown') }}"},
	{"loop", "{% for t in X.F %}{{ t }},{% else %}e{% endfor %}"},
	{"set", "{% set v = X.F %}{{ v|json_encode }}{% set v = 1 %}"},
	{"tests", "{{ X.F is null ? 'n' : 'v' }}{{ X.F is empty ? 'e' : 'f' }}{{ X.F is iterable ? 'i' : 's' }}"},
	{"ops", "{{ X.F ~ 'x' }}{{ X.F == 'Oslo' ? 1 : 0 }}{{ X.F|length }}{{ not X.F ? 1 : 0 }}{{ X.F and X.F ? 'a' : 'b' }}"},
	{"twice", "{{ X.F }}|{{ X.F }}"},
	{"json", "{{ X|json_encode }}{{ X.F|json_encode }}{{ X|json_encode }}"},
	{"arg", "{{ [X.F]|length }}{{ {'k': X.F}|length }}{{ X.F|upper }}{{ max([X.F, 0]) }}"},
	{"sub", "{{ X.F.City }}{{ X.F.Editor }}{{ X.F.Lat }}{{ X.F.Name }}"},
	{"with", "{% include 'epart' with {'v': X.F} %}{% include 'epart' with {'v': X.F} only %}"},
}

const embPart = "{{ v|default('d') }}{% if v %}y{% endif %}"

func (b embBody) on(x, f string) string {
	return strings.NewReplacer("X", x, "F", f).Replace(b.src)
}

type embPattern struct {
	key   string
	quick bool
	src   string // E / C the expression, B the body, bound to the variable v
	v     string // "" = the expression itself
}

var embSinglePatterns = []embPattern{
	{"direct", true, "B", ""},
	{"set", true, "{% set e = E %}B{% set e = E %}B", "e"},
	{"macro", true, "{% macro w(q) %}B{% endmacro %}{{ w(E) }}{{ _self.w(E) }}", "q"},
	{"include", true, "{% include 'bpart' with {'q': E} %}|{% include 'bpart' with {'q': E} only %}", "q"},
	{"list", false, "{% for l in [E, E] %}B{% endfor %}", "l"},
	{"hash", false, "{% set h = {'e': E} %}{% set e = h.e %}B{% set e = h['e'] %}B", "e"},
	{"loop", false, "{% for j in [1, 2, 3] %}B{% endfor %}", ""},
	{"default", false, "{% set e = E|default(1) %}B{% set e = E|raw %}B", "e"},
	{"import", false, "{% import 'blib' as m %}{{ m.w(E) }}{% from 'blib' import w %}{{ w(E) }}", "q"},
}

var embContainerPatterns = []embPattern{
	{"for", true, "{% for l in C %}B;{% endfor %}", "l"},
	{"idx0", true, "{% set e = C[0] %}B{% set e = C[0] %}B", "e"},
	{"first", true, "{% set e = C|first %}B{% set e = C|last %}B", "e"},
	{"forkv", true, "{% for k, l in C %}{{ k }}=B;{% endfor %}", "l"},
	{"idxk", false, "{% set e = C['k'] %}B{% set e = C.j %}B{% set e = C[1] %}B", "e"},
	{"for2x", false, "{% for l in C %}B{% endfor %}|{% for l in C %}B{% endfor %}", "l"},
	{"through", false, "{% for l in C|reverse %}B{% endfor %}{% for l in C|slice(0, 2) %}B{% endfor %}{% for l in C|default([]) %}B{% endfor %}{% for l in C|merge([]) %}B{% endfor %}", "l"},
	{"macro", false, "{% macro w(q) %}{% for l in q %}B{% endfor %}{% endmacro %}{{ w(C) }}", "l"},
	{"include", false, "{% include 'lpart' with {'q': C} only %}", "l"},
	{"elem", false, "{% macro w(q) %}B{% endmacro %}{% for l in C %}{{ w(l) }}{% include 'bpart' with {'q': l} only %}{% endfor %}", "q"},
}

func embPrograms(thorough bool, add func(program)) {
	for _, k := range embKinds {
		for _, b := range embBodies {
			for _, f := range k.fields {
				mk := func(p embPattern, what, expr string) {
					v := p.v
					if v == "" {
						v = expr
					}
					body := b.on(v, f)
					main := strings.NewReplacer("E", expr, "C", expr, "B", body).Replace(p.src)
					others := map[string]string{"epart": embPart,
						"bpart": b.on("q", f),
						"lpart": "{% for l in q %}" + b.on("l", f) + "{% endfor %}",
						"blib":  "{% macro w(q) %}" + b.on("q", f) + "{% endmacro %}"}
					add(program{key: "emb/" + what + "/" + p.key + "/" + b.key + "/" + expr + "." + f, family: "emb", touches: k.name + ">" + b.key,
						main: main, others: others, emb: &embSpec{expr: expr, field: f, sub: b.key == "sub"}})
				}
				for _, p := range embSinglePatterns {
					if p.quick || thorough {
						for _, e := range k.singles {
							mk(p, "s", e)
						}
					}
				}
				for _, p := range embContainerPatterns {
					if p.quick || thorough {
						for _, c := range k.containers {
							mk(p, "c", c)
						}
					}
				}
			}
		}
	}
}

// embSpec: what the program reads, for the non-triviality rule (computed on the Go values, not by twig)
type embSpec struct {
	expr, field string
	sub         bool
}

// embResolve evaluates a context expression of the forms a, a.b, a['b'], a.b.c on the Go values
func embResolve(ctx map[string]interface{}, expr string) reflect.Value {
	parts := strings.FieldsFunc(strings.NewReplacer("['", ".", "']", "").Replace(expr), func(r rune) bool { return r == '.' })
	v := reflect.ValueOf(ctx[parts[0]])
	for _, p := range parts[1:] {
		for v.IsValid() && (v.Kind() == reflect.Ptr || v.Kind() == reflect.Interface) {
			if v.IsNil() {
				return reflect.Value{}
			}
			v = v.Elem()
		}
		if !v.IsValid() {
			return v
		}
		switch v.Kind() {
		case reflect.Map:
			v = v.MapIndex(reflect.ValueOf(p))
		case reflect.Struct:
			if _, ok := v.Type().FieldByName(p); !ok {
				return reflect.Value{}
			}
			f, err := v.FieldByIndexErr(mustIndex(v.Type(), p))
			if err != nil {
				return reflect.Value{}
			}
			v = f
		default:
			return reflect.Value{}
		}
	}
	return v
}

func mustIndex(t reflect.Type, name string) []int {
	f, _ := t.FieldByName(name)
	return f.Index
}

// behindNil: reading `field` of the struct v (through any pointers) has to pass an embedded pointer that is nil
func behindNil(v reflect.Value, field string) bool {
	for v.IsValid() && (v.Kind() == reflect.Ptr || v.Kind() == reflect.Interface) {
		if v.IsNil() {
			return false
		}
		v = v.Elem()
	}
	if !v.IsValid() || v.Kind() != reflect.Struct {
		return false
	}
	sf, ok := v.Type().FieldByName(field)
	if !ok {
		return false
	}
	for i, x := range sf.Index {
		if i > 0 && v.Kind() == reflect.Ptr {
			if v.IsNil() {
				return true
			}
			v = v.Elem()
		}
		v = v.Field(x)
	}
	return false
}

// embBehindNil: does the program's field read pass a nil embedded pointer for the struct (or for some element of the container)?
var embBehindCache = map[string]bool{}

func embBehindNil(s embSpec) bool {
	key := s.expr + "\x00" + s.field
	if r, ok := embBehindCache[key]; ok {
		return r
	}
	v := embResolve(mkEmbContext(), s.expr)
	for v.IsValid() && (v.Kind() == reflect.Ptr || v.Kind() == reflect.Interface) && !v.IsNil() {
		if v.Elem().Kind() == reflect.Struct {
			break
		}
		v = v.Elem()
	}
	r := false
	if v.IsValid() {
		switch v.Kind() {
		case reflect.Slice, reflect.Array:
			for i := 0; i < v.Len(); i++ {
				r = r || behindNil(v.Index(i), s.field)
			}
		case reflect.Map:
			it := v.MapRange()
			for it.Next() {
				r = r || behindNil(it.Value(), s.field)
			}
		default:
			r = behindNil(v, s.field)
		}
	}
	embBehindCache[key] = r
	return r
}
