// C18, family 7 — struct VALUES whose POINTER-receiver methods have side effects.
//
// The other families never call a method of a caller's type, so they cannot see whether the thing a loop
// variable / an indexed element / an attribute is bound to is the engine's own copy of a struct value or a
// pointer to the caller's element: reading fields looks the same either way. Here the element type has
// pointer-receiver methods that count, append and flag (Touch, Add, Mark; Inc on the nested Sub), and the
// programs call them on elements of typed slices, named slices, arrays, pointers to those, typed and untyped
// maps, untyped lists — at top level and nested in fields of struct values and of pointed-to structs — reached
// by for (value / key-value), index, attribute, first, last, cycle, through filters, include-with, macro
// parameters, set, list and hash literals. The caller stored VALUES, so whatever the method does it must do
// to a copy: the snapshot of the caller's data (oracle 1) and the output of a second render (oracle 2) must
// not change. Value-receiver methods (Bump, Label, Items, Nums), plain fields and structs stored directly in
// the context are the controls. A receiver that the caller stored as a pointer (*Line, []*Line, *Order
// itself) is the caller's own choice: no pointer-receiver method is ever called on those.
package main

import (
	"fmt"
	"strconv"
	"strings"
)

// calls made by the engine into the caller's methods during a render (each worker is single-threaded)
var ptrCalls, valCalls int

type Sub struct {
	K string
	N int
}

func (s *Sub) Inc() int { ptrCalls++; s.N++; return s.N }

type Line struct {
	Name string
	Hits int
	Seen bool
	Log  []int         // len == cap: an append reallocates, so on a copy of the struct it cannot reach the caller's array
	Any  []interface{} // spare capacity with sentinels
	Nums []int         // spare capacity with sentinels
	Subs []Sub         // spare capacity with a sentinel
}

// pointer receivers: a hit counter, a log that grows, a flag and a renamed field
func (l *Line) Touch() int   { ptrCalls++; l.Hits++; return l.Hits }
func (l *Line) Add() int     { ptrCalls++; l.Log = append(l.Log, 7); return len(l.Log) }
func (l *Line) Mark() string { ptrCalls++; l.Seen = true; l.Name += "*"; return l.Name }

// value receivers: whatever they do, they do it to their own copy
func (l Line) Bump() int            { valCalls++; l.Hits++; return l.Hits }
func (l Line) Label() string        { valCalls++; return l.Name + "!" }
func (l Line) Items() []interface{} { valCalls++; return l.Any } // hands out the caller's own lists: a filter applied to them must copy
func (l Line) Nums2() []int         { valCalls++; return l.Nums }

type Lines []Line

type Order struct {
	ID     string
	Visits int
	Lines  []Line
	NL     Lines
	Head   Line
	Arr    [2]Line
	ML     map[string]Line
	u      []Line // unexported
}

func (o *Order) Visit() int { ptrCalls++; o.Visits++; return o.Visits }

func mkLine(name string, h int) Line {
	log := make([]int, 2, 2)
	log[0], log[1] = h, h+1
	subs := []Sub{{K: name + "1", N: 1}, {K: name + "2", N: 2}, {K: "SENTINEL", N: -1000}}
	return Line{Name: name, Hits: h, Log: log, Any: spareAny([]interface{}{3, 1, 2}, 2), Nums: spareInts([]int{h + 2, h}, 2), Subs: subs[:2]}
}

// mkLines: n lines and one sentinel line behind len
func mkLines(prefix string, n int) []Line {
	full := make([]Line, n+1)
	for i := 0; i < n; i++ {
		full[i] = mkLine(prefix+strconv.Itoa(i), 10*i)
	}
	full[n] = mkLine("SENTINEL", -1000)
	return full[:n]
}

func mkOrder(id string) Order {
	return Order{ID: id, Lines: mkLines(id+"l", 2), NL: Lines(mkLines(id+"n", 2)), Head: mkLine(id+"h", 5),
		Arr: [2]Line{mkLine(id+"a0", 1), mkLine(id+"a1", 2)},
		ML:  map[string]Line{"k": mkLine(id+"mk", 3), "j": mkLine(id+"mj", 4)}, u: mkLines(id+"u", 1)}
}

func mkMethContext() map[string]interface{} {
	lines := mkLines("l", 3)
	pl := mkLines("pl", 2)
	po := mkOrder("po")
	ofull := []Order{mkOrder("o0"), mkOrder("o1"), mkOrder("SENTINEL")}
	porders := []Order{mkOrder("q0")}
	l0, l1 := mkLine("r0", 1), mkLine("r1", 2)
	return map[string]interface{}{
		"lines":  lines,
		"nlines": Lines(mkLines("n", 2)),
		"larr":   [2]Line{mkLine("a0", 1), mkLine("a1", 2)},
		"plarr":  &[2]Line{mkLine("pa0", 1), mkLine("pa1", 2)},
		"plines": &pl,
		"ml":     map[string]Line{"k": mkLine("mk", 1), "j": mkLine("mj", 2)},
		"mil":    map[int]Line{1: mkLine("m1", 1), 0: mkLine("m0", 2)},
		"ul":     spareAny([]interface{}{mkLine("u0", 1), mkLine("u1", 2)}, 1),
		"um": map[string]interface{}{"k": mkLine("umk", 1), "lines": mkLines("uml", 2), "ord": mkOrder("umo"),
			"orders": []Order{mkOrder("umq")}},
		"line":    mkLine("v", 7),
		"ord":     mkOrder("o"),
		"pord":    &po,
		"orders":  ofull[:2],
		"porders": &porders,
		"mo":      map[string]Order{"k": mkOrder("mok")},
		// the caller's own pointers: only fields and value-receiver methods are used on these
		"pline": &l0,
		"pls":   []*Line{&l1, &l0},
		"sep":   ",",
	}
}

var methPristine string

func pristineMeth() string {
	if methPristine == "" {
		a, b := snapshot(mkMethContext()), snapshot(mkMethContext())
		if a != b {
			panic("harness: two freshly built method contexts differ: " + firstDiff(a, b))
		}
		methPristine = a
	}
	return methPristine
}

// containers whose elements are Line VALUES
var methContainers = []string{"lines", "nlines", "larr", "plarr", "plines", "ml", "mil", "ul", "um.lines", "um['lines']",
	"ord.Lines", "ord.NL", "ord.Arr", "ord.ML", "pord.Lines", "pord.NL", "pord.Arr", "pord.ML", "um.ord.Lines", "mo.k.Lines"}

// expressions whose value is one Line VALUE
var methStructs = []string{"line", "ord.Head", "pord.Head", "ml.k", "ord.ML.k", "pord.ML.k", "um.k", "um.ord.Head", "mo.k.Head", "um['k']", "ml['j']"}

// containers whose elements are Order VALUES
var methOrderContainers = []string{"orders", "porders", "um.orders", "mo"}

// the caller's own pointers (controls: no pointer-receiver method is called on them)
var methPtrContainers = []string{"pls"}
var methPtrStructs = []string{"pline"}

type methBody struct {
	key string
	src string // X stands for the variable the element is bound to
	ptr bool   // calls a pointer-receiver method (never instantiated with one of the caller's own pointers)
}

var methSingles = []string{"Touch", "Add", "Mark", "Bump", "Label", "Name"}

func isPtrMethod(m string) bool { return m == "Touch" || m == "Add" || m == "Mark" }

func methBodies() []methBody {
	var bs []methBody
	for _, m := range methSingles {
		bs = append(bs, methBody{key: m, src: "{{ X." + m + " }}", ptr: isPtrMethod(m)})
	}
	bs = append(bs,
		methBody{key: "Items", src: "{{ X.Items|sort|join(',') }}{{ X.Items|merge([9])|length }}{{ X.Items|reverse|first }}{{ X.Nums2|sort|join(',') }}{{ X.Nums2|merge([9])|length }}{{ X.Nums2|reverse|first }}{{ X.Nums|sort|first }}{{ X.Any|reverse|first }}"},
		methBody{key: "Subs", ptr: true, src: "{% for s in X.Subs %}{{ s.Inc }}{{ s.K }}{% endfor %}{% set s0 = X.Subs[0] %}{{ s0.Inc }}{% set s1 = X.Subs|last %}{{ s1.Inc }}"},
		methBody{key: "cond", ptr: true, src: "{% if X.Touch > 0 %}y{% endif %}{{ X.Add > 1 ? 'p' : 'n' }}{% set t = X.Mark %}{{ t }}{% if X.Touch is defined %}d{% endif %}{{ X.Touch ~ X.Touch }}"},
		methBody{key: "arg", ptr: true, src: "{{ X.Touch|default(0) }}{{ max(X.Touch, 0) }}{{ [X.Add]|merge([X.Touch])|join(',') }}{{ {'k': X.Mark}|length }}{{ X.Mark|upper }}{{ X.Add|abs }}"},
	)
	return bs
}

// ordered pairs of the single methods: {{ X.M1 }}{{ X.M2 }} (also the same one twice)
func methPairBodies() []methBody {
	var bs []methBody
	for _, a := range methSingles {
		for _, b := range methSingles {
			bs = append(bs, methBody{key: a + "+" + b, src: "{{ X." + a + " }}{{ X." + b + " }}", ptr: isPtrMethod(a) || isPtrMethod(b)})
		}
	}
	return bs
}

func (b methBody) on(v string) string { return strings.ReplaceAll(b.src, "X", v) }

// filters a for-sequence may pass through
func methForFilters(thorough bool) []string {
	a := []string{"default([])", "raw", "slice(0, 2)", "slice(1)", "reverse", "sort", "merge(C)", "merge([])"}
	if thorough {
		a = append(a, "slice(0, 1)", "slice(-1)", "slice(0, 5)", "default(C)", "merge(ul)", "merge(lines)", "keys", "first", "last")
	}
	return a
}

// container patterns: C the container expression, B(v) the body on variable v
type methPattern struct {
	key string
	mk  func(c string, b methBody) (main string, others map[string]string)
}

func methPatterns(thorough bool) []methPattern {
	simple := func(key, src string, v string) methPattern {
		return methPattern{key: key, mk: func(c string, b methBody) (string, map[string]string) {
			return strings.NewReplacer("C", c, "B", b.on(v)).Replace(src), nil
		}}
	}
	ps := []methPattern{
		simple("for", "{% for l in C %}B{% endfor %}", "l"),
		simple("forkv", "{% for k, l in C %}{{ k }}=B;{% endfor %}", "l"),
		simple("for2x", "{% for l in C %}B{% endfor %}|{% for l in C %}B{% endfor %}", "l"),
		simple("forin", "{% for j in [1, 2] %}{% for l in C %}B{% endfor %}{% endfor %}", "l"),
		simple("forset", "{% for l in C %}{% set t = l %}B{% set l = 1 %}{% endfor %}", "t"),
		simple("forelse", "{% for l in C %}{% if loop.first %}B{% else %}-B{% endif %}{% else %}e{% endfor %}", "l"),
		simple("forapply", "{% apply upper %}{% for l in C %}B{% endfor %}{% endapply %}", "l"),
		simple("idx0", "{% set e = C[0] %}B{% set e = C[0] %}B", "e"),
		simple("idx1", "{% set e = C[1] %}B", "e"),
		simple("idxk", "{% set e = C['k'] %}B{% set e = C['j'] %}B", "e"),
		simple("attrk", "{% set e = C.k %}B", "e"),
		simple("first", "{% set e = C|first %}B", "e"),
		simple("last", "{% set e = C|last %}B", "e"),
		simple("cycle", "{% set e = cycle(C, 1) %}B", "e"),
		simple("held", "{% set t = C %}{% for l in t %}B{% endfor %}{% set e = t[0] %}{{ e.Name }}", "l"),
		simple("list", "{% set t = [C, C] %}{% for c in t %}{% for l in c %}B{% endfor %}{% endfor %}", "l"),
		simple("hash", "{% set h = {'c': C} %}{% for l in h.c %}B{% endfor %}", "l"),
		simple("macro", "{% macro w(q) %}{% for l in q %}B{% endfor %}{% endmacro %}{{ w(C) }}{{ _self.w(C) }}", "l"),
		simple("macroelem", "{% macro w(q) %}B{% endmacro %}{% for l in C %}{{ w(l) }}{% endfor %}", "q"),
		simple("tern", "{% for l in (C ? C : []) %}B{% endfor %}", "l"),
		{key: "include", mk: func(c string, b methBody) (string, map[string]string) {
			return "{% include 'part' with {'q': " + c + "} %}|{% include 'part' with {'q': " + c + "} only %}", map[string]string{"part": "{% for l in q %}" + b.on("l") + "{% endfor %}"}
		}},
		{key: "includeelem", mk: func(c string, b methBody) (string, map[string]string) {
			return "{% for l in " + c + " %}{% include 'part' %}{% include 'part' with {'l': l} only %}{% endfor %}", map[string]string{"part": b.on("l")}
		}},
		{key: "import", mk: func(c string, b methBody) (string, map[string]string) {
			return "{% import 'lib' as m %}{{ m.w(" + c + ") }}{% from 'lib' import w %}{{ w(" + c + ") }}", map[string]string{"lib": "{% macro w(q) %}{% for l in q %}" + b.on("l") + "{% endfor %}{% endmacro %}"}
		}},
	}
	for _, f := range methForFilters(thorough) {
		f := f
		ps = append(ps, methPattern{key: "through/" + f, mk: func(c string, b methBody) (string, map[string]string) {
			ff := strings.ReplaceAll(f, "C", c)
			return "{% for l in " + c + "|" + ff + " %}" + b.on("l") + "{% endfor %}{% set t = " + c + "|" + ff + " %}{% for l in t %}" + b.on("l") + "{% endfor %}|{% for l in " + c + " %}" + b.on("l") + "{% endfor %}", nil
		}})
	}
	if thorough {
		fs := methForFilters(false)
		for _, f1 := range fs {
			for _, f2 := range fs {
				f1, f2 := f1, f2
				ps = append(ps, methPattern{key: "through2/" + f1 + "|" + f2, mk: func(c string, b methBody) (string, map[string]string) {
					ff := strings.ReplaceAll(f1+"|"+f2, "C", c)
					return "{% for l in " + c + "|" + ff + " %}" + b.on("l") + "{% endfor %}|{% for l in " + c + " %}" + b.on("l") + "{% endfor %}", nil
				}})
			}
		}
		ps = append(ps,
			simple("idx2", "{% set e = C[2] %}B", "e"),
			simple("idxneg", "{% set e = C[-1] %}B", "e"),
			simple("idxj", "{% set e = C.j %}B", "e"),
			simple("cycle0", "{% set e = cycle(C, 0) %}B{% set e = cycle(C, 5) %}B", "e"),
			simple("firstoflist", "{% set e = [C]|first|first %}B", "e"),
			simple("for3x", "{% for l in C %}B{% endfor %}{% for l in C %}B{% endfor %}{% for l in C %}B{% endfor %}", "l"),
		)
	}
	return ps
}

// struct patterns: E the expression of one Line value
func methStructPatterns() []methPattern {
	simple := func(key, src string, v string) methPattern {
		return methPattern{key: key, mk: func(e string, b methBody) (string, map[string]string) {
			on := v
			if on == "" {
				on = e
			}
			return strings.NewReplacer("E", e, "B", b.on(on)).Replace(src), nil
		}}
	}
	return []methPattern{
		simple("direct", "B", ""),
		simple("twice", "B|B", ""),
		simple("set", "{% set e = E %}B{% set e = E %}B", "e"),
		simple("list", "{% for l in [E, E] %}B{% endfor %}", "l"),
		simple("hash", "{% set h = {'e': E} %}{% set e = h.e %}B{% set e = h['e'] %}B", "e"),
		simple("macro", "{% macro w(q) %}B{% endmacro %}{{ w(E) }}{{ _self.w(E) }}", "q"),
		simple("loop", "{% for j in [1, 2, 3] %}B{% endfor %}", ""),
		simple("default", "{% set e = E|default(1) %}B{% set e = E|raw %}B", "e"),
		{key: "include", mk: func(e string, b methBody) (string, map[string]string) {
			return "{% include 'part' with {'q': " + e + "} %}|{% include 'part' with {'q': " + e + "} only %}", map[string]string{"part": b.on("q")}
		}},
	}
}

func methPrograms(thorough bool, add func(program)) {
	mk := func(key, touches, main string, others map[string]string) {
		add(program{key: "meth/" + key, family: "meth", touches: touches, main: main, others: others, meth: true})
	}
	bodies, pairs := methBodies(), methPairBodies()
	// (a) containers of Line values x patterns x bodies
	for _, p := range methPatterns(thorough) {
		bs := bodies
		if thorough || p.key == "for" || p.key == "idx0" {
			bs = append(append([]methBody(nil), bodies...), pairs...)
		}
		for _, c := range methContainers {
			for _, b := range bs {
				main, others := p.mk(c, b)
				mk("c/"+p.key+"/"+b.key+"/"+c, strings.SplitN(p.key, "/", 2)[0]+">"+b.key, main, others)
			}
		}
		// controls: the caller's own pointers, fields and value-receiver methods only
		for _, c := range methPtrContainers {
			for _, b := range bs {
				if b.ptr {
					continue
				}
				main, others := p.mk(c, b)
				mk("pc/"+p.key+"/"+b.key+"/"+c, "ptrctl>"+b.key, main, others)
			}
		}
	}
	// (b) one Line value x patterns x bodies (+ pairs)
	all := append(append([]methBody(nil), bodies...), pairs...)
	for _, p := range methStructPatterns() {
		for _, e := range methStructs {
			for _, b := range all {
				main, others := p.mk(e, b)
				mk("s/"+p.key+"/"+b.key+"/"+e, "struct-"+p.key+">"+b.key, main, others)
			}
		}
		for _, e := range methPtrStructs {
			for _, b := range all {
				if b.ptr {
					continue
				}
				main, others := p.mk(e, b)
				mk("ps/"+p.key+"/"+b.key+"/"+e, "ptrctl>"+b.key, main, others)
			}
		}
	}
	// (c) containers of Order values: the order's own counter, its head, and its containers of lines
	for _, d := range methOrderContainers {
		for _, b := range bodies {
			for i, src := range []string{
				"{% for o in @D %}{{ o.Visit }}{{ o.ID }}{% for l in o.Lines %}@B{% endfor %}{% endfor %}",
				"{% for k, o in @D %}{% for l in o.NL %}@B{% endfor %}{% for l in o.Arr %}@B{% endfor %}{% for l in o.ML %}@B{% endfor %}{{ o.Visit }}{% endfor %}",
				"{% for o in @D %}@H{% set e = o.Lines[0] %}@I{% set e = o.ML.k %}@I{% set e = o.Arr|last %}@I{% endfor %}",
				"{% set o = @D[0] %}{{ o.Visit }}{% for l in o.Lines %}@B{% endfor %}@H",
				"{% macro w(o) %}{{ o.Visit }}{% for l in o.Lines %}@B{% endfor %}@H{% endmacro %}{% for o in @D %}{{ w(o) }}{% endfor %}",
				"{% set o = @D|first %}{{ o.Visit }}{% for l in o.Lines %}@B{% endfor %}@H{% set o = @D|last %}{{ o.Visit }}{% for l in o.NL %}@B{% endfor %}",
				"{% set o = @D.k %}{{ o.Visit }}{% for l in o.Lines %}@B{% endfor %}@H{% set o = @D['k'] %}{{ o.Visit }}{% for l in o.ML %}@B{% endfor %}",
			} {
				main := strings.NewReplacer("@D", d, "@B", b.on("l"), "@H", b.on("o.Head"), "@I", b.on("e")).Replace(src)
				mk(fmt.Sprintf("o/%d/%s/%s", i, b.key, d), "orders"+strconv.Itoa(i)+">"+b.key, main, nil)
			}
		}
	}
	// (d) the Order values themselves
	for i, src := range []string{
		"{{ ord.Visit }}{{ ord.Visit }}",
		"{% set o = ord %}{{ o.Visit }}{% set o = um.ord %}{{ o.Visit }}{{ um.ord.Visit }}{{ mo.k.Visit }}",
		"{% for o in [ord, um.ord] %}{{ o.Visit }}{% for l in o.Lines %}{{ l.Touch }}{{ l.Add }}{{ l.Mark }}{% endfor %}{% endfor %}",
		"{% include 'part' with {'o': ord} %}{% include 'part' with {'o': ord} only %}",
		"{% macro w(o) %}{{ o.Visit }}{{ o.Head.Touch }}{% endmacro %}{{ w(ord) }}{{ w(um.ord) }}{{ _self.w(mo.k) }}",
		// reads of everything, no method
		"{{ lines|json_encode }}{{ lines|join(',') }}{{ lines }}{{ ord|json_encode }}{{ line }}{{ ml|json_encode }}{{ ul|length }}{{ lines|length }}{{ ml|keys|join(',') }}",
		"{% if line in lines %}y{% endif %}{% if lines == lines %}e{% endif %}{% if lines is iterable %}i{% endif %}{% if line is defined %}d{% endif %}{% if lines|first %}f{% endif %}",
	} {
		mk(fmt.Sprintf("ord/%d", i), "ord"+strconv.Itoa(i), src, map[string]string{"part": "{{ o.Visit }}{{ o.Head.Touch }}{% for l in o.Lines %}{{ l.Touch }}{% endfor %}"})
	}
}
