package main

import (
	"fmt"
	"os"
	"sort"
	"testing"
	"time"

	"github.com/semihalev/twig"
)

func TestProbe(t *testing.T) {
	thorough := os.Getenv("PROBE_THOROUGH") != ""
	type r struct {
		k string
		d time.Duration
	}
	var rs []r
	perr := map[string]int{}
	var total time.Duration
	bigPrograms(thorough, func(p program) {
		if os.Getenv("PROBE_N") != "" && fmt.Sprint(p.big.n) != os.Getenv("PROBE_N") {
			return
		}
		e := twig.New()
		if err := e.RegisterString("t", p.main); err != nil {
			perr[p.touches+" :: "+p.main+" :: "+err.Error()]++
			return
		}
		t0 := time.Now()
		o := runProgram(p)
		d := time.Since(t0)
		total += d
		rs = append(rs, r{p.key, d})
		if o.Violation != "" {
			fmt.Println("VIOL", p.key, o.Violation)
		}
	})
	sort.Slice(rs, func(i, j int) bool { return rs[i].d > rs[j].d })
	for i := 0; i < 25 && i < len(rs); i++ {
		fmt.Println(rs[i].d, rs[i].k)
	}
	fmt.Println("total", total, "cases", len(rs))
	seen := map[string]bool{}
	for k := range perr {
		if len(k) > 0 && !seen[k[:12]] {
			seen[k[:12]] = true
			fmt.Println("PARSE", k)
		}
	}
}
