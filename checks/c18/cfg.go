// C18, family 9 — the ENGINE-CONFIGURATION dimension.
//
// Every other family renders through Engine.Render on an engine that is exactly twig.New(). The property is
// not about a configuration: the context map the caller hands in — its key set first of all — and everything
// reachable from it must be the same after a render whichever way the engine was set up and whichever entry
// point was used. Here a representative subset of the programs of the other families is rendered on engines
// in debug mode (SetDebug, also at the verbose level, which prints the context), development mode, with the
// cache off (templates from a loader, parsed on every load), with auto-reload on (templates from files with
// a modification time), with the sandbox enabled (the program runs inside `include … sandboxed`, under an
// allow-all and under the default policy), with strict variables, and combinations — through Engine.Render,
// Engine.RenderTo, Template.Render, Template.RenderTo (template obtained from Engine.Load) and a template
// parsed with Engine.ParseTemplate. Oracles 1 and 2 as everywhere; in addition the caller's data is looked
// at once more after an UNRELATED render on another engine (a context map that the engine kept and recycled
// would change then).
package main

import (
	"bytes"
	"fmt"
	"hash/fnv"
	"io"
	"os"
	"path/filepath"
	"strings"

	"github.com/semihalev/twig"

	"verif/lib/vlib"
)

type cfgSpec struct {
	config string
	entry  string
}

type cfgConfig struct {
	name    string
	quick   bool
	loader  string // "" = RegisterString, "array", "fs"
	sandbox string // "" / "all" (allow-all policy) / "default": the program runs inside `include 'body' sandboxed`
	setup   func(e *twig.Engine)
}

type allowAll struct{}

func (allowAll) IsFunctionAllowed(string) bool { return true }
func (allowAll) IsFilterAllowed(string) bool   { return true }
func (allowAll) IsTagAllowed(string) bool      { return true }

var cfgConfigs = []cfgConfig{
	{name: "plain", quick: true, setup: func(e *twig.Engine) {}},
	{name: "debug", quick: true, setup: func(e *twig.Engine) { e.SetDebug(true) }},
	{name: "verbose", setup: func(e *twig.Engine) { e.SetDebug(true); twig.SetDebugLevel(twig.DebugVerbose) }},
	{name: "dev", quick: true, loader: "array", setup: func(e *twig.Engine) { e.SetDevelopmentMode(true) }},
	{name: "nocache", quick: true, loader: "array", setup: func(e *twig.Engine) { e.SetCache(false) }},
	{name: "autoreload", quick: true, loader: "fs", setup: func(e *twig.Engine) { e.SetAutoReload(true) }},
	{name: "sandbox", quick: true, sandbox: "all", setup: func(e *twig.Engine) { e.EnableSandbox(allowAll{}) }},
	{name: "all", quick: true, loader: "array", sandbox: "all", setup: func(e *twig.Engine) {
		e.SetDevelopmentMode(true)
		e.SetDebug(true)
		e.EnableSandbox(allowAll{})
		e.SetStrictVars(true)
	}},
	{name: "sandboxdefault", sandbox: "default", setup: func(e *twig.Engine) { e.EnableSandbox(twig.NewDefaultSecurityPolicy()) }},
	{name: "strict", setup: func(e *twig.Engine) { e.SetStrictVars(true) }},
	{name: "debugnocache", loader: "array", setup: func(e *twig.Engine) { e.SetDebug(true); e.SetCache(false) }},
	{name: "devfs", loader: "fs", setup: func(e *twig.Engine) { e.SetDevelopmentMode(true) }},
	{name: "arraycached", loader: "array", setup: func(e *twig.Engine) {}},
}

type cfgEntry struct {
	name  string
	quick bool
}

var cfgEntries = []cfgEntry{{"Render", true}, {"RenderTo", true}, {"TemplateRender", true}, {"TemplateRenderTo", false}, {"Parse", false}}

// cfgBase: the representative subset of the other families (their own keys, prefixed by cfg/<config>/<entry>/)
func cfgBase(thorough bool) []program {
	var base []program
	add := func(p program) { base = append(base, p) }
	// (a) every value expression through each of the 14 collection filter instances, printed, assigned and processed further
	filterVs := ctxKeys
	if thorough {
		filterVs = valueExprs
	}
	for _, v := range filterVs {
		for _, f := range chainCol() {
			add(program{key: "filter/" + v + "|" + f, family: "filter", touches: "filter",
				main: "{{ " + v + "|" + f + "|json_encode }}{% set t = " + v + "|" + f + " %}{% set u = t|merge([7]) %}{% set w = t|sort %}{% set x = t|reverse %}{{ t|length }}{{ " + v + "|json_encode }}"})
		}
	}
	// (b) the scope programs and (c) the name collisions
	scopeVs := []string{"xs", "is", "m", "attrs", "pst", "lm"}
	colKeys := []string{"xs", "m"}
	boundVs := []string{"m", "lm"}
	if thorough {
		scopeVs, colKeys, boundVs = valueExprs, ctxKeys, valueExprs
	}
	scopePrograms(scopeVs, add)
	collisionPrograms(colKeys, boundVs, add)
	// (d) struct values with pointer-receiver methods
	methC := []string{"lines", "ml", "pord.Lines", "ul"}
	methP := map[string]bool{"for": true, "idx0": true, "macro": true, "include": true}
	if thorough {
		methC = methContainers
	}
	bodies := methBodies()
	for _, p := range methPatterns(false) {
		if !methP[p.key] {
			continue
		}
		for _, c := range methC {
			for _, b := range bodies {
				main, others := p.mk(c, b)
				add(program{key: "meth/c/" + p.key + "/" + b.key + "/" + c, family: "meth", touches: "meth", main: main, others: others, meth: true})
			}
		}
	}
	for _, p := range methStructPatterns() {
		for _, e := range []string{"line", "pord.Head", "ml.k"} {
			if !thorough && e != "line" {
				continue
			}
			for _, b := range bodies {
				main, others := p.mk(e, b)
				add(program{key: "meth/s/" + p.key + "/" + b.key + "/" + e, family: "meth", touches: "meth", main: main, others: others, meth: true})
			}
		}
	}
	// (e) embedded nil pointers: the quick programs of family 8 on the expressions that hold a pointer
	embPrograms(false, func(p program) {
		switch p.emb.expr {
		case "cust", "acct", "deepnil", "custs", "holder.C":
		default:
			return
		}
		if !thorough {
			switch p.emb.expr {
			case "cust", "acct", "deepnil", "custs", "holder.C":
			default:
				return
			}
			switch p.emb.field {
			case "City", "Lat", "Addr":
			default:
				return
			}
			switch p.touches[strings.Index(p.touches, ">")+1:] {
			case "print", "test", "default", "loop", "with":
			default:
				return
			}
		}
		add(p)
	})
	return base
}

func cfgPrograms(thorough bool, add func(program)) {
	base := cfgBase(thorough)
	for _, c := range cfgConfigs {
		if !c.quick && !thorough {
			continue
		}
		for _, en := range cfgEntries {
			if !en.quick && !thorough {
				continue
			}
			spec := &cfgSpec{config: c.name, entry: en.name}
			for _, p := range base {
				p.key = "cfg/" + c.name + "/" + en.name + "/" + p.key
				p.touches = c.name + ">" + en.name + ">" + p.family
				p.family = "cfg"
				p.cfg = spec
				add(p)
			}
		}
	}
}

// ---------------------------------------------------------------------------------------------

var cfgDiscard bool

// the unrelated render: another engine, another context, sets / loop variables / include / macro of its own
var foreignEngine *twig.Engine

func foreignRender() error {
	if foreignEngine == nil {
		e := twig.New()
		if err := e.RegisterString("fpart", "{% set zz_inner = 2 %}{{ zz_inner }}"); err != nil {
			return err
		}
		if err := e.RegisterString("fmain", "{% set zz_secret = 1 %}{% for zz_i in [1, 2] %}{% set zz_loop = zz_i %}{% include 'fpart' %}{% endfor %}{% macro w(zz_p) %}{% set zz_m = zz_p %}{{ zz_m }}{% endmacro %}{{ w(3) }}{% include 'fpart' with {'zz_w': 1} only %}{{ other_var }}"); err != nil {
			return err
		}
		foreignEngine = e
	}
	for j := 0; j < 3; j++ {
		if _, err := foreignEngine.Render("fmain", map[string]interface{}{"other_var": j}); err != nil {
			return err
		}
	}
	return nil
}

func cfgScratchDir(key string) (string, error) {
	h := fnv.New64a()
	h.Write([]byte(key))
	if s := vlib.Scratch(); s != "" {
		dir := filepath.Join(s, fmt.Sprintf("c18-%d-%016x", os.Getpid(), h.Sum64()))
		return dir, os.MkdirAll(dir, 0o755)
	}
	return os.MkdirTemp("", "c18-cfg-")
}

// cfgRenderer builds the engine of the configuration and returns the entry point as a function of the context
func cfgRenderer(p program) (render func(ctx map[string]interface{}) (string, error), cleanup func(), parseErr, harnessErr error) {
	cleanup = func() {}
	var conf *cfgConfig
	for i := range cfgConfigs {
		if cfgConfigs[i].name == p.cfg.config {
			conf = &cfgConfigs[i]
		}
	}
	if conf == nil {
		return nil, cleanup, nil, fmt.Errorf("unknown configuration %q", p.cfg.config)
	}
	if !cfgDiscard {
		twig.SetDebugWriter(io.Discard)
		cfgDiscard = true
	}
	templates := map[string]string{}
	for n, src := range p.others {
		templates[n] = src
	}
	top := p.main
	if conf.sandbox != "" {
		templates["body"] = p.main
		top = "{% include 'body' sandboxed %}"
	}
	templates["t"] = top

	e := twig.New()
	conf.setup(e)
	cleanup = func() { twig.SetDebugLevel(twig.DebugOff) }
	switch conf.loader {
	case "":
		for _, n := range sortedKeys(templates) {
			if n == "t" {
				continue
			}
			if err := e.RegisterString(n, templates[n]); err != nil {
				if n == "body" {
					return nil, cleanup, err, nil
				}
				return nil, cleanup, nil, fmt.Errorf("helper template %q does not parse: %v", n, err)
			}
		}
		if err := e.RegisterString("t", top); err != nil {
			return nil, cleanup, err, nil
		}
	case "array":
		e.RegisterLoader(twig.NewArrayLoader(templates))
	case "fs":
		dir, err := cfgScratchDir(p.key)
		if err != nil {
			return nil, cleanup, nil, err
		}
		cleanup = func() { twig.SetDebugLevel(twig.DebugOff); os.RemoveAll(dir) }
		for n, src := range templates {
			if err := os.WriteFile(filepath.Join(dir, n+".twig"), []byte(src), 0o644); err != nil {
				return nil, cleanup, nil, err
			}
		}
		e.RegisterLoader(twig.NewFileSystemLoader([]string{dir}))
	}
	switch p.cfg.entry {
	case "Render":
		render = func(ctx map[string]interface{}) (string, error) { return e.Render("t", ctx) }
	case "RenderTo":
		render = func(ctx map[string]interface{}) (string, error) {
			var buf bytes.Buffer
			err := e.RenderTo(&buf, "t", ctx)
			return buf.String(), err
		}
	case "TemplateRender":
		render = func(ctx map[string]interface{}) (string, error) {
			tm, err := e.Load("t")
			if err != nil {
				return "", err
			}
			return tm.Render(ctx)
		}
	case "TemplateRenderTo":
		render = func(ctx map[string]interface{}) (string, error) {
			tm, err := e.Load("t")
			if err != nil {
				return "", err
			}
			var buf bytes.Buffer
			err = tm.RenderTo(&buf, ctx)
			return buf.String(), err
		}
	case "Parse":
		tm, err := e.ParseTemplate(top)
		if err != nil {
			return nil, cleanup, err, nil
		}
		render = func(ctx map[string]interface{}) (string, error) { return tm.Render(ctx) }
	default:
		return nil, cleanup, nil, fmt.Errorf("unknown entry %q", p.cfg.entry)
	}
	return render, cleanup, nil, nil
}

func sortedKeys(m map[string]string) []string {
	ks := make([]string, 0, len(m))
	for k := range m {
		ks = append(ks, k)
	}
	for i := 1; i < len(ks); i++ {
		for j := i; j > 0 && ks[j] < ks[j-1]; j-- {
			ks[j], ks[j-1] = ks[j-1], ks[j]
		}
	}
	return ks
}
