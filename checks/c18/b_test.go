package main
import ("testing"; "github.com/semihalev/twig")
func BenchmarkNew(b *testing.B){ for i:=0;i<b.N;i++{ e:=twig.New(); _=e } }
func BenchmarkCtx(b *testing.B){ for i:=0;i<b.N;i++{ _=mkContext() } }
func BenchmarkSnap(b *testing.B){ c:=mkContext(); for i:=0;i<b.N;i++{ _=snapshot(c) } }
func BenchmarkCase(b *testing.B){ p:=chainProgram("print","xs",[]string{"sort","reverse","first"}); for i:=0;i<b.N;i++{ runProgram(p) } }
