// C18 — rendering never modifies the caller's data.
//
// Every case builds a fresh context whose values are slices WITH SPARE CAPACITY FILLED WITH
// SENTINELS, arrays, typed and untyped maps, structs and pointers, nested two deep; takes a deep
// snapshot (values, lengths, capacity regions, map key sets, pointer targets); renders one program
// twice on one engine with that same context; and demands snapshot-before = snapshot-after-1 =
// snapshot-after-2, equal output of the two renders, and (for filter pairs) that the value obtained
// from the first filter looks the same before and after the second filter ran.
// Family 6 (big.go) does the same with containers of more than 50 elements that the program only reads.
// Family 7 (meth.go) does the same with struct values whose pointer-receiver methods have side effects.
// Family 8 (emb.go) does the same with structs passed by pointer that embed nil pointers (promoted fields).
// Family 9 (cfg.go) renders a subset of all of these on engines in debug / development mode, cache off,
// auto-reload, sandbox, strict variables, through Engine.Render, RenderTo, Template.Render, RenderTo, ParseTemplate.
// Family 10 (inc.go) enumerates the include-option grammar (with <hash literal | expression | pairs>, only, sandboxed,
// ignore missing) on engines with a security policy, whether or not the parser accepts the form.
package main

import (
	"fmt"
	"reflect"
	"sort"
	"strconv"
	"strings"

	"github.com/semihalev/twig"

	"verif/lib/vlib"
)

// ---------------------------------------------------------------------------------------------
// the caller's data

type Inner struct {
	N  int
	Xs []int
}

type S struct {
	A  int
	L  []interface{}
	M  map[string]interface{}
	P  *int
	T  []int
	In Inner
	Ip *Inner
	u  []int // unexported: reachable from the context, must not change either
}

// named collection types take the reflection paths of the filters
type IDs []int
type Names []string
type Attrs map[string]interface{}

// spare makes a slice of the given length whose backing array is longer; the hidden part holds sentinels
func spareAny(vals []interface{}, extra int) []interface{} {
	full := make([]interface{}, len(vals)+extra)
	copy(full, vals)
	for i := len(vals); i < len(full); i++ {
		full[i] = fmt.Sprintf("SENTINEL%d", i)
	}
	return full[:len(vals)]
}

func spareInts(vals []int, extra int) []int {
	full := make([]int, len(vals)+extra)
	copy(full, vals)
	for i := len(vals); i < len(full); i++ {
		full[i] = -1000 - i
	}
	return full[:len(vals)]
}

func spareStrings(vals []string, extra int) []string {
	full := make([]string, len(vals)+extra)
	copy(full, vals)
	for i := len(vals); i < len(full); i++ {
		full[i] = fmt.Sprintf("SENTINEL%d", i)
	}
	return full[:len(vals)]
}

func spareFloats(vals []float64, extra int) []float64 {
	full := make([]float64, len(vals)+extra)
	copy(full, vals)
	for i := len(vals); i < len(full); i++ {
		full[i] = -0.5 - float64(i)
	}
	return full[:len(vals)]
}

// mkContext builds the data afresh (nothing is shared between cases)
func mkContext() map[string]interface{} {
	n := 5
	xs := spareAny([]interface{}{3, 1, 2}, 5)
	ss := spareStrings([]string{"b", "a"}, 4)
	is := spareInts([]int{9, 7, 8}, 3)
	fs := spareFloats([]float64{2.5, 1.5}, 2)
	arr := [3]int{3, 1, 2}
	parr := &[3]int{6, 4, 5}
	m := map[string]interface{}{
		"b": 1,
		"a": spareAny([]interface{}{2, 1}, 3),
		"n": map[string]interface{}{"y": 1, "x": spareInts([]int{2, 1}, 2)},
		"z": "str",
	}
	mt := map[string]int{"z": 1, "y": 2}
	ms := map[string][]int{"k": spareInts([]int{5, 4}, 2), "j": nil}
	mi := map[int]string{2: "two", 1: "one"}
	st := S{A: 1, L: spareAny([]interface{}{2, 1}, 2), M: map[string]interface{}{"k": 1, "j": spareAny([]interface{}{"q", "p"}, 1)}, P: &n,
		T: spareInts([]int{8, 6, 7}, 2), In: Inner{N: 2, Xs: spareInts([]int{2, 1}, 1)}, Ip: &Inner{N: 3, Xs: spareInts([]int{4, 3}, 1)}, u: []int{1, 2}}
	st2 := st
	st2.L = spareAny([]interface{}{5, 4}, 2)
	st2.M = map[string]interface{}{"k": 2}
	st2.T = spareInts([]int{3, 2}, 2)
	pxs := spareAny([]interface{}{"c", "a", "b"}, 2)
	nested := spareAny([]interface{}{spareAny([]interface{}{2, 1}, 2), m, spareStrings([]string{"d", "c"}, 1)}, 2)
	lm := spareAny([]interface{}{map[string]interface{}{"id": 2, "tags": spareAny([]interface{}{"y", "x"}, 1)}, map[string]interface{}{"id": 1, "tags": []interface{}{}}}, 1)
	i64full := []int64{30, 10, 20, -1003, -1004}
	idsfull := IDs{6, 4, 5, -1003, -1004, -1005}
	namesfull := Names{"n2", "n1", "SENTINEL2", "SENTINEL3"}
	lmt := make([]map[string]interface{}, 2, 4)
	lmt[0], lmt[1] = map[string]interface{}{"id": 2}, map[string]interface{}{"id": 1}
	lmt[:4][2] = map[string]interface{}{"id": "SENTINEL"}
	attrs := Attrs{"k2": spareAny([]interface{}{2, 1}, 1), "k1": 1}
	return map[string]interface{}{
		"i64": i64full[:3], "ids": idsfull[:3], "names": namesfull[:2], "lmt": lmt, "attrs": attrs,
		"xs": xs, "ss": ss, "is": is, "fs": fs, "arr": arr, "parr": parr, "m": m, "mt": mt, "ms": ms, "mi": mi,
		"st": st, "pst": &st2, "pxs": &pxs, "s": "cba", "i": 3, "nested": nested, "lm": lm,
		"e": spareAny([]interface{}{}, 3), "sep": ",",
	}
}

// value expressions the programs are instantiated with: every top-level key and nested paths
var valueExprs = []string{"xs", "ss", "is", "fs", "i64", "ids", "names", "lmt", "attrs", "attrs.k2", "arr", "parr", "m", "mt", "ms", "mi", "st", "pst", "pxs", "s", "i", "nested", "lm", "e",
	"st.L", "st.M", "st.T", "st.In.Xs", "st.Ip.Xs", "pst.L", "pst.M", "pst.T", "m.a", "m.n", "m.n.x", "ms.k", "nested[0]", "nested[1]", "nested[2]", "lm[0]['tags']", "lm[0]"}

// ---------------------------------------------------------------------------------------------
// deep snapshot: values, lengths, capacity regions, map key sets, pointer targets

func snapshot(v interface{}) string {
	var b strings.Builder
	b.Grow(8192)
	mapPath = map[uintptr]bool{}
	snap(&b, reflect.ValueOf(v), map[uintptr]bool{}, 0)
	return b.String()
}

// mapPath holds the maps on the path from the root to the value being written, so that a map that
// (after a faulty render) contains itself ends the descent with a marker instead of recursing.
// Maps reached twice along different paths are still written twice (each worker is single-threaded).
var mapPath = map[uintptr]bool{}

// typeName is reflect.Type.String, remembered (each worker is single-threaded)
var typeNames = map[reflect.Type]string{}

func typeName(t reflect.Type) string {
	n, ok := typeNames[t]
	if !ok {
		n = t.String()
		typeNames[t] = n
	}
	return n
}

func snap(b *strings.Builder, v reflect.Value, seen map[uintptr]bool, depth int) {
	if depth > 40 {
		b.WriteString("<deep>")
		return
	}
	if !v.IsValid() {
		b.WriteString("nil")
		return
	}
	switch v.Kind() {
	case reflect.Interface:
		if v.IsNil() {
			b.WriteString("nil")
			return
		}
		snap(b, v.Elem(), seen, depth+1)
	case reflect.Ptr:
		if v.IsNil() {
			b.WriteString("nilptr")
			return
		}
		if seen[v.Pointer()] {
			b.WriteString("&<seen>")
			return
		}
		seen[v.Pointer()] = true
		b.WriteString("&")
		snap(b, v.Elem(), seen, depth+1)
	case reflect.Slice:
		if v.IsNil() {
			b.WriteString(v.Type().String() + "(nil)")
			return
		}
		b.WriteString(typeName(v.Type()))
		b.WriteString("(len=")
		b.WriteString(strconv.Itoa(v.Len()))
		b.WriteString(",cap=")
		b.WriteString(strconv.Itoa(v.Cap()))
		b.WriteString(")[")
		full := v.Slice(0, v.Cap())
		for i := 0; i < full.Len(); i++ {
			if i == v.Len() {
				b.WriteString("| ")
			}
			snap(b, full.Index(i), seen, depth+1)
			b.WriteString(", ")
		}
		b.WriteString("]")
	case reflect.Array:
		b.WriteString(typeName(v.Type()))
		b.WriteString("[")
		for i := 0; i < v.Len(); i++ {
			snap(b, v.Index(i), seen, depth+1)
			b.WriteString(", ")
		}
		b.WriteString("]")
	case reflect.Map:
		if v.IsNil() {
			b.WriteString(v.Type().String() + "(nil)")
			return
		}
		if mp := v.Pointer(); mapPath[mp] {
			b.WriteString(typeName(v.Type()) + "<cycle>")
			return
		} else {
			mapPath[mp] = true
			defer delete(mapPath, mp)
		}
		type kv struct {
			k string
			v reflect.Value
		}
		es := make([]kv, 0, v.Len())
		it := v.MapRange()
		for it.Next() {
			if k := it.Key(); k.Kind() == reflect.String {
				es = append(es, kv{strconv.Quote(k.String()), it.Value()})
			} else {
				var kb strings.Builder
				snap(&kb, k, seen, depth+1)
				es = append(es, kv{kb.String(), it.Value()})
			}
		}
		sort.Slice(es, func(i, j int) bool { return es[i].k < es[j].k })
		b.WriteString(typeName(v.Type()))
		b.WriteString("(len=")
		b.WriteString(strconv.Itoa(v.Len()))
		b.WriteString("){")
		for _, e := range es {
			b.WriteString(e.k + ": ")
			snap(b, e.v, seen, depth+1)
			b.WriteString(", ")
		}
		b.WriteString("}")
	case reflect.Struct:
		b.WriteString(typeName(v.Type()))
		b.WriteString("{")
		for i := 0; i < v.NumField(); i++ {
			b.WriteString(v.Type().Field(i).Name + ": ")
			snap(b, v.Field(i), seen, depth+1)
			b.WriteString(", ")
		}
		b.WriteString("}")
	case reflect.String:
		b.WriteString(strconv.Quote(v.String()))
	case reflect.Bool:
		b.WriteString(strconv.FormatBool(v.Bool()))
	case reflect.Int, reflect.Int8, reflect.Int16, reflect.Int32, reflect.Int64:
		b.WriteString(typeName(v.Type()))
		b.WriteString("(")
		b.WriteString(strconv.FormatInt(v.Int(), 10))
		b.WriteString(")")
	case reflect.Uint, reflect.Uint8, reflect.Uint16, reflect.Uint32, reflect.Uint64, reflect.Uintptr:
		fmt.Fprintf(b, "%s(%d)", v.Type(), v.Uint())
	case reflect.Float32, reflect.Float64:
		fmt.Fprintf(b, "%s(%v)", v.Type(), v.Float())
	default:
		b.WriteString("<" + v.Kind().String() + ">")
	}
}

// firstDiff describes where two snapshots differ
func firstDiff(a, b string) string {
	i := 0
	for i < len(a) && i < len(b) && a[i] == b[i] {
		i++
	}
	lo := i - 90
	if lo < 0 {
		lo = 0
	}
	cut := func(s string) string {
		hi := i + 60
		if hi > len(s) {
			hi = len(s)
		}
		return s[lo:hi]
	}
	return fmt.Sprintf("before …%s… after …%s…", cut(a), cut(b))
}

// ---------------------------------------------------------------------------------------------
// programs

type program struct {
	key     string
	family  string
	main    string
	others  map[string]string // further templates (include targets, macro libraries)
	marks   bool              // output has the form A#B#…: A (value of the first filter observed before the second ran) must equal B (observed after)
	noOut   bool              // output may legitimately differ between two renders (clock)
	touches string            // what the program is about (class label)
	big     *bigSpec          // family 6: the context is one big container (big.go) instead of mkContext()
	meth    bool              // family 7: the context holds struct values with pointer-receiver methods (meth.go)
	emb     *embSpec          // family 8: the context holds structs by pointer that embed nil pointers (emb.go)
	cfg     *cfgSpec          // family 9: engine configuration and entry point (cfg.go); nil = twig.New() and Engine.Render
	inc     *incSpec          // family 10: include-option grammar on engines with a security policy (inc.go)
}

var filters = []string{"default", "escape", "e", "upper", "lower", "trim", "raw", "length", "count", "join", "split", "date", "url_encode", "capitalize", "title",
	"first", "last", "slice", "reverse", "sort", "keys", "merge", "replace", "striptags", "number_format", "abs", "round", "nl2br", "format", "json_encode", "spaceless"}

// argument shapes with 0, 1 and 2 arguments: constants, literals and the caller's own values
func argShapes(thorough bool) []string {
	a := []string{"", "(1)", "(0, 2)", "(-1)", "(1, -1)", "(xs)", "(m)", "([9, 8])", "({'q': 1})", "(',')", "(ss)", "(is)", "(mt)", "('a', 'b')", "(st.L)", "(m.a)", "(xs, is)"}
	if thorough {
		a = append(a, "(0)", "(2)", "(-2, 1)", "(0, 0)", "(5)", "(fs)", "(arr)", "(ms.k)", "(nested)", "(pst.L)", "(m.n)", "(mi)", "(st.M)", "(e)", "(s)", "(i)", "(sep)", "(xs, xs)", "(m, mt)", "(ss, 1)", "('b', xs)")
	}
	return a
}

// filters that produce or reorder collections: the interesting first and second members of a pair
func pairFirst(thorough bool) []string {
	a := []string{"sort", "reverse", "slice(0, 2)", "slice(1)", "slice(0, 1)", "merge([9])", "merge(xs)", "merge(m)", "keys", "default(xs)", "raw", "first", "last", "split(',')", "default([])"}
	if thorough {
		a = append(a, "slice(-2)", "slice(1, 1)", "merge(ss)", "merge(is)", "merge({'q': 1})", "merge(mt)", "default(m)", "join(',')", "json_encode", "length", "slice(0, 5)")
	}
	return a
}

func pairSecond(thorough bool) []string {
	a := []string{"sort", "reverse", "merge([7])", "merge([7, 6, 5, 4, 3])", "merge(xs)", "merge({'r': 2})", "slice(0, 1)", "slice(1)", "keys", "join(',')", "first", "last", "length", "default([1])"}
	if thorough {
		a = append(a, "merge(is)", "merge(ss)", "merge(m)", "merge(mt)", "slice(-1)", "sort|reverse", "reverse|merge([1])", "slice(0, 1)|merge([7])", "merge([7])|sort", "json_encode", "upper", "replace('a', 'b')")
	}
	return a
}

// programs streams every program of the tier, simplest families first (nothing is kept: the thorough
// tier has more than a million of them and every worker enumerates all)
func programs(thorough bool, add func(program)) {
	// 1. single filter applications, printed and assigned-then-processed
	for _, v := range valueExprs {
		for _, f := range filters {
			for _, a := range argShapes(thorough) {
				fa := f + a
				add(program{key: "filter/print/" + v + "|" + fa, family: "filter", touches: f, noOut: f == "date",
					main: "{{ " + v + "|" + fa + " }}"})
				add(program{key: "filter/set/" + v + "|" + fa, family: "filter-then", touches: f, noOut: f == "date",
					main: "{% set t = " + v + "|" + fa + " %}{% set u = t|merge([7]) %}{% set w = t|sort %}{% set x = t|reverse %}{% set y = t|merge([7, 6, 5, 4, 3, 2, 1]) %}{{ t|length }}"})
			}
		}
	}
	// 2. ordered pairs: the value of the first filter is observed before and after the second ran
	for _, v := range valueExprs {
		for _, f1 := range pairFirst(thorough) {
			for _, f2 := range pairSecond(thorough) {
				add(program{key: "pair/" + v + "|" + f1 + " then " + f2, family: "pair", touches: strings.SplitN(f1, "(", 2)[0] + ">" + strings.SplitN(f2, "(", 2)[0], marks: true,
					main: "{% set s = " + v + "|" + f1 + " %}{% set o = s|json_encode %}{% set t = s|" + f2 + " %}{{ o }}#{{ s|json_encode }}#{{ t|json_encode }}#{{ " + v + "|json_encode }}"})
			}
		}
	}
	scopePrograms(valueExprs, add)
	collisionPrograms(ctxKeys, valueExprs, add)
	bigPrograms(thorough, add)
	methPrograms(thorough, add)
	embPrograms(thorough, add)
	cfgPrograms(thorough, add)
	incPrograms(thorough, add)
	chainPrograms(thorough, add)
}

// 3. names that collide with the caller's keys: set, loop variables, include, macro parameters, functions
func scopePrograms(vs []string, add func(program)) {
	inc := map[string]string{
		"inc":  "{% set xs = 0 %}{% set m = 1 %}{% set q = 2 %}{% set st = 3 %}{{ q|sort }}{{ xs }}",
		"inc2": "{% for x in xs %}{% set x = 1 %}{% endfor %}{% set xs = xs|merge([1]) %}{{ xs|sort|join(',') }}",
		"lib":  "{% macro mm(p) %}{% set p = p|merge([1]) %}{{ p|sort|join(',') }}{% set xs = 1 %}{% endmacro %}{% macro ww(xs, m) %}{% set xs = 2 %}{% set m = 3 %}{{ xs }}{% endmacro %}",
	}
	for _, v := range vs {
		root := strings.FieldsFunc(v, func(r rune) bool { return r == '.' || r == '[' })[0]
		for i, src := range []string{
			"{% set " + root + " = 5 %}{{ " + root + " }}",
			"{% set " + root + " = " + v + "|sort %}{% set " + root + " = 1 %}",
			"{% set t = " + v + " %}{% set t = t|merge([1]) %}{% set t = t|sort %}{% set t = t|reverse %}{{ t|join(',') }}",
			"{% for k, x in " + v + " %}{% set x = 1 %}{% set k = 2 %}{% set " + root + " = 3 %}{% endfor %}{{ " + root + "|length }}",
			"{% for " + root + " in " + v + " %}{{ " + root + "|length }}{% endfor %}{{ " + v + "|length }}",
			"{% for x in " + v + " %}{% for y in " + v + "|sort %}{% set z = " + v + "|reverse %}{% endfor %}{% endfor %}",
			"{% for x in " + v + "|sort %}{{ x }}{% endfor %}{% for x in " + v + "|reverse %}{{ x }}{% endfor %}{% for x in " + v + "|slice(0, 1)|merge([7]) %}{{ x }}{% endfor %}",
			"{{ merge(" + v + ", [1]) }}{{ merge(" + v + ", " + v + ") }}{{ merge(" + v + ", m) }}",
			"{{ max(" + v + ") }}{{ min(" + v + ") }}",
			"{{ cycle(" + v + ", 1) }}{{ cycle(" + v + ", 4) }}",
			"{{ length(" + v + ") }}{{ json_encode(" + v + ") }}",
			"{% include 'inc' %}{{ " + v + "|length }}",
			"{% include 'inc' with {'q': " + v + "} %}",
			"{% include 'inc' with {'q': " + v + ", 'xs': " + v + "} only %}",
			"{% include 'inc2' with {'xs': " + v + "} %}",
			"{% include 'inc2' with {'xs': " + v + "} only %}",
			"{% include 'inc2' %}",
			"{% macro mm(p) %}{% set p = 1 %}{{ p|sort }}{% endmacro %}{{ mm(" + v + ") }}",
			"{% macro mm(p) %}{% set q = p|merge([1]) %}{% set r = p|sort %}{% set t = p|reverse %}{{ q|length }}{% endmacro %}{{ mm(" + v + ") }}{{ _self.mm(" + v + ") }}",
			"{% import 'lib' as l %}{{ l.mm(" + v + ") }}{{ l.ww(" + v + ", m) }}",
			"{% from 'lib' import mm, ww %}{{ mm(" + v + ") }}{{ ww(" + v + ", " + v + ") }}",
			"{% apply upper %}{{ " + v + "|sort|join(',') }}{% endapply %}",
			"{% set t = " + v + " is iterable ? " + v + "|sort : " + v + " %}{% set u = " + v + "|default([])|merge([1]) %}",
			"{% if " + v + "|sort == " + v + "|reverse %}a{% endif %}{% if 1 in " + v + " %}b{% endif %}{% if " + v + " is empty %}c{% endif %}",
			"{{ " + v + "|sort|first }}{{ " + v + "|reverse|last }}{{ (" + v + "|slice(0, 2))|merge(" + v + "|slice(1))|length }}",
			"{% set a = " + v + "|slice(0, 1) %}{% set b = a|merge([7]) %}{% set c = a|merge([8, 9]) %}{{ b|join(',') }}{{ c|join(',') }}{{ " + v + "|join(',') }}",
			"{% set h = {'k': " + v + "} %}{% set h2 = h|merge({'k2': 1}) %}{% set l = [" + v + ", " + v + "] %}{% set l2 = l|reverse %}{{ h.k|sort|length }}{{ l[0]|reverse|length }}",
			"{% do " + v + "|sort %}{{ " + v + "|length }}",
		} {
			add(program{key: fmt.Sprintf("scope/%d/%s", i, v), family: "scope", touches: "scope" + strconv.Itoa(i), main: src, others: inc})
		}
	}
}

// 4. a template-side NAME that collides with a caller's key: import alias, from-import alias, set, loop
// variables, macro name, macro parameter, block name, include-with key — for every top-level key K of the
// context; and a template-side name q that the template itself bound to a caller's value V (set, loop
// variable over [V] and over V, include-with, macro parameter) and that is then bound again by each of
// those constructs. Whatever the construct does with the name, it must not write through to the value the
// name was bound to.
var ctxKeys = []string{"xs", "ss", "is", "fs", "i64", "ids", "names", "lmt", "attrs", "arr", "parr", "m", "mt", "ms", "mi", "st", "pst", "pxs", "s", "i", "nested", "lm", "e", "sep"}

const clib = "{% macro mm(p) %}{{ p }}{% endmacro %}{% macro ww(a, b) %}{{ a }}{{ b }}{% endmacro %}"

func collisionPrograms(keys, vs []string, add func(program)) {
	for _, k := range keys {
		others := map[string]string{
			"clib":  clib,
			"klib":  "{% macro " + k + "(p) %}{% if p is iterable %}i{% endif %}x{% endmacro %}",
			"kimp":  "{% import 'clib' as " + k + " %}{{ " + k + ".mm(1) }}",
			"kfrom": "{% from 'clib' import mm as " + k + " %}{{ " + k + "(1) }}",
			"kset":  "{% set " + k + " = [1] %}{% set " + k + " = " + k + "|merge([2]) %}{% if " + k + " is iterable %}i{% endif %}",
			"krd":   "{% if " + k + " is iterable %}i{% endif %}",
			"kbase": "{% block " + k + " %}{% endblock %}{% if " + k + " is iterable %}i{% endif %}",
		}
		for i, src := range []string{
			"{% import 'clib' as K %}{{ K.mm(1) }}",
			"{% if K is iterable %}i{% endif %}{% import 'clib' as K %}{{ K.mm(1) }}{{ K.ww(1, 2) }}{% if K is iterable %}i{% endif %}",
			"{% for x in [1, 2] %}{% import 'clib' as K %}{{ K.mm(x) }}{% endfor %}{% if K is iterable %}i{% endif %}",
			"{% include 'kimp' %}{% include 'kimp' %}{% if K is iterable %}i{% endif %}",
			"{% include 'kimp' with {'K': K} %}{% include 'kimp' with {'K': K} only %}",
			"{% import 'clib' as K %}{% import 'clib' as K %}{{ K.ww(1, 2) }}",
			"{% from 'clib' import mm as K %}{{ K(1) }}",
			"{% from 'clib' import mm as K, ww as K %}{{ K(1, 2) }}",
			"{% include 'kfrom' %}{% include 'kfrom' with {'K': K} %}{% include 'kfrom' with {'K': K} only %}",
			"{% from 'klib' import K %}{{ K(1) }}",
			"{% import 'klib' as l %}{{ l.K(K) }}",
			"{% set K = [1] %}{% set K = K|merge([2]) %}{% if K is iterable %}i{% endif %}",
			"{% for K in [1, 2] %}{{ K }}{% endfor %}{% if K is iterable %}i{% endif %}",
			"{% for K, x in {'a': 1} %}{{ K }}{% endfor %}{% for j, K in [5] %}{{ K }}{% endfor %}{% if K is iterable %}i{% endif %}",
			"{% for K in K %}{% set K = 1 %}{% endfor %}{% if K is iterable %}i{% endif %}",
			"{% macro K(p) %}{{ p }}{% endmacro %}{{ K(1) }}{{ _self.K(2) }}{% if K is iterable %}i{% endif %}",
			"{% macro mm(K) %}{% set K = 1 %}{{ K }}{% endmacro %}{{ mm(K) }}{{ mm(2) }}{% if K is iterable %}i{% endif %}",
			"{% macro mm(K) %}{% import 'clib' as K %}{{ K.mm(1) }}{% endmacro %}{{ mm(K) }}{{ _self.mm(K) }}",
			"{% macro mm(K) %}{% from 'clib' import mm as K %}{{ K(1) }}{% endmacro %}{{ mm(K) }}{{ _self.mm(K) }}",
			"{% block K %}{% if K is iterable %}i{% endif %}{% endblock %}{% if K is iterable %}i{% endif %}",
			"{% block K %}{% set K = 1 %}{% import 'clib' as K %}{% endblock %}{% if K is iterable %}i{% endif %}",
			"{% include 'krd' with {'K': 1} %}{% if K is iterable %}i{% endif %}",
			"{% include 'kset' with {'K': K} %}{% if K is iterable %}i{% endif %}",
			"{% include 'kset' with {'K': K} only %}{% include 'kset' %}{% if K is iterable %}i{% endif %}",
			"{% extends 'kbase' %}{% block K %}{% set K = 1 %}{% import 'clib' as K %}{{ K.mm(1) }}{% endblock %}",
			"{% apply upper %}{% import 'clib' as K %}{{ K.mm('a') }}{% set K = 1 %}{% endapply %}{% if K is iterable %}i{% endif %}",
			"{% if true %}{% import 'clib' as K %}{% endif %}{% if K %}{% set K = 0 %}{% endif %}{% if K is iterable %}i{% endif %}",
		} {
			add(program{key: fmt.Sprintf("collide/%d/%s", i, k), family: "collide", touches: "collide" + strconv.Itoa(i),
				main: strings.ReplaceAll(src, "K", k), others: others})
		}
	}
	rebind := []string{
		"{% import 'clib' as q %}{{ q.mm(1) }}",
		"{% from 'clib' import mm as q %}{{ q(1) }}",
		"{% set q = 1 %}{{ q }}",
		"{% for q in [1] %}{{ q }}{% endfor %}",
		"{% import 'clib' as q %}{% import 'clib' as q %}{{ q.ww(1, 2) }}",
		"{% for x in [1, 2] %}{% import 'clib' as q %}{{ q.mm(x) }}{% endfor %}",
	}
	for _, v := range vs {
		for ri, r := range rebind {
			others := map[string]string{"clib": clib, "reb": r}
			for bi, src := range []string{
				"{% set q = " + v + " %}" + r + "{% if " + v + " is iterable %}i{% endif %}",
				"{% for q in [" + v + "] %}" + r + "{% endfor %}{% if " + v + " is iterable %}i{% endif %}",
				"{% for q in " + v + " %}" + r + "{% endfor %}{% if " + v + " is iterable %}i{% endif %}",
				"{% include 'reb' with {'q': " + v + "} %}{% include 'reb' with {'q': " + v + "} only %}{% if " + v + " is iterable %}i{% endif %}",
				"{% macro w(q) %}" + r + "{% endmacro %}{{ w(" + v + ") }}{{ _self.w(" + v + ") }}{% if " + v + " is iterable %}i{% endif %}",
			} {
				add(program{key: fmt.Sprintf("bound/%d/%d/%s", bi, ri, v), family: "bound", touches: fmt.Sprintf("bound%d.%d", bi, ri), main: src, others: others})
			}
		}
	}
}

// 5. filter CHAINS written as one expression, V|F1|F2 and V|F1|F2|F3: the value one filter hands to the next
// may be the caller's own (default on a non-empty value, raw, slice window, first/last of a list of lists),
// so no later member of the chain may work in place. Positions: printed, assigned, macro/function argument,
// for-sequence, and "held" (the chain is applied to a value obtained from a filter earlier, which is
// observed before and after).
func chainAll(thorough bool) []string {
	a := []string{"default(xs)", "escape", "e", "upper", "lower", "trim", "raw", "length", "count", "join(',')", "split(',')", "date", "url_encode", "capitalize", "title",
		"first", "last", "slice(0, 2)", "reverse", "sort", "keys", "merge([9])", "replace('a', 'b')", "striptags", "number_format", "abs", "round", "nl2br", "format", "json_encode", "spaceless",
		"default([])", "slice(1)", "slice(0, 1)", "merge(xs)", "merge(m)", "merge([7, 6, 5, 4, 3])", "default(m)"}
	if thorough {
		a = append(a, "slice(-2)", "slice(1, 1)", "slice(0, 5)", "merge(ss)", "merge(is)", "merge({'q': 1})", "merge(mt)", "default(1)", "join", "split('')", "round(1)", "format(1)")
	}
	return a
}

// the mutating / pass-through subset: default, raw, slice, first, last, sort, reverse, merge, keys, join
func chainCol() []string {
	return []string{"default(xs)", "default([])", "raw", "slice(0, 2)", "slice(1)", "first", "last", "sort", "reverse", "merge([9])", "merge(xs)", "merge(m)", "keys", "join(',')"}
}

func chainTri(thorough bool) []string {
	if thorough {
		return chainCol()
	}
	return []string{"default(xs)", "raw", "slice(0, 2)", "first", "last", "sort", "reverse", "merge([9])", "keys", "join(',')"}
}

var chainPositions = []string{"print", "set", "arg", "for", "held"}

func chainProgram(pos, v string, fs []string) program {
	c := v + "|" + strings.Join(fs, "|")
	last := strings.SplitN(fs[len(fs)-1], "(", 2)[0]
	p := program{key: "chain/" + pos + "/" + c, family: "chain" + strconv.Itoa(len(fs)), touches: pos + ">" + last}
	for _, f := range fs {
		if f == "date" {
			p.noOut = true
		}
	}
	switch pos {
	case "print":
		p.main = "{{ " + c + " }}"
	case "set":
		p.main = "{% set t = " + c + " %}{{ t|json_encode }}{{ " + v + "|json_encode }}"
	case "arg":
		p.main = "{% macro mm(p) %}{{ p|json_encode }}{% endmacro %}{{ mm(" + c + ") }}{{ length(" + c + ") }}{{ " + v + "|json_encode }}"
	case "for":
		p.main = "{% for x in " + c + " %}{{ x|json_encode }},{% endfor %}{{ " + v + "|json_encode }}"
	case "held":
		p.marks = true
		p.main = "{% set s = " + v + "|" + fs[0] + " %}{% set o = s|json_encode %}{% set t = s|" + strings.Join(fs[1:], "|") + " %}{{ o }}#{{ s|json_encode }}#{{ t|json_encode }}#{{ " + v + "|json_encode }}"
	}
	return p
}

func chainPrograms(thorough bool, add func(program)) {
	all, col, tri := chainAll(thorough), chainCol(), chainTri(thorough)
	// pairs: every ordered pair of the whole filter alphabet, printed (thorough: in every position) …
	for _, pos := range chainPositions {
		if pos == "held" { // a held value and a single further filter is family 2
			continue
		}
		set := all
		if pos != "print" && !thorough {
			set = col // … and every ordered pair of the collection subset in the other positions
		}
		for _, v := range valueExprs {
			for _, f1 := range set {
				for _, f2 := range set {
					add(chainProgram(pos, v, []string{f1, f2}))
				}
			}
		}
	}
	// triples of the collection subset in every position
	for _, pos := range chainPositions {
		for _, v := range valueExprs {
			for _, f1 := range tri {
				for _, f2 := range tri {
					for _, f3 := range tri {
						add(chainProgram(pos, v, []string{f1, f2, f3}))
					}
				}
			}
		}
	}
}

// ---------------------------------------------------------------------------------------------

// pristine is the snapshot of a freshly built context. mkContext is deterministic, so it is taken once per
// worker (from two separately built contexts, which must agree) instead of once per case.
var pristineSnap string

func pristine() string {
	if pristineSnap == "" {
		a, b := snapshot(mkContext()), snapshot(mkContext())
		if a != b {
			panic("harness: two freshly built contexts differ: " + firstDiff(a, b))
		}
		pristineSnap = a
	}
	return pristineSnap
}

func runProgram(p program) *vlib.Outcome {
	if p.inc != nil {
		return runIncProgram(p)
	}
	o := &vlib.Outcome{Counters: map[string]int64{"renders": 2, "programs_" + p.family: 1}}
	var render func(ctx map[string]interface{}) (string, error)
	if p.cfg != nil {
		r, cleanup, parseErr, harnessErr := cfgRenderer(p)
		defer cleanup()
		if harnessErr != nil {
			o.Violation = "harness: " + harnessErr.Error()
			return o
		}
		if parseErr != nil {
			o.Class = p.family + "/parse-error"
			o.Counters["not_a_program_"+p.family] = 1
			return o
		}
		render = r
	} else {
		e := twig.New()
		for n, src := range p.others {
			if err := e.RegisterString(n, src); err != nil {
				o.Violation = "helper template does not parse: " + err.Error()
				return o
			}
		}
		if err := e.RegisterString("t", p.main); err != nil {
			o.Class = p.family + "/parse-error"
			o.Counters["not_a_program_"+p.family] = 1
			return o // not a program of the language: nothing rendered, nothing to check
		}
		render = func(ctx map[string]interface{}) (string, error) { return e.Render("t", ctx) }
	}
	var ctx map[string]interface{}
	var before string
	if p.big != nil {
		ctx, before = mkBigContext(*p.big), pristineBig(*p.big)
	} else if p.meth {
		ctx, before = mkMethContext(), pristineMeth()
	} else if p.emb != nil {
		ctx, before = mkEmbContext(), pristineEmb()
	} else {
		ctx, before = mkContext(), pristine()
	}
	ptrCalls, valCalls = 0, 0
	out1, err1 := render(ctx)
	ptr1, val1 := ptrCalls, valCalls
	after1 := snapshot(ctx)
	out2, err2 := render(ctx)
	after2 := snapshot(ctx)
	res := "ok"
	if err1 != nil {
		res = "error"
	}
	o.Nontrivial = err1 == nil
	o.Class = p.family + "/" + p.touches + "/" + res
	if p.meth { // non-trivial: the engine really called a method of the caller's type
		o.Nontrivial = err1 == nil && ptr1+val1 > 0
		o.Counters["method_calls_pointer_receiver"], o.Counters["method_calls_value_receiver"] = int64(ptr1), int64(val1)
		switch {
		case ptr1 > 0:
			o.Class += "/ptr-method"
			o.Counters["programs_meth_calling_pointer_method"] = 1
		case val1 > 0:
			o.Class += "/value-method"
		default:
			o.Class += "/no-method"
		}
	}
	if p.emb != nil { // non-trivial: the field the program reads lies behind an embedded pointer that is nil
		behind := embBehindNil(*p.emb)
		o.Nontrivial = err1 == nil && behind
		if behind {
			o.Class += "/behind-nil"
			o.Counters["programs_reading_a_field_behind_a_nil_embedded_pointer"] = 1
		} else {
			o.Class += "/present"
		}
	}
	detail := map[string]interface{}{"template": p.main, "others": p.others}
	if p.cfg != nil {
		detail["engine"], detail["entry"] = p.cfg.config, p.cfg.entry
	}
	o.Detail = detail
	tq := strconv.Quote(p.main)
	if p.cfg != nil {
		tq += " (engine configuration " + p.cfg.config + ", rendered through " + p.cfg.entry + ")"
	}
	if after1 != before {
		o.Violation = fmt.Sprintf("template %s modified the caller's data: %s", tq, firstDiff(before, after1))
		return o
	}
	if after2 != before {
		o.Violation = fmt.Sprintf("the second render of template %s modified the caller's data: %s", tq, firstDiff(before, after2))
		return o
	}
	if (err1 == nil) != (err2 == nil) {
		o.Violation = fmt.Sprintf("template %s: two renders with the same data disagree: first error %v, second error %v", tq, err1, err2)
		return o
	}
	if err1 == nil && !p.noOut && out1 != out2 {
		o.Violation = fmt.Sprintf("template %s: two renders with the same data give %q and %q", tq, out1, out2)
		return o
	}
	if p.cfg != nil { // the caller's map must not have been kept by the engine: an unrelated render later on must not show in it
		if err := foreignRender(); err != nil {
			o.Violation = "harness: the unrelated render failed: " + err.Error()
			return o
		}
		o.Counters["renders"] += 3
		if after3 := snapshot(ctx); after3 != before {
			o.Violation = fmt.Sprintf("after template %s was rendered, an unrelated render on another engine modified the caller's data: %s", tq, firstDiff(before, after3))
			return o
		}
	}
	if p.marks && err1 == nil {
		parts := strings.Split(out1, "#")
		if len(parts) >= 2 && parts[0] != parts[1] {
			o.Violation = fmt.Sprintf("template %s: the value obtained from the first filter was changed by the second: %s before, %s after", tq, parts[0], parts[1])
			return o
		}
	}
	return o
}

func main() {
	vlib.Main(vlib.Spec{
		ID:    "C18",
		Level: "exploration",
		Rule: "every program of ten families — (1) each of the 31 built-in filters x 17 (thorough 38) argument shapes x 41 value expressions, printed and assigned-then-merged/sorted/reversed; " +
			"(2) every ordered pair of 15 x 14 (thorough 26 x 26) collection filters on each value expression, the intermediate value observed before and after the second filter; " +
			"(3) 28 scope programs per value expression (set / loop variable / include with, only / macro parameter / import named like a caller's key, functions merge, max, min, cycle, slice window then merge); " +
			"(4) name collisions: 27 programs per top-level key K of the context in which K is an import alias, from-import alias, imported macro name, set target, loop key/value variable, macro name, macro parameter, block name (also through extends) or include-with key, " +
			"and 5 bindings (set, loop over [V], loop over V, include with, macro parameter) x 6 re-bindings (import as, from-import as, set, for, import twice, import in a loop) of a template name bound to each value expression V; " +
			"(5) filter chains in one expression: every ordered pair of 38 (thorough 50) filter instances covering all 31 filters, printed (thorough: also assigned, as macro/function argument, as for-sequence), every ordered pair of the 14 collection instances in those other positions, " +
			"and every ordered triple of 10 (thorough 14) collection instances (default, raw, slice, first, last, sort, reverse, merge, keys, join) in the positions print, set, argument, for-sequence and held (applied to a value obtained from a filter earlier, observed before and after); " +
			"(6) BIG containers that are only read: 35 value expressions over 20 containers ([]string, []int, []float64, []int64, untyped lists of strings / ints / mixed, named slices, array, pointer to slice, four map types, nested map, struct, pointer to struct, list of maps, list of lists) of 51, 64 and 200 elements (thorough: also 50, 52, 65, 100, 300, and 51 / 200 in ascending and descending order), unsorted with duplicates and spare capacity, " +
			"x (16 probes x in / not in x 4 positions; 3 probes x in / not in on the result of 11 filters, inline and held; 48 read programs: first, last, length, join, keys, for, index, comparisons, max, min, cycle, tests, slices, include, macro; all 38 (50) filter instances printed and held-then-tested; every ordered pair of 10 (14) collection filters printed, thorough also held); " +
			"(7) struct VALUES with pointer-receiver methods that count, append and flag (Touch, Add, Mark, Sub.Inc, Order.Visit): 20 container expressions ([]Line, named slice, array, pointer to array / slice, map[string]Line, map[int]Line, untyped list and map, and those as fields of a struct value, of a pointed-to struct and of a map element) " +
			"x 31 (thorough 110) access patterns (for value / key-value / twice / nested / with set / else / apply, index 0, 1, 'k', attribute, first, last, cycle, held in set / list / hash literal, macro and imported macro parameter, include with (only), element passed to macro / include, through 8 (17) filters, thorough through every pair of 8) " +
			"x 10 bodies (each of Touch, Add, Mark, value-receiver Bump, Label, field Name; filters on lists a method returns; nested loop over Subs; method results in conditions and as filter / function arguments; in for and index 0 (thorough: everywhere) also all 36 ordered pairs of the six), " +
			"11 single struct-value expressions (in the context, field of a struct value / of a pointed-to struct, map element) x 9 patterns x 46 bodies, 4 containers of Order values x 7 programs x 10 bodies, 7 programs on Order values and plain reads, and the caller's own pointers (*Line, []*Line) with value-receiver methods and fields only; " +
			"(8) structs passed BY POINTER that embed a NIL pointer to an exported struct: Customer{Name; *Addr; *Audit}, Account{ID; Contact{Phone; *Geo}; *Audit} (embedded pointer inside an embedded value), Deep{Label; *Customer} (two levels), each with every combination of set / unset parts — 33 expressions of one struct (context entry, untyped / typed map element, field of a pointed-to struct and of a struct value, explicit embedded name, pointer to pointer, and struct VALUES as controls) x 4 (thorough 9) patterns (direct, set, macro / _self, include with (only); list, hash, loop, default / raw, imported macro) " +
			"and 10 containers ([]*T with spare capacity, map[string]*T, untyped lists, []T and *[]T controls) x 4 (thorough 10) patterns (for, key-value for, index 0, first / last; index by key, twice, through reverse / slice / default / merge, macro, include, element to macro / include) x 9 fields per type (own, promoted through a value, through one and through two pointers, the embedded parts themselves, a missing one) x 13 bodies (print, if, is defined, default, for … else, set, null / empty / iterable tests, ~ == length not and, twice, json_encode of the struct and the field, list / hash literal / filter / function argument, sub-attribute, include with); " +
			"(9) ENGINE CONFIGURATION x ENTRY POINT: a subset of families 1, 3, 4, 7, 8 (quick 1 048 programs: 24 values x 14 collection filters printed-assigned-merged-sorted-reversed, the 28 scope programs on 6 values, the 27 collision programs on 2 keys, 5 x 6 bindings on 2 values, 250 method programs, 180 embedded-pointer programs; thorough 7 010) on engines set up as plain, SetDebug(true), SetDevelopmentMode(true), SetCache(false) with a loader, SetAutoReload(true) with template files, EnableSandbox(allow-all policy) with the program inside `include … sandboxed`, and all of these together with strict variables " +
			"(thorough: also debug at the verbose level, the default sandbox policy, strict variables alone, debug + cache off, development mode from files, a cached array loader), rendered through Engine.Render, Engine.RenderTo and Template.Render of the loaded template (thorough: also Template.RenderTo and a template from Engine.ParseTemplate); there the caller's data is compared a third time after an unrelated render on another engine — " +
			"(10) INCLUDE-OPTION grammar on engines with a security policy: `include T` x 19 with-clauses (none, 2 hash literals, 9 context variables / paths holding maps incl. a typed one, 3 non-hashes, 2 filtered hashes, old-style pairs) x {nothing, only, sandboxed, only sandboxed, sandboxed only} x {nothing, ignore missing before / after the with clause} " +
			"x {3 included bodies (reading, re-setting, merging the passed names), missing target} x {allow-all policy, default policy, no policy} = 3 420 programs on a context holding the hashes `opts`, `topts` and many variables that are not keys of them; forms the parser rejects are rendered all the same (a failing render must leave the data alone), and a probe render with another top-level map sharing the hashes is compared with the same on fresh data — " +
			"rendered twice on a fresh engine with a fresh context of slices with sentinel-filled spare capacity, arrays, typed/untyped maps, structs, pointers nested two deep; " +
			"non-trivial = the program renders without error (the filters really ran on the data); in family 7: and the engine called at least one method of the caller's types; in family 8: and the field read lies behind an embedded pointer that is nil (decided on the Go values by reflection)",
		Assumptions: []string{
			"the snapshot covers everything reachable from the context by reflection, including the spare capacity of every slice and unexported struct fields; identity of backing arrays (aliasing that is never written) is not observed",
			"family 7 calls pointer-receiver methods only where the caller stored struct VALUES (elements, fields, map values, the context entry itself): there the engine has to work on a copy; a pointer-receiver method is never called on a receiver the caller stored as a pointer (*T, []*T), which may of course modify it",
			"the methods of family 7 change only what a shallow copy of the struct protects (scalar fields, a slice field with len == cap that is appended to); a method that writes through a slice or map field would reach the caller's data from any copy and says nothing about the engine",
			"family 8 reads fields only; no method is promoted through the nil embedded pointers (what calling one would do is the method's business)",
			"family 9: the debug log goes to io.Discard; the sandbox only acts inside `include … sandboxed`, so the program is wrapped in one; file-based templates live in a scratch directory per case; the global debug level is reset after every case",
			"the clause about concurrent renders follows from this property (shared data is only read) together with C02; it is not explored here",
			"output of the date filter is not compared between the two renders (clock)",
		},
		QuickDeadline:    150,
		ThoroughDeadline: 1200,
		Run: func(t *vlib.T) {
			programs(t.Thorough(), func(p program) {
				t.Case(p.key, func() *vlib.Outcome { return runProgram(p) })
			})
		},
	})
}
