// C18, family 6 — BIG containers that a program only READS.
//
// twig switches algorithm on the size of a container (the `in` operator builds a lookup table for more
// than 50 elements, sorting switches strategy with the length, buffers are sized by capacity classes of
// 64 / 256 / 1024). The contexts of the other families hold two or three elements, so a shortcut that only
// large containers take is never entered there. Here every container has 51, 64 or 200 elements (thorough:
// also 50, 52, 65, 100, 300, and ascending / descending order besides the permuted one), unsorted, with
// duplicates and with sentinel-filled spare capacity; the programs test membership, read, iterate, compare
// and run every filter on them. The oracle is the one of the other families.
package main

import (
	"fmt"
	"reflect"
	"sort"
	"strconv"
	"strings"
)

type BigS struct {
	Tags []string
	IDs  []int
	M    map[string]int
	u    []string // unexported
}

type bigSpec struct {
	n     int
	order int    // 0 permuted (with duplicates), 1 ascending, 2 descending
	root  string // the one big container of this context
}

func (s bigSpec) tag() string { return strconv.Itoa(s.n) + "pad"[s.order:s.order+1] }

// bigSeq is the sequence of element values: i -> (37 i + 11) mod (n - 3) takes every value of 0..n-4 once and
// the first three values twice, in an order that is neither ascending nor descending
func bigSeq(n, order int) []int {
	vals := make([]int, n)
	for i := range vals {
		vals[i] = (i*37 + 11) % (n - 3)
	}
	switch order {
	case 1:
		sort.Ints(vals)
	case 2:
		sort.Sort(sort.Reverse(sort.IntSlice(vals)))
	}
	return vals
}

func bigStr(v int) string { return fmt.Sprintf("t%03d", v) }

func bigStrings(vals []int) []string {
	out := make([]string, len(vals))
	for i, v := range vals {
		out[i] = bigStr(v)
	}
	return spareStrings(out, 5)
}

func bigAnyStrings(vals []int) []interface{} {
	out := make([]interface{}, len(vals))
	for i, v := range vals {
		out[i] = bigStr(v)
	}
	return spareAny(out, 5)
}

func bigAnyInts(vals []int) []interface{} {
	out := make([]interface{}, len(vals))
	for i, v := range vals {
		out[i] = v
	}
	return spareAny(out, 5)
}

func bigInts(vals []int) []int { return spareInts(append([]int(nil), vals...), 5) }

// bigRoots: name of the container -> how it is built. Each context holds exactly one of them (the snapshot
// stays small) next to the probes and two comparison lists.
var bigRoots = []string{"bs", "bi", "bf", "b64", "bx", "by", "bz", "bn", "bd", "ba", "pbs", "bm", "bmt", "bmss", "bmi", "user", "bst", "pbst", "blm", "bll"}

func bigBuild(root string, n, order int) interface{} {
	vals := bigSeq(n, order)
	switch root {
	case "bs":
		return bigStrings(vals)
	case "bi":
		return bigInts(vals)
	case "bf":
		out := make([]float64, n)
		for i, v := range vals {
			out[i] = float64(v) + 0.5
		}
		return spareFloats(out, 5)
	case "b64":
		full := make([]int64, n+5)
		for i := range full {
			if i < n {
				full[i] = int64(vals[i])
			} else {
				full[i] = int64(-1000 - i)
			}
		}
		return full[:n]
	case "bx":
		return bigAnyStrings(vals)
	case "by":
		return bigAnyInts(vals)
	case "bz": // mixed: ints, strings, floats
		out := make([]interface{}, n)
		for i, v := range vals {
			switch i % 3 {
			case 0:
				out[i] = v
			case 1:
				out[i] = bigStr(v)
			default:
				out[i] = float64(v) + 0.5
			}
		}
		return spareAny(out, 5)
	case "bn":
		return Names(bigStrings(vals))
	case "bd":
		return IDs(bigInts(vals))
	case "ba": // an array [n]string (held by value in the context)
		a := reflect.New(reflect.ArrayOf(n, reflect.TypeOf(""))).Elem()
		for i, v := range vals {
			a.Index(i).SetString(bigStr(v))
		}
		return a.Interface()
	case "pbs":
		s := bigStrings(vals)
		return &s
	case "bm": // n entries; every 17th value is a list with spare capacity
		m := make(map[string]interface{}, n)
		for i, v := range vals {
			if i%17 == 5 {
				m[bigStr(i)] = spareAny([]interface{}{2, 1}, 2)
			} else {
				m[bigStr(i)] = v
			}
		}
		return m
	case "bmt":
		m := make(map[string]int, n)
		for i, v := range vals {
			m[bigStr(i)] = v
		}
		return m
	case "bmss":
		m := make(map[string]string, n)
		for i, v := range vals {
			m[bigStr(i)] = bigStr(v)
		}
		return m
	case "bmi":
		m := make(map[int]string, n)
		for i, v := range vals {
			m[i] = bigStr(v)
		}
		return m
	case "user":
		return map[string]interface{}{"name": "u", "tags": bigStrings(vals), "ids": bigInts(vals),
			"prefs": map[string]interface{}{"sizes": bigInts(vals), "names": bigAnyStrings(vals)}}
	case "bst", "pbst":
		m := make(map[string]int, n)
		for i, v := range vals {
			m[bigStr(i)] = v
		}
		st := BigS{Tags: bigStrings(vals), IDs: bigInts(vals), M: m, u: bigStrings(vals)}
		if root == "pbst" {
			return &st
		}
		return st
	case "blm": // n small maps
		full := make([]map[string]interface{}, n+2)
		for i := range full {
			if i < n {
				full[i] = map[string]interface{}{"id": vals[i], "tag": bigStr(vals[i])}
			} else {
				full[i] = map[string]interface{}{"id": "SENTINEL"}
			}
		}
		return full[:n]
	case "bll": // a short list of big lists
		return spareAny([]interface{}{bigAnyStrings(vals), bigStrings(vals), bigInts(vals)}, 1)
	}
	panic("harness: unknown big root " + root)
}

// value expressions per root
var bigExprs = map[string][]string{
	"user": {"user", "user.tags", "user.ids", "user.prefs", "user.prefs.sizes", "user.prefs.names"},
	"bst":  {"bst", "bst.Tags", "bst.IDs", "bst.M"},
	"pbst": {"pbst", "pbst.Tags", "pbst.IDs", "pbst.M"},
	"bll":  {"bll", "bll[0]", "bll[1]", "bll[2]"},
	"blm":  {"blm", "blm[3]"},
}

func mkBigContext(s bigSpec) map[string]interface{} {
	vals := bigSeq(s.n, s.order)
	return map[string]interface{}{
		s.root: bigBuild(s.root, s.n, s.order),
		"ps":   bigStr(14), "pi": 14, "pf": 14.5, "pa": "nope", "sep": ",",
		"os": bigStrings(vals), "ox": bigAnyStrings(vals), // equal in content to bs / bx, separately allocated
	}
}

var bigPristine = map[bigSpec]string{}

func pristineBig(s bigSpec) string {
	p, ok := bigPristine[s]
	if !ok {
		a, b := snapshot(mkBigContext(s)), snapshot(mkBigContext(s))
		if a != b {
			panic("harness: two freshly built big contexts differ: " + firstDiff(a, b))
		}
		bigPristine[s], p = a, a
	}
	return p
}

// sizes and orders of a tier
func bigSpecs(thorough bool) [][2]int {
	a := [][2]int{{51, 0}, {64, 0}, {200, 0}}
	if thorough {
		a = append(a, [2]int{50, 0}, [2]int{52, 0}, [2]int{65, 0}, [2]int{100, 0}, [2]int{300, 0}, [2]int{51, 1}, [2]int{51, 2}, [2]int{200, 1}, [2]int{200, 2})
	}
	return a
}

var bigProbes = []string{"'t014'", "'nope'", "14", "'14'", "14.0", "14.5", "999", "ps", "pi", "pf", "pa", "null", "[1]", "V|first", "V|last", "V[3]"}

// filters whose result may be the caller's own container (or a window of it), then tested for membership
var bigThrough = []string{"default([])", "raw", "slice(0, 60)", "slice(1)", "slice(0, 51)", "keys", "sort", "reverse", "merge([1])", "first", "last"}

func bigPrograms(thorough bool, add func(program)) {
	rd := map[string]string{"rd": "{% if ps in q %}y{% else %}n{% endif %}{% if pi not in q %}y{% else %}n{% endif %}{{ q|first }}|{{ q|last }}|{{ q|length }}"}
	for _, so := range bigSpecs(thorough) {
		n := so[0]
		for _, root := range bigRoots {
			spec := &bigSpec{n: n, order: so[1], root: root}
			exprs := bigExprs[root]
			if exprs == nil {
				exprs = []string{root}
			}
			pre := "big/" + spec.tag() + "/"
			mk := func(key, touches, src string) program {
				return program{key: pre + key, family: "big", touches: touches, main: src, others: rd, big: spec}
			}
			for _, v := range exprs {
				// (a) membership: P in V, P not in V — in a condition, as a value, assigned and followed by reads, evaluated once per iteration
				for _, p0 := range bigProbes {
					p := strings.ReplaceAll(p0, "V", v)
					for _, op := range []string{"in", "not in"} {
						t := p + " " + op + " " + v
						add(mk("member/if/"+t, "member-if", "{% if "+t+" %}y{% else %}n{% endif %}"))
						add(mk("member/expr/"+t, "member-expr", "{{ ("+t+") ? 'y' : 'n' }}"))
						add(mk("member/set/"+t, "member-set", "{% set r = "+t+" %}{{ r ? 1 : 0 }}|{{ "+v+"|first }}|{{ "+v+"|last }}|{{ "+v+"|length }}"))
						add(mk("member/loop/"+t, "member-loop", "{% for j in [1, 2, 3] %}{% if "+t+" %}y{% else %}n{% endif %}{% endfor %}"))
					}
				}
				// (b) membership in what a filter made of V (possibly V itself, or a window of it): inline and held
				for _, f := range bigThrough {
					for _, p := range []string{"ps", "pi", "'nope'"} {
						for _, op := range []string{"in", "not in"} {
							t := p + " " + op + " (" + v + "|" + f + ")"
							add(mk("through/if/"+t, "through-if", "{% if "+t+" %}y{% else %}n{% endif %}{{ "+v+"|length }}"))
							add(mk("through/held/"+t, "through-held", "{% set t = "+v+"|"+f+" %}{% if "+p+" "+op+" t %}y{% else %}n{% endif %}{{ t|length }}|{{ "+v+"|length }}"))
						}
					}
				}
				// (c) reads
				ns, n1 := strconv.Itoa(n), strconv.Itoa(n-1)
				for i, src := range []string{
					"{{ V|first }}",
					"{{ V|last }}",
					"{{ V|length }}",
					"{{ V|join(',') }}",
					"{{ V|join }}",
					"{{ V|keys|join(',') }}",
					"{% for v in V %}{{ v }},{% endfor %}",
					"{% for k, v in V %}{{ k }}={{ v }},{% endfor %}",
					"{% for v in V %}{{ loop.index }}{% if loop.last %}!{% endif %}{% endfor %}",
					"{% for v in V %}{% if v in V %}y{% else %}n{% endif %}{% endfor %}",
					"{% for v in V %}{% if v not in V %}y{% endif %}{% else %}e{% endfor %}",
					"{{ V[3] }}",
					"{{ V[0] }}|{{ V[" + n1 + "] }}",
					"{{ V[" + ns + "] }}",
					"{{ V[-1] }}",
					"{{ V == V ? 1 : 0 }}",
					"{{ V == os ? 1 : 0 }}{{ os == V ? 1 : 0 }}",
					"{{ V == ox ? 1 : 0 }}{{ V != ox ? 1 : 0 }}",
					"{{ V != os ? 1 : 0 }}",
					"{{ V < os ? 1 : 0 }}{{ V > ox ? 1 : 0 }}{{ V <= V ? 1 : 0 }}{{ V >= 3 ? 1 : 0 }}",
					"{{ max(V) }}",
					"{{ min(V) }}",
					"{{ max(V, 5) }}{{ min(3, V) }}",
					"{{ length(V) }}",
					"{{ V|json_encode }}",
					"{{ json_encode(V) }}",
					"{% if V is empty %}e{% endif %}{% if V is iterable %}i{% endif %}{% if V is defined %}d{% endif %}",
					"{{ V ? 1 : 0 }}{% if V %}t{% endif %}{% if not V %}f{% endif %}",
					"{{ V|default('x')|length }}",
					"{{ cycle(V, 3) }}{{ cycle(V, " + ns + ") }}{{ cycle(V, " + n1 + ") }}",
					"{{ V|length > 50 ? 'big' : 'small' }}",
					"{{ V|slice(0, 3)|join(',') }}",
					"{{ V|slice(48, 10)|join(',') }}",
					"{{ V|slice(-3)|join(',') }}",
					"{{ V|sort|first }}|{{ V|sort|last }}",
					"{{ V|sort|join(',') }}",
					"{{ V|reverse|first }}|{{ V|reverse|join(',') }}",
					"{{ V|merge([1])|length }}{{ V|merge(V)|length }}{{ merge(V, V)|length }}",
					"{{ V|keys|first }}|{{ V|keys|last }}",
					"{{ V }}",
					"{{ V ~ '' }}",
					"{{ (V starts with 't') ? 1 : 0 }}{{ (V ends with ']') ? 1 : 0 }}",
					"{% include 'rd' with {'q': V} %}",
					"{% include 'rd' with {'q': V} only %}",
					"{% macro r(q) %}{% if ps in q %}y{% else %}n{% endif %}{{ q|first }}|{{ q|length }}{% endmacro %}{{ r(V) }}{{ _self.r(V) }}",
					"{% set t = V %}{% if ps in t %}y{% endif %}{% if pi in t %}z{% endif %}{{ t|first }}",
					"{% set l = [V, V] %}{% if ps in l[0] %}y{% endif %}{% if pi in l[1] %}z{% endif %}{% set h = {'k': V} %}{% if ps in h.k %}y{% endif %}",
					"{% for x in [1, 2] %}{% for v in V %}{% if loop.first %}{{ v }}{% endif %}{% endfor %}{% endfor %}",
				} {
					add(mk(fmt.Sprintf("read/%d/%s", i, v), "read"+strconv.Itoa(i), strings.ReplaceAll(src, "V", v)))
				}
				// (d) every filter (one working argument shape each), printed, and held then tested / measured
				for _, f := range chainAll(thorough) {
					p := mk("filter/print/"+v+"|"+f, "filter>"+strings.SplitN(f, "(", 2)[0], "{{ "+v+"|"+f+" }}")
					p.noOut = f == "date"
					add(p)
					p = mk("filter/held/"+v+"|"+f, "held>"+strings.SplitN(f, "(", 2)[0], "{% set t = "+v+"|"+f+" %}{% if ps in t %}y{% endif %}{% if pi not in t %}n{% endif %}{{ t|length }}")
					p.noOut = f == "date"
					add(p)
				}
				// (e) chains of two collection filters in one expression, printed (thorough: also held, observed before and after)
				col := chainTri(thorough)
				for _, f1 := range col {
					for _, f2 := range col {
						c := v + "|" + f1 + "|" + f2
						add(mk("chain/print/"+c, "chain>"+strings.SplitN(f2, "(", 2)[0], "{{ "+c+" }}"))
						if thorough {
							p := mk("chain/held/"+c, "chainheld>"+strings.SplitN(f2, "(", 2)[0],
								"{% set s = "+v+"|"+f1+" %}{% set o = s|json_encode %}{% set t = s|"+f2+" %}{{ o }}#{{ s|json_encode }}#{{ t|json_encode }}#{{ "+v+"|length }}")
							p.marks = true
							add(p)
						}
					}
				}
			}
		}
	}
}
