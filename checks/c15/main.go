// C15 — template cache and loaders always serve the source the configuration calls for.
//
// Explicit enumeration of operation histories on a live engine with two instrumented in-memory
// loaders (L1 timestamp-aware, L2 plain; registered separately or behind a ChainLoader). After every
// Load/Render the result, the loaders' read counters and (for a missing name) the cache listing are
// compared with a small reference state machine transcribed from the property statement.
//
//	phase A  every history over the alphabet up to the depth bound, no pruning (each history is
//	         replayed on a fresh engine)
//	phase B  breadth-first search over the reference states (version numbers and timestamps reduced to
//	         their ranks) to closure or the state cap; each new state is reached by replaying its
//	         shortest history on a fresh engine and every operation is applied to it once
package main

import (
	"errors"
	"fmt"
	"sort"
	"strings"

	"github.com/semihalev/twig"

	"verif/lib/vlib"
)

// ---------------------------------------------------------------------------------------------
// instrumented loaders

type stats struct {
	loads   map[string]int // Load calls per name
	consult map[string]int // Load + Exists calls per name
}

func newStats() *stats { return &stats{map[string]int{}, map[string]int{}} }

type tsLoader struct { // L1: timestamp-aware
	src map[string]string
	mt  map[string]int64
	st  *stats
}

func (l *tsLoader) Load(n string) (string, error) {
	l.st.loads[n]++
	l.st.consult[n]++
	if s, ok := l.src[n]; ok {
		return s, nil
	}
	return "", fmt.Errorf("%w: %s (L1)", twig.ErrTemplateNotFound, n)
}
func (l *tsLoader) Exists(n string) bool { l.st.consult[n]++; _, ok := l.src[n]; return ok }
func (l *tsLoader) GetModifiedTime(n string) (int64, error) {
	if t, ok := l.mt[n]; ok {
		return t, nil
	}
	return 0, fmt.Errorf("%w: %s (L1)", twig.ErrTemplateNotFound, n)
}

type plainLoader struct { // L2: no timestamps
	src map[string]string
	st  *stats
}

func (l *plainLoader) Load(n string) (string, error) {
	l.st.loads[n]++
	l.st.consult[n]++
	if s, ok := l.src[n]; ok {
		return s, nil
	}
	return "", fmt.Errorf("%w: %s (L2)", twig.ErrTemplateNotFound, n)
}
func (l *plainLoader) Exists(n string) bool { l.st.consult[n]++; _, ok := l.src[n]; return ok }

// ---------------------------------------------------------------------------------------------
// operations

type opKind int

const (
	opCache0 opKind = iota
	opCache1
	opReload0
	opReload1
	opDev0
	opDev1
	opRegister // register a new version under the name
	opMod1     // new content in L1, newer timestamp
	opMod2     // new content in L2
	opTouch1   // newer timestamp in L1, same content
	opDel1
	opDel2
	opLoad   // Engine.Load + Template.Render
	opRender // Engine.Render
	opRenderInc
)

type op struct {
	k opKind
	n string
}

func (o op) String() string {
	names := [...]string{"cache0", "cache1", "reload0", "reload1", "dev0", "dev1", "reg", "modL1", "modL2", "touchL1", "delL1", "delL2", "load", "render", "renderinc"}
	if o.n == "" {
		return names[o.k]
	}
	return names[o.k] + ":" + o.n
}

func (o op) isGet() bool { return o.k == opLoad || o.k == opRender || o.k == opRenderInc }

// The alphabet: everything for n1, a reduced set for n2, the six switches, and a render of "inc"
// (a fixed template of L2 that includes n1, so n1 is also reached through a nested load).
var alphabet = []op{
	{opLoad, "n1"}, {opRender, "n1"}, {opRender, "n2"}, {opRenderInc, ""},
	{opMod1, "n1"}, {opMod2, "n1"}, {opTouch1, "n1"}, {opDel1, "n1"}, {opDel2, "n1"}, {opRegister, "n1"},
	{opMod1, "n2"}, {opMod2, "n2"}, {opRegister, "n2"},
	{opReload1, ""}, {opReload0, ""}, {opCache0, ""}, {opCache1, ""}, {opDev1, ""}, {opDev0, ""},
}

const incSource = "<{% include 'n1' %}>"

// ---------------------------------------------------------------------------------------------
// variants

type variant struct {
	Chain  bool   // loaders behind one ChainLoader instead of registered one by one
	Seeded bool   // start with n1 in L1 and L2 and n2 in L2 (instead of empty loaders)
	Reg    string // "str" RegisterString, "tpl" RegisterTemplate, "cmp" RegisterCompiledTemplate
}

func (v variant) String() string {
	a, s := "sep", "empty"
	if v.Chain {
		a = "chain"
	}
	if v.Seeded {
		s = "seeded"
	}
	return a + "/" + s + "/" + v.Reg
}

// ---------------------------------------------------------------------------------------------
// world = live engine + reference state

const (
	orgReg   = 0
	orgL1    = 1
	orgL2    = 2
	orgChain = 3
)

type entry struct {
	tag    string
	origin int
	mtime  int64
}

type world struct {
	v      variant
	e      *twig.Engine
	l1     *tsLoader
	l2     *plainLoader
	st     *stats
	cache  bool
	reload bool
	cached map[string]entry
	dirty  map[string]bool // the cached entry of this name is not determined by the statement any more
	ver    int
	clock  int64
	kinds  map[string]int64
}

func newWorld(v variant) *world {
	st := newStats()
	w := &world{v: v, e: twig.New(), st: st,
		l1:    &tsLoader{src: map[string]string{}, mt: map[string]int64{}, st: st},
		l2:    &plainLoader{src: map[string]string{"inc": incSource}, st: st},
		cache: true, cached: map[string]entry{}, dirty: map[string]bool{}, clock: 10, kinds: map[string]int64{}}
	if v.Seeded {
		w.ver++
		w.clock++
		w.l1.src["n1"], w.l1.mt["n1"] = fmt.Sprintf("v%d@L1", w.ver), w.clock
		w.ver++
		w.l2.src["n1"] = fmt.Sprintf("v%d@L2", w.ver)
		w.ver++
		w.l2.src["n2"] = fmt.Sprintf("v%d@L2", w.ver)
	}
	if v.Chain {
		w.e.RegisterLoader(twig.NewChainLoader([]twig.Loader{w.l1, w.l2}))
	} else {
		w.e.RegisterLoader(w.l1)
		w.e.RegisterLoader(w.l2)
	}
	return w
}

// applicable: operations that are pure no-ops of the harness (touching or deleting what is not
// there) and registrations while the cache is off (left open by the statement) are not generated.
func (w *world) applicable(o op) bool {
	switch o.k {
	case opTouch1, opDel1:
		_, ok := w.l1.src[o.n]
		return ok
	case opDel2:
		_, ok := w.l2.src[o.n]
		return ok
	case opRegister:
		return w.cache
	}
	return true
}

func (w *world) fromLoaders(n string) (entry, bool) {
	if s, ok := w.l1.src[n]; ok {
		if w.v.Chain {
			return entry{s, orgChain, 0}, true
		}
		return entry{s, orgL1, w.l1.mt[n]}, true
	}
	if s, ok := w.l2.src[n]; ok {
		if w.v.Chain {
			return entry{s, orgChain, 0}, true
		}
		return entry{s, orgL2, 0}, true
	}
	return entry{}, false
}

type expect struct {
	kind     string // what the reference machine does: hit / stale / fresh / reload / reread / notfound / dontcare …
	tag      string
	found    bool
	dontcare bool
	noReread bool // the loaders must not be read (auto-reload on, nothing changed)
	reread   bool // the loaders must be consulted (cache off)
}

// modelGet is the reference machine for Load/Render of one name; it updates the reference cache.
func (w *world) modelGet(n string) expect {
	if !w.cache {
		// "with caching disabled every call re-reads the loaders" — unless the name was registered,
		// where "use the source most recently registered" pulls the other way: left open
		if c, ok := w.cached[n]; ok && c.origin == orgReg && !w.dirty[n] {
			return expect{kind: "dontcare-registered-cache-off", dontcare: true}
		}
		en, ok := w.fromLoaders(n)
		if !ok {
			return expect{kind: "notfound-cache-off"}
		}
		return expect{kind: "reread-cache-off", tag: en.tag, found: true, reread: true}
	}
	if w.dirty[n] {
		return expect{kind: "dontcare-dirty", dontcare: true}
	}
	if c, ok := w.cached[n]; ok {
		if !w.reload {
			k := "hit"
			if en, ok := w.fromLoaders(n); c.origin != orgReg && (!ok || en.tag != c.tag) {
				k = "stale-kept-reload-off"
			}
			return expect{kind: k, tag: c.tag, found: true}
		}
		switch c.origin {
		case orgReg:
			return expect{kind: "hit-registered", tag: c.tag, found: true}
		case orgL1:
			mt, present := w.l1.mt[n]
			if !present || mt > c.mtime {
				en, ok := w.fromLoaders(n)
				if !ok {
					return expect{kind: "notfound-after-delete"} // the cache keeps what it has
				}
				w.cached[n] = en
				return expect{kind: "reload-newer", tag: en.tag, found: true}
			}
			return expect{kind: "hit-unchanged-reload-on", tag: c.tag, found: true, noReread: true}
		default: // cached from a loader without timestamps (L2, or the chain)
			en, ok := w.fromLoaders(n)
			if !ok || en.tag != c.tag || en.origin != c.origin {
				// its source changed, or an earlier loader gained the name: whether auto-reload has to
				// notice that is not determined by the statement
				w.dirty[n] = true
				return expect{kind: "dontcare-untimed-changed", dontcare: true}
			}
			return expect{kind: "hit-unchanged-reload-on", tag: c.tag, found: true, noReread: true}
		}
	}
	en, ok := w.fromLoaders(n)
	if !ok {
		return expect{kind: "notfound"}
	}
	w.cached[n] = en
	return expect{kind: "fresh", tag: en.tag, found: true}
}

func (w *world) listing() string {
	ns := w.e.GetCachedTemplateNames()
	sort.Strings(ns)
	return strings.Join(ns, ",")
}

func (w *world) get(o op) (string, error) {
	switch o.k {
	case opLoad:
		t, err := w.e.Load(o.n)
		if err != nil {
			return "", err
		}
		if t == nil {
			return "", errors.New("Load returned a nil template and a nil error")
		}
		return t.Render(nil)
	case opRender:
		return w.e.Render(o.n, nil)
	}
	return w.e.Render("inc", nil)
}

// apply executes one operation on the engine and the reference machine; a non-empty result is a
// violation.
func (w *world) apply(o op) string {
	switch o.k {
	case opLoad, opRender:
		before := w.listing()
		loads0, cons0 := w.st.loads[o.n], w.st.consult[o.n]
		ex := w.modelGet(o.n)
		out, err := w.get(o)
		w.kinds[ex.kind]++
		if ex.dontcare {
			return ""
		}
		return w.compare(o, o.n, ex, out, "", err, before, loads0, cons0)
	case opRenderInc:
		exOuter := w.modelGet("inc")
		var ex expect
		if exOuter.found {
			ex = w.modelGet("n1")
		}
		loads0, cons0 := w.st.loads["n1"], w.st.consult["n1"]
		out, err := w.get(o)
		w.kinds["nested-"+ex.kind]++
		if exOuter.dontcare || !exOuter.found || ex.dontcare {
			return ""
		}
		if ex.found {
			ex.tag = "<" + ex.tag + ">"
		}
		return w.compare(o, "n1", ex, out, "(through the include in \"inc\") ", err, "", loads0, cons0)
	case opRegister:
		w.ver++
		src := fmt.Sprintf("v%d@R", w.ver)
		var err error
		switch w.v.Reg {
		case "tpl":
			var t *twig.Template
			if t, err = w.e.ParseTemplate(src); err == nil {
				w.e.RegisterTemplate(o.n, t)
			}
		case "cmp":
			e2 := twig.New()
			if err = e2.RegisterString(o.n, src); err == nil {
				var c *twig.CompiledTemplate
				if c, err = e2.CompileTemplate(o.n); err == nil {
					err = w.e.RegisterCompiledTemplate(c)
				}
			}
		default:
			err = w.e.RegisterString(o.n, src)
		}
		if err != nil {
			return fmt.Sprintf("%v failed: %v", o, err)
		}
		w.cached[o.n] = entry{src, orgReg, 0}
		delete(w.dirty, o.n)
	case opMod1:
		w.ver++
		w.clock++
		w.l1.src[o.n], w.l1.mt[o.n] = fmt.Sprintf("v%d@L1", w.ver), w.clock
	case opMod2:
		w.ver++
		w.l2.src[o.n] = fmt.Sprintf("v%d@L2", w.ver)
	case opTouch1:
		w.clock++
		w.l1.mt[o.n] = w.clock
	case opDel1:
		delete(w.l1.src, o.n)
		delete(w.l1.mt, o.n)
	case opDel2:
		delete(w.l2.src, o.n)
	case opCache0:
		w.e.SetCache(false)
		w.cache = false
	case opCache1:
		w.e.SetCache(true)
		w.cache = true
	case opReload0:
		w.e.SetAutoReload(false)
		w.reload = false
	case opReload1:
		w.e.SetAutoReload(true)
		w.reload = true
	case opDev1:
		w.e.SetDevelopmentMode(true)
		w.cache, w.reload = false, true
	case opDev0:
		w.e.SetDevelopmentMode(false)
		w.cache, w.reload = true, false
	}
	return ""
}

func (w *world) compare(o op, n string, ex expect, out, via string, err error, listBefore string, loads0, cons0 int) string {
	cfg := fmt.Sprintf("[cache=%v auto-reload=%v]", w.cache, w.reload)
	if ex.found {
		if err != nil {
			return fmt.Sprintf("%v %s%s failed: %v; the configuration calls for %q (%s)", o, via, cfg, err, ex.tag, ex.kind)
		}
		if out != ex.tag {
			return fmt.Sprintf("%v %s%s served %q; the configuration calls for %q (%s)", o, via, cfg, out, ex.tag, ex.kind)
		}
		if ex.noReread && w.st.loads[n] != loads0 {
			return fmt.Sprintf("%v %s%s: the template is unchanged but the loaders were read again (%d Load calls for %q)", o, via, cfg, w.st.loads[n]-loads0, n)
		}
		if ex.reread && w.st.consult[n] == cons0 {
			return fmt.Sprintf("%v %s%s: caching is disabled but the loaders were not consulted", o, via, cfg)
		}
		return ""
	}
	if err == nil {
		return fmt.Sprintf("%v %s%s served %q although no loader has %q (%s)", o, via, cfg, out, n, ex.kind)
	}
	if !errors.Is(err, twig.ErrTemplateNotFound) {
		return fmt.Sprintf("%v %s%s: the error for a name no loader has does not match ErrTemplateNotFound: %v", o, via, cfg, err)
	}
	if via == "" {
		if after := w.listing(); after != listBefore {
			return fmt.Sprintf("%v %s: a failed lookup changed the cache listing from [%s] to [%s]", o, cfg, listBefore, after)
		}
	}
	return ""
}

// canon is the reference state with versions and timestamps reduced to their ranks, plus the
// implementation's cache listing.
func (w *world) canon() string {
	vers := map[string]bool{}
	times := map[int64]bool{}
	add := func(tag string) { vers[tag] = true }
	for _, n := range []string{"n1", "n2"} {
		if s, ok := w.l1.src[n]; ok {
			add(s)
			times[w.l1.mt[n]] = true
		}
		if s, ok := w.l2.src[n]; ok {
			add(s)
		}
		if c, ok := w.cached[n]; ok {
			add(c.tag)
			if c.origin == orgL1 {
				times[c.mtime] = true
			}
		}
	}
	var vs []string
	for v := range vers {
		vs = append(vs, v)
	}
	sort.Slice(vs, func(i, j int) bool { // by version number
		var a, b int
		fmt.Sscanf(vs[i], "v%d", &a)
		fmt.Sscanf(vs[j], "v%d", &b)
		return a < b
	})
	vr := map[string]int{}
	for i, v := range vs {
		vr[v] = i
	}
	var ts []int64
	for t := range times {
		ts = append(ts, t)
	}
	sort.Slice(ts, func(i, j int) bool { return ts[i] < ts[j] })
	tr := map[int64]int{}
	for i, t := range ts {
		tr[t] = i
	}
	var b strings.Builder
	fmt.Fprintf(&b, "c%v r%v|", w.cache, w.reload)
	for _, n := range []string{"n1", "n2", "inc"} {
		b.WriteString(n + ":")
		if s, ok := w.l1.src[n]; ok {
			fmt.Fprintf(&b, "L1=%d@%d ", vr[s], tr[w.l1.mt[n]])
		}
		if s, ok := w.l2.src[n]; ok && n != "inc" {
			fmt.Fprintf(&b, "L2=%d ", vr[s])
		}
		if c, ok := w.cached[n]; ok {
			if n == "inc" {
				b.WriteString("C ")
			} else if c.origin == orgL1 {
				fmt.Fprintf(&b, "C=%d/%d@%d ", vr[c.tag], c.origin, tr[c.mtime])
			} else {
				fmt.Fprintf(&b, "C=%d/%d ", vr[c.tag], c.origin)
			}
		}
		if w.dirty[n] {
			b.WriteString("dirty ")
		}
		b.WriteString("|")
	}
	b.WriteString(w.listing())
	return b.String()
}

// ---------------------------------------------------------------------------------------------
// running histories

type runStats struct {
	histories, transitions, gets, open int64
	kinds                              map[string]int64
}

func (r *runStats) add(w *world, n int) {
	r.histories++
	r.transitions += int64(n)
	for k, c := range w.kinds {
		r.kinds[k] += c
		if strings.Contains(k, "dontcare") {
			r.open += c
		} else {
			r.gets += c
		}
	}
}

// applicableSeq decides applicability of every operation of a history from the harness state alone
// (loader contents and the cache switch), without an engine.
func applicableSeq(v variant, h []op) bool {
	l1 := map[string]bool{}
	l2 := map[string]bool{}
	if v.Seeded {
		l1["n1"], l2["n1"], l2["n2"] = true, true, true
	}
	cache := true
	for _, o := range h {
		switch o.k {
		case opMod1:
			l1[o.n] = true
		case opMod2:
			l2[o.n] = true
		case opTouch1:
			if !l1[o.n] {
				return false
			}
		case opDel1:
			if !l1[o.n] {
				return false
			}
			delete(l1, o.n)
		case opDel2:
			if !l2[o.n] {
				return false
			}
			delete(l2, o.n)
		case opRegister:
			if !cache {
				return false
			}
		case opCache0, opDev1:
			cache = false
		case opCache1, opDev0:
			cache = true
		}
	}
	return true
}

// replay runs a history on a fresh world. It returns the world, whether every operation was
// applicable, and the first violation.
func replay(v variant, h []op) (w *world, ok bool, viol string) {
	w = newWorld(v)
	for i, o := range h {
		if !w.applicable(o) {
			return w, false, ""
		}
		if s := w.apply(o); s != "" {
			return w, true, fmt.Sprintf("variant %s, history %v: after %d operation(s), %s", v, h[:i+1], i, s)
		}
	}
	return w, true, ""
}

type detail struct {
	Variant string   `json:"variant"`
	History []string `json:"history"`
}

func mkDetail(v variant, h []op) detail {
	d := detail{Variant: v.String()}
	for _, o := range h {
		d.History = append(d.History, o.String())
	}
	return d
}

func histKey(h []op) string {
	var b strings.Builder
	for i, o := range h {
		if i > 0 {
			b.WriteByte(' ')
		}
		b.WriteString(o.String())
	}
	return b.String()
}

func hasReg(h []op) bool {
	for _, o := range h {
		if o.k == opRegister {
			return true
		}
	}
	return false
}

func classOf(kinds map[string]int64) string {
	var ks []string
	for k := range kinds {
		ks = append(ks, k)
	}
	sort.Strings(ks)
	return strings.Join(ks, ",")
}

// subtree explores every extension of the prefix up to total length depth (the prefix itself
// included when exact is false and len(prefix) >= 1), shortest first.
func subtree(v variant, prefix []op, depth int) *vlib.Outcome {
	rs := &runStats{kinds: map[string]int64{}}
	o := &vlib.Outcome{Counters: map[string]int64{}}
	// the prefix must be applicable at all
	if !applicableSeq(v, prefix) {
		o.Class = "prefix-not-applicable"
		return o
	}
	h := append([]op{}, prefix...)
	var viol string
	var violHist []op
	var rec func(target int) bool
	rec = func(target int) bool {
		if len(h) == target {
			if v.Reg != "str" && !hasReg(h) {
				return true // identical to the "str" variant
			}
			w, ok, s := replay(v, h)
			if !ok {
				return true
			}
			rs.add(w, len(h))
			if s != "" {
				viol, violHist = s, append([]op{}, h...)
				return false
			}
			return true
		}
		for _, a := range alphabet {
			h = append(h, a)
			if applicableSeq(v, h) && !rec(target) {
				h = h[:len(h)-1]
				return false
			}
			h = h[:len(h)-1]
		}
		return true
	}
	for target := len(prefix); target <= depth; target++ {
		if !rec(target) {
			break
		}
	}
	o.Counters["histories"] = rs.histories
	o.Counters["transitions"] = rs.transitions
	o.Counters["lookups_checked"] = rs.gets
	o.Counters["lookups_left_open"] = rs.open
	for k, c := range rs.kinds {
		o.Counters["kind_"+k] = c
	}
	o.Class = classOf(rs.kinds)
	o.Nontrivial = rs.gets > 0
	if viol != "" {
		o.Violation = viol
		o.Detail = mkDetail(v, violHist)
	}
	return o
}

// bfs explores the reference states reachable from the histories that start with `first`,
// breadth-first, each state once.
func bfs(v variant, first op, maxStates, maxDepth int) *vlib.Outcome {
	o := &vlib.Outcome{Counters: map[string]int64{}}
	rs := &runStats{kinds: map[string]int64{}}
	if !applicableSeq(v, []op{first}) {
		o.Class = "prefix-not-applicable"
		return o
	}
	w, _, s := replay(v, []op{first})
	if s != "" {
		o.Violation, o.Detail, o.Nontrivial = s, mkDetail(v, []op{first}), true
		return o
	}
	seen := map[string]bool{w.canon(): true}
	queue := [][]op{{first}}
	capped := false
	deepest := 1
	for len(queue) > 0 && o.Violation == "" {
		h := queue[0]
		queue = queue[1:]
		if len(h) >= maxDepth {
			capped = true
			continue
		}
		for _, a := range alphabet {
			nh := append(append([]op{}, h...), a)
			if !applicableSeq(v, nh) {
				continue
			}
			w, _, s := replay(v, nh)
			rs.add(w, len(nh))
			if s != "" {
				o.Violation, o.Detail = s, mkDetail(v, nh)
				break
			}
			k := w.canon()
			if seen[k] {
				continue
			}
			if len(seen) >= maxStates {
				capped = true
				continue
			}
			seen[k] = true
			queue = append(queue, nh)
			if len(nh) > deepest {
				deepest = len(nh)
			}
		}
	}
	o.Counters["bfs_states"] = int64(len(seen))
	o.Counters["bfs_transitions"] = rs.histories
	o.Counters["transitions"] = rs.transitions
	o.Counters["lookups_checked"] = rs.gets
	o.Counters["lookups_left_open"] = rs.open
	if capped {
		o.Counters["bfs_subtrees_capped"] = 1
	} else {
		o.Counters["bfs_subtrees_closed"] = 1
	}
	for k, c := range rs.kinds {
		o.Counters["kind_"+k] = c
	}
	o.Class = fmt.Sprintf("bfs depth %d capped=%v %s", deepest, capped, classOf(rs.kinds))
	o.Nontrivial = rs.gets > 0
	return o
}

// ---------------------------------------------------------------------------------------------

type plan struct {
	v      variant
	depth  int
	prefix int
}

func plans(thorough bool) []plan {
	var ps []plan
	all := []variant{}
	for _, chain := range []bool{false, true} {
		for _, seeded := range []bool{true, false} {
			for _, reg := range []string{"str", "tpl", "cmp"} {
				all = append(all, variant{chain, seeded, reg})
			}
		}
	}
	if thorough {
		for _, v := range all {
			ps = append(ps, plan{v, 5, 3})
		}
		ps = append(ps, plan{variant{false, true, "str"}, 6, 3}, plan{variant{false, false, "str"}, 6, 3})
	} else {
		for _, v := range all {
			ps = append(ps, plan{v, 4, 2})
		}
		ps = append(ps, plan{variant{false, true, "str"}, 5, 3})
	}
	return ps
}

func main() {
	vlib.Main(vlib.Spec{
		ID:    "C15",
		Level: "model_checking",
		Rule: "phase A: every history over the 19-letter alphabet (load/render/render-through-include, register, modify in L1/L2, touch, delete, the six configuration switches; " +
			"two names) up to the depth bound, for each loader arrangement (separate / ChainLoader), start state (seeded / empty loaders) and registration API " +
			"(RegisterString / RegisterTemplate / RegisterCompiledTemplate), each replayed on a fresh engine and compared step by step with the reference machine; " +
			"phase B: breadth-first search over the reference states (versions and timestamps reduced to ranks) per first operation. " +
			"Non-trivial = the explored subtree contains at least one Load/Render whose result the statement determines",
		Assumptions: []string{
			"histories longer than the depth bound are covered only by phase B, which assumes that the engine's cache state is a function of the reference state and the cache listing",
			"left open by the statement, not demanded: registration while the cache is off; Load of a registered name while the cache is off; with auto-reload on, an entry cached from a loader without timestamps (L2, ChainLoader) whose source changed or that an earlier loader now shadows",
			"timestamps only move forward and every content change comes with a newer timestamp (a change without a newer timestamp is unobservable by design)",
			"two names plus one fixed including template, two loaders; file-system loaders are not used (their modification times cannot be controlled)",
		},
		QuickDeadline:    150,
		ThoroughDeadline: 840,
		Run:              run,
		Extra: func(tier string, cov map[string]interface{}) {
			cov["states"] = cov["bfs_states"]
			cov["traces_validated_against_impl"] = cov["histories"]
			var bs []string
			for _, p := range plans(tier == "thorough") {
				bs = append(bs, fmt.Sprintf("%s depth<=%d", p.v, p.depth))
			}
			cov["bounds"] = bs
		},
	})
}

func run(t *vlib.T) {
	// phase A
	for _, p := range plans(t.Thorough()) {
		p := p
		var rec func(h []op)
		rec = func(h []op) {
			if t.Stopped() {
				return
			}
			if len(h) >= 1 {
				hh := append([]op{}, h...)
				if len(h) < p.prefix {
					// the history itself
					t.Case(fmt.Sprintf("A|%s|d%d|=%s", p.v, p.depth, histKey(hh)), func() *vlib.Outcome { return subtree(p.v, hh, len(hh)) })
				} else {
					t.Case(fmt.Sprintf("A|%s|d%d|%s…", p.v, p.depth, histKey(hh)), func() *vlib.Outcome { return subtree(p.v, hh, p.depth) })
					return
				}
			}
			for _, a := range alphabet {
				rec(append(h, a))
			}
		}
		rec(nil)
	}
	// phase B
	maxStates, maxDepth := 1500, 8
	if t.Thorough() {
		maxStates, maxDepth = 40000, 12
	}
	for _, chain := range []bool{false, true} {
		for _, seeded := range []bool{true, false} {
			v := variant{chain, seeded, "str"}
			for _, a := range alphabet {
				a := a
				t.Case(fmt.Sprintf("B|%s|%s", v, a), func() *vlib.Outcome { return bfs(v, a, maxStates, maxDepth) })
			}
		}
	}
}
