// C15 — template cache and loaders always serve the source the configuration calls for.
//
// Explicit enumeration of operation histories on a live engine with two instrumented in-memory
// loaders (L1 timestamp-aware, L2 plain or — arrangement "ts2" — timestamp-aware as well; registered
// separately in either order, or behind a ChainLoader in either order; in some arrangements L1 is a real
// FileSystemLoader on a scratch directory, also inside the ChainLoader). After every Load/Render the result, the loaders' read counters and (for a missing name) the cache listing are
// compared with a small reference state machine transcribed from the property statement.
//
// Variants whose registration API carries the suffix "+x" run over an extended alphabet: registration of
// text identical to what the cache already holds, and content changes in L1 that do not come with a
// newer timestamp (equal / older; with real files same length / different length).
// Variants with the suffix "+b": a loader's copy of the name can be replaced by text that does not parse;
// the first loader that has the name wins, so the lookup has to fail — a later loader's copy (there is a
// third loader in the "sep3" arrangement) is never served in its place.
//
//	phase A  every history over the alphabet up to the depth bound, no pruning (each history is
//	         replayed on a fresh engine)
//	phase B  breadth-first search over the reference states (version numbers and timestamps reduced to
//	         their ranks) to closure or the state cap; each new state is reached by replaying its
//	         shortest history on a fresh engine and every operation is applied to it once
package main

import (
	"errors"
	"fmt"
	"os"
	"path/filepath"
	"sort"
	"strconv"
	"strings"
	"time"

	"github.com/semihalev/twig"

	"verif/lib/vlib"
)

// ---------------------------------------------------------------------------------------------
// instrumented loaders

type stats struct {
	loads   map[string]int // Load calls per name
	consult map[string]int // Load + Exists calls per name
}

func newStats() *stats { return &stats{map[string]int{}, map[string]int{}} }

type tsLoader struct { // L1: timestamp-aware
	src map[string]string // what L1 holds (in the "fs" arrangement: a mirror of the files on disk)
	mt  map[string]int64
	// pad: a twig comment appended to the source ("+x" alphabet with real files only: the length of the
	// file is controlled there; it renders as nothing). content = src + pad is what the loader holds
	pad  map[string]string
	flen map[string]int // length of the padded file
	// brk: the copy of this name does not parse ("+b" alphabet): an unclosed tag follows the version tag
	brk map[string]bool
	st  *stats
	fs  *twig.FileSystemLoader // "fs" arrangement: the real loader answers, this type only counts
}

func (l *tsLoader) content(n string) string {
	if l.brk[n] {
		return l.src[n] + l.pad[n] + unparsable
	}
	return l.src[n] + l.pad[n]
}

// unparsable: appended to the version tag of a copy that must not parse (a block tag that is never closed).
const unparsable = "{% if 1 %}"

func (l *tsLoader) Load(n string) (string, error) {
	l.st.loads[n]++
	l.st.consult[n]++
	if l.fs != nil {
		return l.fs.Load(n)
	}
	if _, ok := l.src[n]; ok {
		return l.content(n), nil
	}
	return "", fmt.Errorf("%w: %s (L1)", twig.ErrTemplateNotFound, n)
}
func (l *tsLoader) Exists(n string) bool {
	l.st.consult[n]++
	if l.fs != nil {
		return l.fs.Exists(n)
	}
	_, ok := l.src[n]
	return ok
}
func (l *tsLoader) GetModifiedTime(n string) (int64, error) {
	if l.fs != nil {
		return l.fs.GetModifiedTime(n)
	}
	if t, ok := l.mt[n]; ok {
		return t, nil
	}
	return 0, fmt.Errorf("%w: %s (L1)", twig.ErrTemplateNotFound, n)
}

// scratch directories of this process ("fs" and "builtin" arrangements)
var scratch string

// scratchBase: the run's scratch directory (vlib.Scratch()); when there is none (replay mode) a
// memory-backed directory if there is one, the temporary directory otherwise.
func scratchBase() string {
	if d := vlib.Scratch(); d != "" {
		return d // the run's scratch directory: the parent removes it, also when a worker is killed
	}
	if os.Getenv("C15_SCRATCH_ON_DISK") == "" {
		if fi, err := os.Stat("/dev/shm"); err == nil && fi.IsDir() {
			if f, err := os.CreateTemp("/dev/shm", "c15-probe-*"); err == nil {
				f.Close()
				os.Remove(f.Name())
				return "/dev/shm"
			}
		}
	}
	return os.TempDir()
}

func scratchDir(sub string) string {
	if scratch == "" {
		base := scratchBase()
		// directories of processes that no longer exist (killed workers) are removed first
		if old, _ := filepath.Glob(filepath.Join(base, "c15-fs-*")); len(old) > 0 {
			for _, d := range old {
				var pid int
				if _, err := fmt.Sscanf(filepath.Base(d), "c15-fs-%d", &pid); err == nil {
					if _, err := os.Stat(fmt.Sprintf("/proc/%d", pid)); os.IsNotExist(err) {
						os.RemoveAll(d)
					}
				}
			}
		}
		d := filepath.Join(base, fmt.Sprintf("c15-fs-%d", os.Getpid()))
		os.RemoveAll(d)
		if err := os.Mkdir(d, 0o755); err != nil {
			panic(err)
		}
		scratch = d
		os.Mkdir(filepath.Join(d, "tpl"), 0o755)
		os.Mkdir(filepath.Join(d, "empty"), 0o755)
	}
	return filepath.Join(scratch, sub)
}

const epoch = 1_000_000_000

// onDisk: what this process has put into its scratch directory (nobody else writes there). A file
// that already has the wanted content and modification time is left alone, a file that is not there
// is not removed again: most histories start from the same files, and the file operations are most of
// the cost of the arrangements with real files.
type fileState struct {
	content string
	mt      int64
}

var onDisk = map[string]fileState{}

func (l *tsLoader) write(n string) { // mirror src/pad/mt of one name to disk
	if l.fs == nil {
		return
	}
	path := filepath.Join(scratchDir("tpl"), n+".twig")
	have, there := onDisk[path]
	if _, ok := l.src[n]; !ok {
		if there {
			os.Remove(path)
			delete(onDisk, path)
		}
		return
	}
	want := fileState{l.content(n), l.mt[n]}
	if there && have == want {
		return
	}
	onDisk[path] = fileState{content: "\x00 being written"} // should the write fail half-way: not what anybody wants
	if !there || have.content != want.content {
		// overwritten in place and cut to the new length afterwards: truncating an existing file to
		// nothing and writing it again makes ext4 flush the data when the file is closed
		f, err := os.OpenFile(path, os.O_WRONLY|os.O_CREATE, 0o644)
		if err == nil {
			if _, err = f.Write([]byte(want.content)); err == nil && len(have.content) != len(want.content) {
				err = f.Truncate(int64(len(want.content)))
			}
			if e := f.Close(); err == nil {
				err = e
			}
		}
		if err != nil {
			panic(err)
		}
	}
	t := time.Unix(epoch+want.mt, 0)
	if err := os.Chtimes(path, t, t); err != nil {
		panic(err)
	}
	onDisk[path] = want
}

type plainLoader struct { // L2: no timestamps (mt is only reported in the "ts2" arrangement, through tsPlain)
	src map[string]string
	mt  map[string]int64
	brk map[string]bool // the copy of this name does not parse ("+b" alphabet)
	st  *stats
	id  string // "L2", "L3"
}

func (l *plainLoader) content(n string) string {
	if l.brk[n] {
		return l.src[n] + unparsable
	}
	return l.src[n]
}

func (l *plainLoader) Load(n string) (string, error) {
	l.st.loads[n]++
	l.st.consult[n]++
	if _, ok := l.src[n]; ok {
		return l.content(n), nil
	}
	return "", fmt.Errorf("%w: %s (%s)", twig.ErrTemplateNotFound, n, l.id)
}
func (l *plainLoader) Exists(n string) bool { l.st.consult[n]++; _, ok := l.src[n]; return ok }

// tsPlain is L2 registered as a timestamp-aware loader ("ts2" arrangement).
type tsPlain struct{ *plainLoader }

func (l tsPlain) GetModifiedTime(n string) (int64, error) {
	if t, ok := l.mt[n]; ok {
		return t, nil
	}
	return 0, fmt.Errorf("%w: %s (L2)", twig.ErrTemplateNotFound, n)
}

// ---------------------------------------------------------------------------------------------
// operations

type opKind int

const (
	opCache0 opKind = iota
	opCache1
	opReload0
	opReload1
	opDev0
	opDev1
	opRegister // register a new version under the name
	opMod1     // new content in L1, newer timestamp
	opMod2     // new content in L2
	opTouch1   // newer timestamp in L1, same content
	opDel1
	opDel2
	opLoad   // Engine.Load + Template.Render
	opRender // Engine.Render
	opRenderInc
	opTouch2 // newer timestamp in L2, same content ("ts2" arrangement only)
	// the "+x" alphabet only:
	opRegSame // register, under the name, text IDENTICAL to what the reference cache holds for it
	opEq1     // new content in L1, SAME timestamp (with real files: same length)
	opOld1    // new content in L1, timestamp OLDER than every timestamp so far (real files: same length)
	opEqLen1  // real files only: new content of a DIFFERENT length in L1, same timestamp
	// the "+b" alphabet only:
	opBrk1 // new content in L1 that does NOT PARSE (unclosed tag), newer timestamp
	opBrk2 // new content in L2 that does not parse (newer timestamp where L2 reports timestamps)
)

type op struct {
	k opKind
	n string
}

func (o op) String() string {
	names := [...]string{"cache0", "cache1", "reload0", "reload1", "dev0", "dev1", "reg", "modL1", "modL2", "touchL1", "delL1", "delL2", "load", "render", "renderinc", "touchL2", "regsame", "eqL1", "oldL1", "eqlenL1", "brkL1", "brkL2"}
	if o.n == "" {
		return names[o.k]
	}
	return names[o.k] + ":" + o.n
}

func (o op) isGet() bool { return o.k == opLoad || o.k == opRender || o.k == opRenderInc }

// The alphabet: everything for n1, a reduced set for n2, the six switches, and a render of "inc"
// (a fixed template of L2 that includes n1, so n1 is also reached through a nested load).
var alphabet = []op{
	{opLoad, "n1"}, {opRender, "n1"}, {opRender, "n2"}, {opRenderInc, ""},
	{opMod1, "n1"}, {opMod2, "n1"}, {opTouch1, "n1"}, {opDel1, "n1"}, {opDel2, "n1"}, {opRegister, "n1"},
	{opMod1, "n2"}, {opMod2, "n2"}, {opRegister, "n2"},
	{opReload1, ""}, {opReload0, ""}, {opCache0, ""}, {opCache1, ""}, {opDev1, ""}, {opDev0, ""},
}

// alphabetOf: the arrangement with a timestamp-aware L2 has one more letter.
var alphabetTS2 = append(append([]op{}, alphabet...), op{opTouch2, "n1"})

// The "+x" alphabet (a variant dimension, so that the keys of the other variants are unchanged): a
// registration whose text is identical to what the cache holds for the name, and content changes in
// the timestamp-aware loader that do NOT come with a newer timestamp (equal, older; with real files
// also: same length / different length).
var alphabetX = append(append([]op{}, alphabet...), op{opRegSame, "n1"}, op{opEq1, "n1"}, op{opOld1, "n1"})
var alphabetXFS = append(append([]op{}, alphabetX...), op{opEqLen1, "n1"})

// The "+b" alphabet (again a variant dimension): a loader's copy of n1 is replaced by text that does not
// parse. "The first that has the name wins" — also when what it has is unusable: the lookup has to fail,
// a later loader's copy must never be served in its place.
var alphabetB = append(append([]op{}, alphabet...), op{opBrk1, "n1"}, op{opBrk2, "n1"})
var alphabetBTS2 = append(append([]op{}, alphabetTS2...), op{opBrk1, "n1"}, op{opBrk2, "n1"})

func alphabetOf(v variant) []op {
	switch {
	case v.brk() && v.l2ts():
		return alphabetBTS2
	case v.brk():
		return alphabetB
	case v.ext() && v.realFS():
		return alphabetXFS
	case v.ext():
		return alphabetX
	case v.l2ts():
		return alphabetTS2
	}
	return alphabet
}

const incSource = "<{% include 'n1' %}>"

// ---------------------------------------------------------------------------------------------
// variants

type variant struct {
	// Arr: "sep" L1 and L2 registered one after the other; "chain" both behind one ChainLoader;
	// "builtin" like sep, followed by an empty ArrayLoader, FileSystemLoader and CompiledLoader;
	// "fs" L1 is a real FileSystemLoader on a scratch directory (modification times set with Chtimes);
	// "rev" L2 (plain) registered BEFORE L1 (timestamp-aware); "revfs" like rev with the real
	// FileSystemLoader as L1; "ts2" L1 then L2, both timestamp-aware;
	// "chainfs" one ChainLoader holding the real FileSystemLoader (L1) IN FRONT OF the in-memory L2;
	// "chainfsrev" one ChainLoader holding the in-memory L2 in front of the real FileSystemLoader (L1);
	// "chainrev" the in-memory counterpart of chainfsrev (ChainLoader with L2 before L1);
	// "sep3" L1, L2 and then a third loader L3 that always holds a usable copy of n1
	Arr string
	// Start: "empty" loaders; "seeded" n1 in L1 and L2, n2 in L2; "late" n1 only in the loader that is
	// registered last, n2 in L2; "seededar" like seeded, and the engine starts with auto-reload ON
	Start string
	// Reg: "str" RegisterString, "tpl" RegisterTemplate, "cmp" RegisterCompiledTemplate; with the suffix
	// "+x" the history is over the extended alphabet (alphabetX), with the suffix "+b" over the alphabet
	// with copies that do not parse (alphabetB)
	Reg string
}

func (v variant) ext() bool   { return strings.HasSuffix(v.Reg, "+x") }
func (v variant) brk() bool   { return strings.HasSuffix(v.Reg, "+b") }
func (v variant) api() string { return strings.TrimSuffix(strings.TrimSuffix(v.Reg, "+x"), "+b") }

// three(): a third loader L3 (plain, registered last) that always holds a usable copy "v0@L3" of n1
func (v variant) three() bool { return v.Arr == "sep3" }

func (v variant) String() string { return v.Arr + "/" + v.Start + "/" + v.Reg }

func (v variant) chain() bool { // both loaders behind one ChainLoader
	return v.Arr == "chain" || v.Arr == "chainfs" || v.Arr == "chainrev" || v.Arr == "chainfsrev"
}
func (v variant) l2first() bool { // L2 registered (or placed in the chain) before L1
	return v.Arr == "rev" || v.Arr == "revfs" || v.Arr == "chainrev" || v.Arr == "chainfsrev"
}
func (v variant) l2ts() bool { return v.Arr == "ts2" } // L2 reports timestamps
func (v variant) realFS() bool {
	return v.Arr == "fs" || v.Arr == "revfs" || v.Arr == "chainfs" || v.Arr == "chainfsrev"
}

type placed struct {
	loader int // 1 = L1, 2 = L2
	name   string
}

// startContents: which loader holds which name in the start state, in the order in which the
// version numbers are handed out.
func (v variant) startContents() []placed {
	switch v.Start {
	case "seeded", "seededar":
		return []placed{{1, "n1"}, {2, "n1"}, {2, "n2"}}
	case "late":
		if v.l2first() {
			return []placed{{1, "n1"}, {2, "n2"}}
		}
		return []placed{{2, "n1"}, {2, "n2"}}
	}
	return nil
}

// ---------------------------------------------------------------------------------------------
// world = live engine + reference state

const (
	orgReg   = 0
	orgL1    = 1
	orgL2    = 2
	orgChain = 3
	orgL3    = 4
)

type entry struct {
	tag    string
	origin int
	mtime  int64
	text   string // the source text itself (the tag, plus the padding comment of a padded file)
	broken bool   // (a loader's copy only, never a cached entry) the text does not parse
}

type world struct {
	v      variant
	e      *twig.Engine
	l1     *tsLoader
	l2     *plainLoader
	l3     *plainLoader // "sep3" only
	st     *stats
	cache  bool
	reload bool
	cached map[string]entry
	dirty  map[string]bool // the cached entry of this name is not determined by the statement any more
	// soft: a reload of the cached entry of this name failed on a copy that does not parse; the statement
	// does not say whether the old entry is still in the cache ("+b" alphabet only)
	soft  map[string]bool
	ver   int
	clock int64
	lo    int64 // timestamps handed out by oldL1: older than everything so far
	kinds map[string]int64
	// labelling only: the content of the name changed in L1 without a newer timestamp and the loaders
	// have not been read for the name since
	quiet map[string]bool
	// labelling only (real FileSystemLoader inside a ChainLoader): the file loader has located the name /
	// the file was removed after that and the loaders have not been read for the name since
	located, gone map[string]bool
}

// mark labels the first lookup that reads the loaders after a file, which the FileSystemLoader inside
// the ChainLoader had located, was removed: that call already has to fall through to the next loader
// that has the name (or to be not-found). The label only splits the kind counters; the demands are
// those of modelGet.
func (w *world) mark(n string, ex *expect) {
	if !w.v.chain() || !w.v.realFS() || ex.dontcare {
		return
	}
	switch ex.kind {
	case "reread-cache-off", "notfound-cache-off", "fresh", "notfound":
		if w.gone[n] {
			delete(w.gone, n)
			if ex.found {
				ex.kind += "-falls-through-first-call-after-file-removed"
			} else {
				ex.kind += "-first-call-after-file-removed"
			}
		}
	}
	if ex.found && strings.HasSuffix(ex.tag, "@L1") {
		if w.located == nil {
			w.located = map[string]bool{}
		}
		w.located[n] = true
	}
}

// markQuiet labels the first lookup that has to read the loaders after the content of the name changed
// in L1 without a newer timestamp, when L1 is the loader that has to serve it (a label of the kind
// counters only; the demands are those of modelGet).
func (w *world) markQuiet(n string, ex *expect) {
	if !w.quiet[n] || ex.dontcare {
		return
	}
	switch ex.kind {
	case "reread-cache-off", "fresh":
		delete(w.quiet, n)
		if strings.HasSuffix(ex.tag, "@L1") {
			ex.kind += "-first-call-after-change-without-newer-time"
		}
	case "reload-newer", "reload-newer-earlier-loader-wins":
		delete(w.quiet, n) // a newer timestamp has come on top of it
	}
}

func newWorld(v variant) *world { return newWorldOpt(v, true) }

// newWorldOpt: without an engine the world is the reference machine alone (used to enumerate the
// reference states).
func newWorldOpt(v variant, withEngine bool) *world {
	st := newStats()
	w := &world{v: v, st: st,
		l1:    &tsLoader{src: map[string]string{}, mt: map[string]int64{}, pad: map[string]string{}, flen: map[string]int{}, brk: map[string]bool{}, st: st},
		l2:    &plainLoader{src: map[string]string{"inc": incSource}, mt: map[string]int64{"inc": 10}, brk: map[string]bool{}, st: st, id: "L2"},
		cache: true, cached: map[string]entry{}, dirty: map[string]bool{}, soft: map[string]bool{}, clock: 10, lo: 10, kinds: map[string]int64{}}
	if v.three() {
		w.l3 = &plainLoader{src: map[string]string{"n1": l3Tag}, mt: map[string]int64{}, brk: map[string]bool{}, st: st, id: "L3"}
	}
	if withEngine {
		w.e = twig.New()
	}
	if v.realFS() && withEngine {
		w.l1.fs = twig.NewFileSystemLoader([]string{scratchDir("tpl")})
	}
	for _, c := range v.startContents() {
		w.ver++
		if c.loader == 1 {
			w.clock++
			w.l1.src[c.name], w.l1.mt[c.name] = fmt.Sprintf("v%d@L1", w.ver), w.clock
			w.setPad(c.name, false)
			w.l1.write(c.name)
		} else {
			w.l2.src[c.name] = fmt.Sprintf("v%d@L2", w.ver)
			if v.l2ts() {
				w.clock++
				w.l2.mt[c.name] = w.clock
			}
		}
	}
	if v.Start == "seededar" {
		w.reload = true
	}
	if !withEngine {
		return w
	}
	if w.reload {
		w.e.SetAutoReload(true)
	}
	if v.realFS() {
		for _, n := range [...]string{"n1", "n2"} { // removes what an earlier history left behind
			if _, ok := w.l1.src[n]; !ok {
				w.l1.write(n)
			}
		}
	}
	switch v.Arr {
	case "chain", "chainfs":
		w.e.RegisterLoader(twig.NewChainLoader([]twig.Loader{w.l1, w.l2}))
	case "chainrev", "chainfsrev":
		w.e.RegisterLoader(twig.NewChainLoader([]twig.Loader{w.l2, w.l1}))
	case "builtin":
		w.e.RegisterLoader(w.l1)
		w.e.RegisterLoader(w.l2)
		w.e.RegisterLoader(twig.NewArrayLoader(map[string]string{}))
		w.e.RegisterLoader(twig.NewFileSystemLoader([]string{scratchDir("empty")}))
		w.e.RegisterLoader(twig.NewCompiledLoader(scratchDir("empty")))
	case "rev", "revfs":
		w.e.RegisterLoader(w.l2)
		w.e.RegisterLoader(w.l1)
	case "ts2":
		w.e.RegisterLoader(w.l1)
		w.e.RegisterLoader(tsPlain{w.l2})
	case "sep3":
		w.e.RegisterLoader(w.l1)
		w.e.RegisterLoader(w.l2)
		w.e.RegisterLoader(w.l3)
	default:
		w.e.RegisterLoader(w.l1)
		w.e.RegisterLoader(w.l2)
	}
	return w
}

const l3Tag = "v0@L3"

// setPad: in the "+x" variants with real files every file of L1 is padded with a twig comment to a
// controlled length: the length it had before (fileLen when it is new), or — flip — the other of the
// two lengths fileLen / fileLen+1. In all other variants there is no padding.
const fileLen = 14

func (w *world) setPad(n string, flip bool) {
	if !w.v.ext() || !w.v.realFS() {
		return
	}
	want := fileLen
	if l, ok := w.l1.flen[n]; ok {
		want = l
	}
	if flip {
		want = 2*fileLen + 1 - want
	}
	k := want - len(w.l1.src[n]) - 4
	if k < 0 {
		panic("c15: version tag too long for the padded file")
	}
	w.l1.pad[n] = "{#" + strings.Repeat("-", k) + "#}"
	w.l1.flen[n] = want
}

// cloneModel copies the reference state (no engine).
func (w *world) cloneModel() *world {
	c := &world{v: w.v, st: newStats(), cache: w.cache, reload: w.reload, ver: w.ver, clock: w.clock, lo: w.lo,
		cached: map[string]entry{}, dirty: map[string]bool{}, soft: map[string]bool{}, kinds: map[string]int64{}, l3: w.l3}
	c.l1 = &tsLoader{src: map[string]string{}, mt: map[string]int64{}, pad: map[string]string{}, flen: map[string]int{}, brk: map[string]bool{}, st: c.st}
	for k, x := range w.l1.brk {
		c.l1.brk[k] = x
	}
	for k, x := range w.soft {
		c.soft[k] = x
	}
	for k, x := range w.l1.pad {
		c.l1.pad[k] = x
	}
	for k, x := range w.l1.flen {
		c.l1.flen[k] = x
	}
	c.l2 = &plainLoader{src: map[string]string{}, mt: map[string]int64{}, brk: map[string]bool{}, st: c.st, id: "L2"}
	for k, x := range w.l2.brk {
		c.l2.brk[k] = x
	}
	for k, x := range w.l1.src {
		c.l1.src[k] = x
	}
	for k, x := range w.l1.mt {
		c.l1.mt[k] = x
	}
	for k, x := range w.l2.src {
		c.l2.src[k] = x
	}
	for k, x := range w.l2.mt {
		c.l2.mt[k] = x
	}
	for k, x := range w.cached {
		c.cached[k] = x
	}
	for k, x := range w.dirty {
		c.dirty[k] = x
	}
	return c
}

// applicable: operations that are pure no-ops of the harness (touching or deleting what is not
// there) and registrations while the cache is off (left open by the statement) are not generated.
func (w *world) applicable(o op) bool {
	switch o.k {
	case opTouch1, opDel1:
		_, ok := w.l1.src[o.n]
		return ok
	case opDel2:
		_, ok := w.l2.src[o.n]
		return ok
	case opTouch2:
		_, ok := w.l2.src[o.n]
		return ok && w.v.l2ts()
	case opRegister:
		return w.cache
	case opRegSame:
		// identical to what the cache holds: there has to be something (and the cache has to be on)
		_, ok := w.cached[o.n]
		return ok && w.cache && w.v.ext()
	case opEq1, opOld1:
		_, ok := w.l1.src[o.n]
		return ok && w.v.ext()
	case opEqLen1:
		_, ok := w.l1.src[o.n]
		return ok && w.v.ext() && w.v.realFS()
	case opBrk1, opBrk2:
		return w.v.brk()
	}
	return true
}

// fromLoaders: the loaders in registration order, the first that has the name wins.
func (w *world) fromLoaders(n string) (entry, bool) {
	in1 := func() (entry, bool) {
		s, ok := w.l1.src[n]
		if ok && w.v.chain() {
			return entry{s, orgChain, 0, w.l1.content(n), w.l1.brk[n]}, true
		}
		return entry{s, orgL1, w.l1.mt[n], w.l1.content(n), w.l1.brk[n]}, ok
	}
	in2 := func() (entry, bool) {
		s, ok := w.l2.src[n]
		if ok && w.v.chain() {
			return entry{s, orgChain, 0, w.l2.content(n), w.l2.brk[n]}, true
		}
		if w.v.l2ts() {
			return entry{s, orgL2, w.l2.mt[n], w.l2.content(n), w.l2.brk[n]}, ok
		}
		return entry{s, orgL2, 0, w.l2.content(n), w.l2.brk[n]}, ok
	}
	first, second := in1, in2
	if w.v.l2first() {
		first, second = in2, in1
	}
	if en, ok := first(); ok {
		return en, true
	}
	if en, ok := second(); ok {
		return en, true
	}
	if w.l3 != nil {
		if s, ok := w.l3.src[n]; ok {
			return entry{s, orgL3, 0, s, false}, true
		}
	}
	return entry{}, false
}

// unparsableSomewhere: some loader holds a copy of the name that does not parse (labelling only).
func (w *world) unparsableSomewhere(n string) bool { return w.l1.brk[n] || w.l2.brk[n] }

// timed: the loader this origin stands for reports timestamps; mtimeNow is what it reports now.
func (w *world) timed(origin int) bool {
	return origin == orgL1 || (origin == orgL2 && w.v.l2ts())
}

func (w *world) mtimeNow(origin int, n string) (int64, bool) {
	if origin == orgL1 {
		t, ok := w.l1.mt[n]
		return t, ok
	}
	_, ok := w.l2.src[n]
	return w.l2.mt[n], ok
}

// tagNow: the version the loader this origin stands for holds now.
func (w *world) tagNow(origin int, n string) string {
	if origin == orgL1 {
		return w.l1.src[n]
	}
	return w.l2.src[n]
}

// sameText: the entry was registered with text identical to a loader's copy (regsame).
func (c entry) sameText() bool { return c.origin == orgReg && !strings.HasSuffix(c.tag, "@R") }

type expect struct {
	kind     string // what the reference machine does: hit / stale / fresh / reload / reread / notfound / dontcare …
	tag      string
	found    bool
	dontcare bool
	// fail: the first loader that has the name holds a copy that does not parse: the call has to fail
	// (whatever the error), in particular it must not serve a later loader's copy or a stale one
	fail     bool
	noReread bool // the loaders must not be read (auto-reload on, nothing changed)
	reread   bool // the loaders must be consulted (cache off)
}

// modelGet is the reference machine for Load/Render of one name; it updates the reference cache.
func (w *world) modelGet(n string) expect {
	if !w.cache {
		// "with caching disabled every call re-reads the loaders" — unless the name was registered,
		// where "use the source most recently registered" pulls the other way: left open
		if c, ok := w.cached[n]; ok && c.origin == orgReg && !w.dirty[n] {
			return expect{kind: "dontcare-registered-cache-off", dontcare: true}
		}
		en, ok := w.fromLoaders(n)
		if !ok {
			return expect{kind: "notfound-cache-off"}
		}
		if en.broken {
			return expect{kind: "unparsable-first-loader-wins-cache-off", fail: true}
		}
		return expect{kind: "reread-cache-off" + w.labelB(n), tag: en.tag, found: true, reread: true}
	}
	if w.dirty[n] {
		return expect{kind: "dontcare-dirty", dontcare: true}
	}
	if w.soft[n] && !w.reload {
		// a reload of this entry failed on a copy that does not parse. Whether the old entry is still in the
		// cache is not stated ("stays as it was" / nothing to stay): with auto-reload off the two readings
		// differ — left open. (With auto-reload on they agree: the loader that served the entry still
		// reports a newer time or has lost the name, timestamps only move forward here, so the lookup reads
		// the loaders in registration order either way.)
		w.dirty[n] = true
		delete(w.soft, n)
		return expect{kind: "dontcare-after-reload-failed-on-unparsable-copy", dontcare: true}
	}
	if c, ok := w.cached[n]; ok {
		if !w.reload {
			k := "hit"
			if en, ok := w.fromLoaders(n); c.origin != orgReg && (!ok || en.tag != c.tag) {
				k = "stale-kept-reload-off"
			} else if c.sameText() {
				k = "hit-registered-same-text-reload-off"
			}
			return expect{kind: k, tag: c.tag, found: true}
		}
		switch {
		case c.origin == orgReg:
			// "Load and Render use the source most recently registered under a name" — whatever the text
			// that was registered, and whatever the loaders do afterwards
			if c.sameText() {
				k := "hit-registered-same-text"
				if en, ok := w.fromLoaders(n); !ok || en.tag != c.tag {
					k = "hit-registered-same-text-loaders-moved-on"
				}
				return expect{kind: k, tag: c.tag, found: true}
			}
			return expect{kind: "hit-registered", tag: c.tag, found: true}
		case w.timed(c.origin): // cached from a timestamp-aware loader
			mt, present := w.mtimeNow(c.origin, n)
			if !present || mt > c.mtime {
				// the change must be visible to this call: the template is loaded again, and a load
				// consults the loaders in registration order — also when the changed copy is not in
				// the first loader that has the name by now
				en, ok := w.fromLoaders(n)
				if !ok {
					return expect{kind: "notfound-after-delete"} // the cache keeps what it has
				}
				if en.broken {
					// the first loader that has the name wins — what it has does not parse, so the call fails;
					// what becomes of the old entry is not stated
					w.soft[n] = true
					return expect{kind: "unparsable-first-loader-wins-reload", fail: true}
				}
				w.cached[n] = en
				delete(w.soft, n)
				if present && en.origin != c.origin {
					return expect{kind: "reload-newer-earlier-loader-wins" + w.labelB(n), tag: en.tag, found: true}
				}
				return expect{kind: "reload-newer" + w.labelB(n), tag: en.tag, found: true}
			}
			if w.tagNow(c.origin, n) != c.tag {
				// the content changed where it came from, but the timestamp there is not newer than the
				// one recorded (equal or older; "+x" alphabet only): "a change … is visible to the next
				// call" has nothing to go by — not determined by the statement
				w.dirty[n] = true
				return expect{kind: "dontcare-changed-without-newer-time", dontcare: true}
			}
			if en, _ := w.fromLoaders(n); en.origin != c.origin {
				// unchanged where it came from, but a loader registered earlier has gained the name:
				// "an unchanged template is not re-read" and "the first that has the name wins" pull
				// in different directions — not determined by the statement
				w.dirty[n] = true
				return expect{kind: "dontcare-timed-unchanged-shadowed", dontcare: true}
			}
			return expect{kind: "hit-unchanged-reload-on", tag: c.tag, found: true, noReread: true}
		default: // cached from a loader without timestamps (L2, or the chain)
			en, ok := w.fromLoaders(n)
			if !ok || en.tag != c.tag || en.origin != c.origin {
				// its source changed, or an earlier loader gained the name: whether auto-reload has to
				// notice that is not determined by the statement
				w.dirty[n] = true
				return expect{kind: "dontcare-untimed-changed", dontcare: true}
			}
			return expect{kind: "hit-unchanged-reload-on", tag: c.tag, found: true, noReread: true}
		}
	}
	en, ok := w.fromLoaders(n)
	if !ok {
		return expect{kind: "notfound"}
	}
	if en.broken {
		return expect{kind: "unparsable-first-loader-wins-first-load", fail: true} // nothing to cache
	}
	w.cached[n] = en
	return expect{kind: "fresh" + w.labelB(n), tag: en.tag, found: true}
}

// labelB splits the kind counters of the "+b" variants: the loaders were read and served a usable copy
// while another loader (necessarily a later one, or one the served loader shadows) holds a copy that
// does not parse. A label only; the demands are the same.
func (w *world) labelB(n string) string {
	if w.v.brk() && w.unparsableSomewhere(n) {
		return "-another-loader-unparsable"
	}
	return ""
}

func (w *world) listing() string {
	if w.e == nil {
		return ""
	}
	ns := w.e.GetCachedTemplateNames()
	sort.Strings(ns)
	return strings.Join(ns, ",")
}

func (w *world) get(o op) (string, error) {
	switch o.k {
	case opLoad:
		t, err := w.e.Load(o.n)
		if err != nil {
			return "", err
		}
		if t == nil {
			return "", errors.New("Load returned a nil template and a nil error")
		}
		return t.Render(nil)
	case opRender:
		return w.e.Render(o.n, nil)
	}
	return w.e.Render("inc", nil)
}

// apply executes one operation on the engine and the reference machine; a non-empty result is a
// violation.
func (w *world) apply(o op) string {
	switch o.k {
	case opLoad, opRender:
		before := w.listing()
		loads0, cons0 := w.st.loads[o.n], w.st.consult[o.n]
		ex := w.modelGet(o.n)
		if w.e == nil {
			return ""
		}
		w.mark(o.n, &ex)
		w.markQuiet(o.n, &ex)
		out, err := w.get(o)
		w.kinds[ex.kind]++
		if ex.dontcare {
			return ""
		}
		return w.compare(o, o.n, ex, out, "", err, before, loads0, cons0)
	case opRenderInc:
		exOuter := w.modelGet("inc")
		var ex expect
		if exOuter.found {
			ex = w.modelGet("n1")
		}
		if w.e == nil {
			return ""
		}
		loads0, cons0 := w.st.loads["n1"], w.st.consult["n1"]
		if exOuter.found {
			w.mark("n1", &ex)
			w.markQuiet("n1", &ex)
		}
		out, err := w.get(o)
		w.kinds["nested-"+ex.kind]++
		if exOuter.dontcare || !exOuter.found || ex.dontcare {
			return ""
		}
		if ex.found {
			ex.tag = "<" + ex.tag + ">"
		}
		return w.compare(o, "n1", ex, out, "(through the include in \"inc\") ", err, "", loads0, cons0)
	case opRegister, opRegSame:
		var src, tag string
		if o.k == opRegister {
			w.ver++
			src = fmt.Sprintf("v%d@R", w.ver)
			tag = src
		} else {
			// byte for byte the text the reference cache holds for the name (from a loader — including the
			// padding comment of a padded file — or from an earlier registration)
			src, tag = w.cached[o.n].text, w.cached[o.n].tag
		}
		var err error
		switch {
		case w.e == nil:
		case w.v.api() == "tpl":
			var t *twig.Template
			if t, err = w.e.ParseTemplate(src); err == nil {
				w.e.RegisterTemplate(o.n, t)
			}
		case w.v.api() == "cmp":
			e2 := twig.New()
			if err = e2.RegisterString(o.n, src); err == nil {
				var c *twig.CompiledTemplate
				if c, err = e2.CompileTemplate(o.n); err == nil {
					err = w.e.RegisterCompiledTemplate(c)
				}
			}
		default:
			err = w.e.RegisterString(o.n, src)
		}
		if err != nil {
			return fmt.Sprintf("%v failed: %v", o, err)
		}
		w.cached[o.n] = entry{tag, orgReg, 0, src, false}
		delete(w.dirty, o.n)
		delete(w.soft, o.n)
	case opMod1, opBrk1:
		delete(w.gone, o.n) // the file is there again
		w.ver++
		w.clock++
		w.l1.src[o.n], w.l1.mt[o.n] = fmt.Sprintf("v%d@L1", w.ver), w.clock
		if o.k == opBrk1 {
			w.l1.brk[o.n] = true
		} else {
			delete(w.l1.brk, o.n)
		}
		w.setPad(o.n, false)
		w.l1.write(o.n)
	case opEq1, opEqLen1, opOld1:
		// a content change that does not come with a newer timestamp
		w.ver++
		w.l1.src[o.n] = fmt.Sprintf("v%d@L1", w.ver)
		if o.k == opOld1 {
			w.lo--
			w.l1.mt[o.n] = w.lo
		}
		w.setPad(o.n, o.k == opEqLen1)
		w.l1.write(o.n)
		if w.quiet == nil {
			w.quiet = map[string]bool{}
		}
		w.quiet[o.n] = true
	case opMod2, opBrk2:
		w.ver++
		w.l2.src[o.n] = fmt.Sprintf("v%d@L2", w.ver)
		if o.k == opBrk2 {
			w.l2.brk[o.n] = true
		} else {
			delete(w.l2.brk, o.n)
		}
		if w.v.l2ts() {
			w.clock++
			w.l2.mt[o.n] = w.clock
		}
	case opTouch2:
		w.clock++
		w.l2.mt[o.n] = w.clock
	case opTouch1:
		w.clock++
		w.l1.mt[o.n] = w.clock
		w.l1.write(o.n)
	case opDel1:
		if w.located[o.n] {
			if w.gone == nil {
				w.gone = map[string]bool{}
			}
			w.gone[o.n] = true
			delete(w.located, o.n)
		}
		delete(w.l1.src, o.n)
		delete(w.l1.mt, o.n)
		delete(w.l1.pad, o.n)
		delete(w.l1.flen, o.n)
		delete(w.l1.brk, o.n)
		delete(w.quiet, o.n)
		w.l1.write(o.n)
	case opDel2:
		delete(w.l2.src, o.n)
		delete(w.l2.mt, o.n)
		delete(w.l2.brk, o.n)
	case opCache0:
		w.setCfg(func(e *twig.Engine) { e.SetCache(false) })
		w.cache = false
	case opCache1:
		w.setCfg(func(e *twig.Engine) { e.SetCache(true) })
		w.cache = true
	case opReload0:
		w.setCfg(func(e *twig.Engine) { e.SetAutoReload(false) })
		w.reload = false
	case opReload1:
		w.setCfg(func(e *twig.Engine) { e.SetAutoReload(true) })
		w.reload = true
	case opDev1:
		w.setCfg(func(e *twig.Engine) { e.SetDevelopmentMode(true) })
		w.cache, w.reload = false, true
	case opDev0:
		w.setCfg(func(e *twig.Engine) { e.SetDevelopmentMode(false) })
		w.cache, w.reload = true, false
	}
	return ""
}

func (w *world) setCfg(f func(*twig.Engine)) {
	if w.e != nil {
		f(w.e)
	}
}

func (w *world) compare(o op, n string, ex expect, out, via string, err error, listBefore string, loads0, cons0 int) string {
	cfg := fmt.Sprintf("[cache=%v auto-reload=%v]", w.cache, w.reload)
	if ex.fail {
		if err == nil {
			return fmt.Sprintf("%v %s%s served %q although the first loader that has %q holds a copy that does not parse: the first that has the name wins, the call has to fail (%s)", o, via, cfg, out, n, ex.kind)
		}
		return ""
	}
	if ex.found {
		if err != nil {
			return fmt.Sprintf("%v %s%s failed: %v; the configuration calls for %q (%s)", o, via, cfg, err, ex.tag, ex.kind)
		}
		if out != ex.tag {
			return fmt.Sprintf("%v %s%s served %q; the configuration calls for %q (%s)", o, via, cfg, out, ex.tag, ex.kind)
		}
		if ex.noReread && w.st.loads[n] != loads0 {
			return fmt.Sprintf("%v %s%s: the template is unchanged but the loaders were read again (%d Load calls for %q)", o, via, cfg, w.st.loads[n]-loads0, n)
		}
		if ex.reread && w.st.consult[n] == cons0 {
			return fmt.Sprintf("%v %s%s: caching is disabled but the loaders were not consulted", o, via, cfg)
		}
		return ""
	}
	if err == nil {
		return fmt.Sprintf("%v %s%s served %q although no loader has %q (%s)", o, via, cfg, out, n, ex.kind)
	}
	if !errors.Is(err, twig.ErrTemplateNotFound) {
		return fmt.Sprintf("%v %s%s: the error for a name no loader has does not match ErrTemplateNotFound: %v", o, via, cfg, err)
	}
	if via == "" {
		if after := w.listing(); after != listBefore {
			return fmt.Sprintf("%v %s: a failed lookup changed the cache listing from [%s] to [%s]", o, cfg, listBefore, after)
		}
	}
	return ""
}

// canon is the reference state with version numbers and timestamps reduced to their ranks (only
// equality of versions and the order of timestamps can ever be observed).
func (w *world) canon() string {
	var vs []int
	var ts []int64
	addV := func(tag string) { vs = append(vs, verOf(tag)) }
	for _, n := range [...]string{"n1", "n2"} {
		if s, ok := w.l1.src[n]; ok {
			addV(s)
			ts = append(ts, w.l1.mt[n])
		}
		if s, ok := w.l2.src[n]; ok {
			addV(s)
			if w.v.l2ts() {
				ts = append(ts, w.l2.mt[n])
			}
		}
		if c, ok := w.cached[n]; ok {
			addV(c.tag)
			if w.timed(c.origin) {
				ts = append(ts, c.mtime)
			}
		}
	}
	sort.Ints(vs)
	sort.Slice(ts, func(i, j int) bool { return ts[i] < ts[j] })
	vrank := func(tag string) int { // rank among the distinct values
		v, r := verOf(tag), 0
		for i, x := range vs {
			if i > 0 && x == vs[i-1] {
				continue
			}
			if x < v {
				r++
			}
		}
		return r
	}
	trank := func(t int64) int {
		r := 0
		for i, x := range ts {
			if i > 0 && x == ts[i-1] {
				continue
			}
			if x < t {
				r++
			}
		}
		return r
	}
	b := make([]byte, 0, 96)
	flag := func(f bool) {
		if f {
			b = append(b, '1')
		} else {
			b = append(b, '0')
		}
	}
	flag(w.cache)
	flag(w.reload)
	for _, n := range [...]string{"n1", "n2", "inc"} {
		b = append(b, '|')
		if s, ok := w.l1.src[n]; ok {
			b = append(b, 'a', byte('0'+vrank(s)), '@', byte('0'+trank(w.l1.mt[n])))
			if w.l1.brk[n] {
				b = append(b, 'x')
			}
		}
		if s, ok := w.l2.src[n]; ok && n != "inc" {
			b = append(b, 'b', byte('0'+vrank(s)))
			if w.v.l2ts() {
				b = append(b, '@', byte('0'+trank(w.l2.mt[n])))
			}
			if w.l2.brk[n] {
				b = append(b, 'x')
			}
		}
		if c, ok := w.cached[n]; ok {
			if n == "inc" {
				b = append(b, 'C')
			} else {
				b = append(b, 'c', byte('0'+vrank(c.tag)), byte('0'+c.origin))
				if c.sameText() { // registered with a loader's text: which loader's
					b = append(b, 's', c.tag[len(c.tag)-1])
				}
				if w.timed(c.origin) {
					b = append(b, '@', byte('0'+trank(c.mtime)))
				}
			}
		}
		if w.dirty[n] {
			b = append(b, 'd')
		}
		if w.soft[n] {
			b = append(b, 'f')
		}
	}
	return string(b)
}

func verOf(tag string) int { // "v12@L1" -> 12
	n := 0
	for i := 1; i < len(tag) && tag[i] >= '0' && tag[i] <= '9'; i++ {
		n = n*10 + int(tag[i]-'0')
	}
	return n
}

// ---------------------------------------------------------------------------------------------
// running histories

type runStats struct {
	histories, transitions, gets, open int64
	kinds                              map[string]int64
}

func (r *runStats) add(w *world, n int) {
	r.histories++
	r.transitions += int64(n)
	for k, c := range w.kinds {
		r.kinds[k] += c
		if strings.Contains(k, "dontcare") {
			r.open += c
		} else {
			r.gets += c
		}
	}
}

// applicableSeq decides applicability of every operation of a history from the harness state alone
// (loader contents and the cache switch), without an engine.
func applicableSeq(v variant, h []op) bool {
	if v.ext() {
		// regsame needs to know whether the reference cache holds the name: run the reference machine
		w := newWorldOpt(v, false)
		for _, o := range h {
			if !w.applicable(o) {
				return false
			}
			w.apply(o)
		}
		return true
	}
	l1 := map[string]bool{}
	l2 := map[string]bool{}
	for _, c := range v.startContents() {
		if c.loader == 1 {
			l1[c.name] = true
		} else {
			l2[c.name] = true
		}
	}
	cache := true
	for _, o := range h {
		switch o.k {
		case opMod1:
			l1[o.n] = true
		case opMod2:
			l2[o.n] = true
		case opBrk1:
			if !v.brk() {
				return false
			}
			l1[o.n] = true
		case opBrk2:
			if !v.brk() {
				return false
			}
			l2[o.n] = true
		case opTouch1:
			if !l1[o.n] {
				return false
			}
		case opTouch2:
			if !l2[o.n] || !v.l2ts() {
				return false
			}
		case opDel1:
			if !l1[o.n] {
				return false
			}
			delete(l1, o.n)
		case opDel2:
			if !l2[o.n] {
				return false
			}
			delete(l2, o.n)
		case opRegister:
			if !cache {
				return false
			}
		case opCache0, opDev1:
			cache = false
		case opCache1, opDev0:
			cache = true
		}
	}
	return true
}

// replay runs a history on a fresh world. It returns the world, whether every operation was
// applicable, and the first violation.
func replay(v variant, h []op) (w *world, ok bool, viol string) {
	w = newWorld(v)
	for i, o := range h {
		if !w.applicable(o) {
			return w, false, ""
		}
		if s := w.apply(o); s != "" {
			return w, true, fmt.Sprintf("variant %s, history %v: after %d operation(s), %s", v, h[:i+1], i, s)
		}
	}
	return w, true, ""
}

type detail struct {
	Variant string   `json:"variant"`
	History []string `json:"history"`
}

func mkDetail(v variant, h []op) detail {
	d := detail{Variant: v.String()}
	for _, o := range h {
		d.History = append(d.History, o.String())
	}
	return d
}

func histKey(h []op) string {
	var b strings.Builder
	for i, o := range h {
		if i > 0 {
			b.WriteByte(' ')
		}
		b.WriteString(o.String())
	}
	return b.String()
}

func hasReg(h []op) bool {
	for _, o := range h {
		if o.k == opRegister || o.k == opRegSame {
			return true
		}
	}
	return false
}

func classOf(kinds map[string]int64) string {
	var ks []string
	for k := range kinds {
		ks = append(ks, k)
	}
	sort.Strings(ks)
	return strings.Join(ks, ",")
}

// subtree explores every extension of the prefix up to total length depth (the prefix itself
// included when exact is false and len(prefix) >= 1), shortest first.
func subtree(v variant, prefix []op, depth int) *vlib.Outcome {
	rs := &runStats{kinds: map[string]int64{}}
	o := &vlib.Outcome{Counters: map[string]int64{}}
	// the prefix must be applicable at all
	if !applicableSeq(v, prefix) {
		o.Class = "prefix-not-applicable"
		return o
	}
	h := append([]op{}, prefix...)
	var viol string
	var violHist []op
	var rec func(target int) bool
	rec = func(target int) bool {
		if len(h) == target {
			if v.api() != "str" && !hasReg(h) {
				return true // identical to the "str" variant
			}
			w, ok, s := replay(v, h)
			if !ok {
				return true
			}
			rs.add(w, len(h))
			if s != "" {
				viol, violHist = s, append([]op{}, h...)
				return false
			}
			return true
		}
		for _, a := range alphabetOf(v) {
			h = append(h, a)
			if applicableSeq(v, h) && !rec(target) {
				h = h[:len(h)-1]
				return false
			}
			h = h[:len(h)-1]
		}
		return true
	}
	for target := len(prefix); target <= depth; target++ {
		if !rec(target) {
			break
		}
	}
	o.Counters["histories"] = rs.histories
	o.Counters["transitions"] = rs.transitions
	o.Counters["lookups_checked"] = rs.gets
	o.Counters["lookups_left_open"] = rs.open
	for k, c := range rs.kinds {
		o.Counters["kind_"+k] = c
	}
	o.Class = classOf(rs.kinds)
	o.Nontrivial = rs.gets > 0
	if viol != "" {
		o.Violation = viol
		o.Detail = mkDetail(v, violHist)
	}
	return o
}

// closure enumerates the reference states reachable from the start state breadth-first (reference
// machine only, no engine) and returns the shortest history of each, in BFS order.
// maxDepth > 0: only states whose shortest history has at most that many operations.
func closure(v variant, maxStates, maxDepth int) (hists [][]op, closed bool) {
	start := newWorldOpt(v, false)
	seen := map[string]bool{start.canon(): true}
	hists = [][]op{nil}
	frontier := []*world{start}
	closed = true
	for i := 0; i < len(hists); i++ {
		w := frontier[i]
		frontier[i] = nil
		if i%5000 == 4999 {
			heartbeat()
		}
		if i%500 == 499 && pastDeadline() {
			return nil, false // the cases of these states would not run any more
		}
		if maxDepth > 0 && len(hists[i]) >= maxDepth {
			closed = false
			continue
		}
		for _, a := range alphabetOf(v) {
			if !w.applicable(a) {
				continue
			}
			c := w.cloneModel()
			c.apply(a)
			k := c.canon()
			if seen[k] {
				continue
			}
			if len(hists) >= maxStates {
				closed = false
				continue
			}
			seen[k] = true
			hists = append(hists, append(append([]op{}, hists[i]...), a))
			frontier = append(frontier, c)
		}
	}
	return hists, closed
}

// heartbeat tells the parent process that this worker is alive while it enumerates the reference
// states (the parent treats every output line as a sign of life and ignores lines it does not know).
func heartbeat() {
	if os.Getenv("VLIB_WORKER") != "" {
		fmt.Fprintln(os.Stdout, "# c15: enumerating reference states")
	}
}

// pastDeadline: the framework notices its deadline only between cases; the enumeration of the reference
// states (seconds per worker, much more on an overloaded machine) looks at the clock itself so that a
// run that is over does not go on enumerating. Not an oracle: it only ends the run.
var runEnds time.Time

func pastDeadline() bool { return !runEnds.IsZero() && time.Now().After(runEnds) }

var closureCache = map[string][][]op{}
var closureClosed = map[string]bool{}

func closureOf(v variant, maxStates, maxDepth int) ([][]op, bool) {
	// the reference machine does not depend on the registration API, and the "builtin" and "fs"
	// arrangements have the reference machine of "sep"
	// (and "revfs" that of "rev", "chainfs" that of "chain", "chainfsrev" that of "chainrev")
	mv := variant{Arr: "sep", Start: v.Start, Reg: "str"}
	if v.ext() {
		mv.Reg = "str+x" // the extended alphabet has more reference states
	}
	if v.brk() {
		mv.Reg = "str+b"
	}
	switch {
	case v.three():
		mv.Arr = "sep3"
	case v.chain() && v.l2first():
		mv.Arr = "chainrev"
	case v.chain():
		mv.Arr = "chain"
	case v.l2first():
		mv.Arr = "rev"
	case v.l2ts():
		mv.Arr = "ts2"
	}
	key := fmt.Sprintf("%s|%d|%d", mv, maxStates, maxDepth)
	if h, ok := closureCache[key]; ok {
		return h, closureClosed[key]
	}
	h, c := closure(mv, maxStates, maxDepth)
	closureCache[key], closureClosed[key] = h, c
	return h, c
}

// stateBlock: for each of the given reference states, replay its shortest history on a fresh engine
// and apply every operation of the alphabet to it once.
func stateBlock(v variant, hists [][]op) *vlib.Outcome {
	o := &vlib.Outcome{Counters: map[string]int64{}}
	rs := &runStats{kinds: map[string]int64{}}
	deepest := 0
	for _, h := range hists {
		if len(h) > deepest {
			deepest = len(h)
		}
		for _, a := range alphabetOf(v) {
			nh := append(append([]op{}, h...), a)
			if !applicableSeq(v, nh) {
				continue
			}
			w, _, s := replay(v, nh)
			rs.add(w, len(nh))
			if s != "" {
				o.Violation, o.Detail = s, mkDetail(v, nh)
				break
			}
		}
		if o.Violation != "" {
			break
		}
	}
	o.Counters["bfs_states"] = int64(len(hists))
	o.Counters["bfs_transitions"] = rs.histories
	o.Counters["transitions"] = rs.transitions
	o.Counters["lookups_checked"] = rs.gets
	o.Counters["lookups_left_open"] = rs.open
	for k, c := range rs.kinds {
		o.Counters["kind_"+k] = c
	}
	o.Class = fmt.Sprintf("bfs, shortest history %d: %s", deepest, classOf(rs.kinds))
	o.Nontrivial = rs.gets > 0
	return o
}

// ---------------------------------------------------------------------------------------------

type plan struct {
	v      variant
	depth  int
	prefix int
	late   bool // enumerated after phase B
}

func plans(thorough bool) []plan {
	var ps []plan
	var all []variant
	for _, arr := range []string{"sep", "chain", "builtin"} {
		for _, start := range []string{"seeded", "empty"} {
			for _, reg := range []string{"str", "tpl", "cmp"} {
				all = append(all, variant{arr, start, reg})
			}
		}
	}
	// the timestamp-aware loader registered after a plain one ("rev") and after another timestamp-aware
	// one ("ts2"); start state "late": only the loader registered last has n1
	var later []variant
	for _, arr := range []string{"rev", "ts2"} {
		for _, start := range []string{"late", "seeded", "empty"} {
			later = append(later, variant{arr, start, "str"})
		}
	}
	// a real FileSystemLoader INSIDE a ChainLoader, in front of ("chainfs") and behind ("chainfsrev") the
	// in-memory loader that holds the same names; "chainrev" is the in-memory counterpart of the latter.
	// The file is removed by delL1 and re-created by modL1; with the cache off (cache0, dev1) every lookup
	// must fall through to the first loader that has the name at that moment
	inChain := []variant{
		{"chainfs", "seeded", "str"}, {"chainfs", "empty", "str"},
		{"chainfsrev", "late", "str"}, {"chainfsrev", "seeded", "str"},
		{"chainrev", "late", "str"},
	}
	// the extended alphabet ("+x": registration of text identical to the cached one, content changes in
	// L1 with an equal / older timestamp, with real files of the same / a different length): in memory
	// with the three registration APIs, behind a ChainLoader, and with the real FileSystemLoader alone
	// and in front of L2 inside a ChainLoader
	extQuick := []variant{
		{"sep", "seeded", "str+x"}, {"sep", "seeded", "tpl+x"},
		{"fs", "seeded", "str+x"}, {"chainfs", "seeded", "str+x"},
		// auto-reload already on at the start: registration of identical text, then the loader changes or
		// loses the name (newer / equal / older timestamp), then the lookup — four operations
		{"sep", "seededar", "str+x"},
	}
	// copies that do not parse ("+b"): two loaders in either order, both timestamp-aware, behind a
	// ChainLoader, three loaders (the third always holds a usable copy), a real FileSystemLoader
	brkQuick := []variant{
		{"sep", "seeded", "str+b"}, {"sep3", "seeded", "str+b"}, {"rev", "seeded", "str+b"},
		{"ts2", "seeded", "str+b"}, {"chain", "seeded", "str+b"},
	}
	if thorough {
		for _, v := range all {
			ps = append(ps, plan{v, 5, 3, false})
		}
		ps = append(ps, plan{variant{"fs", "seeded", "str"}, 4, 2, false}, plan{variant{"fs", "empty", "str"}, 4, 2, false})
		for _, v := range later {
			ps = append(ps, plan{v, 5, 3, false})
		}
		ps = append(ps, plan{variant{"revfs", "late", "str"}, 4, 2, false})
		for i, v := range inChain {
			if i == 0 {
				ps = append(ps, plan{v, 5, 3, false}) // chainfs/seeded
			} else {
				ps = append(ps, plan{v, 4, 2, false})
			}
		}
		for _, v := range extQuick[:3] {
			ps = append(ps, plan{v, 5, 3, false})
		}
		for _, v := range []variant{
			extQuick[3], extQuick[4],
			{"sep", "empty", "str+x"}, {"sep", "empty", "tpl+x"}, {"sep", "seeded", "cmp+x"}, {"sep", "empty", "cmp+x"},
			{"chain", "seeded", "str+x"}, {"fs", "empty", "str+x"}, {"chainfs", "empty", "str+x"},
		} {
			ps = append(ps, plan{v, 4, 2, false})
		}
		for i, v := range brkQuick {
			if i < 2 {
				ps = append(ps, plan{v, 5, 3, false}) // sep, sep3
			} else {
				ps = append(ps, plan{v, 4, 2, false})
			}
		}
		for _, v := range []variant{
			{"fs", "seeded", "str+b"}, {"sep3", "late", "str+b"}, {"sep3", "empty", "str+b"}, {"sep", "seededar", "str+b"},
			{"sep", "empty", "str+b"}, {"sep", "seeded", "tpl+b"}, {"sep", "seeded", "cmp+b"}, {"rev", "late", "str+b"},
			{"chainrev", "seeded", "str+b"}, {"builtin", "seeded", "str+b"},
		} {
			ps = append(ps, plan{v, 4, 2, false})
		}
		ps = append(ps, plan{variant{"sep", "seeded", "str"}, 6, 4, true}, plan{variant{"sep", "empty", "str"}, 6, 4, true})
	} else {
		for _, v := range all {
			ps = append(ps, plan{v, 4, 2, false})
		}
		ps = append(ps, plan{variant{"fs", "seeded", "str"}, 3, 2, false}, plan{variant{"fs", "empty", "str"}, 3, 2, false})
		for _, v := range later {
			ps = append(ps, plan{v, 4, 2, false})
		}
		ps = append(ps, plan{variant{"revfs", "late", "str"}, 3, 2, false})
		for _, v := range inChain {
			ps = append(ps, plan{v, 4, 2, false})
		}
		for _, v := range extQuick {
			ps = append(ps, plan{v, 4, 2, false})
		}
		for _, v := range brkQuick {
			ps = append(ps, plan{v, 4, 2, false})
		}
		ps = append(ps, plan{variant{"fs", "seeded", "str+b"}, 3, 2, false})
		// the one depth-5 pass (two fifths of all histories of the tier) comes after phase B, so that a
		// deadline on an overloaded machine cuts it and not the smaller families
		ps = append(ps, plan{variant{"sep", "seeded", "str"}, 5, 3, true})
	}
	return ps
}

type bfsPlan struct {
	v         variant
	maxStates int
	maxDepth  int // > 0: every state within that many operations of the start state (and no others)
}

func bfsPlans(thorough bool) []bfsPlan {
	const all = 1 << 30
	if thorough {
		return []bfsPlan{
			{variant{"sep", "empty", "str"}, all, 0},
			{variant{"chain", "empty", "str"}, all, 0},
			{variant{"sep", "empty", "tpl"}, all, 0},
			{variant{"builtin", "empty", "cmp"}, all, 0},
			{variant{"fs", "empty", "str"}, 20000, 0},
			{variant{"rev", "empty", "str"}, all, 0},
			{variant{"ts2", "late", "str"}, 100000, 0},
			{variant{"revfs", "late", "str"}, 10000, 0},
			{variant{"chainfs", "seeded", "str"}, 20000, 0},
			{variant{"chainfsrev", "late", "str"}, 10000, 0},
			// the extended alphabet
			{variant{"sep", "seeded", "str+x"}, 60000, 0},
			{variant{"sep", "seeded", "tpl+x"}, 20000, 0},
			{variant{"sep", "empty", "cmp+x"}, 20000, 0},
			{variant{"chain", "seeded", "str+x"}, 20000, 0},
			{variant{"fs", "seeded", "str+x"}, 10000, 0},
			{variant{"chainfs", "seeded", "str+x"}, 10000, 0},
			// copies that do not parse
			{variant{"sep", "seeded", "str+b"}, 30000, 0},
			{variant{"sep3", "seeded", "str+b"}, 20000, 0},
			{variant{"ts2", "seeded", "str+b"}, 20000, 0},
			{variant{"rev", "seeded", "str+b"}, 20000, 0},
			{variant{"fs", "seeded", "str+b"}, 5000, 0},
		}
	}
	return []bfsPlan{
		{variant{"sep", "empty", "str"}, 4000, 0},
		{variant{"chain", "empty", "str"}, 4000, 0},
		{variant{"builtin", "seeded", "cmp"}, 1500, 0},
		{variant{"fs", "seeded", "str"}, 600, 0},
		// every state within four operations of the start state (2 269 / 3 015) and then some
		{variant{"rev", "late", "str"}, 2400, 0},
		{variant{"ts2", "late", "str"}, 3200, 0},
		{variant{"revfs", "late", "str"}, 600, 0},
		// every state within four operations of the seeded start state (2 408) and then some
		{variant{"chainfs", "seeded", "str"}, 2500, 0},
		{variant{"chainfsrev", "late", "str"}, 600, 0},
		// the extended alphabet: every state within four (three) operations of the seeded start state
		{variant{"sep", "seeded", "str+x"}, all, 4},
		{variant{"sep", "seeded", "tpl+x"}, all, 4},
		{variant{"fs", "seeded", "str+x"}, all, 3},
		{variant{"chainfs", "seeded", "str+x"}, all, 3},
		// copies that do not parse: every state within four (three) operations of the start state; in
		// "seededar" auto-reload is on from the start, so that "load, the copy becomes unparsable, load
		// (fails), the copy is repaired, load" is one of the histories
		{variant{"sep", "seededar", "str+b"}, all, 4},
		{variant{"sep3", "seeded", "str+b"}, all, 3},
		{variant{"ts2", "seeded", "str+b"}, all, 3},
	}
}

const blockSize = 32

const quickDeadline, thoroughDeadline = 150, 840 // seconds

// only: C15_ONLY=chainfs,chainfsrev restricts a run to the named loader arrangements (a debugging aid:
// the case keys are unchanged, the run is simply a part of the full enumeration).
func only(v variant) bool {
	sel := os.Getenv("C15_ONLY")
	if sel == "" {
		return true
	}
	for _, a := range strings.Split(sel, ",") {
		if a == v.Arr || (a == "+x" && v.ext()) || (a == "+b" && v.brk()) {
			return true
		}
	}
	return false
}

func main() {
	vlib.Main(vlib.Spec{
		ID:    "C15",
		Level: "model_checking",
		Rule: "phase A: every history over the 19-letter alphabet (load/render/render-through-include, register, modify in L1/L2, touch, delete, the six configuration switches; " +
			"two names; a 20th letter, touch in L2, where L2 reports timestamps too; in the \"+x\" variants three or four more letters: registration of text IDENTICAL to what the cache holds for the name, " +
			"new content in L1 with the SAME timestamp, with an OLDER timestamp, and — real files — with the same timestamp and a DIFFERENT length, all other rewrites keeping the file length; in the \"+b\" variants two more letters: the copy of n1 in L1 / in L2 is replaced by text that does NOT PARSE (an unclosed tag; newer timestamp), where the lookup has to fail whenever the first loader that has the name holds such a copy) up to the depth bound, for each loader arrangement (timestamp-aware L1 then plain L2 / ChainLoader / followed by empty built-in loaders / real FileSystemLoader with controlled modification times / " +
			"plain L2 registered BEFORE the timestamp-aware L1, in memory and as a real FileSystemLoader / two timestamp-aware loaders / " +
			"a real FileSystemLoader INSIDE a ChainLoader in front of, and behind, the in-memory loader that holds the same names (delL1 removes the file, modL1 re-creates it) / \"+b\" only: three loaders, the third always holding a usable copy of the name), start state (seeded / empty loaders / only the loader registered last has the name) and registration API " +
			"(RegisterString / RegisterTemplate / RegisterCompiledTemplate), each replayed on a fresh engine and compared step by step with the reference machine; " +
			"phase B: breadth-first search from the start state over the reference states (versions and timestamps reduced to ranks), to closure in the thorough tier. " +
			"family K (k.go): cache on, auto-reload on, two timestamp-aware loaders whose clocks are independent of each other (a put moves the loader's own clock by one or jumps above every time either loader has reported), one name: every string of length 7 (thorough: 8) over put K1 small/jump, put K2 small/jump, remove from K1, render (thorough: and Load), each replayed on a fresh engine and compared at every lookup. " +
			"Non-trivial = the explored subtree contains at least one Load/Render whose result the statement determines",
		Assumptions: []string{
			"histories longer than the depth bound are covered only by phase B, which assumes that the engine's cache state is a function of the reference state and the cache listing",
			"left open by the statement, not demanded: registration while the cache is off; Load of a registered name while the cache is off; with auto-reload on, an entry cached from a loader without timestamps (L2, ChainLoader) whose source changed or that an earlier loader now shadows, and an entry cached from a timestamp-aware loader that is unchanged there while an earlier loader has gained the name (as soon as that loader reports a strictly newer time or loses the name, the reload in registration order is demanded)",
			"outside the \"+x\" variants timestamps only move forward and every content change comes with a newer timestamp; in the \"+x\" variants a content change with an equal or older timestamp is demanded to be served where the statement determines it (cache off, first load, auto-reload off: the entry as it was, registered name: the registration) and left open for an auto-reload lookup of an entry cached from that loader (nothing to go by)",
			"the reference states do not include what a loader may remember about files it has read: such defects are reached by phase A (every history up to the depth bound), not by phase B",
			"\"+b\" variants: a lookup whose first loader that has the name holds a copy that does not parse is demanded to fail (any error), at first load, with the cache off and at reload time; after a reload that failed that way the statement does not say whether the old entry is still cached, so a following lookup with auto-reload off is left open (with auto-reload on both readings read the loaders in registration order, which is demanded)",
			"two names plus one fixed including template, two loaders (plus empty built-in loaders in one arrangement, plus a third loader with a fixed usable copy in the \"sep3\" arrangement); one ChainLoader of two loaders, in both orders",
			"calls are made one after the other: the statement quantifies over sequences of calls; overlapping calls are decided by C02",
		},
		QuickDeadline:    quickDeadline,
		ThoroughDeadline: thoroughDeadline,
		Run:              run,
		Extra: func(tier string, cov map[string]interface{}) {
			cov["states"] = cov["bfs_states"]
			cov["traces_validated_against_impl"] = cov["histories"]
			var bs []string
			for _, p := range plans(tier == "thorough") {
				bs = append(bs, fmt.Sprintf("%s depth<=%d", p.v, p.depth))
			}
			cov["bounds"] = bs
		},
	})
}

func run(t *vlib.T) {
	d := quickDeadline
	if t.Thorough() {
		d = thoroughDeadline
	}
	if n, err := strconv.Atoi(os.Getenv("VERIF_DEADLINE_S")); err == nil {
		d = n
	}
	runEnds = time.Now().Add(time.Duration(d) * time.Second)
	defer func() {
		if scratch != "" {
			os.RemoveAll(scratch)
		}
	}()
	phaseB := func() {
		for _, bp := range bfsPlans(t.Thorough()) {
			bp := bp
			if !only(bp.v) {
				continue
			}
			if t.Stopped() {
				return // past the deadline: do not enumerate reference states for cases that will not run
			}
			hists, closed := closureOf(bp.v, bp.maxStates, bp.maxDepth)
			if hists == nil {
				return // past the deadline
			}
			if bp.maxDepth > 0 && len(hists) < bp.maxStates {
				t.Note(fmt.Sprintf("phase B %s: all %d reference states within %d operations of the start state", bp.v, len(hists), bp.maxDepth))
			} else if closed {
				t.Note(fmt.Sprintf("phase B %s: all %d reference states reached (closure)", bp.v, len(hists)))
			} else {
				t.Note(fmt.Sprintf("phase B %s: the first %d reference states in breadth-first order (cap), longest shortest history %d", bp.v, len(hists), len(hists[len(hists)-1])))
			}
			for i := 0; i < len(hists) && !t.Stopped(); i += blockSize {
				j := i + blockSize
				if j > len(hists) {
					j = len(hists)
				}
				blk := hists[i:j]
				t.Case(fmt.Sprintf("B|%s|states %d..%d", bp.v, i, j-1), func() *vlib.Outcome { return stateBlock(bp.v, blk) })
			}
		}
	}
	phaseA := func(late bool) {
		for _, p := range plans(t.Thorough()) {
			p := p
			if p.late != late || !only(p.v) {
				continue
			}
			var rec func(h []op)
			rec = func(h []op) {
				if t.Stopped() {
					return
				}
				if len(h) >= 1 {
					hh := append([]op{}, h...)
					if len(h) < p.prefix {
						// the history itself
						t.Case(fmt.Sprintf("A|%s|d%d|=%s", p.v, p.depth, histKey(hh)), func() *vlib.Outcome { return subtree(p.v, hh, len(hh)) })
					} else {
						t.Case(fmt.Sprintf("A|%s|d%d|%s…", p.v, p.depth, histKey(hh)), func() *vlib.Outcome { return subtree(p.v, hh, p.depth) })
						return
					}
				}
				for _, a := range alphabetOf(p.v) {
					rec(append(h, a))
				}
			}
			rec(nil)
		}
	}
	familyK(t) // two timestamp-aware loaders with a clock each (k.go); small, so it runs first
	phaseA(false)
	phaseB()
	phaseA(true)
}
