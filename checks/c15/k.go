// Family K — two timestamp-aware loaders with a clock EACH (added for the seeded change C15-K).
//
// Cache on, auto-reload on, loaders K1 and K2 registered in that order, one name. Every put gives the
// loader's copy a new version and a time that is newer than every time that loader has reported before
// (so inside one loader every change comes with a newer timestamp), but the two loaders' times are
// independent of each other: a put either advances the loader's own clock by one ("s": typically far
// BELOW the other loader's times) or jumps above everything either loader has reported ("j").
// Every history of the depth bound over {put K1 s/j, put K2 s/j, remove from K1, render[, load]} is
// replayed on a fresh engine and compared step by step with the reference machine of the statement:
// the first loader in order that has the name serves it; a change in the timestamp-aware loader an entry
// came from (newer time than the one recorded FOR THAT LOADER, or the name gone) is visible to the next
// call, through a read of the loaders in registration order; an unchanged entry is served without any
// loader read.
package main

import (
	"errors"
	"fmt"
	"os"
	"sort"
	"strings"

	"github.com/semihalev/twig"

	"verif/lib/vlib"
)

type kLoader struct {
	tag   string
	has   bool
	ver   int
	mt    int64
	last  int64 // newest time this loader has ever given the name
	loads *int
}

func (l *kLoader) content() string { return fmt.Sprintf("%sv%d", l.tag, l.ver) }

func (l *kLoader) Load(n string) (string, error) {
	if n != kName || !l.has {
		return "", fmt.Errorf("%w: %s", twig.ErrTemplateNotFound, n)
	}
	*l.loads++
	return l.content(), nil
}

func (l *kLoader) Exists(n string) bool { return n == kName && l.has }

func (l *kLoader) GetModifiedTime(n string) (int64, error) {
	if n != kName || !l.has {
		return 0, fmt.Errorf("%w: %s", twig.ErrTemplateNotFound, n)
	}
	return l.mt, nil
}

const kName = "t"

// letters: a = put K1 small step, A = put K1 jump, b = put K2 small step, B = put K2 jump,
// d = remove from K1, r = render, l = Load (thorough only)
const kLettersQuick, kLettersThorough = "aAbBdr", "aAbBdrl"

type kEntry struct {
	ok      bool
	origin  int // 0 = K1, 1 = K2
	mt      int64
	content string
}

// kReplay runs one history on a fresh engine; returns a violation text (or ""), the number of lookups
// compared, the number left open, and the kinds seen.
func kReplay(h string, kinds map[string]int) (viol string, checked int) {
	loads := 0
	ls := [2]*kLoader{{tag: "K1", loads: &loads}, {tag: "K2", loads: &loads}}
	e := twig.New()
	e.SetCache(true)
	e.SetAutoReload(true)
	e.RegisterLoader(ls[0])
	e.RegisterLoader(ls[1])
	ver := 0
	var ent kEntry
	put := func(i int, jump bool) {
		l := ls[i]
		t := l.last + 1
		if jump {
			m := ls[0].last
			if ls[1].last > m {
				m = ls[1].last
			}
			t = m + 10
		}
		ver++
		l.has, l.ver, l.mt, l.last = true, ver, t, t
	}
	first := func() int {
		for i, l := range ls {
			if l.has {
				return i
			}
		}
		return -1
	}
	for step := 0; step < len(h); step++ {
		c := h[step]
		switch c {
		case 'a':
			put(0, false)
			continue
		case 'A':
			put(0, true)
			continue
		case 'b':
			put(1, false)
			continue
		case 'B':
			put(1, true)
			continue
		case 'd':
			ls[0].has = false
			continue
		}
		// lookup: what does the statement demand?
		kind := ""
		wantErr := false
		var want []kEntry // acceptable resulting entries (content is what has to be served)
		noRead := false
		f := first()
		fresh := func() {
			if f < 0 {
				wantErr = true
			} else {
				want = []kEntry{{true, f, ls[f].mt, ls[f].content()}}
			}
		}
		switch {
		case !ent.ok:
			kind = "first-load"
			fresh()
		case !ls[ent.origin].has:
			kind = "reload-origin-lost-name"
			fresh()
		case ls[ent.origin].mt > ent.mt:
			kind = "reload-newer"
			if f != ent.origin {
				kind = "reload-newer-earlier-loader-wins"
			}
			fresh()
		case f != ent.origin:
			// unchanged in the loader it came from, shadowed by the earlier loader: the statement's two
			// clauses pull in different directions; either reading is accepted and the observation decides
			kind = "open-unchanged-shadowed"
			want = []kEntry{ent, {true, f, ls[f].mt, ls[f].content()}}
		default:
			kind = "unchanged-not-reread"
			want = []kEntry{ent}
			noRead = true
		}
		if wantErr {
			kind += "-missing"
		}
		kinds[kind]++
		loads0 := loads
		var out string
		var err error
		if c == 'r' {
			out, err = e.Render(kName, nil)
		} else {
			var tm *twig.Template
			tm, err = e.Load(kName)
			if err == nil {
				out, err = tm.Render(nil)
			}
		}
		checked++
		where := fmt.Sprintf("family K, history %q step %d (%c, %s): K1=%s K2=%s, entry before=%+v", h, step+1, c, kind, kShow(ls[0]), kShow(ls[1]), ent)
		if wantErr {
			if err == nil {
				return fmt.Sprintf("%s: no loader has the name, got %q instead of an error", where, out), checked
			}
			if !errors.Is(err, twig.ErrTemplateNotFound) {
				return fmt.Sprintf("%s: error does not match ErrTemplateNotFound: %v", where, err), checked
			}
			continue // the cache is unchanged: ent stays
		}
		if err != nil {
			return fmt.Sprintf("%s: unexpected error %v", where, err), checked
		}
		hit := -1
		for i, w := range want {
			if out == w.content {
				hit = i
				break
			}
		}
		if hit < 0 {
			var ws []string
			for _, w := range want {
				ws = append(ws, w.content)
			}
			return fmt.Sprintf("%s: got %q, want %s", where, out, strings.Join(ws, " or ")), checked
		}
		if noRead && loads != loads0 {
			return fmt.Sprintf("%s: unchanged template was re-read (%d loader reads)", where, loads-loads0), checked
		}
		ent = want[hit]
	}
	return "", checked
}

func kShow(l *kLoader) string {
	if !l.has {
		return "-"
	}
	return fmt.Sprintf("%s@%d", l.content(), l.mt)
}

const kPrefix = 3

func familyK(t *vlib.T) {
	if sel := os.Getenv("C15_ONLY"); sel != "" && !strings.Contains(","+sel+",", ",K,") {
		return
	}
	letters, depth := kLettersQuick, 7
	if t.Thorough() {
		letters, depth = kLettersThorough, 8
	}
	var rec func(p string)
	rec = func(p string) {
		if t.Stopped() {
			return
		}
		if len(p) == kPrefix {
			t.Case(fmt.Sprintf("K|ts2clocks|d%d|%s…", depth, p), func() *vlib.Outcome { return kSubtree(t, p, letters, depth) })
			return
		}
		for i := 0; i < len(letters); i++ {
			rec(p + string(letters[i]))
		}
	}
	rec("")
}

func kSubtree(t *vlib.T, prefix, letters string, depth int) *vlib.Outcome {
	kinds := map[string]int{}
	o := &vlib.Outcome{Counters: map[string]int64{}}
	buf := []byte(prefix)
	var rec func()
	n := 0
	rec = func() {
		if o.Violation != "" {
			return
		}
		if len(buf) == depth {
			n++
			if n%512 == 0 {
				t.Progress()
			}
			v, checked := kReplay(string(buf), kinds)
			o.Counters["histories"]++
			o.Counters["transitions"] += int64(depth)
			o.Counters["lookups_checked"] += int64(checked)
			if v != "" {
				o.Violation = v
				o.Detail = map[string]string{"family": "K", "history": string(buf), "letters": "a/A put K1 small/jump, b/B put K2 small/jump, d remove from K1, r render, l load"}
			}
			return
		}
		for i := 0; i < len(letters); i++ {
			buf = append(buf, letters[i])
			rec()
			buf = buf[:len(buf)-1]
		}
	}
	rec()
	var ks []string
	for k, c := range kinds {
		o.Counters["kind_K_"+k] += int64(c)
		ks = append(ks, k)
	}
	o.Nontrivial = len(kinds) > 0
	sort.Strings(ks)
	o.Class = "K:" + strings.Join(ks, ",")
	return o
}
