// C06 — a sandboxed include can never run a filter or function the policy forbids.
//
// Bounded-exhaustive enumeration of (position of the forbidden name) x (route from the sandbox
// boundary to the template holding that position, all compositions up to a depth bound) x (policy)
// x (form of the boundary tag) x (which name is forbidden). Every program is rendered on a fresh
// engine whose forbidden filter / function are instrumented with invocation counters:
//
//	A. the forbidden program under the policy: the callbacks must never run with a value that
//	   comes from inside the sandbox; when the position is evaluated the render must fail with an
//	   error for which errors.As(*twig.SecurityViolation) holds; the includer's own calls of the same
//	   filter and function before the sandboxed include must have run;
//	B. the twin program (an allowed filter / function in the same position): must render the
//	   expected text, including the includer's calls of the forbidden names before and after the
//	   sandboxed include (permissions do not leak outwards);
//	C. the forbidden program under an allow-everything policy: must render the expected text and
//	   the callback must have run inside (the position is really reached — non-triviality guard).
//
// A and B are rendered twice on the same engine (nothing sticks between renders).
//
// The function form is also written behind a receiver (_self.G(…), nothing.G(…), rv.G(…), lm.G(…)),
// and a second family (runHist) changes the policy between renders on one engine: what an earlier
// render was allowed to do must not survive the policy forbidding it, and the other way round.
//
// A third family (runBuiltin, keys bi/…) forbids the engine's OWN built-in functions and filters, one
// at a time (default policy minus that name), without re-registering them: the real built-in with real
// arguments stands in every position where its value fits — in particular directly as the sequence of
// a for loop, as a condition, as a set value and as an argument. There is no counter to look at, so the
// observation is the output: the render must fail with a security violation and nothing of the
// built-in's result may have been written below the sandbox boundary. Its function usages are extended
// by probing the tree under test (discoverFunctions): every name a fresh engine can call as a function
// without a usage written for it here — count, which the evaluator serves without a registered function.
//
// A fourth family (runPanicHist, keys panic/…) puts renders that PANIC in host code (a filter / function
// registered by the harness panics inside an included partial, a macro, an extended parent, a parent block;
// the harness recovers around Render) in front of the sandboxed renders on the same engine, over and over:
// whatever an abandoned render leaves behind in the process, the forbidden callback must never run.
package main

import (
	"bytes"
	"errors"
	"fmt"
	"regexp"
	"runtime"
	"runtime/debug"
	"sort"
	"strings"
	"sync"

	"github.com/semihalev/twig"

	"verif/lib/vlib"
)

// ---- positions

// A position is a template snippet with a hole. @H is an expression whose value is 'v' when the
// hole is filled with an identity filter/function; @L is one whose value is the list ['v','w'];
// @F is a bare filter name (filter form only).
type position struct {
	name     string
	snippet  string
	out      string // what the snippet renders when the hole is an identity
	needsTop bool   // defines a macro: must stand at the top level of a template
	// liveness: "live" = evaluating the snippet necessarily evaluates the hole;
	// "dead" = it necessarily does not; "open" = the statements do not say (macro default expressions)
	live string
	form string // "" both forms, "filter" filter form only
}

var positions = []position{
	{name: "print", snippet: "{{ @H }}", out: "v", live: "live"},
	{name: "paren", snippet: "{{ (@H) }}", out: "v", live: "live"},
	{name: "chain-first", snippet: "{{ @H|okf }}", out: "v", live: "live"},
	{name: "chain-last", snippet: "{{ 'v'|okf|@F }}", out: "v", live: "live", form: "filter"},
	{name: "chain-middle", snippet: "{{ 'v'|okf|@F|okf }}", out: "v", live: "live", form: "filter"},
	{name: "chain-third", snippet: "{{ 'v'|okf|okf|@F }}", out: "v", live: "live", form: "filter"},
	{name: "chain-builtin", snippet: "{{ ['v','w']|@F|join('') }}", out: "vw", live: "live", form: "filter"},
	{name: "with-args", snippet: "{{ 'v'|@F('x', 1)|okf }}", out: "v", live: "live", form: "filter"},
	{name: "filter-arg", snippet: "{{ null|default(@H) }}", out: "v", live: "live"},
	{name: "func-arg", snippet: "{{ ok(@H) }}", out: "v", live: "live"},
	{name: "nested-call", snippet: "{{ ok(ok(@H)|okf) }}", out: "v", live: "live"},
	{name: "if-cond", snippet: "{% if @H %}y{% else %}n{% endif %}", out: "y", live: "live"},
	{name: "if-not", snippet: "{% if not (@H) %}n{% else %}y{% endif %}", out: "y", live: "live"},
	{name: "elseif-cond", snippet: "{% if false %}n{% elseif @H %}y{% endif %}", out: "y", live: "live"},
	{name: "ternary-cond", snippet: "{{ (@H) ? 'y' : 'n' }}", out: "y", live: "live"},
	{name: "ternary-then", snippet: "{{ true ? (@H) : 'n' }}", out: "v", live: "live"},
	{name: "ternary-else", snippet: "{{ false ? 'n' : (@H) }}", out: "v", live: "live"},
	{name: "and-rhs", snippet: "{{ (true and (@H)) ? 'y' : 'n' }}", out: "y", live: "live"},
	{name: "or-rhs", snippet: "{{ (false or (@H)) ? 'y' : 'n' }}", out: "y", live: "live"},
	{name: "concat", snippet: "{{ (@H) ~ 'x' }}", out: "vx", live: "live"},
	{name: "array-element", snippet: "{{ [@H, 'w']|join('') }}", out: "vw", live: "live"},
	{name: "hash-value", snippet: "{{ {'k': @H}['k'] }}", out: "v", live: "live"},
	{name: "hash-key", snippet: "{{ {(@H): 'x'}|length }}", out: "1", live: "live"},
	{name: "index", snippet: "{{ {'v': 'iv'}[@H] }}", out: "iv", live: "live"},
	{name: "set-value", snippet: "{% set q = @H %}{{ q }}", out: "v", live: "live"},
	{name: "do", snippet: "{% do @H %}", out: "", live: "live"},
	{name: "for-sequence", snippet: "{% for i in @L %}{{ i }}{% endfor %}", out: "vw", live: "live"},
	{name: "for-body", snippet: "{% for i in ['a', 'b'] %}{{ @H }}{% endfor %}", out: "vv", live: "live"},
	{name: "for-else", snippet: "{% for i in [] %}n{% else %}{{ @H }}{% endfor %}", out: "v", live: "live"},
	{name: "apply", snippet: "{% apply @F %}v{% endapply %}", out: "v", live: "live", form: "filter"},
	{name: "spaceless", snippet: "{% spaceless %}<a> {{ @H }} </a>  <b></b>{% endspaceless %}", out: "<a> v </a><b></b>", live: "live"},
	{name: "include-with", snippet: "{% include 'leaf' with {'x': @H} %}", out: "Lv", live: "live"},
	{name: "include-name", snippet: "{% include 'lea' ~ (@H1) %}", out: "L", live: "live"},
	{name: "macro-arg", snippet: "{% macro pm(p) %}<{{ p }}>{% endmacro %}{{ _self.pm(@H) }}", out: "<v>", live: "live", needsTop: true},
	{name: "macro-default", snippet: "{% macro pd(p = @H) %}<{{ p }}>{% endmacro %}{{ _self.pd() }}", out: "<v>", live: "open", needsTop: true},
	{name: "dead-if", snippet: "{% if false %}{{ @H }}{% endif %}d", out: "d", live: "dead"},
	{name: "dead-ternary", snippet: "{{ false ? (@H) : 'd' }}", out: "d", live: "dead"},
	{name: "dead-and", snippet: "{{ (false and (@H)) ? 'y' : 'd' }}", out: "d", live: "dead"},
	{name: "dead-for", snippet: "{% for i in [] %}{{ @H }}{% endfor %}d", out: "d", live: "dead"},
}

// A receiver turns the function form name(...) into the call form recv.name(...). Whether such a
// call (with no macro of that name in the receiver or in scope) invokes the engine function `name` is
// decided per case by the control run; when it does, it is a function invocation like any other and
// the policy governs it.
type receiver struct {
	name    string
	prelude string // put in front of the position's snippet (literals only)
	expr    string
}

var receivers = []receiver{
	{name: "none"},
	{name: "_self", expr: "_self"},
	{name: "undefined-variable", expr: "nothing"},
	{name: "string-variable", prelude: "{% set rv = 'z' %}", expr: "rv"},
	{name: "hash-variable", prelude: "{% set rh = {'a': 1} %}", expr: "rh"},
	{name: "module-without-that-macro", prelude: "{% import 'modr' as lm %}", expr: "lm"},
}

const receiverModule = "{% macro other() %}x{% endmacro %}" // template 'modr'

// fill puts a filter or function named `name` into the hole. fn selects the function form, recv
// (function form only) the receiver the call is written behind.
func fill(p position, fn bool, recv int, name string) string {
	s := p.snippet
	if fn {
		if recv > 0 {
			name = receivers[recv].expr + "." + name
			s = receivers[recv].prelude + s
		}
		s = strings.ReplaceAll(s, "@H1", name+"('f')")
		s = strings.ReplaceAll(s, "@H", name+"('v')")
		s = strings.ReplaceAll(s, "@L", name+"(['v', 'w'])")
	} else {
		s = strings.ReplaceAll(s, "@H1", "'f'|"+name)
		s = strings.ReplaceAll(s, "@H", "'v'|"+name)
		s = strings.ReplaceAll(s, "@L", "['v', 'w']|"+name)
		s = strings.ReplaceAll(s, "@F", name)
	}
	return s
}

// ---- routes

type layer struct {
	snippet string
	tmpls   map[string]string
	l, r    string // rendered text = l + inner + r
	discard bool   // … unless the inner text is discarded (rendered text = l + r)
}

type route struct {
	name       string
	needsWhole bool // its snippet has to be a whole template (it starts with extends)
	needsTop   bool // its snippet has to stand at the top level of a template (it defines macros)
	givesWhole bool // the payload becomes a whole template
	givesTop   bool // the payload stands at the top level of a template
	open       bool // whether the payload is evaluated at all is not fixed by the statement
	apply      func(d string, payload string) layer
}

var routes = []route{
	{name: "include", givesWhole: true, givesTop: true, apply: func(d, p string) layer {
		return layer{snippet: "{% include 'p" + d + "' %}", tmpls: map[string]string{"p" + d: p}}
	}},
	{name: "include-only", givesWhole: true, givesTop: true, apply: func(d, p string) layer {
		return layer{snippet: "{% include 'p" + d + "' only %}", tmpls: map[string]string{"p" + d: p}}
	}},
	{name: "include-with", givesWhole: true, givesTop: true, apply: func(d, p string) layer {
		return layer{snippet: "{% include 'p" + d + "' with {'w': 1} %}", tmpls: map[string]string{"p" + d: p}}
	}},
	{name: "extends-body", needsWhole: true, apply: func(d, p string) layer {
		return layer{snippet: "{% extends 'e" + d + "' %}", tmpls: map[string]string{"e" + d: "<" + p + ">"}, l: "<", r: ">"}
	}},
	{name: "extends-block-default", needsWhole: true, apply: func(d, p string) layer {
		return layer{snippet: "{% extends 'e" + d + "' %}", tmpls: map[string]string{"e" + d: "[{% block k" + d + " %}" + p + "{% endblock %}]"}, l: "[", r: "]"}
	}},
	{name: "extends-override", needsWhole: true, apply: func(d, p string) layer {
		return layer{snippet: "{% extends 'e" + d + "' %}{% block k" + d + " %}" + p + "{% endblock %}", tmpls: map[string]string{"e" + d: "[{% block k" + d + " %}{% endblock %}]"}, l: "[", r: "]"}
	}},
	{name: "parent()", needsWhole: true, apply: func(d, p string) layer {
		return layer{snippet: "{% extends 'e" + d + "' %}{% block k" + d + " %}({{ parent() }}){% endblock %}", tmpls: map[string]string{"e" + d: "[{% block k" + d + " %}" + p + "{% endblock %}]"}, l: "[(", r: ")]"}
	}},
	{name: "import", apply: func(d, p string) layer {
		return layer{snippet: "{% import 'l" + d + "' as l" + d + " %}{{ l" + d + ".mg" + d + "() }}", tmpls: map[string]string{"l" + d: "{% macro mg" + d + "() %}" + p + "{% endmacro %}"}}
	}},
	{name: "from-import", apply: func(d, p string) layer {
		return layer{snippet: "{% from 'l" + d + "' import mg" + d + " %}{{ mg" + d + "() }}", tmpls: map[string]string{"l" + d: "{% macro mg" + d + "() %}" + p + "{% endmacro %}"}}
	}},
	{name: "import-toplevel", givesTop: true, open: true, apply: func(d, p string) layer {
		// the body of an imported template outside its macros: the engine renders it (into nothing) to collect the macros
		return layer{snippet: "{% import 'l" + d + "' as l" + d + " %}{{ l" + d + ".mg" + d + "() }}", tmpls: map[string]string{"l" + d: p + "{% macro mg" + d + "() %}x{% endmacro %}"}, l: "x", discard: true}
	}},
	{name: "from-import-toplevel", givesTop: true, open: true, apply: func(d, p string) layer {
		return layer{snippet: "{% from 'l" + d + "' import mg" + d + " %}{{ mg" + d + "() }}", tmpls: map[string]string{"l" + d: p + "{% macro mg" + d + "() %}x{% endmacro %}"}, l: "x", discard: true}
	}},
	{name: "self-macro", needsTop: true, apply: func(d, p string) layer {
		return layer{snippet: "{% macro mg" + d + "() %}" + p + "{% endmacro %}{{ _self.mg" + d + "() }}"}
	}},
	{name: "macro-calls-macro", needsTop: true, apply: func(d, p string) layer {
		return layer{snippet: "{% macro mg" + d + "() %}" + p + "{% endmacro %}{% macro mh" + d + "() %}({{ _self.mg" + d + "() }}){% endmacro %}{{ _self.mh" + d + "() }}", l: "(", r: ")"}
	}},
	{name: "include-in-loop", givesWhole: true, givesTop: true, apply: func(d, p string) layer {
		return layer{snippet: "{% for z" + d + " in [1] %}{% include 'p" + d + "' %}{% endfor %}", tmpls: map[string]string{"p" + d: p}}
	}},
	{name: "include-in-block", givesWhole: true, givesTop: true, apply: func(d, p string) layer {
		return layer{snippet: "{% block w" + d + " %}{% include 'p" + d + "' only %}{% endblock %}", tmpls: map[string]string{"p" + d: p}}
	}},
	{name: "include-in-apply", givesWhole: true, givesTop: true, apply: func(d, p string) layer {
		return layer{snippet: "{% apply okf %}{% include 'p" + d + "' %}{% endapply %}", tmpls: map[string]string{"p" + d: p}}
	}},
}

// compose applies routes[path[0]] (just below the sandbox boundary) … routes[path[n-1]] (holding the
// position). ok=false: the nesting is not expressible (extends must open a template, macros are
// defined at the top level of a template).
func compose(path []int, pos position, snippet string) (sb string, tmpls map[string]string, out string, ok bool) {
	tmpls = map[string]string{}
	payload, needsWhole, needsTop := snippet, false, pos.needsTop
	out = pos.out
	for i := len(path) - 1; i >= 0; i-- {
		r := routes[path[i]]
		if (needsWhole && !r.givesWhole) || (needsTop && !r.givesTop) {
			return "", nil, "", false
		}
		ly := r.apply(fmt.Sprint(i+1), payload)
		for k, v := range ly.tmpls {
			tmpls[k] = v
		}
		payload, needsWhole, needsTop = ly.snippet, r.needsWhole, r.needsTop
		if ly.discard {
			out = ""
		}
		out = ly.l + out + ly.r
	}
	return payload, tmpls, out, true
}

// ---- policies

type queryPolicy struct { // hand-written implementation of the interface: an allow-list that counts its queries
	filters, functions map[string]bool
	queries            map[string]int
}

func (p *queryPolicy) IsFunctionAllowed(n string) bool { p.queries["fn:"+n]++; return p.functions[n] }
func (p *queryPolicy) IsFilterAllowed(n string) bool   { p.queries["fl:"+n]++; return p.filters[n] }
func (p *queryPolicy) IsTagAllowed(string) bool        { return true }

type allowAll struct{}

func (allowAll) IsFunctionAllowed(string) bool { return true }
func (allowAll) IsFilterAllowed(string) bool   { return true }
func (allowAll) IsTagAllowed(string) bool      { return true }

type denyAll struct{}

func (denyAll) IsFunctionAllowed(string) bool { return false }
func (denyAll) IsFilterAllowed(string) bool   { return false }
func (denyAll) IsTagAllowed(string) bool      { return false }

const (
	polDefault = iota // twig.NewDefaultSecurityPolicy() plus what the programs need, minus the forbidden name
	polQuery          // hand-written allow-list (only what the programs need), counts its queries
	polDeny           // nothing is allowed
	nPolicies
)

var policyLabel = [nPolicies]string{"default+", "allowlist", "denyall"}

// names the routes and positions call as functions (whether a macro call or parent() is a "function"
// in the sense of the policy is not fixed by the statement, so they are always allowed)
func neededFunctions() []string {
	fs := []string{"ok", "parent", "pm", "pd"}
	for d := 1; d <= 3; d++ {
		fs = append(fs, fmt.Sprintf("mg%d", d), fmt.Sprintf("mh%d", d))
	}
	return fs
}

var neededFilters = []string{"okf", "default", "join", "length", "spaceless"}

func makePolicy(kind int, forbiddenFilter, forbiddenFunction string) (twig.SecurityPolicy, *queryPolicy) {
	switch kind {
	case polDefault:
		p := twig.NewDefaultSecurityPolicy()
		for _, f := range neededFunctions() {
			p.AllowedFunctions[f] = true
		}
		for _, f := range neededFilters {
			p.AllowedFilters[f] = true
		}
		delete(p.AllowedFilters, forbiddenFilter)
		delete(p.AllowedFunctions, forbiddenFunction)
		return p, nil
	case polQuery:
		p := &queryPolicy{filters: map[string]bool{}, functions: map[string]bool{}, queries: map[string]int{}}
		for _, f := range neededFunctions() {
			p.functions[f] = true
		}
		for _, f := range neededFilters {
			p.filters[f] = true
		}
		return p, p
	}
	return denyAll{}, nil
}

// ---- case

// boundary: how the sandboxed include is written in the including template
var boundaries = []string{
	"{% include 'sb' sandboxed %}",
	"{% include 'sb' only sandboxed %}",
	"{% include 'sb' with {'w': 2} sandboxed %}",
	"{% include 'sb' ignore missing with {'w': 2} only sandboxed %}",
	"{% for s in [1] %}{% include 'sb' sandboxed %}{% endfor %}",
}

// forbidden names: a custom filter/function, or a built-in name (re-registered with a counting
// callback) that the policy does not list
var forbiddenFilters = []string{"F", "upper"}
var forbiddenFunctions = []string{"G", "max"}

type cas struct {
	pos      int
	fn       bool // function form
	recv     int  // function form only: index into receivers (0 = plain call)
	builtin  int  // index into forbiddenFilters / forbiddenFunctions
	path     []int
	policy   int
	boundary int
}

func (c cas) key() string {
	f := "fl"
	if c.fn {
		f = "fn"
	}
	if c.recv > 0 {
		f = fmt.Sprintf("fn.x%d.", c.recv)
	}
	return fmt.Sprintf("%s/%s%d/r%s/P%d/b%d", positions[c.pos].name, f, c.builtin, pathKey(c.path), c.policy, c.boundary)
}

func pathKey(path []int) string {
	ps := make([]string, len(path))
	for i, r := range path {
		ps[i] = fmt.Sprint(r)
	}
	return strings.Join(ps, ".")
}

type counters struct{ inside, outside int }

type engineUnderTest struct {
	e      *twig.Engine
	fl, fn counters // invocations of the forbidden filter / function
	qp     *queryPolicy
}

// newEngine registers templates and the instrumented callbacks. Values coming from the including
// template are 'o'; everything else reaching a forbidden callback comes from inside the sandbox.
func newEngine(pol twig.SecurityPolicy, qp *queryPolicy, ffl, ffn string, tmpls map[string]string) (*engineUnderTest, error) {
	u := &engineUnderTest{e: twig.New(), qp: qp}
	u.e.EnableSandbox(pol)
	count := func(c *counters, v interface{}) {
		if s, ok := v.(string); ok && s == "o" {
			c.outside++
		} else {
			c.inside++
		}
	}
	u.e.AddFilter(ffl, func(v interface{}, a ...interface{}) (interface{}, error) { count(&u.fl, v); return v, nil })
	u.e.AddFunction(ffn, func(a ...interface{}) (interface{}, error) {
		if len(a) == 0 {
			u.fn.inside++
			return nil, nil
		}
		count(&u.fn, a[0])
		return a[0], nil
	})
	u.e.AddFilter("okf", func(v interface{}, a ...interface{}) (interface{}, error) { return v, nil })
	u.e.AddFunction("ok", func(a ...interface{}) (interface{}, error) { return a[0], nil })
	names := make([]string, 0, len(tmpls))
	for n := range tmpls {
		names = append(names, n)
	}
	sort.Strings(names)
	for _, n := range names {
		if err := u.e.RegisterString(n, tmpls[n]); err != nil {
			return nil, fmt.Errorf("template %s = %q does not parse: %v", n, tmpls[n], err)
		}
	}
	return u, nil
}

func describe(tmpls map[string]string) string {
	names := make([]string, 0, len(tmpls))
	for n := range tmpls {
		names = append(names, n)
	}
	sort.Strings(names)
	var b strings.Builder
	for _, n := range names {
		fmt.Fprintf(&b, "\n    %s: %s", n, tmpls[n])
	}
	return b.String()
}

// buildProgram returns the templates of one program (main = the includer with the sandboxed include,
// plain = the same without the word sandboxed) and the text main renders when nothing is refused.
func buildProgram(pos position, fn bool, recv int, path []int, boundary int, ffl, ffn, name string) (map[string]string, string) {
	sb, tmpls, out, ok := compose(path, pos, fill(pos, fn, recv, name))
	if !ok {
		panic("compose: invalid path reached buildProgram")
	}
	tmpls["sb"] = sb
	tmpls["leaf"] = "L{{ x }}"
	tmpls["modr"] = receiverModule
	tmpls["main"] = "{{ 'o'|" + ffl + " }}{{ " + ffn + "('o') }}[" + boundaries[boundary] + "]{{ 'o'|" + ffl + " }}{{ " + ffn + "('o') }}"
	tmpls["plain"] = strings.Replace(tmpls["main"], " sandboxed", "", 1) // the same program without the sandbox
	return tmpls, "oo[" + out + "]oo"
}

func runCase(c cas) *vlib.Outcome {
	pos := positions[c.pos]
	ffl, ffn := forbiddenFilters[c.builtin], forbiddenFunctions[c.builtin]
	forbidden, allowed := ffl, "okf"
	if c.fn {
		forbidden, allowed = ffn, "ok"
	}
	o := &vlib.Outcome{Counters: map[string]int64{}}
	if c.recv > 0 {
		o.Counters[fmt.Sprintf("cases_grid_receiver_forms_depth%d", len(c.path))]++
	} else {
		o.Counters[fmt.Sprintf("cases_grid_depth%d", len(c.path))]++
	}
	routeNames := make([]string, len(c.path))
	live := pos.live
	for i, r := range c.path {
		routeNames[i] = routes[r].name
		if routes[r].open && live == "live" {
			live = "open"
		}
	}
	formLabel := map[bool]string{false: "filter", true: "function"}[c.fn] + " form"
	if c.recv > 0 {
		formLabel = "function form behind the receiver " + receivers[c.recv].name + " (" + receivers[c.recv].expr + "." + forbidden + "(…))"
	}
	label := fmt.Sprintf("position %s (%s, forbidden name %s), route [%s], policy %s", pos.name, formLabel, forbidden, strings.Join(routeNames, " > "), policyLabel[c.policy])

	build := func(name string) (map[string]string, string) {
		return buildProgram(pos, c.fn, c.recv, c.path, c.boundary, ffl, ffn, name)
	}
	fail := func(run string, tmpls map[string]string, format string, args ...interface{}) *vlib.Outcome {
		o.Violation = label + ", " + run + ": " + fmt.Sprintf(format, args...) + describe(tmpls)
		o.Detail = map[string]interface{}{"templates": tmpls, "run": run}
		return o
	}
	renderT := func(u *engineUnderTest, name string) (string, error) {
		o.Counters["renders"]++
		u.fl, u.fn = counters{}, counters{}
		return u.e.Render(name, map[string]interface{}{"w": 0})
	}
	render := func(u *engineUnderTest) (string, error) { return renderT(u, "main") }

	// C. control: everything allowed — the position is reached and the program means what I think it means
	tmplsF, want := build(forbidden)
	u, err := newEngine(allowAll{}, nil, ffl, ffn, tmplsF)
	if err != nil {
		return fail("control run (allow-all policy)", tmplsF, "%v", err)
	}
	out, err := render(u)
	reached := u.fl.inside+u.fn.inside > 0
	if c.recv > 0 && live != "dead" && !reached {
		// the statement does not say that recv.name(…) is a call of the function `name`: where the engine
		// does not take it for one even with everything allowed, there is nothing to confine
		o.Class = "receiver-form-is-not-a-function-call"
		return o
	}
	if err != nil || out != want {
		return fail("control run (allow-all policy)", tmplsF, "got %q, %v; want %q", out, err, want)
	}
	if live == "live" && !reached {
		return fail("control run (allow-all policy)", tmplsF, "the forbidden callback was not invoked from inside, so the position is not reached (harness error)")
	}
	if live == "dead" && reached {
		return fail("control run (allow-all policy)", tmplsF, "the forbidden callback was invoked although the position is never evaluated")
	}
	o.Nontrivial = reached

	// A. the forbidden program under the policy, twice on one engine
	pol, qp := makePolicy(c.policy, ffl, ffn)
	u, err = newEngine(pol, qp, ffl, ffn, tmplsF)
	if err != nil {
		return fail("sandboxed run", tmplsF, "%v", err)
	}
	class := ""
	for pass := 1; pass <= 2; pass++ {
		// first the same program without `sandboxed` on the same engine: it must run with full permissions
		// (nothing of an earlier sandboxed render sticks), and the sandboxed render that follows must not
		// inherit anything from it
		run := fmt.Sprintf("unsandboxed render %d of the same program on the same engine", pass)
		out, err := renderT(u, "plain")
		if err != nil || out != want {
			return fail(run, tmplsF, "got %q, %v; want %q", out, err, want)
		}
		if (u.fl.inside+u.fn.inside > 0) != reached || u.fl.outside != 2 || u.fn.outside != 2 {
			return fail(run, tmplsF, "callback invocations: inside %d+%d (control run reached the position: %v), outside %d/%d, want 2/2", u.fl.inside, u.fn.inside, reached, u.fl.outside, u.fn.outside)
		}

		run = fmt.Sprintf("sandboxed run, render %d", pass)
		out, err = render(u)
		if u.fl.inside+u.fn.inside > 0 {
			return fail(run, tmplsF, "the forbidden %s ran inside the sandbox (%d filter / %d function invocations); render returned %q, %v", forbidden, u.fl.inside, u.fn.inside, out, err)
		}
		var sv *twig.SecurityViolation
		switch {
		case err != nil && !errors.As(err, &sv):
			return fail(run, tmplsF, "the render failed with an error that is not a security violation: %v", err)
		case err == nil && live == "live":
			return fail(run, tmplsF, "the render succeeded (%q) although the forbidden %s stands in an evaluated position", out, forbidden)
		case err == nil && out != want:
			return fail(run, tmplsF, "got %q, want %q", out, want)
		}
		// the includer's own calls ran (it keeps its permissions): the two before the sandboxed include,
		// and the two after it when the include did not fail
		wantOutside := 1
		if err == nil {
			wantOutside = 2
		}
		if u.fl.outside != wantOutside || u.fn.outside != wantOutside {
			return fail(run, tmplsF, "the including template's own calls: filter ran %d times, function %d times, want %d each (render returned %q, %v)", u.fl.outside, u.fn.outside, wantOutside, out, err)
		}
		pc := "violation"
		if err == nil {
			pc = "ok"
		}
		if pass == 2 && pc != class {
			return fail(run, tmplsF, "first render: %s, second render: %s", class, pc)
		}
		class = pc
	}
	if qp != nil && class == "violation" {
		// the interface is what is consulted: the hand-written policy was asked about the forbidden name,
		// or refused something earlier on the route
		asked := qp.queries["fl:"+forbidden]+qp.queries["fn:"+forbidden] > 0
		if !asked {
			return fail("sandboxed run", tmplsF, "a security violation was reported but the policy object was never asked about %s (queries: %v)", forbidden, qp.queries)
		}
	}
	o.Class = live + "/" + policyLabel[c.policy] + "/" + class
	if c.recv > 0 {
		o.Class = "receiver/" + o.Class
	}

	// B. the twin: an allowed name in the same position keeps working, and so does the includer afterwards
	if c.policy != polDeny {
		tmplsT, wantT := build(allowed)
		u, err = newEngine(pol, qp, ffl, ffn, tmplsT)
		if err != nil {
			return fail("twin run (allowed name in the same position)", tmplsT, "%v", err)
		}
		for pass := 1; pass <= 2; pass++ {
			run := fmt.Sprintf("twin run (allowed name in the same position), render %d", pass)
			out, err := render(u)
			if err != nil || out != wantT {
				return fail(run, tmplsT, "got %q, %v; want %q", out, err, wantT)
			}
			if u.fl.outside != 2 || u.fn.outside != 2 || u.fl.inside+u.fn.inside != 0 {
				return fail(run, tmplsT, "the including template's own calls of %s/%s: %d/%d outside, %d inside; want 2/2 and 0", ffl, ffn, u.fl.outside, u.fn.outside, u.fl.inside+u.fn.inside)
			}
		}
	}
	return o
}

// ---- history family: the policy changes between renders on ONE engine

// switchPolicy is a stateful hand-written policy: an allow-list plus extra names that are allowed only
// while `on` is set.
type switchPolicy struct {
	base  *queryPolicy
	extra map[string]bool
	on    bool
}

func (p *switchPolicy) IsFunctionAllowed(n string) bool {
	return p.base.IsFunctionAllowed(n) || (p.on && p.extra["fn:"+n])
}
func (p *switchPolicy) IsFilterAllowed(n string) bool {
	return p.base.IsFilterAllowed(n) || (p.on && p.extra["fl:"+n])
}
func (p *switchPolicy) IsTagAllowed(string) bool { return true }

const (
	mechInPlace  = iota // the installed *twig.DefaultSecurityPolicy's maps are edited in place
	mechReplace         // EnableSandbox(another policy object)
	mechStateful        // a hand-written policy object that changes its answers
	nMechs
)

var mechLabel = [nMechs]string{"in-place edit of the installed DefaultSecurityPolicy maps", "EnableSandbox(another policy)", "stateful hand-written policy"}

// orders: the sequence of policy states of the successive sandboxed renders (A = the name is allowed, F = forbidden)
var orders = []string{"AFAF", "FAF"}

type hcas struct {
	pos     int
	fn      bool
	builtin int
	path    []int
	mech    int
	order   int
}

func (c hcas) key() string {
	f := "fl"
	if c.fn {
		f = "fn"
	}
	return fmt.Sprintf("hist/%s/%s%d/r%s/m%d/o%d", positions[c.pos].name, f, c.builtin, pathKey(c.path), c.mech, c.order)
}

func runHist(c hcas) *vlib.Outcome {
	pos := positions[c.pos]
	ffl, ffn := forbiddenFilters[c.builtin], forbiddenFunctions[c.builtin]
	name := ffl
	if c.fn {
		name = ffn
	}
	o := &vlib.Outcome{Counters: map[string]int64{}}
	o.Counters[fmt.Sprintf("cases_history_depth%d", len(c.path))]++
	routeNames := make([]string, len(c.path))
	live := pos.live
	for i, r := range c.path {
		routeNames[i] = routes[r].name
		if routes[r].open && live == "live" {
			live = "open"
		}
	}
	label := fmt.Sprintf("policy history %s by %s: position %s (%s form, name %s), route [%s]", orders[c.order], mechLabel[c.mech], pos.name, map[bool]string{false: "filter", true: "function"}[c.fn], name, strings.Join(routeNames, " > "))
	tmpls, want := buildProgram(pos, c.fn, 0, c.path, 0, ffl, ffn, name)
	fail := func(run string, format string, args ...interface{}) *vlib.Outcome {
		o.Violation = label + ", " + run + ": " + fmt.Sprintf(format, args...) + describe(tmpls)
		o.Detail = map[string]interface{}{"templates": tmpls, "run": run, "history": orders[c.order], "mechanism": mechLabel[c.mech]}
		return o
	}

	// the two policy states; `set` makes the engine's policy the one of the given state
	var u *engineUnderTest
	var set func(allow bool)
	var initial twig.SecurityPolicy
	defaultWith := func(allow bool) *twig.DefaultSecurityPolicy {
		p, _ := makePolicy(polDefault, ffl, ffn)
		dp := p.(*twig.DefaultSecurityPolicy)
		if allow {
			dp.AllowedFilters[ffl], dp.AllowedFunctions[ffn] = true, true
		}
		return dp
	}
	switch c.mech {
	case mechInPlace:
		dp := defaultWith(false)
		initial = dp
		set = func(allow bool) {
			if allow {
				dp.AllowedFilters[ffl], dp.AllowedFunctions[ffn] = true, true
			} else {
				delete(dp.AllowedFilters, ffl)
				delete(dp.AllowedFunctions, ffn)
			}
		}
	case mechReplace:
		initial = defaultWith(false)
		set = func(allow bool) { u.e.EnableSandbox(defaultWith(allow)) }
	case mechStateful:
		_, qp := makePolicy(polQuery, ffl, ffn)
		sp := &switchPolicy{base: qp, extra: map[string]bool{"fl:" + ffl: true, "fn:" + ffn: true}}
		initial = sp
		set = func(allow bool) { sp.on = allow }
	}
	u, err := newEngine(initial, nil, ffl, ffn, tmpls)
	if err != nil {
		return fail("setup", "%v", err)
	}

	results := ""
	for i, st := range orders[c.order] {
		allow := st == 'A'
		set(allow)
		run := fmt.Sprintf("sandboxed render %d of %s (the policy now %s %s)", i+1, orders[c.order], map[bool]string{true: "allows", false: "forbids"}[allow], name)
		o.Counters["renders"]++
		u.fl, u.fn = counters{}, counters{}
		out, err := u.e.Render("main", map[string]interface{}{"w": 0})
		inside := u.fl.inside + u.fn.inside
		if allow {
			// what the policy allows keeps working
			if err != nil || out != want {
				return fail(run, "got %q, %v; want %q", out, err, want)
			}
			if (live == "live" && inside == 0) || (live == "dead" && inside > 0) || u.fl.outside != 2 || u.fn.outside != 2 {
				return fail(run, "callback invocations: %d inside (position is %s), %d/%d outside, want 2/2", inside, live, u.fl.outside, u.fn.outside)
			}
			if inside > 0 {
				o.Nontrivial = true
			}
			results += "a"
			continue
		}
		if inside > 0 {
			return fail(run, "the forbidden %s ran inside the sandbox (%d filter / %d function invocations); render returned %q, %v", name, u.fl.inside, u.fn.inside, out, err)
		}
		var sv *twig.SecurityViolation
		switch {
		case err != nil && !errors.As(err, &sv):
			return fail(run, "the render failed with an error that is not a security violation: %v", err)
		case err == nil && live == "live":
			return fail(run, "the render succeeded (%q) although the forbidden %s stands in an evaluated position", out, name)
		case err == nil && out != want:
			return fail(run, "got %q, want %q", out, want)
		}
		wantOutside := 1
		if err == nil {
			wantOutside = 2
		}
		if u.fl.outside != wantOutside || u.fn.outside != wantOutside {
			return fail(run, "the including template's own calls: filter ran %d times, function %d times, want %d each (render returned %q, %v)", u.fl.outside, u.fn.outside, wantOutside, out, err)
		}
		if err == nil {
			results += "s"
		} else {
			results += "v"
		}
	}
	o.Class = fmt.Sprintf("history/%s/m%d/%s", live, c.mech, results)
	return o
}

// ---- panic-history family: earlier renders on the same engine (same process) panicked in host code

// A panic site is a program whose render reaches a host callback (filter boom / function boomf, registered
// by the harness) that panics, inside a nested template. @B is the panicking call; template names get the
// site's index and the callback's sort appended (@N), so that all of them live on one engine.
type panicSite struct {
	name  string
	tmpls map[string]string // xmain@N is rendered
}

var panicSites = []panicSite{
	{"an included partial", map[string]string{"xmain@N": "a{% include 'xp@N' %}b", "xp@N": "p@Bq"}},
	{"a partial included with only", map[string]string{"xmain@N": "a{% include 'xp@N' only %}b", "xp@N": "p@Bq"}},
	{"a partial included with sandboxed (the policy allows the panicking callback)", map[string]string{"xmain@N": "a{% include 'xp@N' sandboxed %}b", "xp@N": "p@Bq"}},
	{"a macro of an imported template", map[string]string{"xmain@N": "a{% import 'xl@N' as xl %}{{ xl.xm() }}b", "xl@N": "{% macro xm() %}p@Bq{% endmacro %}"}},
	{"a macro of the template itself", map[string]string{"xmain@N": "{% macro xm() %}p@Bq{% endmacro %}a{{ _self.xm() }}b"}},
	{"the body of an extended parent", map[string]string{"xmain@N": "{% extends 'xe@N' %}{% block xb %}c{% endblock %}", "xe@N": "a{% block xb %}{% endblock %}@Bb"}},
	{"a parent block reached by parent()", map[string]string{"xmain@N": "{% extends 'xe@N' %}{% block xb %}({{ parent() }}){% endblock %}", "xe@N": "a{% block xb %}p@Bq{% endblock %}b"}},
	{"a partial included with only by an included partial", map[string]string{"xmain@N": "a{% include 'xp@N' %}b", "xp@N": "p{% include 'xq@N' only %}q", "xq@N": "r@Bs"}},
	{"the rendered template itself (not nested)", map[string]string{"xmain@N": "a@Bb"}},
}

const panicRepeats = 3 // how often one history (k panicking renders, then sandboxed / plain / sandboxed) is repeated

// One case = one sandboxed program; its history on ONE engine runs through every panic site x sort of the
// panicking callback x k = 1, 2 panicking renders x panicRepeats rounds.
type pcas struct {
	pos     int
	fn      bool
	builtin int
	path    []int
}

func (c pcas) key() string {
	f := "fl"
	if c.fn {
		f = "fn"
	}
	return fmt.Sprintf("panic/%s/%s%d/r%s", positions[c.pos].name, f, c.builtin, pathKey(c.path))
}

// emptyPools: the engine recycles render contexts (and their maps) through process-wide sync.Pools, and what a
// panicking render leaves in them is what this family is about. Two collections empty a sync.Pool, so a case
// starts from empty pools and leaves empty pools to the next case (it is a function of its key, and whatever a
// broken tree leaves behind stays inside the case that caused it).
func emptyPools() {
	runtime.GC()
	runtime.GC()
}

func runPanicHist(t *vlib.T, c pcas) *vlib.Outcome {
	emptyPools()
	defer emptyPools()
	defer debug.SetGCPercent(debug.SetGCPercent(-1)) // no collection empties the pools half-way through the history
	// a render context that has become its own parent sends the engine into an endless recursion: let that end
	// (fatal error, reported by the framework as a dying worker) after 64 MB of stack instead of 1 GB
	defer debug.SetMaxStack(debug.SetMaxStack(64 << 20))

	pos := positions[c.pos]
	ffl, ffn := forbiddenFilters[c.builtin], forbiddenFunctions[c.builtin]
	name := ffl
	if c.fn {
		name = ffn
	}
	o := &vlib.Outcome{Counters: map[string]int64{}}
	o.Counters[fmt.Sprintf("cases_panic_history_depth%d", len(c.path))]++
	routeNames := make([]string, len(c.path))
	live := pos.live
	for i, r := range c.path {
		routeNames[i] = routes[r].name
		if routes[r].open && live == "live" {
			live = "open"
		}
	}
	label := fmt.Sprintf("history of panicking and sandboxed renders on one engine: position %s (%s form, name %s), route [%s]",
		pos.name, map[bool]string{false: "filter", true: "function"}[c.fn], name, strings.Join(routeNames, " > "))
	tmpls, want := buildProgram(pos, c.fn, 0, c.path, 0, ffl, ffn, name)
	for si, site := range panicSites {
		for _, b := range []struct{ sort, call string }{{"fl", "{{ 'x'|boom }}"}, {"fn", "{{ boomf('x') }}"}} {
			for n, src := range site.tmpls {
				sfx := fmt.Sprint(si, b.sort)
				tmpls[strings.ReplaceAll(n, "@N", sfx)] = strings.ReplaceAll(strings.ReplaceAll(src, "@N", sfx), "@B", b.call)
			}
		}
	}
	history := []string{}
	fail := func(run string, format string, args ...interface{}) *vlib.Outcome {
		o.Violation = label + ", " + run + ": " + fmt.Sprintf(format, args...) + "\n    renders on this engine so far: " + strings.Join(history, " ") + describe(tmpls)
		o.Detail = map[string]interface{}{"templates": tmpls, "run": run, "renders_so_far": history}
		return o
	}

	p, _ := makePolicy(polDefault, ffl, ffn)
	dp := p.(*twig.DefaultSecurityPolicy)
	dp.AllowedFilters["boom"], dp.AllowedFunctions["boomf"] = true, true
	u, err := newEngine(dp, nil, ffl, ffn, tmpls)
	if err != nil {
		return fail("setup", "%v", err)
	}
	booms := 0
	u.e.AddFilter("boom", func(v interface{}, a ...interface{}) (interface{}, error) {
		booms++
		panic("fault in the host's filter boom")
	})
	u.e.AddFunction("boomf", func(a ...interface{}) (interface{}, error) {
		booms++
		panic("fault in the host's function boomf")
	})

	// one sandboxed render: evaluated position => refused, callback never entered from inside
	results := ""
	sandboxed := func(run string) *vlib.Outcome {
		o.Counters["renders"]++
		history = append(history, "main")
		u.fl, u.fn = counters{}, counters{}
		out, err := u.e.Render("main", map[string]interface{}{"w": 0})
		if u.fl.inside+u.fn.inside > 0 {
			return fail(run, "the forbidden %s ran inside the sandbox (%d filter / %d function invocations); render returned %q, %v", name, u.fl.inside, u.fn.inside, out, err)
		}
		var sv *twig.SecurityViolation
		switch {
		case err != nil && !errors.As(err, &sv):
			return fail(run, "the render failed with an error that is not a security violation: %v", err)
		case err == nil && live == "live":
			return fail(run, "the render succeeded (%q) although the forbidden %s stands in an evaluated position", out, name)
		case err == nil && out != want:
			return fail(run, "got %q, want %q", out, want)
		}
		wantOutside := 1
		if err == nil {
			wantOutside = 2
		}
		if u.fl.outside != wantOutside || u.fn.outside != wantOutside {
			return fail(run, "the including template's own calls: filter ran %d times, function %d times, want %d each (render returned %q, %v)", u.fl.outside, u.fn.outside, wantOutside, out, err)
		}
		r := "v"
		if err == nil {
			r = "s"
		}
		if results != "" && results != r {
			return fail(run, "earlier sandboxed renders of this program ended with %s, this one with %s (v = security violation, s = success)", results, r)
		}
		results = r
		return nil
	}
	// the same program without the word sandboxed: full permissions
	plain := func(run string) *vlib.Outcome {
		o.Counters["renders"]++
		history = append(history, "plain")
		u.fl, u.fn = counters{}, counters{}
		out, err := u.e.Render("plain", map[string]interface{}{"w": 0})
		if err != nil || out != want {
			return fail(run, "got %q, %v; want %q", out, err, want)
		}
		inside := u.fl.inside + u.fn.inside
		if (live == "live" && inside == 0) || (live == "dead" && inside > 0) || u.fl.outside != 2 || u.fn.outside != 2 {
			return fail(run, "callback invocations: %d inside (position is %s), %d/%d outside, want 2/2", inside, live, u.fl.outside, u.fn.outside)
		}
		if inside > 0 {
			o.Nontrivial = true
		}
		return nil
	}
	// a render in which the host's callback panics; the harness recovers around the Render call. Whether the
	// library lets the panic through or turns it into an error is not this property's business.
	how := ""
	panicking := func(tmpl string) (h string) {
		o.Counters["renders"]++
		history = append(history, tmpl+"!")
		defer func() {
			if r := recover(); r != nil {
				h = "p"
			}
		}()
		if _, err := u.e.Render(tmpl, map[string]interface{}{"w": 0}); err != nil {
			return "e"
		}
		return "-"
	}

	if v := sandboxed("sandboxed render before any panic"); v != nil {
		return v
	}
	for si, site := range panicSites {
		for _, bsort := range []string{"fl", "fn"} {
			for k := 1; k <= 2; k++ {
				t.Progress()
				what := fmt.Sprintf("%d panicking render(s) (a host %s panics in %s)", k, map[string]string{"fl": "filter", "fn": "function"}[bsort], site.name)
				for rep := 1; rep <= panicRepeats; rep++ {
					for i := 1; i <= k; i++ {
						before := booms
						h := panicking(fmt.Sprint("xmain", si, bsort))
						run := fmt.Sprintf("%s, round %d, panicking render %d", what, rep, i)
						if booms != before+1 {
							return fail(run, "the panicking callback was entered %d times, want once (harness error; the render ended with %q)", booms-before, h)
						}
						if h == "-" {
							return fail(run, "the render succeeded although the host's callback panicked (harness error)")
						}
						if !strings.Contains(how, h) {
							how += h
						}
					}
					if v := sandboxed(fmt.Sprintf("round %d, first sandboxed render after %s", rep, what)); v != nil {
						return v
					}
					if v := plain(fmt.Sprintf("round %d, unsandboxed render of the same program after %s and a sandboxed render", rep, what)); v != nil {
						return v
					}
					if v := sandboxed(fmt.Sprintf("round %d, second sandboxed render after %s", rep, what)); v != nil {
						return v
					}
				}
			}
		}
	}
	o.Counters["panicking_renders"] += int64(booms)
	o.Class = fmt.Sprintf("panic-history/%s/%s/%s", live, how, results)
	return o
}

// ---- built-in family: the policy forbids one of the engine's own functions / filters

// A usage is one call of a built-in with literal arguments and a known, recognisable result.
type usage struct {
	id         string // key component
	name       string // the built-in the policy forbids
	fn         bool   // function (else filter)
	expr       string // function usages: the call
	base, call string // filter usages: the expression is base|call
	kind       byte   // 's' scalar (shown by {{ … }}), 'l' list (shown by looping over it), 'o' a time value (shown through |date('Y'))
	out        string // what showing the value renders
	falsy      bool   // the value is false in a condition
	applyText  string // filters without arguments that take text: {% apply name %}applyText{% endapply %} …
	applyOut   string // … renders this
	numeric    bool   // the value is a small non-negative integer (can stand as a bound of range(…))
	probed     bool   // found by probing a fresh engine (discoverFunctions); out / falsy are what the unsandboxed engine gives
	first      bool   // probed usages: the first fitting argument shape of its name (the only one kept at depth 3)
}

func (u usage) expression() string {
	if u.fn {
		return u.expr
	}
	return u.base + "|" + u.call
}

func (u usage) label() string {
	if u.probed {
		return "function " + u.name + " (not among the hand-written usages; found callable by probing a fresh engine) as " + u.expr
	}
	if u.fn {
		return "built-in function " + u.name + " as " + u.expr
	}
	return "built-in filter " + u.name + " as " + u.expression()
}

var usages = []usage{
	{id: "range2", name: "range", fn: true, expr: "range(7, 9)", kind: 'l', out: "789"},
	{id: "range3", name: "range", fn: true, expr: "range(3, 9, 3)", kind: 'l', out: "369"},
	{id: "cycle", name: "cycle", fn: true, expr: "cycle(['p', 'q'], 1)", kind: 's', out: "q"},
	{id: "date", name: "date", fn: true, expr: "date('2020-01-02')", kind: 'o', out: "2020"},
	{id: "min", name: "min", fn: true, expr: "min(55, 44)", kind: 's', out: "44", numeric: true},
	{id: "max", name: "max", fn: true, expr: "max(66, 77)", kind: 's', out: "77", numeric: true},
	{id: "length", name: "length", fn: true, expr: "length('abcde')", kind: 's', out: "5", numeric: true},
	{id: "merge", name: "merge", fn: true, expr: "merge(['p'], ['q'])", kind: 'l', out: "pq"},
	{id: "random", name: "random", fn: true, expr: "random(1)", kind: 's', out: "0", falsy: true, numeric: true}, // 0 ≤ random(1) < 1

	{id: "default", name: "default", base: "null", call: "default('dflt')", kind: 's', out: "dflt"},
	{id: "join", name: "join", base: "['p', 'q']", call: "join('-')", kind: 's', out: "p-q"},
	{id: "length", name: "length", base: "'abcde'", call: "length", kind: 's', out: "5", applyText: "abcde", applyOut: "5", numeric: true},
	{id: "slice-s", name: "slice", base: "'pqr'", call: "slice(0, 2)", kind: 's', out: "pq"},
	{id: "slice-l", name: "slice", base: "['p', 'q', 'r']", call: "slice(0, 2)", kind: 'l', out: "pq"},
	{id: "first", name: "first", base: "['p', 'q']", call: "first", kind: 's', out: "p", applyText: "pqr", applyOut: "p"},
	{id: "last", name: "last", base: "['p', 'q']", call: "last", kind: 's', out: "q", applyText: "pqr", applyOut: "r"},
	{id: "keys", name: "keys", base: "{'p': 1}", call: "keys", kind: 'l', out: "p"},
	{id: "merge", name: "merge", base: "['p']", call: "merge(['q'])", kind: 'l', out: "pq"},
	{id: "sort", name: "sort", base: "['q', 'p']", call: "sort", kind: 'l', out: "pq"},
	{id: "reverse", name: "reverse", base: "['p', 'q']", call: "reverse", kind: 'l', out: "qp", applyText: "pqr", applyOut: "rqp"},
	{id: "escape", name: "escape", base: "'<i>'", call: "escape", kind: 's', out: "&lt;i&gt;", applyText: "<i>", applyOut: "&lt;i&gt;"},
	{id: "raw", name: "raw", base: "'<i>'", call: "raw", kind: 's', out: "<i>", applyText: "<i>", applyOut: "<i>"},
	{id: "spaceless", name: "spaceless", base: "'<i> </i> <u></u>'", call: "spaceless", kind: 's', out: "<i></i><u></u>", applyText: "<i> </i> <u></u>", applyOut: "<i></i><u></u>"},
}

// show renders a value of the given kind: @S( … @) in the snippets below.
func show(kind byte, expr string) string {
	switch kind {
	case 'l':
		return "{% for bi in " + expr + " %}{{ bi }}{% endfor %}"
	case 'o':
		return "{{ (" + expr + ")|date('Y') }}"
	}
	return "{{ " + expr + " }}"
}

// A bposition is a snippet with the hole @X (the usage's expression; @B|@C = its base and filter call,
// @N its bare name, @A the text for apply). @S( e @) shows the value of e according to the usage's kind —
// for a list usage "print" therefore IS the usage standing directly as the sequence of a for loop,
// "paren" the same in parentheses, "func-arg" the loop over ok(range(7, 9)), and so on.
type bposition struct {
	name     string
	snippet  string
	out      string // @V = the shown value
	outF     string // conditions: what is rendered when the value is falsy
	cond     bool
	kinds    string // usage kinds that fit
	live     string
	needsTop bool
	chain    bool     // needs base and call: filter usages only
	apply    bool     // apply block: filters with applyText only
	helpers  []string // built-in filters the snippet itself uses (not generated when one of them is the forbidden name)
	spaced   bool     // the output passes through the spaceless tag
	numeric  bool     // only usages whose value is a small integer fit
	fnHelper string   // built-in function the snippet itself uses (not generated when it is the forbidden name)
}

var bpositions = []bposition{
	{name: "print", snippet: "@S(@X@)", out: "@V", kinds: "slo", live: "live"},
	{name: "paren", snippet: "@S((@X)@)", out: "@V", kinds: "slo", live: "live"},
	{name: "chain-first", snippet: "@S(@X|okf@)", out: "@V", kinds: "slo", live: "live"},
	{name: "chain-last", snippet: "@S(@B|okf|@C@)", out: "@V", kinds: "slo", live: "live", chain: true},
	{name: "chain-middle", snippet: "@S(@B|okf|@C|okf@)", out: "@V", kinds: "slo", live: "live", chain: true},
	{name: "chain-third", snippet: "@S(@B|okf|okf|@C@)", out: "@V", kinds: "slo", live: "live", chain: true},
	{name: "filter-arg", snippet: "@S(null|default(@X)@)", out: "@V", kinds: "slo", live: "live", helpers: []string{"default"}},
	{name: "func-arg", snippet: "@S(ok(@X)@)", out: "@V", kinds: "slo", live: "live"},
	{name: "nested-call", snippet: "@S(ok(ok(@X)|okf)@)", out: "@V", kinds: "slo", live: "live"},
	{name: "if-cond", snippet: "{% if @X %}y{% else %}n{% endif %}", out: "y", outF: "n", cond: true, kinds: "slo", live: "live"},
	{name: "if-not", snippet: "{% if not (@X) %}n{% else %}y{% endif %}", out: "y", outF: "n", cond: true, kinds: "slo", live: "live"},
	{name: "elseif-cond", snippet: "{% if false %}n{% elseif @X %}y{% endif %}", out: "y", outF: "", cond: true, kinds: "slo", live: "live"},
	{name: "ternary-cond", snippet: "{{ (@X) ? 'y' : 'n' }}", out: "y", outF: "n", cond: true, kinds: "slo", live: "live"},
	{name: "ternary-then", snippet: "@S(true ? (@X) : 'n'@)", out: "@V", kinds: "slo", live: "live"},
	{name: "ternary-else", snippet: "@S(false ? 'n' : (@X)@)", out: "@V", kinds: "slo", live: "live"},
	{name: "and-rhs", snippet: "{{ (true and (@X)) ? 'y' : 'n' }}", out: "y", outF: "n", cond: true, kinds: "slo", live: "live"},
	{name: "or-rhs", snippet: "{{ (false or (@X)) ? 'y' : 'n' }}", out: "y", outF: "n", cond: true, kinds: "slo", live: "live"},
	{name: "concat", snippet: "{{ (@X) ~ 'x' }}", out: "@Vx", kinds: "s", live: "live"},
	{name: "array-element", snippet: "{{ [@X, 'w']|join('') }}", out: "@Vw", kinds: "s", live: "live", helpers: []string{"join"}},
	{name: "hash-value", snippet: "@S({'k': @X}['k']@)", out: "@V", kinds: "slo", live: "live"},
	{name: "hash-key", snippet: "{{ {(@X): 'x'}|length }}", out: "1", kinds: "s", live: "live", helpers: []string{"length"}},
	{name: "index", snippet: "{{ {'k@V': 'iv'}['k' ~ (@X)] }}", out: "iv", kinds: "s", live: "live"},
	{name: "set-value", snippet: "{% set q = @X %}@S(q@)", out: "@V", kinds: "slo", live: "live"},
	{name: "do", snippet: "{% do @X %}", out: "", kinds: "slo", live: "live"},
	{name: "for-sequence-else", snippet: "{% for bi in @X %}{{ bi }}{% else %}e{% endfor %}", out: "@V", kinds: "l", live: "live"},
	{name: "for-sequence-kv", snippet: "{% for bk, bi in @X %}{{ bi }}{% endfor %}", out: "@V", kinds: "l", live: "live"},
	{name: "for-body", snippet: "{% for bz in ['a', 'b'] %}@S(@X@){% endfor %}", out: "@V@V", kinds: "slo", live: "live"},
	{name: "for-else", snippet: "{% for bz in [] %}n{% else %}@S(@X@){% endfor %}", out: "@V", kinds: "slo", live: "live"},
	// an integer-valued usage as the bounds of the allowed range(…) standing as the sequence of a for loop: range(n, n) is [n]
	{name: "for-bound", snippet: "{% for bi in range(@X, @X) %}{{ bi }}{% endfor %}", out: "@V", kinds: "s", live: "live", numeric: true, fnHelper: "range"},
	{name: "apply", snippet: "{% apply @N %}@A{% endapply %}", kinds: "slo", live: "live", apply: true},
	{name: "spaceless", snippet: "{% spaceless %}<a> @S(@X@) </a>  <b></b>{% endspaceless %}", out: "<a> @V </a>  <b></b>", kinds: "slo", live: "live", helpers: []string{"spaceless"}, spaced: true},
	{name: "include-with", snippet: "{% include 'bleaf' with {'x': @X} %}", out: "L@V", kinds: "slo", live: "live"},
	{name: "include-name", snippet: "{% include 'bleaf' ~ (@X) %}", out: "L", kinds: "s", live: "live"},
	{name: "macro-arg", snippet: "{% macro pm(p) %}<@S(p@)>{% endmacro %}{{ _self.pm(@X) }}", out: "<@V>", kinds: "slo", live: "live", needsTop: true},
	{name: "macro-default", snippet: "{% macro pd(p = @X) %}<@S(p@)>{% endmacro %}{{ _self.pd() }}", out: "<@V>", kinds: "slo", live: "open", needsTop: true},
	{name: "dead-if", snippet: "{% if false %}@S(@X@){% endif %}d", out: "d", kinds: "slo", live: "dead"},
	{name: "dead-ternary", snippet: "{{ false ? (@X) : 'd' }}", out: "d", kinds: "slo", live: "dead"},
	{name: "dead-and", snippet: "{{ (false and (@X)) ? 'y' : 'd' }}", out: "d", kinds: "slo", live: "dead"},
	{name: "dead-for", snippet: "{% for bz in [] %}@S(@X@){% endfor %}d", out: "d", kinds: "slo", live: "dead"},
}

var betweenTags = regexp.MustCompile(`>\s+<`)

// fits: the usage can stand in the position
func (p bposition) fits(u usage) bool {
	if !strings.ContainsRune(p.kinds, rune(u.kind)) {
		return false
	}
	if p.chain && u.fn {
		return false
	}
	if p.apply && (u.fn || u.applyText == "") {
		return false
	}
	if p.numeric && !u.numeric {
		return false
	}
	if u.fn && p.fnHelper == u.name {
		return false
	}
	if !u.fn {
		for _, h := range p.helpers {
			if h == u.name {
				return false
			}
		}
	}
	return true
}

// fillB returns the position's snippet with the usage in its hole, and what it renders.
func fillB(p bposition, u usage) (snippet, out string) {
	s := p.snippet
	// @S( e @): e never contains "@)"
	for {
		i := strings.Index(s, "@S(")
		if i < 0 {
			break
		}
		j := strings.Index(s[i:], "@)") + i
		s = s[:i] + show(u.kind, s[i+3:j]) + s[j+2:]
	}
	s = strings.ReplaceAll(s, "@X", u.expression())
	s = strings.ReplaceAll(s, "@B", u.base)
	s = strings.ReplaceAll(s, "@C", u.call)
	s = strings.ReplaceAll(s, "@N", u.name)
	s = strings.ReplaceAll(s, "@A", u.applyText)
	s = strings.ReplaceAll(s, "@V", u.out)
	switch {
	case p.apply:
		out = u.applyOut
	case p.cond && u.falsy:
		out = p.outF
	default:
		out = strings.ReplaceAll(p.out, "@V", u.out)
	}
	if p.spaced {
		out = betweenTags.ReplaceAllString(out, "><")
	}
	return s, out
}

// builtinPolicy is the default policy plus what the programs need, with the usage's name allowed or not
// (only in the list of its own sort: forbidding the function length leaves the filter length allowed).
func builtinPolicy(u usage, allow bool) *twig.DefaultSecurityPolicy {
	p, _ := makePolicy(polDefault, "", "")
	dp := p.(*twig.DefaultSecurityPolicy)
	m := dp.AllowedFilters
	if u.fn {
		m = dp.AllowedFunctions
	}
	if allow {
		m[u.name] = true
	} else {
		delete(m, u.name)
	}
	return dp
}

type bcas struct {
	usage    int
	pos      int
	path     []int
	boundary int
}

func (c bcas) key() string {
	u := usages[c.usage]
	f := "fl"
	if u.fn {
		f = "fn"
	}
	return fmt.Sprintf("bi/%s.%s/%s/r%s/b%d", f, u.id, bpositions[c.pos].name, pathKey(c.path), c.boundary)
}

func runBuiltin(c bcas) *vlib.Outcome {
	u, pos := usages[c.usage], bpositions[c.pos]
	o := &vlib.Outcome{Counters: map[string]int64{}}
	o.Counters[fmt.Sprintf("cases_builtin_depth%d", len(c.path))]++
	if u.probed {
		o.Counters[fmt.Sprintf("cases_builtin_probed_functions_depth%d", len(c.path))]++
	}
	routeNames := make([]string, len(c.path))
	live := pos.live
	for i, r := range c.path {
		routeNames[i] = routes[r].name
		if routes[r].open && live == "live" {
			live = "open"
		}
	}
	label := fmt.Sprintf("forbidden %s, position %s, route [%s], policy default minus %s", u.label(), pos.name, strings.Join(routeNames, " > "), u.name)

	snippet, posOut := fillB(pos, u)
	sb, tmpls, inner, ok := compose(c.path, position{needsTop: pos.needsTop, out: posOut}, snippet)
	if !ok {
		panic("compose: invalid path reached runBuiltin")
	}
	own := show(u.kind, u.expression()) // the includer uses the same built-in before and after the boundary
	tmpls["sb"] = sb
	tmpls["bleaf"] = "L" + show(u.kind, "x")
	tmpls["bleaf"+u.out] = "L"
	tmpls["main"] = own + "[" + boundaries[c.boundary] + "]" + own
	tmpls["plain"] = strings.Replace(tmpls["main"], " sandboxed", "", 1)
	want := u.out + "[" + inner + "]" + u.out

	fail := func(run string, format string, args ...interface{}) *vlib.Outcome {
		o.Violation = label + ", " + run + ": " + fmt.Sprintf(format, args...) + describe(tmpls)
		o.Detail = map[string]interface{}{"templates": tmpls, "run": run}
		return o
	}
	engine := func(pol twig.SecurityPolicy) (*twig.Engine, error) {
		x, err := newEngine(pol, nil, "F", "G", tmpls)
		if err != nil {
			return nil, err
		}
		return x.e, nil
	}
	render := func(e *twig.Engine, name string) (string, error) {
		o.Counters["renders"]++
		var b bytes.Buffer
		err := e.RenderTo(&b, name, map[string]interface{}{"w": 0})
		return b.String(), err
	}

	// B. the twin: the same program under the same policy plus the name — what the policy allows keeps
	// working inside the sandbox, and the program means what I think it means (the result is rendered)
	e, err := engine(builtinPolicy(u, true))
	if err != nil {
		return fail("twin run (the policy allows "+u.name+")", "%v", err)
	}
	for pass := 1; pass <= 2; pass++ {
		out, err := render(e, "main")
		if err != nil || out != want {
			return fail(fmt.Sprintf("twin run (the policy allows %s), render %d", u.name, pass), "got %q, %v; want %q", out, err, want)
		}
	}

	// A. the policy forbids the name: plain, sandboxed, plain, sandboxed on one engine
	e, err = engine(builtinPolicy(u, false))
	if err != nil {
		return fail("sandboxed run", "%v", err)
	}
	class := ""
	for pass := 1; pass <= 2; pass++ {
		run := fmt.Sprintf("unsandboxed render %d of the same program on the same engine", pass)
		out, err := render(e, "plain")
		if err != nil || out != want {
			return fail(run, "got %q, %v; want %q", out, err, want)
		}
		run = fmt.Sprintf("sandboxed run, render %d", pass)
		out, err = render(e, "main")
		var sv *twig.SecurityViolation
		switch {
		case err != nil && !errors.As(err, &sv):
			return fail(run, "the render failed with an error that is not a security violation: %v (written so far: %q)", err, out)
		case err == nil && live == "live":
			return fail(run, "the render succeeded (%q) although the forbidden built-in %s stands in an evaluated position", out, u.name)
		case err == nil && out != want:
			return fail(run, "got %q, want %q", out, want)
		}
		pc := "ok"
		if err != nil {
			pc = "violation"
			// what was written before the failure: behind the boundary nothing of the built-in's result
			if i := strings.Index(out, "["); i >= 0 && u.out != "" && strings.Contains(out[i+1:], u.out) {
				return fail(run, "the render failed with %v, but the result %q of the forbidden built-in %s had already been written inside the sandbox (output so far %q)", err, u.out, u.name, out)
			}
		}
		if pass == 2 && pc != class {
			return fail(run, "first render: %s, second render: %s", class, pc)
		}
		class = pc
	}
	o.Nontrivial = live == "live" || class == "violation"
	o.Class = fmt.Sprintf("builtin/%c/%s/%s", u.kind, live, class)
	return o
}

// ---- functions found by probing: names the engine can call without a usage written for them above

// The hand-written function usages name functions the engine registers in its function table. The
// engine can dispatch more names than that (a fallback inside the evaluator serves some names itself:
// count is one on the current tree), and which ones is a matter of the tree under test. So the names
// are FOUND: every candidate name x argument shape is evaluated on a fresh engine without a sandbox;
// a call that parses, renders without error, twice the same on two fresh engines, and gives a plain
// scalar (alphanumeric text t, `(call) ~ 'x'` gives t + "x") is a function the engine can invoke, and a
// policy that does not list the name forbids it like any other. Names that already have a hand-written
// function usage are skipped. The expected value of such a usage is what the unsandboxed engine printed
// (a metamorphic twin, confirmed again by the twin run and the unsandboxed renders of every case).
var probeCandidates = []string{ // Twig's function names, the engine's filter names (count is both), common synonyms
	"abs", "attribute", "batch", "capitalize", "column", "constant", "count", "cycle", "date", "default", "dump",
	"e", "escape", "filter", "first", "format", "include", "join", "json_encode", "keys", "last", "len", "length",
	"lower", "map", "max", "merge", "min", "nl2br", "number_format", "random", "range", "raw", "reduce", "replace",
	"reverse", "round", "size", "sizeof", "slice", "sort", "source", "spaceless", "split", "striptags", "sum",
	"template_from_string", "title", "trim", "upper", "url_encode",
}

var probeShapes = []struct{ id, args string }{
	{"str", "('abcde')"}, {"list", "(['p', 'q', 'r'])"}, {"hash", "({'p': 1})"}, {"two", "(7, 9)"}, {"desc", "(55, 44)"}, {"none", "()"},
}

var plainScalar = regexp.MustCompile(`^[A-Za-z0-9]+$`)
var smallInteger = regexp.MustCompile(`^(0|[1-9][0-9]?)$`)

// probeCall evaluates the call on a fresh engine: the printed value, the value concatenated with 'x', its truth.
func probeCall(expr string) (printed, concat, truth string, ok bool) {
	defer func() {
		if recover() != nil {
			ok = false
		}
	}()
	e := twig.New()
	srcs := []string{"{{ " + expr + " }}", "{{ (" + expr + ") ~ 'x' }}", "{% if " + expr + " %}y{% else %}n{% endif %}"}
	outs := make([]string, len(srcs))
	for i, src := range srcs {
		name := fmt.Sprint("probe", i)
		if err := e.RegisterString(name, src); err != nil {
			return "", "", "", false
		}
		out, err := e.Render(name, map[string]interface{}{})
		if err != nil {
			return "", "", "", false
		}
		outs[i] = out
	}
	return outs[0], outs[1], outs[2], true
}

var discoverOnce sync.Once
var probedCallable []string // every candidate call that evaluates without error on a fresh engine (reported in the coverage)

// discoverFunctions appends the probed usages to `usages` (once; the same in every worker: it depends on
// the tree under test only).
func discoverFunctions() {
	discoverOnce.Do(func() {
		written := map[string]bool{}
		for _, u := range usages {
			if u.fn {
				written[u.name] = true
			}
		}
		for _, name := range probeCandidates {
			first := true
			for _, sh := range probeShapes {
				expr := name + sh.args
				v, cat, truth, ok := probeCall(expr)
				if !ok {
					continue
				}
				probedCallable = append(probedCallable, expr)
				if written[name] {
					continue
				}
				v2, cat2, truth2, ok2 := probeCall(expr)
				if !ok2 || v2 != v || cat2 != cat || truth2 != truth {
					continue // not a function of its arguments alone
				}
				if !plainScalar.MatchString(v) || cat != v+"x" || (truth != "y" && truth != "n") {
					continue // not a plain scalar: the positions could not show it
				}
				if len(v) < 3 && !strings.ContainsAny(v, "0123456789") {
					continue // could be mistaken for a piece of the wrapper texts (x, L, y, n, d, iv)
				}
				usages = append(usages, usage{id: name + "." + sh.id, name: name, fn: true, expr: expr, kind: 's', out: v,
					falsy: truth == "n", numeric: smallInteger.MatchString(v), probed: true, first: first})
				first = false
			}
		}
	})
}

// ---- enumeration

func paths(depth int) [][]int {
	var all [][]int
	var rec func(prefix []int)
	rec = func(prefix []int) {
		if len(prefix) == depth {
			all = append(all, append([]int(nil), prefix...))
			return
		}
		for r := range routes {
			rec(append(prefix, r))
		}
	}
	rec(nil)
	return all
}

func enumerate(t *vlib.T) {
	discoverFunctions()
	maxDepth, histDepth, biDepth, panicDepth := 2, 1, 2, 1
	if t.Thorough() {
		maxDepth, histDepth, biDepth, panicDepth = 3, 2, 3, 2
	}
	for depth := 0; depth <= maxDepth; depth++ {
		ps := paths(depth)
		for _, path := range ps {
			for pi, pos := range positions {
				if _, _, _, ok := compose(path, pos, ""); !ok {
					continue
				}
				for form := -1; form < len(receivers); form++ { // -1 filter form, 0 plain call, 1… receiver-style calls
					fn, recv := form >= 0, 0
					if fn {
						recv = form
					}
					if fn && pos.form == "filter" {
						continue
					}
					for builtin := range forbiddenFilters {
						if depth == 3 && (builtin == 1 || recv > 1) {
							continue
						}
						if depth == 2 && !t.Thorough() && recv > 0 && (builtin == 1 || (recv != 1 && recv != 4)) {
							// quick tier, depth 2: of the receiver forms only _self and the hash variable (the two
							// distinct evaluator branches) with the custom name; the rest runs in the thorough tier
							continue
						}
						for policy := 0; policy < nPolicies; policy++ {
							for b := range boundaries {
								if depth >= 2 && b != 0 && !(t.Thorough() && depth == 2) {
									continue
								}
								if t.Stopped() {
									return
								}
								c := cas{pos: pi, fn: fn, recv: recv, builtin: builtin, path: path, policy: policy, boundary: b}
								t.Case(c.key(), func() *vlib.Outcome { return runCase(c) })
							}
						}
					}
				}
			}
		}
		// the built-in family at the same depth: the policy forbids one of the engine's own functions / filters
		if depth <= biDepth {
			for _, path := range ps {
				for pi, pos := range bpositions {
					if _, _, _, ok := compose(path, position{needsTop: pos.needsTop}, ""); !ok {
						continue
					}
					for ui, u := range usages {
						if !pos.fits(u) {
							continue
						}
						if depth == 3 && !u.fn && u.kind != 'l' {
							continue // depth 3: functions and list-valued filter usages (what can stand directly as a for sequence)
						}
						if depth == 3 && u.probed && !u.first {
							continue // depth 3: one argument shape per probed name
						}
						for b := range boundaries {
							if b != 0 && (depth == 3 || (depth == 2 && !t.Thorough())) {
								continue
							}
							if t.Stopped() {
								return
							}
							c := bcas{usage: ui, pos: pi, path: path, boundary: b}
							t.Case(c.key(), func() *vlib.Outcome { return runBuiltin(c) })
						}
					}
				}
			}
		}
		// the panic-history family at the same depth: earlier renders on the engine panicked in host code
		if depth <= panicDepth {
			for _, path := range ps {
				for pi, pos := range positions {
					if _, _, _, ok := compose(path, pos, ""); !ok {
						continue
					}
					for _, fn := range []bool{false, true} {
						if fn && pos.form == "filter" {
							continue
						}
						for builtin := range forbiddenFilters {
							if builtin == 1 && (!t.Thorough() || depth == 2) {
								continue // the re-registered built-in names: thorough tier, depth <= 1
							}
							if t.Stopped() {
								return
							}
							c := pcas{pos: pi, fn: fn, builtin: builtin, path: path}
							t.Case(c.key(), func() *vlib.Outcome { return runPanicHist(t, c) })
						}
					}
				}
			}
		}
		if depth > histDepth {
			continue
		}
		// the history family at the same depth: the policy changes between renders on one engine
		for _, path := range ps {
			for pi, pos := range positions {
				if _, _, _, ok := compose(path, pos, ""); !ok {
					continue
				}
				for _, fn := range []bool{false, true} {
					if fn && pos.form == "filter" {
						continue
					}
					for builtin := range forbiddenFilters {
						for mech := 0; mech < nMechs; mech++ {
							for order := range orders {
								if t.Stopped() {
									return
								}
								c := hcas{pos: pi, fn: fn, builtin: builtin, path: path, mech: mech, order: order}
								t.Case(c.key(), func() *vlib.Outcome { return runHist(c) })
							}
						}
					}
				}
			}
		}
	}
}

func main() {
	vlib.Main(vlib.Spec{
		ID:    "C06",
		Level: "exploration",
		Rule: "every program of the grid position-of-the-forbidden-name (39, filter and function form, the function form also written behind 5 receivers: _self, an undefined variable, a string variable, a hash variable, an imported module without that macro) x route below the sandbox boundary (all expressible compositions of 16 routes up to depth 2 quick / 3 thorough) " +
			"x policy (default+needed, hand-written counting allow-list, deny-all) x boundary tag form x forbidden name (custom, built-in) is rendered with instrumented callbacks; " +
			"a case is non-trivial when the control run (same program, everything allowed) invokes the forbidden callback from inside the sandboxed include, i.e. the position is really reached. " +
			"History family (keys hist/…): on ONE engine the policy alternates between allowing and forbidding the name (orders AFAF and FAF) by in-place edit of the installed DefaultSecurityPolicy maps, by EnableSandbox(another policy) and by a stateful hand-written policy, " +
			"over every position x form x route composition up to depth 1 quick / 2 thorough; non-trivial when a render in the allowing state invokes the callback from inside. " +
			"Built-in family (keys bi/…): the policy is the default policy minus ONE of the engine's own built-ins (functions range, cycle, date, min, max, length, merge, random; filters default, join, length, slice, first, last, keys, merge, sort, reverse, escape, raw, spaceless — 23 usages with literal arguments and recognisable results, nothing re-registered) " +
			"and that built-in stands in every one of 39 positions where its value fits (954 usage x position pairs with the probed usages below) (list-valued usages directly as the sequence of a for loop, also parenthesised, with else, with key and value, nested, behind ok(…), default(…), a ternary, a hash; every usage as condition, set value, argument, chain link, apply) x every route composition up to depth 2 quick / 3 thorough; " +
			"observed through the output of RenderTo: the render must fail with a security violation and nothing of the built-in's result may have been written behind the boundary; non-trivial when the position is evaluated (live position, or the run was refused). " +
			"The function usages of that family are extended by PROBING the tree under test: every candidate name (Twig's function names, the engine's filter names, common synonyms: 52 names) x argument shape (a string, a list, a hash, two ascending numbers, two descending numbers, none) is evaluated on a fresh engine without a sandbox; every call that evaluates without error, deterministically, to a plain scalar and whose name has no hand-written usage becomes a usage of its own (on the current tree: count, which the evaluator serves itself without a registered function, with a string, a list and a hash; json_encode with two numbers) " +
			"and stands in every fitting position x route composition like the others (depth 3: the first argument shape of each name); its expected value is what the unsandboxed engine printed. Position for-bound: every integer-valued usage as both bounds of an allowed range(…) standing as the sequence of a for loop. " +
			"Panic-history family (keys panic/…): one case per position x form x route composition up to depth 1 quick (custom names) / 2 thorough (re-registered built-in names at depth <= 1); on ONE engine, starting from empty context pools, for each of 9 panic sites (a host callback registered by the harness panics in an included partial, a partial included with only, a partial included with sandboxed, a macro of an imported template, a _self macro, the body of an extended parent, a parent block reached by parent(), a partial included with only two includes down, the rendered template itself) x 2 sorts of callback (filter, function) x k = 1, 2 panicking renders (the harness recovers the panic around Render, or takes the error), " +
			"3 rounds of [k panicking renders, sandboxed render, the same program without `sandboxed`, sandboxed render], after one sandboxed render before any panic: 487 renders per case, every sandboxed one under the oracle of run A, every unsandboxed one with full permissions; non-trivial when an unsandboxed render enters the callback from inside",
		Assumptions: []string{
			"whether calling a macro or parent() is a function call in the sense of the policy is not fixed by the statement: those names are always on the allow-lists (except under deny-all, where only 'never invoked' and 'errors are security violations' are demanded)",
			"macro default expressions: whether they are evaluated is not fixed; only 'never invoked' and 'errors are security violations' are demanded there",
			"unevaluated positions (dead branches): static rejection and silent success are both accepted; the callback must not run and a successful render must equal the expected text",
			"tags are not part of this property (IsTagAllowed always answers true in the hand-written policies)",
			"receiver-style calls recv.name(…): the statement does not say they are calls of the function `name`; the control run decides per case (where it does not invoke the callback the case is recorded as trivial and nothing is demanded)",
			"'the engine's security policy' is read as the policy in force when the render happens: the object last passed to EnableSandbox with the answers it gives during that render",
			"probed function usages: only calls that evaluate to a plain alphanumeric scalar, the same on two fresh engines, are generated (dump(…) prints Go syntax, date() and random() depend on the moment: not generated beyond their hand-written usages); the expected value is the one the unsandboxed engine gives, not a model of the function",
			"panic-history family: nothing is demanded of a render in which the host's callback panics (whether the panic propagates or becomes an error is not this property's business), only of the renders after it; every case starts from empty process-wide pools (two forced collections) and the collector is off during a case, so that a case is a function of its key; renders never overlap in time (what concurrent renders do to each other is property C02's business, not this statement's)",
			"built-in family: the spaceless TAG is not taken for an application of the spaceless filter (not generated as a position of the forbidden filter spaceless); positions whose own helper filter (default, join, length) is the forbidden name are not generated; what RenderTo has written before a refused render is only inspected, never demanded",
		},
		QuickDeadline: 120, ThoroughDeadline: 840,
		Run: enumerate,
		Extra: func(tier string, cov map[string]interface{}) {
			discoverFunctions()
			var ids []string
			for _, u := range usages {
				if u.probed {
					ids = append(ids, u.expr+" = "+u.out)
				}
			}
			cov["function_calls_evaluating_on_a_fresh_engine"] = probedCallable
			cov["probed_function_usages_added_to_the_builtin_family"] = ids
		},
	})
}
