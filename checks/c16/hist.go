package main

// Serialisation histories: every sequence of <= 4 (thorough 5) serialisations over a size alphabet
// around the buffer-pool thresholds, ALL results held until the end and only then deserialised and
// compared — a result must not be disturbed by later serialisations (e.g. through a recycled
// buffer handed out without a copy). Added after the independent seeded change C16-A was missed:
// the round-trip grid only ever held one earlier result across one later call.

import (
	"bytes"
	"fmt"
	"strings"

	"github.com/semihalev/twig"

	"verif/lib/vlib"
)

var histSizes = []int{10, 3000, 40 << 10, 50 << 10, 60 << 10, 65530, 70 << 10, 130 << 10}

func histSource(i, n int) string {
	// distinct content per position so that a swapped or overwritten result cannot look right
	head := fmt.Sprintf("{{ v%d }}", i)
	if n < len(head) {
		return head[:n]
	}
	return head + strings.Repeat(string(rune('a'+i)), n-len(head))
}

func runHist(t *vlib.T) {
	maxLen := 4
	if t.Thorough() {
		maxLen = 5
	}
	var rec func(seq []int)
	rec = func(seq []int) {
		if t.Stopped() {
			return
		}
		if len(seq) >= 2 {
			s := append([]int{}, seq...)
			t.Case(fmt.Sprintf("hist/%v", s), func() *vlib.Outcome { return histCase(s) })
		}
		if len(seq) == maxLen {
			return
		}
		for i := range histSizes {
			rec(append(seq, i))
		}
	}
	rec(nil)
}

func histCase(seq []int) *vlib.Outcome {
	o := &vlib.Outcome{Nontrivial: true, Class: fmt.Sprintf("hist-len%d", len(seq))}
	type held struct {
		ct   *twig.CompiledTemplate
		data []byte
		snap []byte
	}
	var hs []held
	for i, si := range seq {
		ct := &twig.CompiledTemplate{Name: fmt.Sprintf("n%d", i), Source: histSource(i, histSizes[si]), LastModified: int64(1000 + i), CompileTime: int64(2000 + i)}
		data, err := twig.SerializeCompiledTemplate(ct)
		if err != nil {
			o.Violation = fmt.Sprintf("sizes %v: serialising #%d failed: %v", sizesOf(seq), i, err)
			return o
		}
		hs = append(hs, held{ct, data, bytes.Clone(data)})
	}
	for i, h := range hs {
		if !bytes.Equal(h.data, h.snap) {
			o.Violation = fmt.Sprintf("sizes %v: the bytes returned by serialisation #%d were modified by a later serialisation", sizesOf(seq), i)
			return o
		}
		back, err := twig.DeserializeCompiledTemplate(h.data)
		if err != nil {
			o.Violation = fmt.Sprintf("sizes %v: result #%d no longer deserialises: %v", sizesOf(seq), i, err)
			return o
		}
		if back.Name != h.ct.Name || back.Source != h.ct.Source || back.LastModified != h.ct.LastModified || back.CompileTime != h.ct.CompileTime {
			o.Violation = fmt.Sprintf("sizes %v: result #%d deserialises to another template (name %q, %d source bytes)", sizesOf(seq), i, back.Name, len(back.Source))
			return o
		}
	}
	return o
}

func sizesOf(seq []int) []int {
	out := make([]int, len(seq))
	for i, s := range seq {
		out[i] = histSizes[s]
	}
	return out
}
